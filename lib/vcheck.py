#!/usr/bin/env python3
"""Driver for the goProbe Coq verification checks (see DESIGN.md section 2).

check <ID> [--tier quick|thorough] [--replay FILE] [--seed N] [--keep]

Pipeline per property:
  1. build the Coq closure of the property (deps first), full .vo build, flock'd
  2. audit: forbidden vernacular grep + Print Assumptions for every property theorem
  3. build the Go harness from /repo's *current working tree* (-tags verif) and let it
     run the implementation on generated inputs -> cases.jsonl (input, observed, coq term)
  4. evaluate every case inside Coq with vm_compute:  corr (model = observed)
                                                    holds (observed satisfies the spec)
  5. verdict, evidence, replay
Exit codes: 0 property held on everything explored; 1 VIOLATION; 2 infrastructure error.
"""
import sys, os, json, subprocess, time, re, shutil, hashlib, fcntl, argparse, glob, signal

VERIF = os.path.dirname(os.path.dirname(os.path.abspath(__file__)))
REPO = os.environ.get("VERIF_REPO", "/repo")
COQ = os.path.join(VERIF, "coq")
HARNESS = os.path.join(VERIF, "harness")
WORK = os.path.join(VERIF, "work")
EVID = os.path.join(VERIF, "evidence")
REPLAYS = os.path.join(VERIF, "replays")
KNOWN = os.path.join(VERIF, "known_findings.json")

STD_AXIOMS = {
    # axioms declared by the Coq standard library itself (allowed, but always reported)
    "Coq.Logic.FunctionalExtensionality.functional_extensionality_dep",
    "functional_extensionality_dep",
    "Coq.Logic.Classical_Prop.classic", "classic",
    "Coq.Logic.ProofIrrelevance.proof_irrelevance", "proof_irrelevance",
    "Coq.Logic.JMeq.JMeq_eq", "JMeq_eq",
    "Coq.Logic.Eqdep.Eq_rect_eq.eq_rect_eq", "Eqdep.Eq_rect_eq.eq_rect_eq", "eq_rect_eq",
    "Coq.Logic.PropExtensionality.propositional_extensionality", "propositional_extensionality",
}

FORBIDDEN = re.compile(
    r"\b(Admitted|admit|Axiom|Axioms|Parameter|Parameters|Conjecture|Conjectures|Admit\s+Obligations"
    r"|bypass_check|Unset\s+Guard\s+Checking|Unset\s+Positivity\s+Checking|Unset\s+Universe\s+Checking"
    r"|type-in-type|impredicative-set|native_compute)\b")


class Infra(Exception):
    pass


def log(*a):
    print("[check]", *a, file=sys.stderr, flush=True)


def goenv():
    e = dict(os.environ)
    e["GOFLAGS"] = "-mod=mod"
    e["GOPROXY"] = "off"
    e.pop("GOSUMDB", None) if e.get("GOSUMDB") == "off" else None
    # the repo needs go >= 1.25 : leave GOTOOLCHAIN at auto unless the local go is new enough
    if e.get("GOTOOLCHAIN") == "local":
        e.pop("GOTOOLCHAIN")
    e.setdefault("TZ", "UTC")
    return e


def run(cmd, cwd=None, timeout=None, env=None, inp=None):
    p = subprocess.run(cmd, cwd=cwd, timeout=timeout, env=env, input=inp,
                       stdout=subprocess.PIPE, stderr=subprocess.STDOUT, text=True, errors="replace")
    return p.returncode, p.stdout


# ---------------------------------------------------------------- Coq build

def prop_meta(pid):
    f = os.path.join(COQ, pid, "prop.json")
    if not os.path.exists(f):
        raise Infra("no such property directory: " + f)
    m = json.load(open(f))
    m.setdefault("deps", ["Base"])
    m.setdefault("theorems", [])
    return m


def closure(name, seen=None):
    """dependency-ordered list of coq dirs needed for `name`"""
    seen = [] if seen is None else seen
    f = os.path.join(COQ, name, "prop.json")
    deps = json.load(open(f)).get("deps", ["Base"]) if os.path.exists(f) and name != "Base" else []
    if name != "Base" and "Base" not in deps:
        deps = ["Base"] + deps
    for d in deps:
        closure(d, seen)
    if name not in seen:
        seen.append(name)
    return seen


def qflags(name):
    """-Q flags for dir `name` : itself and its closure"""
    fl = []
    for d in closure(name):
        fl += ["-Q", os.path.join(COQ, d), "GoProbe." + d]
    return fl


def vfiles(name):
    d = os.path.join(COQ, name)
    order = os.path.join(d, "FILES")
    if os.path.exists(order):
        return [l.strip() for l in open(order) if l.strip() and not l.startswith("#")]
    return sorted(os.path.basename(f) for f in glob.glob(os.path.join(d, "*.v"))
                  if not os.path.basename(f).startswith(("cases_", "Audit_", "tmp_")))


def coq_build_dir(name, clean=False, timeout=3000):
    """full .vo build of one directory (its deps must be built already). returns (ok, log)"""
    d = os.path.join(COQ, name)
    lock = open(os.path.join(d, ".lock"), "w")
    fcntl.flock(lock, fcntl.LOCK_EX)
    try:
        cp = os.path.join(d, "_CoqProject")
        lines = []
        for dep in closure(name):
            lines.append("-Q %s GoProbe.%s" % (os.path.join(COQ, dep) if dep != name else ".", dep))
        lines.append("-arg -w -arg -notation-overridden,-deprecated-hint-without-locality,-deprecated-instance-without-locality,-ambiguous-paths,-redundant-canonical-projection")
        lines += vfiles(name)
        txt = "\n".join(lines) + "\n"
        if not os.path.exists(cp) or open(cp).read() != txt:
            open(cp, "w").write(txt)
            rc, out = run(["coq_makefile", "-f", "_CoqProject", "-o", "Makefile.coq"], cwd=d)
            if rc != 0:
                raise Infra("coq_makefile failed in %s: %s" % (d, out))
        if not os.path.exists(os.path.join(d, "Makefile.coq")):
            rc, out = run(["coq_makefile", "-f", "_CoqProject", "-o", "Makefile.coq"], cwd=d)
        if clean:
            run(["make", "-f", "Makefile.coq", "clean"], cwd=d)
        try:
            rc, out = run(["make", "-f", "Makefile.coq", "-k", "-j16"], cwd=d, timeout=timeout)
        except subprocess.TimeoutExpired:
            return False, "make timed out in " + d
        return rc == 0, out
    finally:
        fcntl.flock(lock, fcntl.LOCK_UN)
        lock.close()


def coq_build(pid, clean=False):
    """build deps then the property dir. returns (ok, failing_files, log)"""
    logs = []
    ok_all = True
    failing = []
    for d in closure(pid):
        ok, out = coq_build_dir(d, clean=clean and d == pid)
        logs.append(out)
        if not ok:
            ok_all = False
            for m in re.finditer(r'File "([^"]+)", line (\d+)', out):
                failing.append("%s:%s" % (os.path.relpath(m.group(1), COQ) if m.group(1).startswith("/") else d + "/" + m.group(1), m.group(2)))
            if not failing:
                failing.append(d)
    return ok_all, sorted(set(failing)), "\n".join(logs)


def audit_sources(pid):
    bad = []
    for d in closure(pid):
        for f in vfiles(d):
            p = os.path.join(COQ, d, f)
            if not os.path.exists(p):
                continue
            src = open(p, errors="replace").read()
            # strip comments (nested) before scanning
            src_nc = strip_comments(src)
            for m in FORBIDDEN.finditer(src_nc):
                bad.append("%s/%s: forbidden vernacular `%s`" % (d, f, m.group(0)))
            # Variable / Hypothesis / Context outside a Section
            depth = 0
            for ln in src_nc.splitlines():
                s = ln.strip()
                if re.match(r"(Section|Module\s+Type)\b", s):
                    depth += 1 if s.startswith("Section") else 0
                elif re.match(r"End\b", s) and depth > 0:
                    depth -= 1
                elif depth == 0 and re.match(r"(Variable|Variables|Hypothesis|Hypotheses|Context)\b", s):
                    bad.append("%s/%s: `%s` outside a Section" % (d, f, s.split()[0]))
    return bad


def strip_comments(s):
    out = []
    i, depth, n = 0, 0, len(s)
    instr = False
    while i < n:
        c = s[i]
        if depth == 0 and c == '"':
            instr = not instr
            out.append(c); i += 1; continue
        if not instr and s.startswith("(*", i):
            depth += 1; i += 2; continue
        if not instr and depth > 0 and s.startswith("*)", i):
            depth -= 1; i += 2; continue
        if depth == 0:
            out.append(c)
        elif c == "\n":
            out.append(c)
        i += 1
    return "".join(out)


def audit_theorems(pid, meta, wd):
    """Print Assumptions for each theorem; returns dict thm -> ('closed'|'axioms'|'missing', [axioms])"""
    res = {}
    thms = meta["theorems"]
    if not thms:
        return res
    mod = meta.get("properties_module", "GoProbe.%s.Properties" % pid)
    f = os.path.join(wd, "Audit_%s.v" % pid)
    with open(f, "w") as fh:
        fh.write("Require Import %s.\n" % mod)
        for t in thms:
            fh.write('Goal True. idtac "@@BEGIN %s". exact I. Qed.\n' % t)
            fh.write("Print Assumptions %s.\n" % t)
            fh.write('Goal True. idtac "@@END %s". exact I. Qed.\n' % t)
    rc, out = run(["coqc"] + qflags(pid) + ["-w", "-all", f], cwd=wd, timeout=900)
    for t in thms:
        m = re.search(r"@@BEGIN %s\n(.*?)@@END %s" % (re.escape(t), re.escape(t)), out, re.S)
        if not m:
            res[t] = ("missing", [])
            continue
        body = m.group(1)
        if "Closed under the global context" in body:
            res[t] = ("closed", [])
        else:
            ax = re.findall(r"^([A-Za-z_][\w.']*)\s*$|^([A-Za-z_][\w.']*)\s*:", body, re.M)
            names = [a or b for a, b in ax if (a or b) not in ("Axioms",)]
            res[t] = ("axioms", names)
    if rc != 0 and not res:
        for t in thms:
            res[t] = ("missing", [])
    # a theorem the audit file could not even reference -> everything after it is missing too
    if rc != 0:
        for t in thms:
            if t not in res:
                res[t] = ("missing", [])
        # find theorems not found
        for m in re.finditer(r"The reference (\S+) was not found", out):
            res[m.group(1)] = ("missing", [])
    return res


# ---------------------------------------------------------------- harness

def harness_build(meta, wd):
    name = meta["harness"]
    # go.sum must follow /repo
    src = os.path.join(REPO, "go.sum")
    dst = os.path.join(HARNESS, "go.sum")
    lock = open(os.path.join(HARNESS, ".lock"), "w")
    fcntl.flock(lock, fcntl.LOCK_EX)
    try:
        if os.path.exists(src):
            a = open(src).read()
            extra = os.path.join(HARNESS, "go.sum.extra")
            if os.path.exists(extra):
                a += open(extra).read()
            if not os.path.exists(dst) or open(dst).read() != a:
                open(dst, "w").write(a)
    finally:
        fcntl.flock(lock, fcntl.LOCK_UN); lock.close()
    out_bin = os.path.join(wd, "vh_" + name)
    tags = meta.get("build_tags", "verif")
    env = goenv()
    for k, v in meta.get("build_env", {}).items():
        env[k] = v
    t0 = time.time()
    # always build through a private copy of go.mod/go.sum (-modfile): -mod=mod may rewrite the file it
    # uses, and concurrent checks must not race on the shared one; a scratch worktree (VERIF_REPO) is
    # reached by redirecting the replace directives in that copy
    modf = os.path.join(wd, "go.alt.mod")
    txt = open(os.path.join(HARNESS, "go.mod")).read()
    if os.path.abspath(REPO) != "/repo":
        txt = txt.replace("=> /repo", "=> " + os.path.abspath(REPO))
    open(modf, "w").write(txt)
    shutil.copy(dst, os.path.join(wd, "go.alt.sum"))
    modargs = ["-modfile=" + modf]
    rc, out = run(["go", "build"] + modargs + ["-tags", tags, "-o", out_bin, "./" + name], cwd=HARNESS, env=env, timeout=1500)
    log("harness build %.1fs rc=%d" % (time.time() - t0, rc))
    if rc != 0:
        return None, out
    return out_bin, out


def harness_gen(binp, meta, wd, seed, n, tier, mode="gen", extra=None):
    out = os.path.join(wd, "cases_%s_%d.jsonl" % (mode, seed))
    cmd = [binp, mode, "-seed", str(seed), "-n", str(n), "-tier", tier, "-out", out, "-work", wd]
    if extra:
        cmd += extra
    env = goenv()
    t0 = time.time()
    try:
        rc, o = run(cmd, cwd=wd, env=env, timeout=meta.get("gen_timeout", 1500 if tier == "quick" else 6000))
    except subprocess.TimeoutExpired:
        raise Infra("harness generation timed out")
    log("harness %s n=%d %.1fs rc=%d" % (mode, n, time.time() - t0, rc))
    if rc != 0:
        raise Infra("harness %s failed rc=%d: %s" % (mode, rc, o[-3000:]))
    cases = [json.loads(l) for l in open(out) if l.strip()]
    return cases


# ---------------------------------------------------------------- case evaluation in Coq

def eval_cases(pid, meta, cases, wd, tag="c"):
    """returns (corr_fail_ids, holds_fail_ids, err). Each case: {'i':int,'coq':str}"""
    shard = meta.get("shard", 400)
    imports = meta.get("corr_import", "From GoProbe.%s Require Import Model Corr." % pid)
    case_ty = meta.get("case_type", "case")
    files = []
    for k in range(0, len(cases), shard):
        chunk = cases[k:k + shard]
        f = os.path.join(wd, "cases_%s_%d.v" % (tag, k // shard))
        with open(f, "w") as fh:
            fh.write("From Coq Require Import List ZArith NArith String Ascii.\nImport ListNotations.\n")
            fh.write("From GoProbe.Base Require Import CorrLib.\n")
            fh.write(imports + "\n")
            fh.write(meta.get("case_prelude", "") + "\n")
            fh.write("Definition the_cases : list (nat * %s) := [\n" % case_ty)
            fh.write(";\n".join("  (%d%%nat, %s)" % (j, c["coq"]) for j, c in enumerate(chunk)))
            fh.write("\n].\n")
            fh.write("Definition R := Eval vm_compute in run_cases corr holds the_cases.\n")
            fh.write('Goal True. let r := eval cbv delta [R] in R in idtac "@@RESULT" r "@@END". exact I. Qed.\n')
        files.append((f, chunk))
    procs = []
    corr_fail, holds_fail = [], []
    maxpar = 12
    pending = list(files)
    running = []
    errs = []
    mem_kb = meta.get("coq_mem_kb", 6 * 1024 * 1024)
    tmo = meta.get("coq_case_timeout", 900)

    def launch(f):
        cmdline = "ulimit -v %d; exec timeout %d coqc %s -w -all %s" % (
            mem_kb, tmo, " ".join(qflags(pid)), os.path.basename(f))
        return subprocess.Popen(["bash", "-c", cmdline], cwd=wd, stdout=subprocess.PIPE,
                                stderr=subprocess.STDOUT, text=True, errors="replace")
    results = {}
    while pending or running:
        while pending and len(running) < maxpar:
            f, chunk = pending.pop(0)
            running.append((launch(f), f, chunk))
        p, f, chunk = running.pop(0)
        out, _ = p.communicate()
        m = re.search(r"@@RESULT\s*(.*?)\s*@@END", out, re.S)
        if p.returncode != 0 or not m:
            errs.append("coqc failed on %s (rc=%s): %s" % (os.path.basename(f), p.returncode, out[-2500:]))
            continue
        body = m.group(1)
        # (  [a; b], [c] )
        mm = re.match(r"\(\s*(\[.*?\]|nil)\s*,\s*(\[.*?\]|nil)\s*\)", body, re.S)
        if not mm:
            errs.append("cannot parse result of %s: %s" % (os.path.basename(f), body[:500]))
            continue
        cf = [int(x) for x in re.findall(r"\d+", mm.group(1))]
        hf = [int(x) for x in re.findall(r"\d+", mm.group(2))]
        corr_fail += [chunk[j]["i"] for j in cf]
        holds_fail += [chunk[j]["i"] for j in hf]
    return corr_fail, holds_fail, errs


# ---------------------------------------------------------------- known findings

def load_known(pid):
    out, seen = [], set()
    for f in (KNOWN, os.path.join(COQ, pid, "findings.json")):
        if not os.path.exists(f):
            continue
        for e in json.load(open(f)).get("findings", []):
            if e.get("property") == pid and e.get("id") not in seen:
                seen.add(e.get("id"))
                out.append(e)
    return out


def match_known(entries, case):
    """an open finding suppresses a failing case only if its predicate (a python expression over
    the case's `input`/`observed`/`tags`) is true. fixed entries suppress nothing."""
    for e in entries:
        if e.get("status") != "open":
            continue
        try:
            if eval(e["match"], {"__builtins__": {"len": len, "any": any, "all": all, "set": set, "str": str,
                                                  "int": int, "sorted": sorted, "min": min, "max": max, "abs": abs}},
                    {"input": case.get("input"), "observed": case.get("observed"), "tags": case.get("tags", []),
                     "case": case}):
                return e
        except Exception as ex:  # a broken predicate never suppresses
            log("known-finding predicate error", e.get("id"), ex)
    return None


# ---------------------------------------------------------------- main

def write_replay(pid, kind, payload):
    os.makedirs(REPLAYS, exist_ok=True)
    h = hashlib.sha1(json.dumps(payload, sort_keys=True, default=str).encode()).hexdigest()[:10]
    p = os.path.join(REPLAYS, "%s_%s_%s.json" % (pid, kind, h))
    payload = dict(payload)
    payload["property"] = pid
    payload["kind"] = kind
    payload["how_to_replay"] = "cd /verif && bin/check %s --replay %s" % (pid, p)
    json.dump(payload, open(p, "w"), indent=1, default=str)
    return p


def strip_case(c):
    return {k: v for k, v in c.items() if k not in ("coq",)}


def main(argv=None):
    ap = argparse.ArgumentParser()
    ap.add_argument("pid")
    ap.add_argument("--tier", default=os.environ.get("VERIF_TIER", "quick"))
    ap.add_argument("--seed", type=int, default=None)
    ap.add_argument("--replay")
    ap.add_argument("--keep", action="store_true")
    ap.add_argument("--n", type=int, default=None)
    a = ap.parse_args(argv)
    pid = a.pid
    tier = a.tier if a.tier in ("quick", "thorough") else "quick"
    seed = a.seed if a.seed is not None else int(os.environ.get("VERIF_SEED", "1") or 1)
    t0 = time.time()
    wd = os.path.join(WORK, "%s-%d" % (pid, os.getpid()))
    os.makedirs(wd, exist_ok=True)
    os.makedirs(EVID, exist_ok=True)
    rc = 2
    try:
        rc = check(pid, tier, seed, a, wd, t0)
    except Infra as e:
        print("INFRA-ERROR property=%s %s" % (pid, e))
        rc = 2
    finally:
        if not a.keep:
            shutil.rmtree(wd, ignore_errors=True)
    return rc


def check(pid, tier, seed, a, wd, t0):
    meta = prop_meta(pid)
    if tier == "thorough":
        # thorough runs may share the machine with other long runs: give coqc shards more head-room
        meta["coq_case_timeout"] = 4 * meta.get("coq_case_timeout", 900)
    violations = []      # (line, )
    known_lines = []
    notes = []

    # 1. proofs
    ok, failing, blog = coq_build(pid, clean=(tier == "thorough" and not a.replay))
    src_bad = audit_sources(pid)
    model_ok = all(os.path.exists(os.path.join(COQ, pid, f[:-2] + ".vo"))
                   for f in meta.get("model_files", ["Model.v", "Corr.v"]))
    if not model_ok:
        raise Infra("model files of %s do not compile: %s\n%s" % (pid, failing, blog[-3000:]))
    thm = audit_theorems(pid, meta, wd) if ok or True else {}
    obligations = len(meta["theorems"])
    discharged = 0
    axioms_used = {}
    broken_thms = []
    for t in meta["theorems"]:
        st, ax = thm.get(t, ("missing", []))
        if st == "closed":
            discharged += 1
        elif st == "axioms" and all(x in STD_AXIOMS for x in ax):
            discharged += 1
            axioms_used[t] = ax
        else:
            broken_thms.append(t + ("" if st == "missing" else " (depends on non-standard axioms %s)" % ax))
    proof_broken = (not ok) or bool(broken_thms) or bool(src_bad)
    coqchk_out = None
    if tier == "thorough" and ok and not a.replay and meta.get("coqchk", True):
        mods = ["GoProbe.%s.%s" % (pid, f[:-2]) for f in vfiles(pid) if f == "Properties.v"]
        try:
            crc, cout = run(["coqchk", "-silent", "-o"] + qflags(pid) + mods, cwd=COQ, timeout=3000)
            coqchk_out = "rc=%d " % crc + " ".join(cout.split())[-600:]
            if crc != 0:
                proof_broken = True
                broken_thms.append("coqchk rejected the compiled proofs")
        except subprocess.TimeoutExpired:
            coqchk_out = "timeout"

    # 2. correspondence
    cases = []
    corr_fail = holds_fail = []
    gen_stats = {}
    binp = None
    has_harness = bool(meta.get("harness"))
    if has_harness:
        binp, bout = harness_build(meta, wd)
        if binp is None:
            # the harness no longer compiles against the tree: the correspondence cannot be checked.
            rp = write_replay(pid, "correspondence", {
                "what": "the correspondence harness does not build against /repo's working tree",
                "build_output": bout[-4000:], "theorems": meta["theorems"]})
            print("VIOLATION property=%s replay=%s no-failing-input-found" % (pid, rp))
            write_evidence(pid, tier, seed, meta, t0, obligations, discharged, [], [], [], 1, axioms_used,
                           coqchk_out, notes + ["harness build failed"], {})
            return 1
        if a.replay:
            rj = json.load(open(a.replay))
            cs = rj.get("cases") or ([rj["case"]] if "case" in rj else [])
            if not cs:
                print("replay file has no case (kind=%s): %s" % (rj.get("kind"), rj.get("what")))
                return 0
            inp = os.path.join(wd, "replay_in.jsonl")
            with open(inp, "w") as fh:
                for c in cs:
                    fh.write(json.dumps(c) + "\n")
            cases = harness_gen(binp, meta, wd, seed, len(cs), tier, mode="replay", extra=["-in", inp])
        else:
            n = a.n or meta.get("quick_n" if tier == "quick" else "thorough_n", 200)
            cases = harness_gen(binp, meta, wd, seed, n, tier)
        for j, c in enumerate(cases):
            c["i"] = j
        corr_fail, holds_fail, errs = eval_cases(pid, meta, cases, wd)
        if errs:
            raise Infra("case evaluation failed: " + " | ".join(errs)[:4000])

    known = load_known(pid)
    byid = {c["i"]: c for c in cases}
    reported_known = {}
    new_fail = []
    for i in holds_fail:
        e = match_known(known, byid[i])
        if e:
            reported_known.setdefault(e["id"], (e, byid[i]))
        else:
            new_fail.append(byid[i])
    # correspondence failures on cases that are known findings are not alarms of their own
    corr_only = [byid[i] for i in corr_fail if i not in set(holds_fail) and not match_known(known, byid[i])]

    for e, c in reported_known.values():
        print("KNOWN-FINDING: property=%s %s" % (pid, e["fails"]))

    rc = 0
    if new_fail:
        c = min(new_fail, key=lambda c: len(json.dumps(strip_case(c))))
        rp = write_replay(pid, "impl-violates-spec", {
            "what": "the implementation's observed behaviour violates the specification on this input",
            "case": strip_case(c), "n_failing": len(new_fail), "seed": seed,
            "corr_also_failed": c["i"] in set(corr_fail)})
        print("VIOLATION property=%s replay=%s" % (pid, rp))
        rc = 1
    elif corr_only or proof_broken:
        # property no longer *shown* to hold: search for a failing input
        found = None
        if has_harness and binp and not a.replay:
            sn = meta.get("search_n", 4 * meta.get("quick_n", 200))
            for k in range(meta.get("search_rounds", 2)):
                sc = harness_gen(binp, meta, wd, seed * 7919 + 101 + k, sn, tier, mode="gen", extra=["-search"])
                for j, c in enumerate(sc):
                    c["i"] = j
                cf, hf, errs = eval_cases(pid, meta, sc, wd, tag="s%d" % k)
                sid = {c["i"]: c for c in sc}
                cand = [sid[i] for i in hf if not match_known(known, sid[i])]
                if cand:
                    found = min(cand, key=lambda c: len(json.dumps(strip_case(c))))
                    break
        if found:
            rp = write_replay(pid, "impl-violates-spec", {
                "what": "proof/correspondence broke; the search found an input on which the implementation violates the spec",
                "case": strip_case(found), "seed": seed, "broken_theorems": broken_thms,
                "corr_failures": len(corr_only)})
            print("VIOLATION property=%s replay=%s" % (pid, rp))
        else:
            payload = {"what": "the property is no longer shown to hold", "seed": seed}
            if proof_broken:
                payload["broken_proof"] = {"failing_files": failing, "theorems_not_discharged": broken_thms,
                                           "source_audit": src_bad, "build_log_tail": blog[-2500:] if not ok else ""}
            if corr_only:
                c = min(corr_only, key=lambda c: len(json.dumps(strip_case(c))))
                payload["correspondence"] = {"what": "model and implementation disagree (spec still satisfied by the observed output)",
                                             "n": len(corr_only), "theorems": meta["theorems"]}
                payload["case"] = strip_case(c)
            rp = write_replay(pid, "correspondence" if corr_only else "proof-broken", payload)
            print("VIOLATION property=%s replay=%s no-failing-input-found" % (pid, rp))
        rc = 1

    if not a.replay:
        write_evidence(pid, tier, seed, meta, t0, obligations, discharged, cases, corr_fail, holds_fail,
                       1 if rc else 0, axioms_used, coqchk_out, notes, {k: v[0]["fails"] for k, v in reported_known.items()})
    return rc


def write_evidence(pid, tier, seed, meta, t0, obligations, discharged, cases, corr_fail, holds_fail, violations,
                   axioms_used, coqchk_out, notes, known_reported):
    distinct = set()
    hist = {}
    for c in cases:
        for tg in c.get("tags", []):
            hist[tg] = hist.get(tg, 0) + 1
        if c.get("nontrivial"):
            distinct.add(hashlib.sha1(json.dumps(c.get("input"), sort_keys=True, default=str).encode()).hexdigest())
    samples = [strip_case(c) for c in cases[:2]] + [strip_case(c) for c in cases if c.get("nontrivial")][:2]
    samples = [trim(s) for s in samples]
    if not samples:
        samples = [{"obligation": t} for t in meta["theorems"][:3]]
    ev = {
        "property_id": pid, "tier": tier, "seed": seed, "level": meta.get("level", "proof"),
        "coverage": {
            "obligations": obligations, "discharged": discharged,
            "theorems": meta["theorems"],
            "checker_cmd": "coq_makefile + make (coqc 8.16.1, full .vo build) in /verif/coq/{%s}; Print Assumptions per theorem; cases evaluated by vm_compute in coqc%s" % (
                ",".join(closure(pid)), "; coqchk -silent -o in this run: " + coqchk_out if coqchk_out else ""),
            "trusted_base": meta.get("trusted_base", []) + [
                "Coq 8.16.1 kernel incl. vm_compute (no native_compute)",
                "axioms per theorem (Print Assumptions): " + (json.dumps(axioms_used) if axioms_used else "none - all closed under the global context"),
                "hand-written Gallina model tied to /repo only by this run's correspondence check",
                "Go harness /verif/harness/%s and lib/vcheck.py" % meta.get("harness", "-"),
            ],
            "evaluations": len(cases),
            "distinct_nontrivial": len(distinct),
            "rule": meta.get("nontrivial_rule", ""),
            "samples": samples,
            "corr_failures": len(corr_fail), "spec_failures": len(holds_fail),
            "input_distribution": hist,
            "known_findings_reproduced": known_reported,
            "not_discharged_full_statements": meta.get("not_discharged", []),
            "notes": notes,
        },
        "assumptions": meta.get("assumptions", []),
        "wall_s": round(time.time() - t0, 2),
        "violations": violations,
    }
    json.dump(ev, open(os.path.join(EVID, pid + ".json"), "w"), indent=1, default=str)


def trim(o, lim=600):
    s = json.dumps(o, default=str)
    if len(s) <= lim:
        return o
    if isinstance(o, dict):
        return {k: (v if len(json.dumps(v, default=str)) < 200 else (json.dumps(v, default=str)[:200] + "...")) for k, v in o.items()}
    return s[:lim] + "..."


if __name__ == "__main__":
    sys.exit(main())
