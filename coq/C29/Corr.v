(* C29 correspondence: case type, corr (model = observed) and holds (observed meets the spec). *)
From Coq Require Import List ZArith NArith Bool.
From GoProbe.Base Require Import CorrLib.
From GoProbe.C09 Require Import Model.
From GoProbe.C29 Require Import Model.
Import ListNotations.
Open Scope N_scope.

(* canonical row as the harness prints it: timestamp (0 none), address table index + 1 for SrcIP and
   DstIP (0: not set, 999: not in the table), DstPort, IPProto *)
Definition ckey := (N * N * N * N * N)%type.
Definition crows := list (ckey * counters).

Inductive qobs := QOk (rs : crows) (totals : counters) | QErr | QPanic.

Inductive step :=
| SPkt (k : N) (out : bool) (size : N)
| SSet (k : N) (c : counters)
| SRot
| SLive (sel : N) (c : option cond) (stored live : qobs) (before after : list (N * counters)).

Record case := mkCase {
  c_addrs : list bytes;                      (* address table *)
  c_keys : list (N * N * N * N * N);         (* flow log keys: sip index, sport, dip index, dport, proto *)
  c_steps : list step;
  c_db : qobs;                               (* whole DB after the final write-out *)
  c_dbplain : qobs }.                        (* the same for the history without its live queries *)

Definition base_ts : N := 1600000200.

(* ------------------------------------------------------------------ decoding the tables *)
Definition nth_addr (addrs : list bytes) (i : N) : bytes := nth (N.to_nat i) addrs [].
Definition key_spec (cs : case) (i : N) : N * N * N * N * N := nth (N.to_nat i) (c_keys cs) (0, 0, 0, 0, 0).

Definition entry_of (cs : case) (i : N) (c : counters) : entry :=
  let '(si, sp, di, dp, pr) := key_spec cs i in
  let sip := nth_addr (c_addrs cs) si in
  {| e_flow := {| f_v4 := (length sip =? 4)%nat; f_sip := sip; f_dip := nth_addr (c_addrs cs) di;
                  f_dport := dp; f_proto := pr |};
     e_sport := sp; e_c := c |}.

Definition lkey_at (cs : case) (i : N) : bytes := lkey_of (entry_of cs i c0).

Definition sel_of (m : N) : selection :=
  mkSel (N.testbit m 1) (N.testbit m 2) (N.testbit m 3) (N.testbit m 4).

(* ------------------------------------------------------------------ canonical rows *)
Fixpoint find_idx (addrs : list bytes) (b : bytes) (i : N) : N :=
  match addrs with
  | [] => 999
  | a :: t => if bytes_eqb a b then i else find_idx t b (i + 1)
  end.
Definition addr_idx (addrs : list bytes) (o : option bytes) : N :=
  match o with None => 0 | Some b => find_idx addrs b 1 end.
Definition onum (o : option N) : N := match o with None => 0 | Some n => n end.

Definition canon (addrs : list bytes) (r : rowkey * counters) : ckey * counters :=
  let '((ts, sip, dip, dport, proto), c) := r in
  ((ts, addr_idx addrs sip, addr_idx addrs dip, onum dport, onum proto), c).

Definition ckey_eqb (a b : ckey) : bool :=
  let '(a1, a2, a3, a4, a5) := a in let '(b1, b2, b3, b4, b5) := b in
  (a1 =? b1) && (a2 =? b2) && (a3 =? b3) && (a4 =? b4) && (a5 =? b5).
Definition cnt_eqb (a b : counters) : bool :=
  let '(a1, a2, a3, a4) := a in let '(b1, b2, b3, b4) := b in
  (a1 =? b1) && (a2 =? b2) && (a3 =? b3) && (a4 =? b4).
Definition crow_eqb (a b : ckey * counters) : bool := ckey_eqb (fst a) (fst b) && cnt_eqb (snd a) (snd b).

Definition count_row (r : ckey * counters) (l : crows) : nat := length (filter (crow_eqb r) l).
(* equal as multisets *)
Definition crows_eqb (a b : crows) : bool :=
  (length a =? length b)%nat && forallb (fun r => (count_row r a =? count_row r b)%nat) (a ++ b).

Definition csum (l : list counters) : counters := fold_left cadd l c0.

(* a live query returns the stored rows with the live rows added per group *)
Definition add_rows (stored live : crows) : crows := group_sum ckey_eqb (stored ++ live).

Definition stored_rows (q : qobs) : crows := match q with QOk rs _ => rs | _ => [] end.

Fixpoint log_eqb (a b : list (N * counters)) : bool :=
  match a, b with
  | [], [] => true
  | (i, c) :: a', (j, d) :: b' => (i =? j) && cnt_eqb c d && log_eqb a' b'
  | _, _ => false
  end.

(* ------------------------------------------------------------------ corr: the model on the same history *)
(* the model's flow log as the harness dumps it: (key table index, counters), ordered by index *)
Fixpoint key_index (cs : case) (keys : list (N * N * N * N * N)) (i : N) (k : bytes) : N :=
  match keys with
  | [] => 999
  | _ :: t => if bytes_eqb (lkey_at cs i) k then i else key_index cs t (i + 1) k
  end.

Fixpoint insert_sorted (x : N * counters) (l : list (N * counters)) : list (N * counters) :=
  match l with
  | [] => [x]
  | y :: t => if fst x <=? fst y then x :: l else y :: insert_sorted x t
  end.
Definition dump_log (cs : case) (log : flowlog) : list (N * counters) :=
  fold_right insert_sorted [] (map (fun kc => (key_index cs (c_keys cs) 0 (fst kc), snd kc)) log).

(* rows of the whole DB (time,sip,dip,dport,proto) from the maps handed to the DB writer; the i-th
   write-out has the block timestamp base_ts + 300 i *)
Fixpoint db_rows (cs : case) (ws : list (option aggmap)) (ts : N) : res crows :=
  match ws with
  | [] => Ok []
  | w :: t =>
      bind (match w with
            | None => Ok []
            | Some m => bind (materialise (mkSel true true true true) m) (fun rs =>
                        Ok (map (fun r => let '((_, a, b, c, d), x) := canon (c_addrs cs) r in ((ts, a, b, c, d), x)) rs))
            end) (fun here => bind (db_rows cs t (ts + 300)) (fun rest => Ok (here ++ rest)))
  end.

Definition qobs_rows_eqb (q : qobs) (rs : crows) : bool :=
  match q with QOk o t => crows_eqb o rs && cnt_eqb t (csum (map snd rs)) | _ => false end.

(* walk the history with the model; every live step is compared with the observation *)
Fixpoint corr_steps (cs : case) (steps : list step) (log : flowlog) (ws : list (option aggmap))
  : res (bool * flowlog * list (option aggmap)) :=
  match steps with
  | [] => Ok (true, log, ws)
  | SPkt k out size :: t => corr_steps cs t (log_packet log (lkey_at cs k) out size) ws
  | SSet k c :: t => corr_steps cs t (log_set log (lkey_at cs k) c) ws
  | SRot :: t => bind (rotate log) (fun r => corr_steps cs t (snd r) (ws ++ [fst r]))
  | SLive sel c stored live before after :: t =>
      let ok_before := log_eqb (dump_log cs log) before in
      match live_query (sel_of sel) c log [] [] with
      | Ok (rs, log') =>
          let ok := ok_before && log_eqb (dump_log cs log') after
                    && qobs_rows_eqb live (add_rows (stored_rows stored) (map (canon (c_addrs cs)) rs)) in
          bind (corr_steps cs t log' ws) (fun x => let '(b, l, w) := x in Ok (ok && b, l, w))
      | Err =>
          let ok := ok_before && log_eqb (dump_log cs log) after
                    && match live with QErr => true | _ => false end in
          bind (corr_steps cs t log ws) (fun x => let '(b, l, w) := x in Ok (ok && b, l, w))
      | Panic => Ok (match live with QPanic => true | _ => false end, log, ws)
      end
  end.

Definition corr (cs : case) : bool :=
  match corr_steps cs (c_steps cs) [] [] with
  | Ok (b, log, ws) =>
      b && match bind (rotate log) (fun r => db_rows cs (ws ++ [fst r]) base_ts) with
           | Ok rs => qobs_rows_eqb (c_db cs) rs
           | _ => false
           end
  | _ => false
  end.

(* ------------------------------------------------------------------ holds: the specification on the observations *)
(* the in-memory flows, as observed immediately before the query *)
Definition entries_of (cs : case) (dump : list (N * counters)) : list entry :=
  map (fun ic => entry_of cs (fst ic) (snd ic)) dump.

Definition cond_valid (c : option cond) : bool :=
  match c with None => true | Some cd => valid_spec cd end.

Definition live_holds (cs : case) (sel : N) (c : option cond) (stored live : qobs)
  (before after : list (N * counters)) : bool :=
  (* the flow log is what it was *)
  log_eqb before after &&
  match live with
  | QPanic => false
  | QErr => negb (cond_valid c)
  | QOk rs totals =>
      cond_valid c &&
      (* rows = stored rows + GROUP BY selected attributes over the non-idle flows satisfying the condition *)
      crows_eqb rs (add_rows (stored_rows stored)
                     (map (canon (c_addrs cs)) (spec_rows (sel_of sel) c (entries_of cs before))))
      && cnt_eqb totals (csum (map snd rs))
  end.

Definition qobs_eqb (a b : qobs) : bool :=
  match a, b with
  | QOk r1 t1, QOk r2 t2 => crows_eqb r1 r2 && cnt_eqb t1 t2
  | _, _ => false
  end.

Definition holds (cs : case) : bool :=
  forallb (fun st => match st with
                     | SLive sel c stored live before after => live_holds cs sel c stored live before after
                     | _ => true
                     end) (c_steps cs)
  (* what was written to the DB does not depend on the live queries *)
  && qobs_eqb (c_db cs) (c_dbplain cs).
