(* C29 model: live queries (executable definitions only).

   Modelled code, WITH the two C29 fixes applied (live keys are projected onto the selected
   attributes by goDB.QueryFilter; an interface without a directory has no stored data):
     pkg/capture/flow.go        FlowLog.Aggregate (copy, skip idle flows, key without source port),
                                FlowLog.transferAndAggregate (Rotate), NewFlow / UpdateFlow / Reset
     pkg/capture/capture.go     Capture.flowMap (nothing is handed over for an empty flow log)
     pkg/capture/capture_manager.go  GetFlowMaps (flowMap, filterFn, hand-over on the map channel)
     pkg/goDB/filter.go         QueryFilter (condition on the copied keys, projectKey)
     pkg/goDB/engine/aggregate.go    aggregate (skip empty items, Merge into the interface's map)
     pkg/goDB/engine/query.go   RunStatement: materialisation of the rows from the final map
   The condition is the C09 model (prepare / eval; eval RETURNS the key it inspected and the
   projection uses the returned key, so a write to the key would show up in the rows).

   A Go map is modelled as an association list; every theorem is stated up to the order of the
   entries (Permutation / per-key totals), i.e. for every iteration order.
   The AggFlowMap pair (PrimaryMap, SecondaryMap) is ONE association list keyed by the key bytes:
   an entry lives in the primary map iff its key is 11 bytes wide, so the pair is a partition of
   the single key space by width (also after the projection, which puts IPv6 flows under 11-byte
   keys when no address is selected). *)
From Coq Require Import List ZArith NArith Bool.
From GoProbe.Base Require Import CorrLib.
From GoProbe.C09 Require Import Model.
Import ListNotations.
Open Scope N_scope.

(* ------------------------------------------------------------------ counters (uint64) *)
Definition counters := (N * N * N * N)%type.     (* BytesRcvd, BytesSent, PacketsRcvd, PacketsSent *)
Definition M64 : N := 18446744073709551616.
Definition add64 (x y : N) : N := (x + y) mod M64.
Definition cadd (a b : counters) : counters :=
  let '(a1, a2, a3, a4) := a in let '(b1, b2, b3, b4) := b in
  (add64 a1 b1, add64 a2 b2, add64 a3 b3, add64 a4 b4).
Definition c0 : counters := (0, 0, 0, 0).

(* ------------------------------------------------------------------ maps as association lists *)
Section Assoc.
  Context {K : Type} (keq : K -> K -> bool).

  (* hashmap.Map.SetOrUpdate: add to the entry of the key, or create it *)
  Fixpoint upsert (m : list (K * counters)) (k : K) (c : counters) : list (K * counters) :=
    match m with
    | [] => [(k, c)]
    | (k', c') :: t => if keq k' k then (k', cadd c' c) :: t else (k', c') :: upsert t k c
    end.

  (* hashmap.Map.Merge: SetOrUpdate of every entry of the source *)
  Definition merge (m item : list (K * counters)) : list (K * counters) :=
    fold_left (fun acc kc => upsert acc (fst kc) (snd kc)) item m.

  Definition group_sum (l : list (K * counters)) : list (K * counters) := merge [] l.
End Assoc.

Definition aggmap := list (bytes * counters).     (* key: 11 / 35 bytes (19 / 43 with timestamp) *)
Definition flowlog := list (bytes * counters).    (* key: 13 / 37 byte endpoint hash WITH source port *)

(* ------------------------------------------------------------------ flow.go *)
(* v.PacketsRcvd != 0 || v.PacketsSent != 0 *)
Definition is_idle (c : counters) : bool := let '(_, _, pr, ps) := c in (pr =? 0) && (ps =? 0).

(* types.Key.PutV4String / PutV6String on a fresh key buffer: the source port bytes are dropped.
   flowMapV4 only holds 13-byte and flowMapV6 only 37-byte strings (array types EPHashV4/V6) *)
Definition agg_key (lk : bytes) : res bytes :=
  if (length lk =? 13)%nat then Ok (firstn 4 lk ++ firstn 7 (skipn 6 lk))
  else if (length lk =? 37)%nat then Ok (firstn 16 lk ++ firstn 19 (skipn 18 lk))
  else Panic.

(* FlowLog.Aggregate: returns the copy AND the flow log as the loop leaves it (entries are only read) *)
Fixpoint aggregate_h (log : flowlog) (agg : aggmap) : res (aggmap * flowlog) :=
  match log with
  | [] => Ok (agg, [])
  | (lk, c) :: t =>
      bind (if is_idle c then Ok agg else bind (agg_key lk) (fun k => Ok (upsert bytes_eqb agg k c))) (fun agg' =>
      bind (aggregate_h t agg') (fun r => Ok (fst r, (lk, c) :: snd r)))
  end.

(* FlowLog.transferAndAggregate (Rotate): the same copy, but active entries are Reset and idle ones deleted *)
Fixpoint rotate_h (log : flowlog) (agg : aggmap) : res (aggmap * flowlog) :=
  match log with
  | [] => Ok (agg, [])
  | (lk, c) :: t =>
      if is_idle c then rotate_h t agg
      else bind (agg_key lk) (fun k =>
           bind (rotate_h t (upsert bytes_eqb agg k c)) (fun r => Ok (fst r, (lk, c0) :: snd r)))
  end.

(* Capture.rotate: nil map for an empty flow log *)
Definition rotate (log : flowlog) : res (option aggmap * flowlog) :=
  match log with
  | [] => Ok (None, [])
  | _ => bind (rotate_h log []) (fun r => Ok (Some (fst r), snd r))
  end.

(* NewFlow / Flow.UpdateFlow *)
Definition new_flow (out : bool) (size : N) : counters :=
  if out then (0, size, 0, 1) else (size, 0, 1, 0).
Definition update_flow (out : bool) (size : N) (c : counters) : counters :=
  let '(br, bs, pr, ps) := c in
  if out then (br, add64 bs size, pr, add64 ps 1) else (add64 br size, bs, add64 pr 1, ps).

Fixpoint log_packet (log : flowlog) (k : bytes) (out : bool) (size : N) : flowlog :=
  match log with
  | [] => [(k, new_flow out size)]
  | (k', c) :: t => if bytes_eqb k' k then (k', update_flow out size c) :: t else (k', c) :: log_packet t k out size
  end.

(* state injection used by the correspondence harness: the entry is created / overwritten *)
Fixpoint log_set (log : flowlog) (k : bytes) (c : counters) : flowlog :=
  match log with
  | [] => [(k, c)]
  | (k', c') :: t => if bytes_eqb k' k then (k', c) :: t else (k', c') :: log_set t k c
  end.

(* ------------------------------------------------------------------ filter.go (fixed) *)
Record selection := mkSel { s_sip : bool; s_dip : bool; s_dport : bool; s_proto : bool }.
Definition sel_all (s : selection) : bool := s_sip s && s_dip s && s_dport s && s_proto s.
Definition zeros (n : nat) : bytes := repeat 0 n.

(* Query.projectKey: a fresh zero key (IPv4 wide unless an address is selected and the flow is IPv6)
   that gets the selected attributes. When an address is selected the width of the result equals
   the width of the input, so Put* replaces the field exactly. *)
Definition project_key (s : selection) (k : bytes) : res bytes :=
  bind (key_v4 k) (fun v4 =>
  let w := ipw (v4 || negb (s_sip s || s_dip s)) in
  bind (get_sip k) (fun sip =>
  bind (get_dip k) (fun dip =>
  bind (get_dport k) (fun dport =>
  bind (get_proto k) (fun proto =>
  Ok ((if s_sip s then sip else zeros w) ++ (if s_dip s then dip else zeros w)
      ++ (if s_dport s then dport else [0; 0]) ++ [if s_proto s then proto else 0])))))).

(* the loops of QueryFilter: Evaluate(it.Key()), then projectKey(it.Key()) - the key as Evaluate left it *)
Fixpoint filter_h (s : selection) (oc : option icond) (agg out : aggmap) : res aggmap :=
  match agg with
  | [] => Ok out
  | (k, c) :: t =>
      bind (match oc with None => Ok (true, k) | Some ic => eval ic k end) (fun r =>
      if fst r then bind (project_key s (snd r)) (fun pk => filter_h s oc t (upsert bytes_eqb out pk c))
      else filter_h s oc t out)
  end.

Definition live_filter (s : selection) (oc : option icond) (agg : aggmap) : res aggmap :=
  match oc with
  | None => if sel_all s then Ok agg else filter_h s None agg []
  | Some _ => filter_h s oc agg []
  end.

(* ------------------------------------------------------------------ GetFlowMaps for one interface *)
(* what is put on the map channel (None: nothing) and the flow log afterwards *)
Definition live_item (s : selection) (oc : option icond) (log : flowlog) : res (option aggmap * flowlog) :=
  match log with
  | [] => Ok (None, log)                                 (* flowLog.Len() == 0 *)
  | _ => bind (aggregate_h log []) (fun al =>
         bind (live_filter s oc (fst al)) (fun item => Ok (Some item, snd al)))
  end.

(* ------------------------------------------------------------------ engine: aggregate() *)
Definition collect (items : list aggmap) : aggmap :=
  fold_left (fun final item => match item with [] => final | _ => merge bytes_eqb final item end) items [].

(* ------------------------------------------------------------------ engine: rows *)
(* timestamp label (0: none), SrcIP, DstIP, DstPort, IPProto - None where the attribute is not selected *)
Definition rowkey := (N * option bytes * option bytes * option N * option N)%type.
Definition be (l : bytes) : N := fold_left (fun a x => a * 256 + x) l 0.

(* ExtendedKey.IsIPv4 / Key() / AttrTime, then the Get* of the selected attributes *)
Definition mat_key (s : selection) (k : bytes) : res rowkey :=
  let n := length k in
  bind (if (n =? 11)%nat || (n =? 19)%nat then Ok true
        else if (n =? 35)%nat || (n =? 43)%nat then Ok false else Panic) (fun v4 =>
  let base := firstn (if v4 then 11 else 35)%nat k in
  let ts := if (n =? 11)%nat || (n =? 35)%nat then 0 else be (skipn (n - 8) k) in
  bind (get_sip base) (fun sip =>
  bind (get_dip base) (fun dip =>
  bind (get_dport base) (fun dport =>
  bind (get_proto base) (fun proto =>
  Ok (ts, if s_sip s then Some sip else None, if s_dip s then Some dip else None,
      if s_dport s then Some (be dport) else None, if s_proto s then Some proto else None)))))).

Definition rows := list (rowkey * counters).

Fixpoint materialise (s : selection) (final : aggmap) : res rows :=
  match final with
  | [] => Ok []
  | (k, c) :: t => bind (mat_key s k) (fun rk => bind (materialise s t) (fun rs => Ok ((rk, c) :: rs)))
  end.

(* ------------------------------------------------------------------ the live query *)
Definition prepare_opt (c : option cond) : res (option icond) :=
  match c with None => Ok None | Some cd => bind (prepare cd) (fun ic => Ok (Some ic)) end.

(* pre / post: the maps the DB workers of the interface put on the channel before / after the live
   item (stored data, already filtered and projected - C08). Returns the rows and the flow log. *)
Definition live_query (s : selection) (c : option cond) (log : flowlog) (pre post : list aggmap)
  : res (rows * flowlog) :=
  bind (prepare_opt c) (fun oc =>
  bind (live_item s oc log) (fun il =>
  let items := pre ++ (match fst il with Some item => [item] | None => [] end) ++ post in
  bind (materialise s (collect items)) (fun rs => Ok (rs, snd il)))).

(* ------------------------------------------------------------------ histories *)
Inductive op :=
| OPkt (k : bytes) (out : bool) (size : N)
| OSet (k : bytes) (c : counters)
| ORot
| OLive (s : selection) (c : option cond).

Definition is_live (o : op) : bool := match o with OLive _ _ => true | _ => false end.

(* final flow log, what every write-out handed to the DB writer, result of every live query.
   A rejected query (Err: the condition does not parse) does not reach the capture. *)
Fixpoint run (ops : list op) (log : flowlog) : res (flowlog * list (option aggmap) * list (res rows)) :=
  match ops with
  | [] => Ok (log, [], [])
  | OPkt k out size :: t => run t (log_packet log k out size)
  | OSet k c :: t => run t (log_set log k c)
  | ORot :: t =>
      bind (rotate log) (fun r =>
      bind (run t (snd r)) (fun x => let '(l, ws, qs) := x in Ok (l, fst r :: ws, qs)))
  | OLive s c :: t =>
      match live_query s c log [] [] with
      | Ok (rs, log') => bind (run t log') (fun x => let '(l, ws, qs) := x in Ok (l, ws, Ok rs :: qs))
      | Err => bind (run t log) (fun x => let '(l, ws, qs) := x in Ok (l, ws, Err :: qs))
      | Panic => Panic
      end
  end.

(* ------------------------------------------------------------------ specification *)
(* one in-memory flow: the C09 flow (family, sip, dip, dport, proto), its source port, its counters *)
Record entry := mkEntry { e_flow : flow; e_sport : N; e_c : counters }.

Definition lkey_of (e : entry) : bytes :=
  let f := e_flow e in
  f_sip f ++ [e_sport e / 256; e_sport e mod 256] ++ f_dip f
  ++ [f_dport f / 256; f_dport f mod 256] ++ [f_proto f].

Definition log_of (es : list entry) : flowlog := map (fun e => (lkey_of e, e_c e)) es.

Definition c_ok (c : counters) : bool :=
  let '(a, b, x, y) := c in (a <? M64) && (b <? M64) && (x <? M64) && (y <? M64).
Definition wf_entry (e : entry) : bool := wf_flow (e_flow e) && (e_sport e <? 65536) && c_ok (e_c e).

Definition sem_opt (c : option cond) (f : flow) : bool :=
  match c with None => true | Some cd => sem cd f end.
Definition wf_cond_opt (c : option cond) : bool :=
  match c with None => true | Some cd => wf_cond cd end.

(* the selected attributes of a flow (no timestamp: the flow is not written yet) *)
Definition project (s : selection) (f : flow) : rowkey :=
  (0, if s_sip s then Some (f_sip f) else None, if s_dip s then Some (f_dip f) else None,
   if s_dport s then Some (f_dport f) else None, if s_proto s then Some (f_proto f) else None).

Definition opt_eqb {A} (eq : A -> A -> bool) (a b : option A) : bool :=
  match a, b with Some x, Some y => eq x y | None, None => true | _, _ => false end.
Definition rowkey_eqb (a b : rowkey) : bool :=
  let '(t1, s1, d1, p1, r1) := a in let '(t2, s2, d2, p2, r2) := b in
  (t1 =? t2) && opt_eqb bytes_eqb s1 s2 && opt_eqb bytes_eqb d1 d2 && opt_eqb N.eqb p1 p2 && opt_eqb N.eqb r1 r2.

(* flows that count: not idle and satisfying the condition *)
Definition selected (c : option cond) (e : entry) : bool := negb (is_idle (e_c e)) && sem_opt c (e_flow e).

(* GROUP BY the selected attributes over the selected flows, the four counters summed (uint64) *)
Definition spec_rows (s : selection) (c : option cond) (es : list entry) : rows :=
  group_sum rowkey_eqb (map (fun e => (project s (e_flow e), e_c e)) (filter (selected c) es)).

(* the (uint64) total stored under a key in a list of map entries *)
Definition total (k : bytes) (m : aggmap) : counters :=
  fold_left cadd (map snd (filter (fun kc => bytes_eqb k (fst kc)) m)) c0.
