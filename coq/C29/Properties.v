(* C29 property theorems. Nothing but statements closed by `exact`, Print Assumptions and one
   non-vacuity example per theorem.

   live_query s c log pre post : res (rows * flowlog)
       the live query for one interface, as coded (with the two C29 fixes): Capture.flowMap /
       FlowLog.Aggregate (copy without source port, idle flows skipped), QueryFilter (C09 eval on the
       copied keys, projection of the key eval returned onto the selected attributes s), engine
       aggregate() over the maps `pre ++ [live item] ++ post` (pre / post: what the DB workers of the
       interface delivered before / after the live item), row materialisation. Returns the rows AND
       the flow log as the query leaves it.
   spec_rows s c es    GROUP BY (selected attributes of the flow) over the in-memory flows es that are
                       not idle and satisfy the condition (C09 sem), the four counters summed in uint64
   log_of es           the flow log (13 / 37 byte keys with source port) holding the flows es
   run ops log         a history of packets, state injections, write-outs (Rotate) and live queries:
                       final flow log, the map of every write-out, the result of every live query *)
From Coq Require Import List ZArith NArith Bool Permutation.
From GoProbe.Base Require Import CorrLib.
From GoProbe.C09 Require Import Model.
From GoProbe.C29 Require Import Model ProofsLive ProofsMain.
Import ListNotations.
Open Scope N_scope.

(* For ALL in-memory flow sets (any number of IPv4 / IPv6 flows, any source ports, any uint64
   counters, idle or not), ALL attribute selections and ALL accepted conditions: the live query
   succeeds, leaves the flow log as it was, and its rows are - up to order - exactly the GROUP BY of
   the non-idle flows satisfying the condition over the selected attributes with the counters summed:
   the semantics a query on stored flows has. *)
Theorem c29_rows : forall s c oc es,
  Forall (fun e => wf_entry e = true) es -> wf_cond_opt c = true -> prepare_opt c = Ok oc ->
  exists rs, live_query s c (log_of es) [] [] = Ok (rs, log_of es) /\ Permutation rs (spec_rows s c es).
Proof. exact rows_main. Qed.
Print Assumptions c29_rows.

(* A condition that is not accepted makes the query fail before the capture is touched. *)
Theorem c29_rejected : forall s cd log pre post, prepare cd = Err -> live_query s (Some cd) log pre post = Err.
Proof. exact rows_rejected. Qed.
Print Assumptions c29_rejected.

(* "In addition to stored data": whatever maps the DB workers deliver before and after the live
   item, the final map of the interface has one entry per key and under every key the total is
   stored-before + live + stored-after (uint64) - the live flows are added to the stored ones group
   by group, wherever the live item arrives. For ALL maps (no well-formedness needed). *)
Theorem c29_adds_to_stored : forall pre live post,
  NoDup (map fst (collect (pre ++ live ++ post))) /\
  forall k, total k (collect (pre ++ live ++ post))
            = cadd (cadd (total k (concat pre)) (total k (collect live))) (total k (concat post)).
Proof. exact adds_main. Qed.
Print Assumptions c29_adds_to_stored.

(* Read-only: for EVERY flow log (any byte strings as keys), selection, condition and stored data, a
   live query that returns leaves the flow log exactly as it was; hence for every history of packets,
   write-outs and live queries, every write-out hands the same map to the DB writer and the final
   flow log is the same as for the history with its live queries removed. *)
Theorem c29_readonly :
  (forall s c log pre post rs log', live_query s c log pre post = Ok (rs, log') -> log' = log) /\
  (forall ops log l ws qs, run ops log = Ok (l, ws, qs) ->
     run (filter (fun o => negb (is_live o)) ops) log = Ok (l, ws, [])).
Proof. split; [exact live_query_log | exact run_erase]. Qed.
Print Assumptions c29_readonly.

(* ------------------------------------------------------------------ non-vacuity *)
Definition ex_f (sip dip : bytes) (dport proto : N) : flow :=
  {| f_v4 := (length sip =? 4)%nat; f_sip := sip; f_dip := dip; f_dport := dport; f_proto := proto |}.
Definition ex_v6 (x : N) : bytes := [32; 1; 13; 184; 0; 0; 0; 0; 0; 0; 0; 0; 0; 0; 0; x].
Definition ex_es : list entry :=
  [ mkEntry (ex_f [10; 0; 0; 1] [10; 0; 0; 9] 443 6) 40000 (100, 0, 1, 0);
    mkEntry (ex_f [10; 0; 0; 1] [10; 0; 0; 9] 443 6) 40001 (0, 50, 0, 1);
    mkEntry (ex_f [10; 0; 0; 1] [10; 0; 0; 8] 53 17) 0 (18446744073709551615, 0, 1, 0);
    mkEntry (ex_f [10; 0; 0; 0] [10; 0; 0; 8] 53 17) 0 (70, 0, 1, 0);
    mkEntry (ex_f [10; 0; 0; 2] [10; 0; 0; 8] 53 17) 0 (0, 0, 0, 0);
    mkEntry (ex_f (ex_v6 1) (ex_v6 2) 53 17) 0 (0, 80, 0, 1) ].
Definition ex_cond : option cond := Some (Or (Leaf ASnet Eq (VNet [10; 0; 0; 0] false 31%Z)) (Leaf AProto Eq (VProto 17))).
Definition ex_sel : selection := mkSel true false false false.

(* three flows of 10.0.0.1 (two differing only in the source port, one to another host) give ONE row
   whose byte counter wrapped; the idle flow of 10.0.0.2 gives none *)
Example c29_rows_example :
  forallb wf_entry ex_es = true /\ wf_cond_opt ex_cond = true /\ is_ok (prepare_opt ex_cond) = true /\
  spec_rows ex_sel ex_cond ex_es =
    [((0, Some [10; 0; 0; 1], None, None, None), (99, 50, 2, 1));
     ((0, Some [10; 0; 0; 0], None, None, None), (70, 0, 1, 0));
     ((0, Some (ex_v6 1), None, None, None), (0, 80, 0, 1))] /\
  match live_query ex_sel ex_cond (log_of ex_es) [] [] with Ok (rs, l) => length rs | _ => 0%nat end = 3%nat.
Proof. vm_compute. repeat split; reflexivity. Qed.

Example c29_rejected_example :
  prepare (Leaf ASnet Eq (VNet [10; 0; 0; 0] false 33%Z)) = Err.
Proof. vm_compute. reflexivity. Qed.

(* a stored map with the same projected key: the totals add up *)
Example c29_adds_to_stored_example :
  let k := [10; 0; 0; 1; 0; 0; 0; 0; 0; 0; 0] in
  match live_item ex_sel None (log_of ex_es) with
  | Ok (Some item, _) => total k (collect ([[(k, (1, 2, 3, 4))]] ++ [item] ++ [[(k, (5, 5, 5, 5))]]))
  | _ => c0
  end = (105, 57, 10, 10).
Proof. vm_compute. reflexivity. Qed.

(* a history with two write-outs and three live queries *)
Definition ex_ops : list op :=
  [ OPkt (lkey_of (mkEntry (ex_f [10; 0; 0; 1] [10; 0; 0; 9] 443 6) 40000 c0)) false 100;
    OLive ex_sel None; ORot; OLive ex_sel None;
    OPkt (lkey_of (mkEntry (ex_f (ex_v6 1) (ex_v6 2) 53 17) 0 c0)) true 80;
    OLive (mkSel false false true true) ex_cond; ORot ].
Example c29_readonly_example :
  match run ex_ops [] with
  | Ok (l, ws, qs) => (length l, length ws, length qs, forallb (fun q => is_ok q) qs)
  | _ => (0, 0, 0, false)%nat
  end = (1, 2, 3, true)%nat.
Proof. vm_compute. reflexivity. Qed.
