(* C29 proofs, part 2: key bytes - Aggregate's key, projectKey, row materialisation. *)
From Coq Require Import List ZArith NArith Bool Lia.
From Coq Require Import ZifyBool ZifyNat ZifyN.
From GoProbe.Base Require Import CorrLib.
From GoProbe.C09 Require Import Model ProofsSweep ProofsBytes ProofsLeaf.
From GoProbe.C29 Require Import Model.
Import ListNotations.
Open Scope N_scope.

Ltac Zify.zify_post_hook ::= Z.div_mod_to_equations.

Lemma ipw_cases : forall b, ipw b = 4%nat \/ ipw b = 16%nat.
Proof. intros []; cbn; auto. Qed.

(* ------------------------------------------------------------------ the key decodes to the flow *)
Lemma nth_app_at : forall (a b : bytes) n d, length a = n -> nth n (a ++ b) d = nth 0 b d.
Proof. intros a b n d H. rewrite app_nth2 by lia. rewrite H, Nat.sub_diag. reflexivity. Qed.

Lemma flow_of_key_key_of : forall f, wf_flow f = true -> flow_of_key (key_of f) = f.
Proof.
  intros f H. destruct (wf_flow_parts f H) as (Hs & Hd & _ & _ & Hp & _).
  unfold flow_of_key. rewrite (key_len f H).
  assert (Hv : ((2 * ipw (f_v4 f) + 3 =? 11)%nat) = f_v4 f) by (destruct (f_v4 f); reflexivity).
  rewrite Hv. destruct f as [v4 sip dip dport proto]. cbn [f_v4 f_sip f_dip f_dport f_proto] in *.
  unfold key_of. cbn [f_v4 f_sip f_dip f_dport f_proto]. f_equal.
  - apply firstn_app_len. exact Hs.
  - rewrite (skipn_app_len _ _ _ Hs). apply firstn_app_len. exact Hd.
  - rewrite app_assoc.
    rewrite (nth_app_at (sip ++ dip)) by (rewrite app_length; lia).
    replace (2 * ipw v4 + 1)%nat with (S (2 * ipw v4)) by lia.
    change ([dport / 256; dport mod 256] ++ [proto]) with ((dport / 256) :: ([dport mod 256] ++ [proto])).
    rewrite app_nth2 by (rewrite app_length; lia).
    replace (S (2 * ipw v4) - length (sip ++ dip))%nat with 1%nat by (rewrite app_length; lia).
    cbn [nth app]. lia.
  - rewrite app_assoc, app_assoc.
    rewrite (nth_app_at ((sip ++ dip) ++ [dport / 256; dport mod 256])) by (rewrite !app_length; cbn [length]; lia).
    reflexivity.
Qed.

Lemma key_of_inj : forall f1 f2, wf_flow f1 = true -> wf_flow f2 = true -> key_of f1 = key_of f2 -> f1 = f2.
Proof.
  intros f1 f2 H1 H2 E. rewrite <- (flow_of_key_key_of f1 H1), <- (flow_of_key_key_of f2 H2), E. reflexivity.
Qed.

(* ------------------------------------------------------------------ FlowLog.Aggregate: the key without source port *)
Lemma wf_entry_parts : forall e, wf_entry e = true ->
  wf_flow (e_flow e) = true /\ e_sport e < 65536 /\ c_ok (e_c e) = true.
Proof.
  intros e H. unfold wf_entry in H. rewrite !andb_true_iff, N.ltb_lt in H. tauto.
Qed.

Lemma agg_key_lkey_of : forall e, wf_entry e = true -> agg_key (lkey_of e) = Ok (key_of (e_flow e)).
Proof.
  intros e H. destruct (wf_entry_parts e H) as (Hf & _ & _).
  destruct (wf_flow_parts _ Hf) as (Hs & Hd & _).
  unfold agg_key, lkey_of, key_of. set (f := e_flow e) in *.
  set (sp := [e_sport e / 256; e_sport e mod 256]). set (rest := [f_dport f / 256; f_dport f mod 256] ++ [f_proto f]).
  assert (Lsp : length sp = 2%nat) by reflexivity. assert (Lr : length rest = 3%nat) by reflexivity.
  assert (Ll : length (f_sip f ++ sp ++ f_dip f ++ rest) = (2 * ipw (f_v4 f) + 5)%nat).
  { rewrite !app_length, Hs, Hd, Lsp, Lr. generalize (ipw (f_v4 f)). clear. intro n. lia. }
  rewrite Ll. destruct (f_v4 f) eqn:V; cbn [ipw] in *.
  - cbn [Nat.eqb Nat.mul Nat.add]. f_equal.
    rewrite (firstn_app_len _ _ 4%nat Hs). f_equal.
    rewrite (app_assoc (f_sip f) sp). rewrite skipn_app_len by (rewrite app_length, Hs, Lsp; reflexivity).
    apply firstn_all2. rewrite app_length, Hd, Lr. cbn. lia.
  - cbn [Nat.eqb Nat.mul Nat.add]. f_equal.
    rewrite (firstn_app_len _ _ 16%nat Hs). f_equal.
    rewrite (app_assoc (f_sip f) sp). rewrite skipn_app_len by (rewrite app_length, Hs, Lsp; reflexivity).
    apply firstn_all2. rewrite app_length, Hd, Lr. cbn. lia.
Qed.

(* ------------------------------------------------------------------ projectKey *)
(* the flow whose key projectKey builds *)
Definition pflow (s : selection) (f : flow) : flow :=
  let v4 := f_v4 f || negb (s_sip s || s_dip s) in
  {| f_v4 := v4;
     f_sip := if s_sip s then f_sip f else zeros (ipw v4);
     f_dip := if s_dip s then f_dip f else zeros (ipw v4);
     f_dport := if s_dport s then f_dport f else 0;
     f_proto := if s_proto s then f_proto f else 0 |}.

Lemma zeros_len : forall n, length (zeros n) = n.
Proof. intro n. apply repeat_length. Qed.
Lemma zeros_ok : forall n, forallb byte_ok (zeros n) = true.
Proof. induction n; cbn; auto. Qed.

Lemma pflow_wf : forall s f, wf_flow f = true -> wf_flow (pflow s f) = true.
Proof.
  intros s f H. destruct (wf_flow_parts f H) as (Hs & Hd & Bs & Bd & Hp & Hq).
  unfold wf_flow, pflow. cbn [f_v4 f_sip f_dip f_dport f_proto].
  rewrite !andb_true_iff. repeat split.
  - destruct (s_sip s); cbn [orb negb]; [rewrite orb_false_r; apply Nat.eqb_eq, Hs | apply Nat.eqb_eq, zeros_len].
  - destruct (s_dip s); [|apply Nat.eqb_eq, zeros_len].
    rewrite orb_true_r. cbn [negb]. rewrite orb_false_r. apply Nat.eqb_eq, Hd.
  - destruct (s_sip s); [exact Bs | apply zeros_ok].
  - destruct (s_dip s); [exact Bd | apply zeros_ok].
  - destruct (s_dport s); apply N.ltb_lt; [exact Hp | reflexivity].
  - destruct (s_proto s); apply N.ltb_lt; [exact Hq | reflexivity].
Qed.

Lemma project_key_key_of : forall s f, wf_flow f = true ->
  project_key s (key_of f) = Ok (key_of (pflow s f)).
Proof.
  intros s f H. unfold project_key.
  rewrite (key_v4_key_of f H), (get_sip_key_of f H), (get_dip_key_of f H),
          (get_dport_key_of f H), (get_proto_key_of f H).
  cbn [bind res_bind]. f_equal. unfold key_of, pflow. cbn [f_v4 f_sip f_dip f_dport f_proto].
  destruct (s_dport s); reflexivity.
Qed.

(* the projected key only depends on the selected attributes *)
Lemma pflow_project : forall s f1 f2, wf_flow f1 = true -> wf_flow f2 = true ->
  project s f1 = project s f2 -> pflow s f1 = pflow s f2.
Proof.
  intros s f1 f2 H1 H2 E.
  destruct (wf_flow_parts f1 H1) as (Hs1 & Hd1 & _). destruct (wf_flow_parts f2 H2) as (Hs2 & Hd2 & _).
  unfold project in E. unfold pflow.
  assert (V : f_v4 f1 || negb (s_sip s || s_dip s) = f_v4 f2 || negb (s_sip s || s_dip s)).
  { destruct (s_sip s) eqn:Ss; [|destruct (s_dip s) eqn:Sd].
    - cbn [orb negb]. rewrite !orb_false_r. apply ipw_inj. inversion E as [Es]. rewrite <- Hs1, <- Hs2, Es. reflexivity.
    - cbn [orb negb]. rewrite !orb_false_r. apply ipw_inj. inversion E as [Ed]. rewrite <- Hd1, <- Hd2, Ed. reflexivity.
    - cbn [orb negb]. rewrite !orb_true_r. reflexivity. }
  rewrite V. destruct (s_sip s), (s_dip s), (s_dport s), (s_proto s); inversion E; subst; congruence.
Qed.

(* ------------------------------------------------------------------ rows *)
Lemma be2 : forall p, p < 65536 -> be [p / 256; p mod 256] = p.
Proof. intros p H. unfold be. cbn [fold_left]. lia. Qed.

Lemma mat_key_pflow : forall s f, wf_flow f = true -> mat_key s (key_of (pflow s f)) = Ok (project s f).
Proof.
  intros s f H. pose proof (pflow_wf s f H) as Hp. unfold mat_key.
  rewrite (key_len _ Hp).
  set (g := pflow s f) in *.
  assert (Hb : firstn (if f_v4 g then 11 else 35)%nat (key_of g) = key_of g).
  { apply firstn_all2. rewrite (key_len _ Hp). destruct (f_v4 g); cbn; lia. }
  destruct (f_v4 g) eqn:V; cbn [ipw Nat.mul Nat.add Nat.eqb orb bind res_bind] in *; rewrite Hb;
    rewrite (get_sip_key_of g Hp), (get_dip_key_of g Hp), (get_dport_key_of g Hp), (get_proto_key_of g Hp);
    cbn [bind res_bind]; f_equal; unfold project, g, pflow; cbn [f_sip f_dip f_dport f_proto];
    destruct (wf_flow_parts f H) as (_ & _ & _ & _ & Hq & _);
    destruct (s_sip s), (s_dip s), (s_dport s), (s_proto s); rewrite ?be2 by assumption; reflexivity.
Qed.

(* equality tests reflect equality *)
Lemma opt_eqb_eq : forall {A} (eq : A -> A -> bool), (forall a b, eq a b = true <-> a = b) ->
  forall a b, opt_eqb eq a b = true <-> a = b.
Proof.
  intros A eq He [a|] [b|]; cbn; try (split; intro; congruence).
  rewrite He. split; intro; congruence.
Qed.

Lemma rowkey_eqb_eq : forall a b, rowkey_eqb a b = true <-> a = b.
Proof.
  intros [[[[t1 s1] d1] p1] r1] [[[[t2 s2] d2] p2] r2]. unfold rowkey_eqb.
  rewrite !andb_true_iff, N.eqb_eq, !(opt_eqb_eq bytes_eqb bytes_eqb_eq), !(opt_eqb_eq N.eqb N.eqb_eq).
  split; [intros [[[[? ?] ?] ?] ?]; subst; reflexivity | intro E; inversion E; auto].
Qed.

Lemma eqb_of_iff : forall {A B} (e1 : A -> A -> bool) (e2 : B -> B -> bool) a1 a2 b1 b2,
  (forall x y, e1 x y = true <-> x = y) -> (forall x y, e2 x y = true <-> x = y) ->
  (a1 = a2 <-> b1 = b2) -> e2 b1 b2 = e1 a1 a2.
Proof.
  intros A B e1 e2 a1 a2 b1 b2 H1 H2 E.
  destruct (e1 a1 a2) eqn:X, (e2 b1 b2) eqn:Y; auto.
  - apply H1, E, H2 in X. congruence.
  - apply H2, E, H1 in Y. congruence.
Qed.
