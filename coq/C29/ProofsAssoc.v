(* C29 proofs, part 1: association lists with SetOrUpdate / Merge, wrapping counters. *)
From Coq Require Import List ZArith NArith Bool Lia Permutation.
From Coq Require Import ZifyBool ZifyNat ZifyN.
From GoProbe.Base Require Import CorrLib.
From GoProbe.C09 Require Import Model.
From GoProbe.C29 Require Import Model.
Import ListNotations.
Open Scope N_scope.

Ltac Zify.zify_post_hook ::= Z.div_mod_to_equations.

(* ------------------------------------------------------------------ counters *)
Definition radd (a b : counters) : counters :=
  let '(a1, a2, a3, a4) := a in let '(b1, b2, b3, b4) := b in (a1 + b1, a2 + b2, a3 + b3, a4 + b4).
Definition cnorm (a : counters) : counters :=
  let '(a1, a2, a3, a4) := a in (a1 mod M64, a2 mod M64, a3 mod M64, a4 mod M64).
Definition rsum (l : list counters) : counters := fold_right radd c0 l.

Lemma M64_pos : M64 <> 0. Proof. discriminate. Qed.

Lemma c_ok_lt : forall a b x y, c_ok (a, b, x, y) = true <-> a < M64 /\ b < M64 /\ x < M64 /\ y < M64.
Proof. intros. unfold c_ok. rewrite !andb_true_iff, !N.ltb_lt. tauto. Qed.

Lemma add64_lt : forall x y, add64 x y < M64.
Proof. intros. unfold add64. apply N.mod_lt. exact M64_pos. Qed.

Lemma cadd_ok : forall a b, c_ok (cadd a b) = true.
Proof. intros [[[a1 a2] a3] a4] [[[b1 b2] b3] b4]. cbn [cadd]. apply c_ok_lt. repeat split; apply add64_lt. Qed.

Lemma cnorm_ok : forall a, c_ok a = true -> cnorm a = a.
Proof.
  intros [[[a1 a2] a3] a4] H. apply c_ok_lt in H. destruct H as (H1 & H2 & H3 & H4).
  cbn [cnorm]. rewrite !N.mod_small by assumption. reflexivity.
Qed.

Lemma cadd_norm : forall a b, cadd a b = cnorm (radd a b).
Proof. intros [[[a1 a2] a3] a4] [[[b1 b2] b3] b4]. reflexivity. Qed.

Lemma mod_add_l : forall a b, (a mod M64 + b) mod M64 = (a + b) mod M64.
Proof. intros. apply N.add_mod_idemp_l. exact M64_pos. Qed.
Lemma mod_add_r : forall a b, (a + b mod M64) mod M64 = (a + b) mod M64.
Proof. intros. apply N.add_mod_idemp_r. exact M64_pos. Qed.

Lemma cnorm_radd_l : forall a b, cnorm (radd (cnorm a) b) = cnorm (radd a b).
Proof. intros [[[a1 a2] a3] a4] [[[b1 b2] b3] b4]. cbn [cnorm radd]. rewrite !mod_add_l. reflexivity. Qed.
Lemma cnorm_radd_r : forall a b, cnorm (radd a (cnorm b)) = cnorm (radd a b).
Proof. intros [[[a1 a2] a3] a4] [[[b1 b2] b3] b4]. cbn [cnorm radd]. rewrite !mod_add_r. reflexivity. Qed.

Lemma radd_assoc : forall a b c, radd (radd a b) c = radd a (radd b c).
Proof. intros [[[a1 a2] a3] a4] [[[b1 b2] b3] b4] [[[d1 d2] d3] d4]. cbn [radd]. rewrite !N.add_assoc. reflexivity. Qed.
Lemma radd_comm : forall a b, radd a b = radd b a.
Proof.
  intros [[[a1 a2] a3] a4] [[[b1 b2] b3] b4]. cbn [radd].
  rewrite (N.add_comm a1), (N.add_comm a2), (N.add_comm a3), (N.add_comm a4). reflexivity.
Qed.
Lemma radd_0_r : forall a, radd a c0 = a.
Proof. intros [[[a1 a2] a3] a4]. cbn [radd c0]. rewrite !N.add_0_r. reflexivity. Qed.
Lemma radd_0_l : forall a, radd c0 a = a.
Proof. intros [[[a1 a2] a3] a4]. reflexivity. Qed.

Lemma rsum_app : forall a b, rsum (a ++ b) = radd (rsum a) (rsum b).
Proof.
  induction a as [|x a IH]; intro b; cbn [app rsum fold_right].
  - rewrite radd_0_l. reflexivity.
  - fold (rsum (a ++ b)). fold (rsum a). rewrite IH, radd_assoc. reflexivity.
Qed.

(* ------------------------------------------------------------------ maps *)
Section AssocProofs.
  Context {K : Type} (keq : K -> K -> bool).
  Hypothesis keq_eq : forall a b, keq a b = true <-> a = b.

  Lemma keq_refl : forall a, keq a a = true.
  Proof. intro a. apply keq_eq. reflexivity. Qed.

  Definition vals (h : K -> bool) (m : list (K * counters)) : list counters :=
    map snd (filter (fun kc => h (fst kc)) m).
  (* the (wrapped) sum of the counters stored under the keys satisfying h *)
  Definition nsumh (h : K -> bool) (m : list (K * counters)) : counters := cnorm (rsum (vals h m)).

  Definition all_ok (m : list (K * counters)) : Prop := Forall (fun kc => c_ok (snd kc) = true) m.

  Lemma vals_cons : forall h k c m, vals h ((k, c) :: m) = if h k then c :: vals h m else vals h m.
  Proof. intros. unfold vals. cbn [filter fst]. destruct (h k); reflexivity. Qed.

  Lemma vals_app : forall h a b, vals h (a ++ b) = vals h a ++ vals h b.
  Proof. intros. unfold vals. rewrite filter_app, map_app. reflexivity. Qed.

  (* --- keys *)
  Lemma upsert_keys : forall m k c x, In x (map fst (upsert keq m k c)) <-> In x (map fst m) \/ x = k.
  Proof.
    induction m as [|[k' c'] m IH]; intros k c x; cbn [upsert map fst In].
    - split; [intros [H|[]]; auto | intros [[]|H]; auto].
    - destruct (keq k' k) eqn:E; cbn [map fst In].
      + apply keq_eq in E. subst. intuition congruence.
      + rewrite IH. intuition congruence.
  Qed.

  Lemma upsert_nodup : forall m k c, NoDup (map fst m) -> NoDup (map fst (upsert keq m k c)).
  Proof.
    induction m as [|[k' c'] m IH]; intros k c H; cbn [upsert map fst].
    - constructor; [intros [] | constructor].
    - inversion H as [|? ? Hn Hd]; subst. destruct (keq k' k) eqn:E; cbn [map fst].
      + constructor; assumption.
      + constructor; [|apply IH; assumption].
        rewrite upsert_keys. intros [Hi|He]; [contradiction|].
        subst. rewrite keq_refl in E. discriminate.
  Qed.

  Lemma upsert_ok : forall m k c, all_ok m -> c_ok c = true -> all_ok (upsert keq m k c).
  Proof.
    induction m as [|[k' c'] m IH]; intros k c H Hc; cbn [upsert].
    - constructor; [exact Hc | constructor].
    - inversion H; subst. destruct (keq k' k); constructor; cbn [snd]; auto.
      + apply cadd_ok.
      + apply IH; assumption.
  Qed.

  (* --- sums: SetOrUpdate adds c to the total of every key class containing k *)
  Lemma nsumh_upsert : forall h m k c,
    nsumh h (upsert keq m k c) = cnorm (radd (rsum (vals h m)) (if h k then c else c0)).
  Proof.
    intros h. induction m as [|[k' c'] m IH]; intros k c; cbn [upsert].
    - unfold nsumh. rewrite vals_cons. cbn [vals map filter rsum fold_right].
      destruct (h k); cbn [rsum fold_right]; rewrite ?radd_0_r, ?radd_0_l; reflexivity.
    - destruct (keq k' k) eqn:E.
      + apply keq_eq in E. subst k'. unfold nsumh. rewrite !vals_cons.
        destruct (h k); [|rewrite radd_0_r; reflexivity].
        cbn [rsum fold_right]. fold (rsum (vals h m)).
        rewrite cadd_norm, cnorm_radd_l.
        rewrite (radd_comm (radd c' (rsum (vals h m))) c), <- radd_assoc, (radd_comm c c'). reflexivity.
      + unfold nsumh in *. rewrite !vals_cons. destruct (h k').
        * cbn [rsum fold_right]. fold (rsum (vals h (upsert keq m k c))). fold (rsum (vals h m)).
          rewrite <- cnorm_radd_r, IH, cnorm_radd_r, radd_assoc. reflexivity.
        * apply IH.
  Qed.

  Lemma merge_cons : forall m k c item, merge keq m ((k, c) :: item) = merge keq (upsert keq m k c) item.
  Proof. reflexivity. Qed.
  Lemma merge_nil : forall m, merge keq m [] = m.
  Proof. reflexivity. Qed.

  Lemma merge_keys : forall item m x,
    In x (map fst (merge keq m item)) <-> In x (map fst m) \/ In x (map fst item).
  Proof.
    induction item as [|[k c] item IH]; intros m x.
    - rewrite merge_nil. cbn [map In]. tauto.
    - rewrite merge_cons, IH, upsert_keys. cbn [map fst In]. intuition (subst; auto).
  Qed.

  Lemma merge_nodup : forall item m, NoDup (map fst m) -> NoDup (map fst (merge keq m item)).
  Proof.
    induction item as [|[k c] item IH]; intros m H; [exact H|].
    rewrite merge_cons. apply IH, upsert_nodup, H.
  Qed.

  Lemma merge_ok : forall item m, all_ok m -> all_ok item -> all_ok (merge keq m item).
  Proof.
    induction item as [|[k c] item IH]; intros m H Hi; [exact H|].
    rewrite merge_cons. inversion Hi; subst. apply IH; [apply upsert_ok|]; assumption.
  Qed.

  Lemma nsumh_merge : forall h item m,
    nsumh h (merge keq m item) = cnorm (radd (rsum (vals h m)) (rsum (vals h item))).
  Proof.
    intros h. induction item as [|[k c] item IH]; intros m.
    - rewrite merge_nil. cbn [vals filter map rsum fold_right]. rewrite radd_0_r. reflexivity.
    - rewrite merge_cons, IH.
      rewrite <- cnorm_radd_l. fold (nsumh h (upsert keq m k c)). rewrite nsumh_upsert, cnorm_radd_l.
      rewrite vals_cons. destruct (h k).
      + cbn [rsum fold_right]. fold (rsum (vals h item)). rewrite radd_assoc. reflexivity.
      + rewrite radd_0_r. reflexivity.
  Qed.

  Lemma nsumh_group : forall h l, nsumh h (group_sum keq l) = nsumh h l.
  Proof. intros. unfold group_sum. rewrite nsumh_merge. cbn [vals filter map rsum fold_right]. rewrite radd_0_l. reflexivity. Qed.

  (* in a map with unique keys the total of a key is the value stored *)
  Lemma vals_not_in : forall m k, ~ In k (map fst m) -> vals (keq k) m = [].
  Proof.
    induction m as [|[k' c'] m IH]; intros k H; [reflexivity|].
    rewrite vals_cons. destruct (keq k k') eqn:E.
    - apply keq_eq in E. subst. exfalso. apply H. left. reflexivity.
    - apply IH. intro Hi. apply H. right. exact Hi.
  Qed.

  Lemma nodup_total : forall m k c, NoDup (map fst m) -> In (k, c) m -> c_ok c = true -> nsumh (keq k) m = c.
  Proof.
    induction m as [|[k' c'] m IH]; intros k c Hn Hi Hc; [destruct Hi|].
    cbn [map fst] in Hn. inversion Hn as [|? ? Hnot Hd]; subst. unfold nsumh. rewrite vals_cons.
    destruct Hi as [He|Hi].
    - inversion He; subst. rewrite keq_refl, (vals_not_in m k Hnot). cbn [rsum fold_right].
      rewrite radd_0_r. apply cnorm_ok, Hc.
    - destruct (keq k k') eqn:E.
      + apply keq_eq in E. subst. exfalso. apply Hnot. apply in_map_iff. exists (k', c). auto.
      + apply IH; assumption.
  Qed.

  (* --- a map described by its key set and the value under each key *)
  Definition describes (m : list (K * counters)) (keys : list K) (val : K -> counters) : Prop :=
    NoDup (map fst m) /\ all_ok m /\ (forall k, In k (map fst m) <-> In k keys)
    /\ (forall k c, In (k, c) m -> c = val k).

  Lemma group_describes : forall l, all_ok l ->
    describes (group_sum keq l) (map fst l) (fun k => nsumh (keq k) l).
  Proof.
    intros l Hl. unfold group_sum. split; [|split; [|split]].
    - apply merge_nodup. constructor.
    - apply merge_ok; [constructor | exact Hl].
    - intro k. rewrite merge_keys. cbn [map In]. tauto.
    - intros k c Hi. rewrite <- (nsumh_group (keq k) l). symmetry. apply nodup_total.
      + apply merge_nodup. constructor.
      + exact Hi.
      + assert (Ha : all_ok (merge keq [] l)) by (apply merge_ok; [constructor | exact Hl]).
        unfold all_ok in Ha. rewrite Forall_forall in Ha. apply (Ha (k, c) Hi).
  Qed.

  Lemma nodup_pairs : forall m : list (K * counters), NoDup (map fst m) -> NoDup m.
  Proof.
    induction m as [|[k c] m IH]; intro H; [constructor|].
    cbn [map fst] in H. inversion H; subst. constructor; [|apply IH; assumption].
    intro Hi. apply H2. apply in_map_iff. exists (k, c). auto.
  Qed.

  Lemma describes_perm : forall m1 m2 keys1 keys2 val1 val2,
    describes m1 keys1 val1 -> describes m2 keys2 val2 ->
    (forall k, In k keys1 <-> In k keys2) -> (forall k, In k keys1 -> val1 k = val2 k) ->
    Permutation m1 m2.
  Proof.
    intros m1 m2 keys1 keys2 val1 val2 (N1 & _ & K1 & V1) (N2 & _ & K2 & V2) HK HV.
    apply NoDup_Permutation; [apply nodup_pairs, N1 | apply nodup_pairs, N2 |].
    intros [k c]. split; intro Hi.
    - assert (Hk : In k (map fst m2)).
      { apply K2, HK, K1. apply in_map_iff. exists (k, c). auto. }
      apply in_map_iff in Hk. destruct Hk as [[k' c'] [Hf Hi']]. cbn [fst] in Hf. subst k'.
      rewrite (V1 _ _ Hi), HV, <- (V2 _ _ Hi'); [exact Hi'|].
      apply K1. apply in_map_iff. exists (k, c). auto.
    - assert (Hk : In k (map fst m1)).
      { apply K1, HK, K2. apply in_map_iff. exists (k, c). auto. }
      apply in_map_iff in Hk. destruct Hk as [[k' c'] [Hf Hi']]. cbn [fst] in Hf. subst k'.
      rewrite (V2 _ _ Hi), <- HV, <- (V1 _ _ Hi'); [exact Hi'|].
      apply K1. apply in_map_iff. exists (k, c'). auto.
  Qed.
End AssocProofs.

(* renaming the keys by a function that is injective on the keys in use commutes with grouping *)
Section Rename.
  Context {K1 K2 : Type} (eq1 : K1 -> K1 -> bool) (eq2 : K2 -> K2 -> bool) (g : K1 -> K2) (P : K1 -> Prop).
  Hypothesis g_eq : forall a b, P a -> P b -> eq2 (g a) (g b) = eq1 a b.

  Definition ren (kc : K1 * counters) : K2 * counters := (g (fst kc), snd kc).

  Lemma upsert_rename : forall m k c, Forall (fun kc => P (fst kc)) m -> P k ->
    map ren (upsert eq1 m k c) = upsert eq2 (map ren m) (g k) c.
  Proof.
    induction m as [|[k' c'] m IH]; intros k c Hm Hk; [reflexivity|].
    inversion Hm; subst. cbn [upsert map ren fst snd]. rewrite g_eq by assumption.
    destruct (eq1 k' k); cbn [map ren fst snd]; [reflexivity|]. f_equal. apply IH; assumption.
  Qed.

  Lemma upsert_P : forall m k c, Forall (fun kc => P (fst kc)) m -> P k ->
    Forall (fun kc => P (fst kc)) (upsert eq1 m k c).
  Proof.
    induction m as [|[k' c'] m IH]; intros k c Hm Hk; cbn [upsert].
    - constructor; [exact Hk | constructor].
    - inversion Hm; subst. destruct (eq1 k' k); constructor; auto.
  Qed.

  Lemma merge_rename : forall item m, Forall (fun kc => P (fst kc)) m -> Forall (fun kc => P (fst kc)) item ->
    map ren (merge eq1 m item) = merge eq2 (map ren m) (map ren item).
  Proof.
    induction item as [|[k c] item IH]; intros m Hm Hi; [reflexivity|].
    inversion Hi; subst. cbn [map].
    change (ren (k, c)) with (g k, c).
    rewrite (merge_cons eq1), (merge_cons eq2). rewrite <- upsert_rename by assumption.
    apply IH; [apply upsert_P|]; assumption.
  Qed.

  Lemma group_rename : forall l, Forall (fun kc => P (fst kc)) l ->
    map ren (group_sum eq1 l) = group_sum eq2 (map ren l).
  Proof. intros l H. unfold group_sum. apply (merge_rename l []); [constructor | exact H]. Qed.
End Rename.
