(* C29 proofs, part 3: the live query pipeline. *)
From Coq Require Import List ZArith NArith Bool Lia Permutation.
From GoProbe.Base Require Import CorrLib.
From GoProbe.C09 Require Import Model ProofsSweep ProofsBytes ProofsLeaf ProofsTree.
From GoProbe.C29 Require Import Model ProofsAssoc ProofsKeys.
Import ListNotations.
Open Scope N_scope.

Notation beq := bytes_eqb.
Notation beq_eq := bytes_eqb_eq.

(* ------------------------------------------------------------------ read-only: every flow log *)
Lemma aggregate_h_log : forall log agg a log', aggregate_h log agg = Ok (a, log') -> log' = log.
Proof.
  induction log as [|[lk c] log IH]; intros agg a log' H; cbn [aggregate_h] in H.
  - inversion H. reflexivity.
  - destruct (if is_idle c then Ok agg else bind (agg_key lk) (fun k => Ok (upsert beq agg k c))) as [agg'| |];
      cbn [bind res_bind] in H; try discriminate.
    destruct (aggregate_h log agg') as [[a' l']| |] eqn:E; cbn [bind res_bind fst snd] in H; try discriminate.
    inversion H; subst. f_equal. eapply IH. exact E.
Qed.

Lemma live_item_log : forall s oc log it log', live_item s oc log = Ok (it, log') -> log' = log.
Proof.
  intros s oc log it log' H. unfold live_item in H. destruct log as [|e log]; [inversion H; reflexivity|].
  destruct (aggregate_h (e :: log) []) as [[a l]| |] eqn:E; cbn [bind res_bind fst snd] in H; try discriminate.
  destruct (live_filter s oc a); cbn [bind res_bind] in H; try discriminate.
  inversion H; subst. eapply aggregate_h_log. exact E.
Qed.

Lemma live_query_log : forall s c log pre post rs log',
  live_query s c log pre post = Ok (rs, log') -> log' = log.
Proof.
  intros s c log pre post rs log' H. unfold live_query in H.
  destruct (prepare_opt c) as [oc| |]; cbn [bind res_bind] in H; try discriminate.
  destruct (live_item s oc log) as [[it l]| |] eqn:E; cbn [bind res_bind fst snd] in H; try discriminate.
  destruct (materialise s _); cbn [bind res_bind] in H; try discriminate.
  inversion H; subst. eapply live_item_log. exact E.
Qed.

Definition erase (ops : list op) : list op := filter (fun o => negb (is_live o)) ops.

Lemma run_erase : forall ops log l ws qs,
  run ops log = Ok (l, ws, qs) -> run (erase ops) log = Ok (l, ws, []).
Proof.
  induction ops as [|o ops IH]; intros log l ws qs H.
  - cbn in H. inversion H. reflexivity.
  - destruct o as [k out size|k c| |s c]; cbn [erase filter is_live negb run] in *; fold (erase ops).
    + eapply IH. exact H.
    + eapply IH. exact H.
    + destruct (rotate log) as [[w l1]| |]; cbn [bind res_bind fst snd] in *; try discriminate.
      destruct (run ops l1) as [[[l2 ws2] qs2]| |] eqn:E; cbn [bind res_bind] in H; try discriminate.
      inversion H; subst. rewrite (IH _ _ _ _ E). reflexivity.
    + destruct (live_query s c log [] []) as [[rs log']| |] eqn:Q; try discriminate.
      * apply live_query_log in Q. subst log'.
        destruct (run ops log) as [[[l2 ws2] qs2]| |] eqn:E; cbn [bind res_bind] in H; try discriminate.
        inversion H; subst. eapply IH. exact E.
      * destruct (run ops log) as [[[l2 ws2] qs2]| |] eqn:E; cbn [bind res_bind] in H; try discriminate.
        inversion H; subst. eapply IH. exact E.
Qed.

(* ------------------------------------------------------------------ Aggregate on well-formed entries *)
Definition active (e : entry) : bool := negb (is_idle (e_c e)).
(* the non-idle flows under their key without source port *)
Definition kl (es : list entry) : list (bytes * counters) :=
  map (fun e => (key_of (e_flow e), e_c e)) (filter active es).

Definition wf_entries (es : list entry) : Prop := Forall (fun e => wf_entry e = true) es.

Lemma aggregate_h_ok : forall es agg, wf_entries es ->
  aggregate_h (log_of es) agg = Ok (merge beq agg (kl es), log_of es).
Proof.
  induction es as [|e es IH]; intros agg H; [reflexivity|].
  inversion H as [|? ? He Hes]; subst. cbn [log_of map aggregate_h]. fold (log_of es).
  unfold kl. cbn [filter]. unfold active at 1. destruct (is_idle (e_c e)); cbn [negb bind res_bind].
  - fold (kl es). rewrite (IH agg Hes). reflexivity.
  - rewrite (agg_key_lkey_of e He). cbn [bind res_bind map]. fold (kl es).
    rewrite (IH _ Hes). cbn [bind res_bind fst snd]. rewrite merge_cons. reflexivity.
Qed.

Definition Pk (k : bytes) : Prop := exists f, wf_flow f = true /\ k = key_of f.

Lemma kl_P : forall es, wf_entries es -> Forall (fun kc => Pk (fst kc)) (kl es).
Proof.
  intros es H. unfold kl. apply Forall_forall. intros [k c] Hi. apply in_map_iff in Hi.
  destruct Hi as [e [E Hi]]. inversion E; subst. apply filter_In in Hi. destruct Hi as [Hi _].
  unfold wf_entries in H. rewrite Forall_forall in H. exists (e_flow e). split; [|reflexivity].
  apply (wf_entry_parts e (H e Hi)).
Qed.

Lemma kl_ok : forall es, wf_entries es -> all_ok (kl es).
Proof.
  intros es H. unfold kl, all_ok. apply Forall_forall. intros [k c] Hi. apply in_map_iff in Hi.
  destruct Hi as [e [E Hi]]. inversion E; subst. apply filter_In in Hi. destruct Hi as [Hi _].
  unfold wf_entries in H. rewrite Forall_forall in H. apply (wf_entry_parts e (H e Hi)).
Qed.

Lemma merge_P : forall (P : bytes -> Prop) item m, Forall (fun kc => P (fst kc)) m -> Forall (fun kc => P (fst kc)) item ->
  Forall (fun kc => P (fst kc)) (merge beq m item).
Proof.
  intros P. induction item as [|[k c] item IH]; intros m Hm Hi; [exact Hm|].
  inversion Hi; subst. rewrite merge_cons. apply IH; [|assumption]. apply (upsert_P beq P); assumption.
Qed.

(* ------------------------------------------------------------------ QueryFilter *)
Definition pk (s : selection) (k : bytes) : bytes := key_of (pflow s (flow_of_key k)).
Definition semk (c : option cond) (k : bytes) : bool := sem_opt c (flow_of_key k).

Lemma prepare_opt_inv : forall c oc, prepare_opt c = Ok oc ->
  (c = None /\ oc = None) \/ (exists cd ic, c = Some cd /\ oc = Some ic /\ prepare cd = Ok ic).
Proof.
  intros [cd|] oc H; cbn [prepare_opt] in H.
  - destruct (prepare cd) as [ic| |] eqn:E; cbn [bind res_bind] in H; try discriminate.
    inversion H; subst. right. exists cd, ic. auto.
  - inversion H. left. auto.
Qed.

Lemma eval_opt : forall c oc f, wf_cond_opt c = true -> prepare_opt c = Ok oc -> wf_flow f = true ->
  match oc with None => Ok (true, key_of f) | Some ic => eval ic (key_of f) end = Ok (sem_opt c f, key_of f).
Proof.
  intros c oc f Wc Hp Wf. destruct (prepare_opt_inv c oc Hp) as [[-> ->]|(cd & ic & -> & -> & Hc)].
  - reflexivity.
  - cbn [sem_opt]. apply prepare_correct; assumption.
Qed.

Lemma filter_h_ok : forall s c oc, wf_cond_opt c = true -> prepare_opt c = Ok oc ->
  forall A out, Forall (fun kc => Pk (fst kc)) A ->
  filter_h s oc A out
  = Ok (merge beq out (map (fun kc => (pk s (fst kc), snd kc)) (filter (fun kc => semk c (fst kc)) A))).
Proof.
  intros s c oc Wc Hp. induction A as [|[k v] A IH]; intros out HA; [reflexivity|].
  inversion HA as [|? ? [f [Wf Ek]] HA']; subst. cbn [fst] in *. subst k.
  cbn [filter_h].
  match goal with |- bind ?X _ = _ =>
    assert (EX : X = Ok (sem_opt c f, key_of f)) by (exact (eval_opt c oc f Wc Hp Wf)); rewrite EX end.
  cbn [bind res_bind fst snd filter].
  unfold semk at 1. rewrite (flow_of_key_key_of f Wf).
  destruct (sem_opt c f).
  - rewrite (project_key_key_of s f Wf). cbn [bind res_bind map fst snd].
    unfold pk at 1. rewrite (flow_of_key_key_of f Wf). rewrite merge_cons. apply IH. exact HA'.
  - apply IH. exact HA'.
Qed.

(* the selected flows under their projected key *)
Definition L3 (s : selection) (c : option cond) (es : list entry) : list (bytes * counters) :=
  map (fun e => (key_of (pflow s (e_flow e)), e_c e)) (filter (selected c) es).

Lemma pflow_all : forall s f, sel_all s = true -> wf_flow f = true -> pflow s f = f.
Proof.
  intros s f Hs Wf. unfold sel_all in Hs. rewrite !andb_true_iff in Hs. destruct Hs as [[[S1 S2] S3] S4].
  unfold pflow. rewrite S1, S2, S3, S4. cbn [orb negb]. rewrite orb_false_r. destruct f; reflexivity.
Qed.

Lemma vals_fusion : forall (h : bytes -> bool) (g : bytes -> bytes) (p : bytes -> bool) (m : list (bytes * counters)),
  vals h (map (fun kc => (g (fst kc), snd kc)) (filter (fun kc => p (fst kc)) m))
  = vals (fun k => p k && h (g k)) m.
Proof.
  intros h g p. induction m as [|[k v] m IH]; [reflexivity|].
  cbn [filter fst]. rewrite (vals_cons (fun k => p k && h (g k))). destruct (p k); cbn [andb map fst snd].
  - rewrite vals_cons. rewrite IH. reflexivity.
  - exact IH.
Qed.

Lemma vals_kl_L3 : forall s c es k, wf_entries es ->
  vals (fun k1 => semk c k1 && beq k (pk s k1)) (kl es) = vals (beq k) (L3 s c es).
Proof.
  intros s c es k. induction es as [|e es IH]; intro H; [reflexivity|].
  inversion H as [|? ? He Hes]; subst. destruct (wf_entry_parts e He) as (Wf & _ & _).
  unfold kl, L3. cbn [filter]. unfold selected at 1, active at 1.
  destruct (is_idle (e_c e)); cbn [negb andb].
  - apply IH. exact Hes.
  - cbn [map]. rewrite vals_cons. unfold semk at 1, pk at 1. rewrite (flow_of_key_key_of _ Wf).
    destruct (sem_opt c (e_flow e)); cbn [andb map].
    + rewrite vals_cons. fold (kl es). fold (L3 s c es).
      destruct (beq k (key_of (pflow s (e_flow e)))); [f_equal|]; apply IH; exact Hes.
    + apply IH. exact Hes.
Qed.

Lemma keys_kl_L3 : forall s c es k, wf_entries es ->
  (In k (map fst (map (fun kc => (pk s (fst kc), snd kc)) (filter (fun kc => semk c (fst kc)) (kl es))))
   <-> In k (map fst (L3 s c es))).
Proof.
  intros s c es k. induction es as [|e es IH]; intro H; [reflexivity|].
  inversion H as [|? ? He Hes]; subst. destruct (wf_entry_parts e He) as (Wf & _ & _).
  unfold kl, L3. cbn [filter]. unfold selected at 1, active at 1.
  destruct (is_idle (e_c e)); cbn [negb andb].
  - apply IH. exact Hes.
  - cbn [map filter fst]. unfold semk at 1. rewrite (flow_of_key_key_of _ Wf).
    destruct (sem_opt c (e_flow e)); cbn [map fst In].
    + unfold pk at 1. rewrite (flow_of_key_key_of _ Wf). fold (kl es). fold (L3 s c es).
      rewrite (IH Hes). reflexivity.
    + apply IH. exact Hes.
Qed.

(* membership in a filtered, re-keyed map only depends on the key set *)
Lemma keys_refilter : forall (g : bytes -> bytes) (p : bytes -> bool) (m1 m2 : list (bytes * counters)),
  (forall k, In k (map fst m1) <-> In k (map fst m2)) ->
  forall k, In k (map fst (map (fun kc => (g (fst kc), snd kc)) (filter (fun kc => p (fst kc)) m1)))
        <-> In k (map fst (map (fun kc => (g (fst kc), snd kc)) (filter (fun kc => p (fst kc)) m2))).
Proof.
  assert (X : forall (g : bytes -> bytes) (p : bytes -> bool) (m : list (bytes * counters)) (k : bytes),
             In k (map fst (map (fun kc => (g (fst kc), snd kc)) (filter (fun kc => p (fst kc)) m)))
             <-> exists k1, In k1 (map fst m) /\ p k1 = true /\ k = g k1).
  { intros g p m k. rewrite map_map. cbn [fst]. rewrite in_map_iff. split.
    - intros [[k1 v] [E Hi]]. apply filter_In in Hi. destruct Hi as [Hi Hp]. cbn [fst] in *.
      exists k1. repeat split; auto. apply in_map_iff. exists (k1, v). auto.
    - intros [k1 [Hi [Hp E]]]. apply in_map_iff in Hi. destruct Hi as [[k1' v] [E1 Hi]]. cbn [fst] in E1. subst k1'.
      exists (k1, v). split; [auto|]. apply filter_In. auto. }
  intros g p m1 m2 H k. rewrite !X. split; intros [k1 [Hi R]]; exists k1; (split; [apply H, Hi | exact R]).
Qed.

(* what QueryFilter hands over, characterised by key set and per-key totals *)
Lemma live_filter_char : forall s c oc es, wf_cond_opt c = true -> prepare_opt c = Ok oc -> wf_entries es ->
  exists item, live_filter s oc (group_sum beq (kl es)) = Ok item /\ all_ok item /\
    (forall k, In k (map fst item) <-> In k (map fst (L3 s c es))) /\
    (forall k, nsumh (beq k) item = nsumh (beq k) (L3 s c es)).
Proof.
  intros s c oc es Wc Hp Hes. set (A := group_sum beq (kl es)).
  assert (HA : Forall (fun kc => Pk (fst kc)) A).
  { apply merge_P; [constructor | apply kl_P, Hes]. }
  assert (OA : all_ok A) by (apply (merge_ok beq); [constructor | apply kl_ok, Hes]).
  assert (KA : forall k, In k (map fst A) <-> In k (map fst (kl es))).
  { intro k. unfold A, group_sum. rewrite (merge_keys beq beq_eq). cbn [map In]. tauto. }
  set (L2 := map (fun kc => (pk s (fst kc), snd kc)) (filter (fun kc => semk c (fst kc)) A)).
  assert (general : filter_h s oc A [] = Ok (group_sum beq L2) /\ all_ok (group_sum beq L2) /\
            (forall k, In k (map fst (group_sum beq L2)) <-> In k (map fst (L3 s c es))) /\
            (forall k, nsumh (beq k) (group_sum beq L2) = nsumh (beq k) (L3 s c es))).
  { split; [apply (filter_h_ok s c oc Wc Hp A [] HA)|].
    assert (O2 : all_ok L2).
    { unfold L2, all_ok. apply Forall_forall. intros [k v] Hi. apply in_map_iff in Hi.
      destruct Hi as [[k1 v1] [E Hi]]. inversion E; subst. apply filter_In in Hi. destruct Hi as [Hi _].
      unfold all_ok in OA. rewrite Forall_forall in OA. apply (OA (k1, v) Hi). }
    split; [apply (merge_ok beq); [constructor | exact O2]|]. split.
    - intro k. unfold group_sum. rewrite (merge_keys beq beq_eq). cbn [map In].
      unfold L2. rewrite (keys_refilter (pk s) (semk c) A (kl es) KA k), (keys_kl_L3 s c es k Hes). tauto.
    - intro k. rewrite (nsumh_group beq beq_eq). unfold nsumh, L2. rewrite vals_fusion.
      fold (nsumh (fun k0 => semk c k0 && beq k (pk s k0)) A). unfold A.
      rewrite (nsumh_group beq beq_eq). unfold nsumh. rewrite (vals_kl_L3 s c es k Hes). reflexivity. }
  destruct (prepare_opt_inv c oc Hp) as [[Ec Eo]|(cd & ic & Ec & Eo & Hc)].
  - subst c oc. cbn [live_filter]. destruct (sel_all s) eqn:Sa.
    + exists A. split; [reflexivity|]. split; [exact OA|].
      assert (EL : L3 s None es = kl es).
      { unfold L3, kl. clear -Sa Hes. induction es as [|e es IH]; [reflexivity|].
        inversion Hes as [|? ? He Hes']; subst. destruct (wf_entry_parts e He) as (Wf & _ & _).
        cbn [filter]. unfold selected at 1, active at 1. cbn [sem_opt]. rewrite andb_true_r.
        destruct (negb (is_idle (e_c e))); cbn [map]; rewrite ?(pflow_all s _ Sa Wf), (IH Hes'); reflexivity. }
      rewrite EL. split; [exact KA|]. intro k. apply (nsumh_group beq beq_eq).
    + exists (group_sum beq L2). exact general.
  - subst c oc. cbn [live_filter]. exists (group_sum beq L2). exact general.
Qed.

(* ------------------------------------------------------------------ aggregate() of the engine *)
Definition collect_from (m : aggmap) (items : list aggmap) : aggmap :=
  fold_left (fun final item => match item with [] => final | _ => merge beq final item end) items m.

Lemma collect_step : forall m item, (match item with [] => m | _ => merge beq m item end) = merge beq m item.
Proof. intros m [|x item]; reflexivity. Qed.

Lemma collect_from_cons : forall m it items, collect_from m (it :: items) = collect_from (merge beq m it) items.
Proof. intros. unfold collect_from. cbn [fold_left]. rewrite collect_step. reflexivity. Qed.

Lemma collect_from_nodup : forall items m, NoDup (map fst m) -> NoDup (map fst (collect_from m items)).
Proof.
  induction items as [|it items IH]; intros m H; [exact H|].
  rewrite collect_from_cons. apply IH. apply (merge_nodup beq beq_eq), H.
Qed.

Lemma collect_from_sum : forall h items m,
  nsumh h (collect_from m items) = cnorm (radd (rsum (vals h m)) (rsum (vals h (concat items)))).
Proof.
  intros h. induction items as [|it items IH]; intro m.
  - cbn [collect_from fold_left concat vals filter map rsum fold_right]. rewrite radd_0_r. reflexivity.
  - rewrite collect_from_cons, IH. cbn [concat]. rewrite <- cnorm_radd_l. fold (nsumh h (merge beq m it)).
    rewrite (nsumh_merge beq beq_eq), cnorm_radd_l, vals_app, rsum_app, radd_assoc. reflexivity.
Qed.

Lemma collect_single : forall item, collect [item] = group_sum beq item.
Proof. intro item. unfold collect. cbn [fold_left]. destruct item; reflexivity. Qed.

(* ------------------------------------------------------------------ rows *)
Definition P2 (s : selection) (k : bytes) : Prop := exists f, wf_flow f = true /\ k = key_of (pflow s f).
Definition unkey (s : selection) (k : bytes) : rowkey :=
  match mat_key s k with Ok rk => rk | _ => (0, None, None, None, None) end.

Lemma unkey_pflow : forall s f, wf_flow f = true -> unkey s (key_of (pflow s f)) = project s f.
Proof. intros s f H. unfold unkey. rewrite (mat_key_pflow s f H). reflexivity. Qed.

Lemma materialise_ok : forall s final, Forall (fun kc => P2 s (fst kc)) final ->
  materialise s final = Ok (map (ren (unkey s)) final).
Proof.
  intros s. induction final as [|[k v] final IH]; intro H; [reflexivity|].
  inversion H as [|? ? [f [Wf E]] H']; subst. cbn [fst] in E. subst k.
  cbn [materialise]. rewrite (mat_key_pflow s f Wf). cbn [bind res_bind]. rewrite (IH H'). cbn [bind res_bind map].
  unfold ren at 2. cbn [fst snd]. rewrite (unkey_pflow s f Wf). reflexivity.
Qed.

Lemma unkey_eq : forall s a b, P2 s a -> P2 s b -> rowkey_eqb (unkey s a) (unkey s b) = beq a b.
Proof.
  intros s a b [f1 [W1 E1]] [f2 [W2 E2]]. subst a b. rewrite !unkey_pflow by assumption.
  apply (eqb_of_iff beq rowkey_eqb); [exact beq_eq | exact rowkey_eqb_eq |]. split; intro E.
  - rewrite <- (unkey_pflow s f1 W1), <- (unkey_pflow s f2 W2), E. reflexivity.
  - rewrite (pflow_project s f1 f2 W1 W2 E). reflexivity.
Qed.

Lemma L3_P2 : forall s c es, wf_entries es -> Forall (fun kc => P2 s (fst kc)) (L3 s c es).
Proof.
  intros s c es H. unfold L3. apply Forall_forall. intros [k v] Hi. apply in_map_iff in Hi.
  destruct Hi as [e [E Hi]]. inversion E; subst. apply filter_In in Hi. destruct Hi as [Hi _].
  unfold wf_entries in H. rewrite Forall_forall in H. exists (e_flow e). split; [|reflexivity].
  apply (wf_entry_parts e (H e Hi)).
Qed.

Lemma L3_ok : forall s c es, wf_entries es -> all_ok (L3 s c es).
Proof.
  intros s c es H. unfold L3, all_ok. apply Forall_forall. intros [k v] Hi. apply in_map_iff in Hi.
  destruct Hi as [e [E Hi]]. inversion E; subst. apply filter_In in Hi. destruct Hi as [Hi _].
  unfold wf_entries in H. rewrite Forall_forall in H. apply (wf_entry_parts e (H e Hi)).
Qed.

Lemma L3_spec : forall s c es, wf_entries es ->
  map (ren (unkey s)) (L3 s c es) = map (fun e => (project s (e_flow e), e_c e)) (filter (selected c) es).
Proof.
  intros s c es H. unfold L3. rewrite map_map. apply map_ext_in. intros e Hi.
  apply filter_In in Hi. destruct Hi as [Hi _]. unfold wf_entries in H. rewrite Forall_forall in H.
  unfold ren. cbn [fst snd]. rewrite unkey_pflow; [reflexivity|]. apply (wf_entry_parts e (H e Hi)).
Qed.

(* ------------------------------------------------------------------ the live item of a well-formed log *)
Lemma live_item_char : forall s c oc es, wf_cond_opt c = true -> prepare_opt c = Ok oc -> wf_entries es ->
  exists items, live_item s oc (log_of es) = Ok (items, log_of es) /\
    (forall k, nsumh (beq k) (concat (match items with Some i => [i] | None => [] end)) = nsumh (beq k) (L3 s c es)) /\
    (forall k, In k (map fst (concat (match items with Some i => [i] | None => [] end))) <-> In k (map fst (L3 s c es))) /\
    all_ok (concat (match items with Some i => [i] | None => [] end)).
Proof.
  intros s c oc es Wc Hp Hes. destruct es as [|e es].
  - exists None. cbn. split; [reflexivity|]. split; [reflexivity|]. split; [tauto | constructor].
  - unfold live_item. cbn [log_of map]. fold (log_of es).
    change ((lkey_of e, e_c e) :: log_of es) with (log_of (e :: es)).
    rewrite (aggregate_h_ok (e :: es) [] Hes). cbn [bind res_bind fst snd].
    fold (group_sum beq (kl (e :: es))).
    destruct (live_filter_char s c oc (e :: es) Wc Hp Hes) as (item & Hf & Ho & Hk & Hn).
    rewrite Hf. cbn [bind res_bind]. exists (Some item). cbn [concat]. rewrite app_nil_r. auto.
Qed.
