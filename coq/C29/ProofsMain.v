(* C29 proofs, part 4: the theorems. *)
From Coq Require Import List ZArith NArith Bool Lia Permutation.
From GoProbe.Base Require Import CorrLib.
From GoProbe.C09 Require Import Model ProofsSweep ProofsBytes ProofsLeaf ProofsTree.
From GoProbe.C29 Require Import Model ProofsAssoc ProofsKeys ProofsLive.
Import ListNotations.
Open Scope N_scope.

Lemma forall_keys : forall (P : bytes -> Prop) (m : list (bytes * counters)),
  (forall k, In k (map fst m) -> P k) -> Forall (fun kc => P (fst kc)) m.
Proof.
  intros P m H. apply Forall_forall. intros [k v] Hi. apply H. apply in_map_iff. exists (k, v). auto.
Qed.

Lemma forall_keys_inv : forall (P : bytes -> Prop) (m : list (bytes * counters)),
  Forall (fun kc => P (fst kc)) m -> forall k, In k (map fst m) -> P k.
Proof.
  intros P m H k Hi. apply in_map_iff in Hi. destruct Hi as [[k' v] [E Hi]]. cbn [fst] in E. subst.
  rewrite Forall_forall in H. apply (H (k, v) Hi).
Qed.

Lemma collect_concat : forall items, collect items = collect_from [] items.
Proof. reflexivity. Qed.

(* rows of a live query on a well-formed flow log = the GROUP BY specification *)
Lemma rows_main : forall s c oc es, wf_entries es -> wf_cond_opt c = true -> prepare_opt c = Ok oc ->
  exists rs, live_query s c (log_of es) [] [] = Ok (rs, log_of es) /\ Permutation rs (spec_rows s c es).
Proof.
  intros s c oc es Hes Wc Hp. unfold live_query. rewrite Hp. cbn [bind res_bind].
  destruct (live_item_char s c oc es Wc Hp Hes) as (items & Hi & Hn & Hk & Ho).
  rewrite Hi. cbn [bind res_bind fst snd app]. rewrite app_nil_r.
  set (itl := match items with Some i => [i] | None => [] end) in *.
  assert (Ec : collect itl = group_sum bytes_eqb (concat itl)).
  { unfold itl. destruct items as [i|]; [|reflexivity]. rewrite collect_single. cbn [concat]. rewrite app_nil_r. reflexivity. }
  rewrite Ec. set (I := concat itl) in *. set (final := group_sum bytes_eqb I).
  pose proof (group_describes bytes_eqb bytes_eqb_eq I Ho) as D1.
  pose proof (group_describes bytes_eqb bytes_eqb_eq (L3 s c es) (L3_ok s c es Hes)) as D2.
  assert (Pm : Permutation final (group_sum bytes_eqb (L3 s c es))).
  { eapply describes_perm; [exact D1 | exact D2 | exact Hk | intros k _; apply Hn]. }
  assert (PF : Forall (fun kc => P2 s (fst kc)) final).
  { apply forall_keys. intros k Hin. destruct D1 as (_ & _ & K1 & _). apply K1, Hk in Hin.
    apply (forall_keys_inv (P2 s) _ (L3_P2 s c es Hes) k Hin). }
  rewrite (materialise_ok s final PF). cbn [bind res_bind]. eexists. split; [reflexivity|].
  unfold spec_rows. rewrite <- (L3_spec s c es Hes).
  rewrite <- (group_rename bytes_eqb rowkey_eqb (unkey s) (P2 s) (unkey_eq s) (L3 s c es) (L3_P2 s c es Hes)).
  apply Permutation_map. exact Pm.
Qed.

(* a rejected condition: the query fails before the capture is touched *)
Lemma rows_rejected : forall s cd log pre post, prepare cd = Err -> live_query s (Some cd) log pre post = Err.
Proof. intros s cd log pre post H. unfold live_query. cbn [prepare_opt]. rewrite H. reflexivity. Qed.

(* ------------------------------------------------------------------ totals *)
Lemma fold_cadd : forall l a, c_ok a = true -> fold_left cadd l a = cnorm (radd a (rsum l)).
Proof.
  induction l as [|x l IH]; intros a Ha; cbn [fold_left rsum fold_right].
  - rewrite radd_0_r. symmetry. apply cnorm_ok, Ha.
  - fold (rsum l). rewrite IH by apply cadd_ok. rewrite cadd_norm, cnorm_radd_l, radd_assoc. reflexivity.
Qed.

Lemma total_nsumh : forall k m, total k m = nsumh (bytes_eqb k) m.
Proof. intros k m. unfold total, nsumh, vals. rewrite fold_cadd by reflexivity. rewrite radd_0_l. reflexivity. Qed.

Lemma collect_total : forall h items, nsumh h (collect items) = nsumh h (concat items).
Proof.
  intros h items. rewrite collect_concat, collect_from_sum.
  cbn [vals filter map rsum fold_right]. rewrite radd_0_l. reflexivity.
Qed.

Lemma mod3 : forall a b c, ((a mod M64 + b mod M64) mod M64 + c mod M64) mod M64 = (a + (b + c)) mod M64.
Proof.
  intros a b c. rewrite mod_add_l, mod_add_r, <- N.add_assoc, mod_add_l.
  rewrite (N.add_comm (b mod M64)), N.add_assoc, mod_add_r. f_equal. lia.
Qed.

Lemma norm3 : forall A B C, cnorm (radd (cnorm (radd (cnorm A) (cnorm B))) (cnorm C)) = cnorm (radd A (radd B C)).
Proof.
  intros [[[a1 a2] a3] a4] [[[b1 b2] b3] b4] [[[d1 d2] d3] d4]. cbn [cnorm radd]. rewrite !mod3. reflexivity.
Qed.

Lemma adds_main : forall pre live post,
  NoDup (map fst (collect (pre ++ live ++ post))) /\
  forall k, total k (collect (pre ++ live ++ post))
            = cadd (cadd (total k (concat pre)) (total k (collect live))) (total k (concat post)).
Proof.
  intros pre live post. split.
  - rewrite collect_concat. apply collect_from_nodup. constructor.
  - intro k. rewrite !total_nsumh, !collect_total.
    unfold nsumh. rewrite !concat_app, !vals_app, !rsum_app, !cadd_norm. rewrite norm3. reflexivity.
Qed.
