(* C02 property theorems. Nothing but statements closed by `exact`, Print Assumptions, non-vacuity examples. *)
From Coq Require Import List ZArith NArith Bool Arith.
From GoProbe.Base Require Import CorrLib.
From GoProbe.C07 Require Import Model.
From GoProbe.C02 Require Import Model Proofs.
Import ListNotations.

(* "each build reads the other's data back unchanged": for every library table in which each codec family
   meets the C07 hypotheses AND the two families share one format (`formats_agree` - the part of the property
   that lives inside liblz4/libzstd/pierrec/klauspost and can only be validated by cross-build runs), for every
   writer configuration cw and reader configuration cr out of {cgo, CGO_ENABLED=0, goprobe_noliblz4,
   goprobe_nolibzstd}, every file encoder, level, scratch buffer and sequence of blocks (empty blocks
   included): all writes succeed and every block reads back exactly, under the reader's build and under the
   writer's own. *)
Theorem c02_cross_read :
  forall (B : Type) (zero : B) (lib : enct -> impl -> codec B),
    (forall t i, codec_ok (lib t i)) -> formats_agree lib ->
    forall (cw cr : cfg) (t : enct) (lvl : Z) (scratch : slice B) (datas : list (list B)),
    exists g, write_all zero lib cw t lvl scratch gpf_empty datas = Ok g
      /\ forall i d, nth_error datas i = Some d ->
           read_block zero lib cr (f_bytes g) (f_hdr g) i = Ok d
           /\ read_block zero lib cw (f_bytes g) (f_hdr g) i = Ok d.
Proof. exact (fun B zero lib Hok Hfmt => cross_read zero lib Hok Hfmt). Qed.
Print Assumptions c02_cross_read.

(* the same at the level of one Encoder: what variant iw's Compress emitted (the frame, by C07), variant ir's
   Decompress restores, from every modelled reader kind *)
Theorem c02_cross_block :
  forall (B : Type) (lib : enct -> impl -> codec B),
    (forall t i, codec_ok (lib t i)) -> formats_agree lib ->
    forall (iw ir : impl) (t : enct) (lvl : Z) (data : list B) (k : rkind) (rest : list B) (out : slice B),
      sl_len out = length data -> length data <= sl_cap out ->
      decompress_w lib ir t (length (GoProbe.C07.Proofs.frame_of lib iw t lvl data)) out
                   (Build_reader k (GoProbe.C07.Proofs.frame_of lib iw t lvl data ++ rest))
      = Ok (Z.of_nat (length data), data).
Proof. exact (fun B lib Hok Hfmt => cross_block lib Hok Hfmt). Qed.
Print Assumptions c02_cross_block.

(* the file contents never depend on the scratch buffer (its length in particular) *)
Theorem c02_wrapper_pure :
  forall (B : Type) (zero : B) (lib : enct -> impl -> codec B),
    (forall t i, codec_ok (lib t i)) ->
    forall cw t lvl s1 s2 (g : gpf B) datas,
      write_all zero lib cw t lvl s1 g datas = write_all zero lib cw t lvl s2 g datas.
Proof. exact (fun B zero lib Hok => write_scratch_irrelevant zero lib Hok). Qed.
Print Assumptions c02_wrapper_pure.

(* a failing Decompress leaves nothing behind: block i reads the same from two files that agree from block i's
   offset on, whatever happened to the blocks before it (no hypothesis on the libraries) *)
Theorem c02_damage_local :
  forall (B : Type) (zero : B) (lib : enct -> impl -> codec B) c (bytes bytes' : list B) hdr i b,
    nth_error hdr i = Some b -> skipn (b_off b) bytes = skipn (b_off b) bytes' ->
    read_block zero lib c bytes hdr i = read_block zero lib c bytes' hdr i.
Proof. exact (fun B zero lib => read_block_local zero lib). Qed.
Print Assumptions c02_damage_local.

(* ------------------------------------------------------------------ non-vacuity *)
(* two DIFFERENT compressors sharing one format: header byte 255 (cgo) or 254 (native) followed by the data;
   both decoders accept both headers *)
Definition toy2 (t : enct) (i : impl) : codec N :=
  {| c_enc := fun _ d => (match i with Cgo => 255 | Native => 254 end)%N :: d;
     c_dec := fun x capacity =>
       match x with
       | h :: d => if (254 <=? h)%N
                   then match capacity with
                        | Some c => if length d <=? c then Some d else None
                        | None => Some d
                        end
                   else None
       | [] => None
       end;
     c_bound := fun n => S n |}.

Example c02_toy2_agrees : formats_agree toy2.
Proof.
  intros t iw ir lvl d capacity Hf. destruct iw; cbn; (destruct capacity as [c|]; [|reflexivity]);
    cbn in Hf; apply Nat.leb_le in Hf; now rewrite Hf.
Qed.

Example c02_toy2_ok : forall t i, codec_ok (toy2 t i).
Proof.
  intros t i. constructor.
  - intros. now apply c02_toy2_agrees.
  - intros. cbn. apply le_n.
  - intros. destruct i; cbn; discriminate.
Qed.

(* written without cgo, read with the default build.  The toy frame is one byte longer than the data, so the
   column file stores every block with the null encoder (the fallback of writeBlock) ... *)
Example c02_example :
  let datas := [[1; 2; 3]; []; [7]]%N in
  let scratch := Build_slice (repeat 9%N 8) 8 in
  exists g, write_all 0%N toy2 CfgNoCgo EZstd 6 scratch gpf_empty datas = Ok g
    /\ f_bytes g = [1; 2; 3; 7]%N
    /\ map b_enc (f_hdr g) = [ENull; ENull; ENull]
    /\ read_block 0%N toy2 CfgCgo (f_bytes g) (f_hdr g) 0 = Ok [1; 2; 3]%N
    /\ read_block 0%N toy2 CfgCgo (f_bytes g) (f_hdr g) 1 = Ok []
    /\ read_block 0%N toy2 CfgNoLibLz4 (f_bytes g) (f_hdr g) 2 = Ok [7]%N.
Proof. eexists. split; [reflexivity|]. repeat split; reflexivity. Qed.

(* ... while at the level of the encoders the native frame (header 254), emitted with a non-empty scratch
   buffer, is decoded by the cgo variant *)
Example c02_example_block :
  let scratch := Build_slice (repeat 9%N 8) 8 in
  compress_w 0%N toy2 (impl_of CfgNoLibZstd EZstd) EZstd 6 [1; 2; 3]%N scratch true = Ok ([254; 1; 2; 3]%N, 4%Z)
  /\ decompress_w toy2 (impl_of CfgCgo EZstd) EZstd 4 (Build_slice [0; 0; 0]%N 3)
                  (Build_reader RFile [254; 1; 2; 3; 99]%N) = Ok (3%Z, [1; 2; 3]%N).
Proof. split; reflexivity. Qed.

(* c02_damage_local on a concrete file: the two bytes before the block differ (a damaged predecessor), the block
   itself reads the same *)
Example c02_damage_local_example :
  let hdr := [{| b_off := 2; b_len := 3; b_raw := 3; b_enc := ENull |}] in
  read_block 0%N toy2 CfgNoCgo [9; 9; 1; 2; 3]%N hdr 0 = Ok [1; 2; 3]%N
  /\ read_block 0%N toy2 CfgNoCgo [8; 7; 1; 2; 3]%N hdr 0 = Ok [1; 2; 3]%N.
Proof. split; reflexivity. Qed.
