(* C02 model: a column file (.gpf) written block by block under one build configuration and read under
   another.  The encoder wrappers are those of C07 (GoProbe.C07.Model); the library table
   `lib : enct -> impl -> codec B` holds BOTH codec families (cgo: liblz4/libzstd, native:
   pierrec/lz4, klauspost/compress), a build configuration selects one per encoder (`impl_of`).

   Anchors: pkg/goDB/storage/gpfile/gpfile.go (writeBlock / ReadBlock: empty blocks bypass the encoder, a
   block that grows under compression is stored with the null encoder, the decoder is chosen per block from the
   header), pkg/goDB/encoder/{lz4,zstd}/*_{cgo,native}.go.  The file itself is an ideal append-only byte
   sequence here (the buffered-writer layer is property C01's subject).  Executable definitions only. *)
From Coq Require Import List ZArith Bool Arith.
From GoProbe.Base Require Import CorrLib.
From GoProbe.C07 Require Import Model.
Import ListNotations.

(* storage.Block *)
Record blk := { b_off : nat; b_len : nat; b_raw : nat; b_enc : enct }.

Section Store.
  Context {B : Type}.
  Variable zero : B.
  Variable lib : enct -> impl -> codec B.

  (* file contents and header (CurrentOffset = length of the contents) *)
  Record gpf := { f_bytes : list B; f_hdr : list blk }.
  Definition gpf_empty : gpf := {| f_bytes := []; f_hdr := [] |}.

  Definition add_block (g : gpf) (stored : list B) (raw : nat) (t : enct) : gpf :=
    {| f_bytes := f_bytes g ++ stored;
       f_hdr := f_hdr g ++ [{| b_off := length (f_bytes g); b_len := length stored; b_raw := raw; b_enc := t |}] |}.

  (* GPFile.writeBlock under build configuration c, file encoder t, level lvl; `scratch` is g.blockData *)
  Definition write_block (c : cfg) (t : enct) (lvl : Z) (scratch : slice B) (g : gpf) (data : list B) : res gpf :=
    if is_nil data then Ok (add_block g [] 0 ENull)
    else
      res_bind (compress_w zero lib (impl_of c t) t lvl data scratch true) (fun r =>
        let '(em, n) := r in
        if (Z.of_nat (length data) <? n)%Z
        then (* nWritten > len(blockData): rewrite the bytes with the null encoder *)
          res_bind (compress_w zero lib (impl_of c ENull) ENull lvl data scratch true) (fun r2 =>
            Ok (add_block g (fst r2) (length data) ENull))
        else Ok (add_block g em (length data) t)).

  Fixpoint write_all (c : cfg) (t : enct) (lvl : Z) (scratch : slice B) (g : gpf) (datas : list (list B))
    : res gpf :=
    match datas with
    | [] => Ok g
    | d :: ds => res_bind (write_block c t lvl scratch g d) (fun g' => write_all c t lvl scratch g' ds)
    end.

  (* GPFile.ReadBlock of block i under build configuration c: RawLen = 0 returns the empty block without
     touching the file; otherwise seek to Offset, size in/out from the header, pick the decoder from the
     block's encoder type, and compare the returned count with RawLen *)
  Definition read_block (c : cfg) (bytes : list B) (hdr : list blk) (i : nat) : res (list B) :=
    match nth_error hdr i with
    | None => Err
    | Some b =>
      if b_raw b =? 0 then Ok []
      else
        let out := Build_slice (repeat zero (b_raw b)) (b_raw b) in
        let src := Build_reader RFile (skipn (b_off b) bytes) in
        res_bind (decompress_w lib (impl_of c (b_enc b)) (b_enc b) (b_len b) out src) (fun r =>
          if (fst r =? Z.of_nat (b_raw b))%Z then Ok (snd r) else Err)
    end.
End Store.

Arguments gpf B : clear implicits.
Arguments f_bytes {B} _.
Arguments f_hdr {B} _.

(* "formats agree": what one family writes, the other (and itself) decodes, for every output capacity that
   fits.  This is the part of C02 that lives inside liblz4/libzstd/pierrec/klauspost: a hypothesis, validated
   by the cross-build runs, never proved. *)
Definition formats_agree {B} (lib : enct -> impl -> codec B) : Prop :=
  forall t iw ir lvl d capacity, fits capacity (length d) ->
    c_dec (lib t ir) (c_enc (lib t iw) lvl d) capacity = Some d.
