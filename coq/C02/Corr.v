(* C02 correspondence: the column-file model run on symbolic bytes (tokens of GoProbe.C07.Corr); block j's
   data / frame tokens carry j in the high bits of their index; the library table of a case maps block j's data
   to a frame of the length the writer build was observed to store.  Executable only. *)
From Coq Require Import List ZArith NArith Bool Arith Uint63.
From GoProbe.Base Require Import CorrLib.
From GoProbe.C07 Require Import Model Corr.
From GoProbe.C02 Require Import Model.
Import ListNotations.

Definition enct_eqb (a b : enct) : bool :=
  match a, b with ENull, ENull | ELz4, ELz4 | EZstd, EZstd => true | _, _ => false end.

(* observed per block: input length; encoder type and length recorded by the writer; result class of the
   reader (0 ok, 1 error, 2 panic / crash) and whether the bytes read equal the bytes written *)
Record oblk := { o_dlen : N; o_enc : enct; o_len : N; o_rclass : N; o_req : bool }.

Inductive case :=
| Case (cw cr : cfg) (t : enct) (lvl : Z) (slen scap : N) (wclass : N) (dmg : N) (blocks : list oblk).

(* dmg = k > 0: between writing and reading the stored bytes of block k (1-based) were damaged on disk (bit flip /
   truncated frame).  Decoders are pure functions in the model - a failing Decompress leaves no state behind
   (GoProbe.C02.Proofs.read_block_local) - so every OTHER block reads exactly as without the damage; what the
   damaged block itself yields is the libraries' business and is not compared. *)
Definition damaged (dmg : N) (j : nat) : bool := (N.of_nat j + 1 =? dmg)%N.

Definition blk_base (j : nat) : int := Uint63.lsl (Uint63.of_Z (Z.of_nat j)) 21.
Definition blk_of (i : int) : nat := Z.to_nat (Uint63.to_Z (Uint63.lsr i 21)).

Definition sym_lib (t : enct) (frames datas : list (list tok)) : enct -> impl -> codec tok :=
  fun t' _ =>
  {| c_enc := fun _ d => match d with TD i :: _ => nth (blk_of i) frames [] | _ => [] end;
     c_dec := fun x capacity =>
       match x with
       | TF i :: _ =>
         let j := blk_of i in
         if list_eqb tok_eqb x (nth j frames []) then
           let d := nth j datas [] in
           match capacity with
           | Some c => if c <? length d then None else Some d
           | None => Some d
           end
         else None
       | _ => None
       end;
     c_bound := fun n => N.to_nat (bound_N t' (N.of_nat n)) |}.

Fixpoint mapi {A C} (f : nat -> A -> C) (j : nat) (l : list A) : list C :=
  match l with [] => [] | x :: l' => f j x :: mapi f (S j) l' end.

Fixpoint all2 {A C} (f : A -> C -> bool) (a : list A) (b : list C) : bool :=
  match a, b with
  | [], [] => true
  | x :: a', y :: b' => f x y && all2 f a' b'
  | _, _ => false
  end.

Definition corr_model (k : case) : bool :=
  match k with
  | Case cw cr t lvl slen scap wclass dmg blocks =>
    let datas := mapi (fun j o => nlist (fun i => TD (Uint63.add i (blk_base j))) (o_dlen o)) 0 blocks in
    (* frame length: the stored length when the block was stored compressed; when the writer fell back to the
       null encoder the frame was longer than the data (its exact length is not observable) *)
    let frames := mapi (fun j o =>
                          let L := if enct_eqb (o_enc o) t then o_len o else (o_dlen o + 1)%N in
                          nlist (fun i => TF (Uint63.add i (blk_base j))) L) 0 blocks in
    let lib := sym_lib t frames datas in
    let scratch := Build_slice (nlist TS scap) (N.to_nat slen) in
    match write_all TZ lib cw t lvl scratch gpf_empty datas with
    | Err => (wclass =? 1)%N
    | Panic => (wclass =? 2)%N
    | Ok g =>
      (wclass =? 0)%N
      && all2 (fun b o => enct_eqb (b_enc b) (o_enc o) && (N.of_nat (b_len b) =? o_len o)%N
                          && (N.of_nat (b_raw b) =? o_dlen o)%N) (f_hdr g) blocks
      && all2 (fun jd o =>
                 if damaged dmg (fst jd) then true else
                 match read_block TZ lib cr (f_bytes g) (f_hdr g) (fst jd) with
                 | Ok d' => (o_rclass o =? 0)%N && Bool.eqb (list_eqb tok_eqb d' (snd jd)) (o_req o)
                 | Err => (o_rclass o =? 1)%N
                 | Panic => (o_rclass o =? 2)%N
                 end) (mapi (fun j d => (j, d)) 0 datas) blocks
    end
  end.

(* Cases containing a block above GoProbe.C07.Corr.big_threshold are not executed on token lists; the model's
   answer is taken from its PROVED closed form (GoProbe.C02.Proofs.write_block_ok / read_stored, valid for every
   size under codec_ok + formats_agree, which the symbolic table meets when 1 <= frame length <= bound): every
   write succeeds; an empty block is recorded as (Null, 0); a block is stored under the file's encoder iff its
   frame is not longer than the data (then 1 <= len <= raw), otherwise raw under the null encoder (len = raw);
   every block reads back exactly under every configuration. *)
Definition corr_closed (k : case) : bool :=
  match k with
  | Case cw cr t lvl slen scap wclass dmg blocks =>
    (wclass =? 0)%N
    && forallb (fun jo => let o := snd jo in
                  (damaged dmg (fst jo) || (o_rclass o =? 0)%N && o_req o)
                  && (if (o_dlen o =? 0)%N then enct_eqb (o_enc o) ENull && (o_len o =? 0)%N
                      else if enct_eqb (o_enc o) ENull then (o_len o =? o_dlen o)%N
                      else enct_eqb (o_enc o) t && (1 <=? o_len o)%N && (o_len o <=? o_dlen o)%N))
               (mapi (fun j o => (j, o)) 0 blocks)
  end.

Definition corr (k : case) : bool :=
  match k with
  | Case _ _ _ _ _ scap _ _ blocks =>
    if existsb (fun o => (big_threshold <? o_dlen o)%N) blocks || (big_threshold <? scap)%N
    then corr_closed k else corr_model k
  end.

(* the specification, on the observations only: the writer build stored every block and the reader build read
   every block back exactly - every block but a deliberately damaged one, whatever the reader's build *)
Definition holds (k : case) : bool :=
  match k with
  | Case _ _ _ _ _ _ wclass dmg blocks =>
    (wclass =? 0)%N
    && forallb (fun jo => damaged dmg (fst jo) || (o_rclass (snd jo) =? 0)%N && o_req (snd jo))
               (mapi (fun j o => (j, o)) 0 blocks)
  end.
