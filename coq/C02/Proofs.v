(* C02 proofs: the C07 round trip, re-instantiated with a MIXED library table (writer's compressor, reader's
   decompressor), lifted to a sequence of blocks in a column file. *)
From Coq Require Import List ZArith Bool Arith Lia.
From GoProbe.Base Require Import CorrLib.
From GoProbe.C07 Require Import Model Proofs.
From GoProbe.C02 Require Import Model.
Import ListNotations.

Section Cross.
  Context {B : Type}.
  Variable zero : B.
  Variable lib : enct -> impl -> codec B.
  Hypothesis Hok : forall t i, codec_ok (lib t i).
  Hypothesis Hfmt : formats_agree lib.

  (* writer family's compressor and bound, reader family's decompressor *)
  Definition mixed (iw : impl) : enct -> impl -> codec B :=
    fun t i => {| c_enc := c_enc (lib t iw); c_dec := c_dec (lib t i); c_bound := c_bound (lib t iw) |}.

  Lemma mixed_ok : forall iw t i, codec_ok (mixed iw t i).
  Proof.
    intros iw t i. destruct (Hok t iw) as [_ Hb Hne].
    constructor; cbn; [intros; now apply Hfmt|exact Hb|exact Hne].
  Qed.

  Lemma decompress_mixed : forall iw i t li out src,
    decompress_w (mixed iw) i t li out src = decompress_w lib i t li out src.
  Proof. intros. destruct t, i; reflexivity. Qed.

  (* a block compressed by variant iw is restored by variant ir *)
  Lemma cross_block : forall iw ir t lvl data k rest (out : slice B),
    sl_len out = length data -> length data <= sl_cap out ->
    decompress_w lib ir t (length (frame_of lib iw t lvl data)) out
                 (Build_reader k (frame_of lib iw t lvl data ++ rest))
    = Ok (Z.of_nat (length data), data).
  Proof.
    intros iw ir t lvl data k rest out Hl Hc.
    rewrite <- (decompress_mixed iw).
    replace (frame_of lib iw t lvl data) with (frame_of (mixed iw) ir t lvl data)
      by (destruct t; reflexivity).
    apply decompress_ok; auto using mixed_ok.
  Qed.

  (* ---------------------------------------------------------------- one block *)
  (* what writeBlock stores for a block: (bytes, encoder type recorded in the header) *)
  Definition stored_of (cw : cfg) (t : enct) (lvl : Z) (data : list B) : list B * enct :=
    if is_nil data then ([], ENull)
    else let f := frame_of lib (impl_of cw t) t lvl data in
         if length data <? length f then (data, ENull) else (f, t).

  Lemma write_block_ok : forall cw t lvl scratch g data,
    write_block zero lib cw t lvl scratch g data
    = Ok (add_block g (fst (stored_of cw t lvl data)) (length data) (snd (stored_of cw t lvl data))).
  Proof.
    intros. unfold write_block, stored_of.
    destruct (is_nil data) eqn:En.
    - destruct data; [reflexivity|discriminate].
    - rewrite (compress_ok zero lib _ _ _ _ _ Hok). cbn [res_bind].
      destruct (length data <? length _) eqn:E.
      + apply Nat.ltb_lt in E.
        destruct (Z.of_nat (length data) <? Z.of_nat _)%Z eqn:E2; [|apply Z.ltb_ge in E2; lia].
        rewrite (compress_ok zero lib _ _ _ _ _ Hok). reflexivity.
      + apply Nat.ltb_ge in E.
        destruct (Z.of_nat (length data) <? Z.of_nat _)%Z eqn:E2; [apply Z.ltb_lt in E2; lia|].
        reflexivity.
  Qed.

  (* reading the block just described, from a file in which it is followed by anything *)
  Lemma read_stored : forall cw cr t lvl data pre more hdr i,
    nth_error hdr i = Some {| b_off := length pre; b_len := length (fst (stored_of cw t lvl data));
                              b_raw := length data; b_enc := snd (stored_of cw t lvl data) |} ->
    read_block zero lib cr (pre ++ fst (stored_of cw t lvl data) ++ more) hdr i = Ok data.
  Proof.
    intros cw cr t lvl data pre more hdr i Hn. unfold read_block. rewrite Hn. cbn [b_raw b_off b_len b_enc].
    destruct (length data =? 0) eqn:E0.
    - apply Nat.eqb_eq in E0. destruct data; [reflexivity|discriminate].
    - rewrite skipn_app, skipn_all, Nat.sub_diag. cbn [app skipn].
      unfold stored_of. destruct (is_nil data) eqn:En; [destruct data; discriminate|].
      destruct (length data <? _) eqn:E; cbn [fst snd].
      + (* stored uncompressed *)
        change data with (frame_of lib (impl_of cr ENull) ENull lvl data) at 1 3.
        rewrite cross_block by (cbn; rewrite ?repeat_length; auto).
        cbn [res_bind fst snd]. now rewrite Z.eqb_refl.
      + rewrite cross_block by (cbn; rewrite ?repeat_length; auto).
        cbn [res_bind fst snd]. now rewrite Z.eqb_refl.
  Qed.

  (* ---------------------------------------------------------------- a sequence of blocks *)
  (* invariant: every block written so far reads back under cr, whatever is appended to the file later *)
  Definition inv (cr : cfg) (g : gpf B) (datas : list (list B)) : Prop :=
    length (f_hdr g) = length datas /\
    forall i d, nth_error datas i = Some d ->
      forall more, read_block zero lib cr (f_bytes g ++ more) (f_hdr g) i = Ok d.

  Lemma read_block_hdr_app : forall cr bytes hdr e i,
    i < length hdr -> read_block zero lib cr bytes (hdr ++ e) i = read_block zero lib cr bytes hdr i.
  Proof. intros. unfold read_block. now rewrite nth_error_app1. Qed.

  Lemma inv_step : forall cw cr t lvl g datas d,
    inv cr g datas ->
    inv cr (add_block g (fst (stored_of cw t lvl d)) (length d) (snd (stored_of cw t lvl d))) (datas ++ [d]).
  Proof.
    intros cw cr t lvl g datas d [Hlen Hrd]. split.
    - cbn. rewrite !app_length. cbn. lia.
    - intros i x Hx more. cbn [add_block f_bytes f_hdr].
      destruct (Nat.lt_ge_cases i (length datas)) as [Hi|Hi].
      + rewrite nth_error_app1 in Hx by assumption.
        rewrite read_block_hdr_app by lia. rewrite <- app_assoc. now apply Hrd.
      + rewrite nth_error_app2 in Hx by assumption.
        destruct (i - length datas) as [|j] eqn:Ej; [|destruct j; discriminate].
        cbn in Hx. inversion Hx; subst x. rewrite <- app_assoc.
        apply read_stored. rewrite nth_error_app2 by lia.
        replace (i - length (f_hdr g)) with 0 by lia. reflexivity.
  Qed.

  Lemma write_all_inv : forall cw cr t lvl scratch ds pre g,
    inv cr g pre ->
    exists g', write_all zero lib cw t lvl scratch g ds = Ok g' /\ inv cr g' (pre ++ ds).
  Proof.
    induction ds as [|d ds IH]; intros pre g Hinv.
    - exists g. rewrite app_nil_r. split; [reflexivity|assumption].
    - cbn [write_all]. rewrite write_block_ok. cbn [res_bind].
      destruct (IH (pre ++ [d]) _ (inv_step cw cr t lvl g pre d Hinv)) as (g' & Hw & Hi).
      exists g'. split; [assumption|]. now rewrite <- app_assoc in Hi.
  Qed.

  Lemma cross_read : forall cw cr t lvl scratch datas,
    exists g, write_all zero lib cw t lvl scratch (gpf_empty) datas = Ok g
      /\ forall i d, nth_error datas i = Some d ->
           read_block zero lib cr (f_bytes g) (f_hdr g) i = Ok d
           /\ read_block zero lib cw (f_bytes g) (f_hdr g) i = Ok d.
  Proof.
    intros.
    assert (Hi0 : forall c, inv c (@gpf_empty B) []).
    { intro c. split; [reflexivity|]. intros i d H. destruct i; discriminate. }
    destruct (write_all_inv cw cr t lvl scratch datas [] _ (Hi0 cr)) as (g & Hw & _ & Hr).
    destruct (write_all_inv cw cw t lvl scratch datas [] _ (Hi0 cw)) as (g2 & Hw2 & _ & Hr2).
    rewrite Hw in Hw2. inversion Hw2; subst g2.
    exists g. split; [assumption|]. intros i d Hd. split.
    - specialize (Hr i d Hd []). now rewrite app_nil_r in Hr.
    - specialize (Hr2 i d Hd []). now rewrite app_nil_r in Hr2.
  Qed.

  (* decoders carry no state from one block to the next: what ReadBlock returns for block i depends only on the
     header and on the file contents from that block's offset on - damage elsewhere (an undecodable earlier block
     included) cannot change it *)
  Lemma read_block_local : forall c bytes bytes' hdr i b,
    nth_error hdr i = Some b -> skipn (b_off b) bytes = skipn (b_off b) bytes' ->
    read_block zero lib c bytes hdr i = read_block zero lib c bytes' hdr i.
  Proof. intros c bytes bytes' hdr i b Hn He. unfold read_block. rewrite Hn, He. reflexivity. Qed.

  (* the stored bytes do not depend on the scratch buffer (c02_wrapper_pure of the design) *)
  Lemma write_scratch_irrelevant : forall cw t lvl s1 s2 g datas,
    write_all zero lib cw t lvl s1 g datas = write_all zero lib cw t lvl s2 g datas.
  Proof.
    intros cw t lvl s1 s2 g datas. revert g.
    induction datas as [|d ds IH]; intro g; [reflexivity|].
    cbn [write_all]. rewrite !write_block_ok. cbn [res_bind]. apply IH.
  Qed.
End Cross.
