(* C22 model: packet direction classifier (pkg/capture/capturetypes/classify.go), key reversal
   (capturetypes/packet.go: Reverse, IsProbablyReverse) and the key chosen on the first packet of a
   conversation (pkg/capture/capture.go: addToFlowLogV4 / addToFlowLogV6).
   Executable definitions only.

   A flow key (EPHashV4 = 13 bytes, EPHashV6 = 37 bytes) is modelled twice:
   - as raw bytes (list N), with the layout constants of packet.go in [of_bytes]/[reverse_bytes];
   - as the record [ep] the bytes decode to. Ports stay the two bytes the Go code compares
     (first byte = high byte); [port_num] gives the number < 65536 they denote.
   Besides the verdict the model returns the rule that produced it, so that "decisive" (not the
   final `ports are identical` default, not Unknown) can be stated. *)
From Coq Require Import List NArith Bool.
Import ListNotations.
Open Scope N_scope.

(* capturetypes.Direction: DirectionUnknown = 0, DirectionRemains = 1, DirectionReverts = 2 *)
Inductive dirn := Unknown | Remains | Reverts.

Inductive rule :=
| RSyn | RSynAck      (* TCP handshake flags *)
| RMcast              (* UDP / ICMPv6: destination is broadcast / multicast *)
| RPortsEph           (* exactly one of the two ports is ephemeral *)
| RPortsCmp           (* both or neither ephemeral, ports differ *)
| RPortsDefault       (* final default of classifyByPorts: ports identical *)
| RIcmpReq | RIcmpRep (* ICMP / ICMPv6 type tables *)
| RIcmpOther          (* ICMP type in neither table -> Unknown *)
| RProtoOther.        (* any other protocol -> Unknown *)

Record ep := { sip : list N; sph : N; spl : N; dip : list N; dph : N; dpl : N; proto : N }.

Definition reverse (e : ep) : ep :=
  {| sip := dip e; sph := dph e; spl := dpl e; dip := sip e; dph := sph e; dpl := spl e; proto := proto e |}.

Definition port_num (hi lo : N) : N := 256 * hi + lo.

(* ---- protocol numbers and flag / type constants *)
Definition pTCP := 6.  Definition pUDP := 17.  Definition pICMP := 1.  Definition pICMPv6 := 58.
Definition flagSYN := 2.  Definition flagACK := 16.

(* isEphemeralPort: port[0] >= 128 || (port[0] == 0 && port[1] == 0) *)
Definition is_ephemeral (hi lo : N) : bool := (128 <=? hi) || ((hi =? 0) && (lo =? 0)).

(* the byte-wise "port 1 < port 2" test used four times in classifyByPorts *)
Definition port_lt (h1 l1 h2 l2 : N) : bool := (h1 <? h2) || ((h1 =? h2) && (l1 <? l2)).

Definition classify_ports_r (e : ep) : rule * dirn :=
  if is_ephemeral (sph e) (spl e) then
    if negb (is_ephemeral (dph e) (dpl e)) then (RPortsEph, Remains)
    else if port_lt (dph e) (dpl e) (sph e) (spl e) then (RPortsCmp, Remains)
    else if port_lt (sph e) (spl e) (dph e) (dpl e) then (RPortsCmp, Reverts)
    else (RPortsDefault, Remains)
  else
    if is_ephemeral (dph e) (dpl e) then (RPortsEph, Reverts)
    else if port_lt (sph e) (spl e) (dph e) (dpl e) then (RPortsCmp, Reverts)
    else if port_lt (dph e) (dpl e) (sph e) (spl e) then (RPortsCmp, Remains)
    else (RPortsDefault, Remains).

(* isBroadcastMulticastV4 / V6 on the destination address bytes *)
Definition byte_at (i : nat) (ip : list N) : N := nth i ip 0.
Definition is_bcast_mcast_v4 (ip : list N) : bool :=
  ((byte_at 0 ip =? 255) && (byte_at 1 ip =? 255) && (byte_at 2 ip =? 255) && (byte_at 3 ip =? 255))
  || (((byte_at 0 ip =? 224) && (byte_at 1 ip =? 0)) && ((byte_at 2 ip =? 0) || (byte_at 2 ip =? 1))).
Definition is_mcast_v6 (ip : list N) : bool := byte_at 0 ip =? 255.
Definition is_mcast (v6 : bool) (ip : list N) : bool :=
  if v6 then is_mcast_v6 ip else is_bcast_mcast_v4 ip.

(* classifyICMPv4: replies 0 3 11 12 14, requests 8 13 *)
Definition classify_icmp4_r (t : N) : rule * dirn :=
  if (t =? 0) || (t =? 3) || (t =? 11) || (t =? 12) || (t =? 14) then (RIcmpRep, Reverts)
  else if (t =? 8) || (t =? 13) then (RIcmpReq, Remains)
  else (RIcmpOther, Unknown).

(* classifyICMPv6: multicast destination first; replies 129 1 3 4, request 128 *)
Definition classify_icmp6_r (e : ep) (t : N) : rule * dirn :=
  if is_mcast_v6 (dip e) then (RMcast, Remains)
  else if (t =? 129) || (t =? 1) || (t =? 3) || (t =? 4) then (RIcmpRep, Reverts)
  else if t =? 128 then (RIcmpReq, Remains)
  else (RIcmpOther, Unknown).

(* ClassifyPacketDirectionV4 (v6 = false) / ClassifyPacketDirectionV6 (v6 = true) *)
Definition classify_r (v6 : bool) (e : ep) (aux : N) : rule * dirn :=
  if proto e =? pTCP then
    if negb (aux =? 0) && negb (N.land aux flagSYN =? 0) then
      if negb (N.land aux flagACK =? 0) then (RSynAck, Reverts) else (RSyn, Remains)
    else classify_ports_r e
  else if proto e =? pUDP then
    if is_mcast v6 (dip e) then (RMcast, Remains) else classify_ports_r e
  else if v6 then
    if proto e =? pICMPv6 then classify_icmp6_r e aux else (RProtoOther, Unknown)
  else
    if proto e =? pICMP then classify_icmp4_r aux else (RProtoOther, Unknown).

Definition classify (v6 : bool) (e : ep) (aux : N) : dirn := snd (classify_r v6 e aux).
Definition rule_of (v6 : bool) (e : ep) (aux : N) : rule := fst (classify_r v6 e aux).

(* ---- "decisive": produced by a rule other than the final default, and not Unknown *)
Definition rule_is_default (r : rule) : bool := match r with RPortsDefault => true | _ => false end.
Definition rule_is_ports (r : rule) : bool :=
  match r with RPortsEph | RPortsCmp => true | _ => false end.
Definition dirn_known (d : dirn) : bool := match d with Unknown => false | _ => true end.
Definition decisive (v6 : bool) (e : ep) (aux : N) : bool :=
  negb (rule_is_default (rule_of v6 e aux)) && dirn_known (classify v6 e aux).
(* decisive by the port heuristics *)
Definition decisive_ports (v6 : bool) (e : ep) (aux : N) : bool := rule_is_ports (rule_of v6 e aux).

Definition opposite (d1 d2 : dirn) : bool :=
  match d1, d2 with Remains, Reverts | Reverts, Remains => true | _, _ => false end.

(* ---- vocabulary of the theorem statements (executable) *)
Definition ports_equal (e : ep) : bool := (sph e =? dph e) && (spl e =? dpl e).

(* SYN without ACK / SYN with ACK, as tested by the classifier *)
Definition is_syn (a : N) : bool := negb (N.land a flagSYN =? 0) && (N.land a flagACK =? 0).
Definition is_synack (a : N) : bool := negb (N.land a flagSYN =? 0) && negb (N.land a flagACK =? 0).

(* packets whose verdict can only come from the port heuristics, in both directions of the
   conversation (aux a for key e, aux b for the reversed key): TCP without SYN in either direction,
   UDP between two addresses neither of which is broadcast / multicast *)
Definition port_governed (v6 : bool) (e : ep) (a b : N) : bool :=
  ((proto e =? pTCP) && (N.land a flagSYN =? 0) && (N.land b flagSYN =? 0))
  || ((proto e =? pUDP) && negb (is_mcast v6 (sip e)) && negb (is_mcast v6 (dip e))).

(* ---- first-packet insertion (addToFlowLogV4/V6): key = Reverse(h) iff the verdict is Reverts *)
Definition stored_key (v6 : bool) (e : ep) (aux : N) : ep :=
  match classify v6 e aux with Reverts => reverse e | _ => e end.

Fixpoint bytes_eqb (a b : list N) : bool :=
  match a, b with
  | [], [] => true
  | x :: a', y :: b' => (x =? y) && bytes_eqb a' b'
  | _, _ => false
  end.
Definition ep_eqb (x y : ep) : bool :=
  bytes_eqb (sip x) (sip y) && (sph x =? sph y) && (spl x =? spl y) &&
  bytes_eqb (dip x) (dip y) && (dph x =? dph y) && (dpl x =? dpl y) && (proto x =? proto y).
Definition key_mem (k : ep) (m : list ep) : bool := existsb (ep_eqb k) m.

(* IsProbablyReverse: only selects which of the two lookups is tried first *)
Definition is_probably_reverse (e : ep) : bool :=
  if (sph e =? 0) && (spl e =? 0) then false
  else if (dph e =? 0) && (dpl e =? 0) then true
  else if sph e <? dph e then true
  else if sph e =? dph e then spl e <? dpl e
  else false.

(* addToFlowLogV4/V6 projected on the key set of the flow map (counters are C20's business) *)
Definition add_pkt (v6 : bool) (m : list ep) (e : ep) (aux : N) : list ep :=
  if is_probably_reverse e then
    if key_mem (reverse e) m then m
    else if key_mem e m then m
    else stored_key v6 e aux :: m
  else
    if key_mem e m then m
    else if key_mem (reverse e) m then m
    else stored_key v6 e aux :: m.

(* ---- byte layout of EPHashV4 (n = 4) / EPHashV6 (n = 16):
   [0,n) source IP, [n,n+2) source port, [n+2,2n+2) destination IP, [2n+2,2n+4) destination port,
   2n+4 protocol *)
Definition alen (v6 : bool) : nat := if v6 then 16%nat else 4%nat.
Definition hash_len (n : nat) : nat := (2 * n + 5)%nat.

Definition of_bytes (n : nat) (h : list N) : option ep :=
  if Nat.eqb (length h) (hash_len n) then
    Some {| sip := firstn n h; sph := nth n h 0; spl := nth (n + 1) h 0;
            dip := firstn n (skipn (n + 2) h);
            dph := nth (2 * n + 2) h 0; dpl := nth (2 * n + 3) h 0;
            proto := nth (2 * n + 4) h 0 |}
  else None.

Definition to_bytes (e : ep) : list N :=
  sip e ++ [sph e; spl e] ++ dip e ++ [dph e; dpl e; proto e].

(* EPHashV4.Reverse / EPHashV6.Reverse: two copies of n+2 bytes and the protocol byte *)
Definition reverse_bytes (n : nat) (h : list N) : list N :=
  firstn (n + 2) (skipn (n + 2) h) ++ firstn (n + 2) h ++ skipn (2 * n + 4) h.

Definition classify_bytes (v6 : bool) (h : list N) (aux : N) : dirn :=
  match of_bytes (alen v6) h with Some e => classify v6 e aux | None => Unknown end.

Definition dirn_code (d : dirn) : N := match d with Unknown => 0 | Remains => 1 | Reverts => 2 end.
