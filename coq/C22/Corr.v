(* C22 correspondence: case type, corr (model = observed) and holds (observed meets the spec).
   Verdicts are transported as capturetypes.Direction codes (0 Unknown, 1 Remains, 2 Reverts), a
   vector of verdicts as one number in base 4 (least significant digit first).
   [holds] is written against the observed verdicts / stored keys with its own small vocabulary
   (spec_*: port numbers, flag bits by testbit, address patterns); it never runs the model. *)
From Coq Require Import List NArith Bool.
From GoProbe.C22 Require Import Model.
Import ListNotations.
Open Scope N_scope.

(* base-4 digits of x, least significant first, read off the binary representation in one pass
   (division of a 800-bit number 400 times would dominate the run) *)
Fixpoint bits_of_pos (p : positive) : list bool :=
  match p with
  | xH => [true]
  | xO q => false :: bits_of_pos q
  | xI q => true :: bits_of_pos q
  end.
Definition bits_of_N (x : N) : list bool := match x with N0 => [] | Npos p => bits_of_pos p end.
Definition b2n (b : bool) : N := if b then 1 else 0.
Fixpoint digits_of_bits (n : nat) (bs : list bool) : list N :=
  match n with
  | O => []
  | S k =>
    match bs with
    | [] => 0 :: digits_of_bits k []
    | [b0] => b2n b0 :: digits_of_bits k []
    | b0 :: b1 :: rest => (b2n b0 + 2 * b2n b1) :: digits_of_bits k rest
    end
  end.
Definition unpack (n : nat) (x : N) : list N := digits_of_bits n (bits_of_N x).
(* x has no digit beyond the n-th *)
Definition fits (n : nat) (x : N) : bool := Nat.leb (length (bits_of_N x)) (2 * n).

Fixpoint list_eqb {A} (eqb : A -> A -> bool) (a b : list A) : bool :=
  match a, b with
  | [], [] => true
  | x :: a', y :: b' => eqb x y && list_eqb eqb a' b'
  | _, _ => false
  end.

Definition mk_hash (sip : list N) (sh sl : N) (dip : list N) (dh dl p : N) : list N :=
  sip ++ [sh; sl] ++ dip ++ [dh; dl; p].

(* destination ports of a CPorts case: every (hi, lo) of his x los, his-major *)
Definition port_grid (his los : list N) : list (N * N) :=
  flat_map (fun hi => map (fun lo => (hi, lo)) los) his.

Inductive case :=
(* one source port against a grid of destination ports, both directions:
   fwd_j = real verdict for (sip:sp -> dip:dp_j, proto) with aux a,
   rev_j = real verdict for the real Reverse() of that key with aux b *)
| CPorts (v6 : bool) (sip dip : list N) (proto a b : N) (sh sl : N) (his los : list N) (fwd rev : N)
(* one key against all 256 aux bytes (TCP flags / ICMP types), key and real Reverse() of it *)
| CAux (v6 : bool) (h : list N) (fwd rev : N)
(* r = real Reverse() of h; k1 = keys of the flow map after packets [(h,a); (r,b)],
   k2 = after [(r,b); (h,a)] (sorted) *)
| CStore (v6 : bool) (h r : list N) (a b : N) (k1 k2 : list (list N)).

(* ------------------------------------------------------------------ corr *)
Definition model_pair (v6 : bool) (h : list N) (a b : N) : N * N :=
  (dirn_code (classify_bytes v6 h a), dirn_code (classify_bytes v6 (reverse_bytes (alen v6) h) b)).

Definition wf_len (v6 : bool) (h : list N) : bool := Nat.eqb (length h) (hash_len (alen v6)).

Definition keys_after (v6 : bool) (h : list N) (a b : N) (first_fwd : bool) : list (list N) :=
  match of_bytes (alen v6) h with
  | Some e =>
    map to_bytes (if first_fwd then add_pkt v6 (add_pkt v6 [] e a) (reverse e) b
                  else add_pkt v6 (add_pkt v6 [] (reverse e) b) e a)
  | None => []
  end.

Definition corr (c : case) : bool :=
  match c with
  | CPorts v6 sip dip p a b sh sl his los fwd rev =>
    let grid := port_grid his los in
    let n := length grid in
    let model := map (fun d => model_pair v6 (mk_hash sip sh sl dip (fst d) (snd d) p) a b) grid in
    Nat.eqb (length sip) (alen v6) && Nat.eqb (length dip) (alen v6)
    && list_eqb N.eqb (map fst model) (unpack n fwd) && list_eqb N.eqb (map snd model) (unpack n rev)
    && fits n fwd && fits n rev
  | CAux v6 h fwd rev =>
    let auxs := map N.of_nat (seq 0 256) in
    wf_len v6 h
    && list_eqb N.eqb (map (fun a => fst (model_pair v6 h a a)) auxs) (unpack 256 fwd)
    && list_eqb N.eqb (map (fun a => snd (model_pair v6 h a a)) auxs) (unpack 256 rev)
    && fits 256 fwd && fits 256 rev
  | CStore v6 h r a b k1 k2 =>
    wf_len v6 h && list_eqb N.eqb (reverse_bytes (alen v6) h) r
    && list_eqb (list_eqb N.eqb) (keys_after v6 h a b true) k1
    && list_eqb (list_eqb N.eqb) (keys_after v6 h a b false) k2
  end.

(* ------------------------------------------------------------------ specification *)
Definition spec_syn (a : N) : bool := N.testbit a 1.
Definition spec_ack (a : N) : bool := N.testbit a 4.

(* IPv4 limited broadcast, 224.0.0.0/24, 224.0.1.0/24; IPv6 ff00::/8 *)
Definition spec_mcast (v6 : bool) (ip : list N) : bool :=
  match ip with
  | b0 :: rest =>
    if v6 then b0 =? 255
    else match rest with
         | [b1; b2; b3] =>
           ((b0 =? 255) && (b1 =? 255) && (b2 =? 255) && (b3 =? 255))
           || ((b0 =? 224) && (b1 =? 0) && (b2 <=? 1))
         | _ => false
         end
  | [] => false
  end.

Definition spec_opposite (d1 d2 : N) : bool := ((d1 =? 1) && (d2 =? 2)) || ((d1 =? 2) && (d2 =? 1)).
Definition implb' (p q : bool) : bool := if p then q else true.

Definition icmp4_request (t : N) : bool := (t =? 8) || (t =? 13).   (* echo, timestamp *)
Definition icmp4_reply (t : N) : bool := (t =? 0) || (t =? 14).

(* what the property demands of the two verdicts d1 (key sip:sp -> dip:dp, aux a) and d2
   (reversed key, aux b); sp dp are port numbers *)
Definition spec_pair (v6 : bool) (sip dip : list N) (p sp dp a b d1 d2 : N) : bool :=
  if p =? 6 then
    implb' (spec_syn a) (if spec_ack a then d1 =? 2 else d1 =? 1)
    && implb' (spec_syn b) (if spec_ack b then d2 =? 2 else d2 =? 1)
    && implb' (negb (spec_syn a) && negb (spec_syn b) && negb (sp =? dp)) (spec_opposite d1 d2)
  else if p =? 17 then
    implb' (negb (spec_mcast v6 sip) && negb (spec_mcast v6 dip) && negb (sp =? dp)) (spec_opposite d1 d2)
  else if negb v6 && (p =? 1) then
    implb' (icmp4_request a) (d1 =? 1) && implb' (icmp4_reply a) (d1 =? 2)
    && implb' (icmp4_request b) (d2 =? 1) && implb' (icmp4_reply b) (d2 =? 2)
  else if v6 && (p =? 58) then
    implb' (a =? 128) (d1 =? 1) && implb' ((a =? 129) && negb (spec_mcast v6 dip)) (d1 =? 2)
    && implb' (b =? 128) (d2 =? 1) && implb' ((b =? 129) && negb (spec_mcast v6 sip)) (d2 =? 2)
  else true.

(* the pairs (first packet of either direction) for which the property promises one orientation,
   and which key it must be when the property names it: 1 = h (a is the request), 2 = Reverse(h),
   0 = unnamed *)
Definition spec_consistent (v6 : bool) (sip dip : list N) (p sp dp a b : N) : option N :=
  if p =? 6 then
    if spec_syn a && negb (spec_ack a) && spec_syn b && spec_ack b then Some 1
    else if spec_syn a && spec_ack a && spec_syn b && negb (spec_ack b) then Some 2
    else if negb (spec_syn a) && negb (spec_syn b) && negb (sp =? dp) then Some 0
    else None
  else if p =? 17 then
    if negb (spec_mcast v6 sip) && negb (spec_mcast v6 dip) && negb (sp =? dp) then Some 0 else None
  else if negb v6 && (p =? 1) then
    if icmp4_request a && icmp4_reply b then Some 1
    else if icmp4_reply a && icmp4_request b then Some 2 else None
  else if v6 && (p =? 58) then
    if (a =? 128) && (b =? 129) && negb (spec_mcast v6 sip) then Some 1
    else if (a =? 129) && (b =? 128) && negb (spec_mcast v6 dip) then Some 2 else None
  else None.

(* fields of a raw key, by the documented layout (spec side: plain list surgery) *)
Definition key_sip (v6 : bool) (h : list N) := firstn (alen v6) h.
Definition key_dip (v6 : bool) (h : list N) := firstn (alen v6) (skipn (alen v6 + 2) h).
Definition key_sp (v6 : bool) (h : list N) := 256 * nth (alen v6) h 0 + nth (alen v6 + 1) h 0.
Definition key_dp (v6 : bool) (h : list N) :=
  256 * nth (2 * alen v6 + 2) h 0 + nth (2 * alen v6 + 3) h 0.
Definition key_proto (v6 : bool) (h : list N) := last h 0.
(* source and destination (address, port) switched, protocol kept *)
Definition spec_reverse (v6 : bool) (h : list N) : list N :=
  let n := (alen v6 + 2)%nat in firstn n (skipn n h) ++ firstn n h ++ [last h 0].

Definition holds (c : case) : bool :=
  match c with
  | CPorts v6 sip dip p a b sh sl his los fwd rev =>
    let grid := port_grid his los in
    let n := length grid in
    forallb (fun x => match x with (d, (d1, d2)) =>
                        spec_pair v6 sip dip p (256 * sh + sl) (256 * fst d + snd d) a b d1 d2 end)
            (combine grid (combine (unpack n fwd) (unpack n rev)))
  | CAux v6 h fwd rev =>
    let f := unpack 256 fwd in
    let r := unpack 256 rev in
    let auxs := map N.of_nat (seq 0 256) in
    let sip := key_sip v6 h in
    let dip := key_dip v6 h in
    let p := key_proto v6 h in
    let sp := key_sp v6 h in
    let dp := key_dp v6 h in
    let br := combine auxs r in
    forallb (fun x => match x with (a, d1) =>
      forallb (fun y => match y with (b, d2) => spec_pair v6 sip dip p sp dp a b d1 d2 end) br end)
      (combine auxs f)
  | CStore v6 h r a b k1 k2 =>
    match spec_consistent v6 (key_sip v6 h) (key_dip v6 h) (key_proto v6 h) (key_sp v6 h) (key_dp v6 h) a b with
    | None => true
    | Some w =>
      (* same single record whichever packet came first ... *)
      list_eqb (list_eqb N.eqb) k1 k2 && Nat.eqb (length k1) 1
      (* ... and requester -> responder where the property names the requester *)
      && (if w =? 1 then list_eqb (list_eqb N.eqb) k1 [h]
          else if w =? 2 then list_eqb (list_eqb N.eqb) k1 [spec_reverse v6 h] else true)
    end
  end.
