(* C22 property theorems. Nothing but statements closed by `exact`, Print Assumptions and one
   non-vacuity Example per theorem.
   Vocabulary (Model.v): [classify v6 e aux] is ClassifyPacketDirectionV4 (v6 = false) / V6 (true)
   on the key [e] with the TCP flag byte / ICMP type [aux]; [reverse e] is EPHash.Reverse();
   [stored_key] is the key the first packet of a conversation is filed under; [add_pkt] is
   addToFlowLogV4/V6 on the key set. [decisive_ports] = the verdict was produced by a rule of
   classifyByPorts other than its final "ports identical" default (hence is not Unknown). *)
From Coq Require Import List NArith Bool.
From GoProbe.C22 Require Import Model Proofs.
Import ListNotations.
Open Scope N_scope.

(* Whenever the port heuristics are decisive for a key (with flag byte a) and for its reverse (with
   flag byte b, the two directions carry independent flags) the verdicts are opposite; hence the
   conversation is filed under the same (source, destination) whichever packet is seen first, and
   the flow map ends up identical for both arrival orders. All addresses, all port bytes. *)
Theorem c22_symmetric : forall v6 e a b,
  decisive_ports v6 e a = true -> decisive_ports v6 (reverse e) b = true ->
  opposite (classify v6 e a) (classify v6 (reverse e) b) = true
  /\ stored_key v6 e a = stored_key v6 (reverse e) b
  /\ add_pkt v6 (add_pkt v6 [] e a) (reverse e) b = add_pkt v6 (add_pkt v6 [] (reverse e) b) e a.
Proof. exact symmetric. Qed.
Print Assumptions c22_symmetric.

Example c22_symmetric_example :
  let e := {| sip := [10;0;0;1]; sph := 156; spl := 64; dip := [10;0;0;2]; dph := 0; dpl := 80; proto := 6 |} in
  decisive_ports false e 16 = true /\ decisive_ports false (reverse e) 24 = true
  /\ classify false e 16 = Remains /\ classify false (reverse e) 24 = Reverts
  /\ stored_key false (reverse e) 24 = e.
Proof. repeat split; reflexivity. Qed.

(* ... and the hypotheses of c22_symmetric hold for EVERY pair of distinct port numbers, for every
   TCP packet without SYN and every UDP packet between non-broadcast/multicast addresses: the port
   heuristics are decisive in both directions exactly when the ports differ. *)
Theorem c22_symmetric_all_ports : forall v6 e a b,
  port_governed v6 e a b = true -> spl e < 256 -> dpl e < 256 ->
  port_num (sph e) (spl e) <> port_num (dph e) (dpl e) ->
  decisive_ports v6 e a = true /\ decisive_ports v6 (reverse e) b = true
  /\ opposite (classify v6 e a) (classify v6 (reverse e) b) = true
  /\ stored_key v6 e a = stored_key v6 (reverse e) b.
Proof. exact symmetric_all_ports. Qed.
Print Assumptions c22_symmetric_all_ports.

Example c22_symmetric_all_ports_example :
  let e := {| sip := [192;168;1;7]; sph := 200; spl := 1; dip := [192;168;1;9]; dph := 200; dpl := 0; proto := 17 |} in
  port_governed false e 0 0 = true /\ port_num (sph e) (spl e) = 51201 /\ port_num (dph e) (dpl e) = 51200
  /\ stored_key false e 0 = e /\ stored_key false (reverse e) 0 = e.
Proof. repeat split; reflexivity. Qed.

(* Outside "decisive": identical ports fall through to the default in both directions, and then
   the first packet seen decides the orientation. *)
Theorem c22_equal_ports_first_wins : forall v6 e a b,
  port_governed v6 e a b = true -> sph e = dph e -> spl e = dpl e ->
  decisive v6 e a = false /\ decisive v6 (reverse e) b = false
  /\ stored_key v6 e a = e /\ stored_key v6 (reverse e) b = reverse e.
Proof. exact equal_ports_first_wins. Qed.
Print Assumptions c22_equal_ports_first_wins.

Example c22_equal_ports_example :
  let e := {| sip := [10;0;0;1]; sph := 0; spl := 123; dip := [10;0;0;2]; dph := 0; dpl := 123; proto := 17 |} in
  port_governed false e 0 0 = true /\ stored_key false e 0 <> stored_key false (reverse e) 0.
Proof. split; [reflexivity | discriminate]. Qed.

(* Requests are filed requester -> responder: with e the key of the request direction,
   - TCP: a SYN (without ACK) on e and a SYN-ACK on the reverse key both store e;
   - ICMP: echo (8) / timestamp (13) request on e and echo (0) / timestamp (14) reply on the
     reverse key both store e;
   - ICMPv6: echo request (128) on e and echo reply (129) on the reverse key both store e, provided
     the requester's own address is not a multicast address (ff00::/8). *)
Theorem c22_requests :
  (forall v6 e syn synack, proto e = pTCP -> is_syn syn = true -> is_synack synack = true ->
     classify v6 e syn = Remains /\ classify v6 (reverse e) synack = Reverts
     /\ stored_key v6 e syn = e /\ stored_key v6 (reverse e) synack = e)
  /\ (forall e req rep, proto e = pICMP -> req = 8 \/ req = 13 -> rep = 0 \/ rep = 14 ->
     classify false e req = Remains /\ classify false (reverse e) rep = Reverts
     /\ stored_key false e req = e /\ stored_key false (reverse e) rep = e)
  /\ (forall e, proto e = pICMPv6 -> is_mcast_v6 (sip e) = false ->
     classify true e 128 = Remains /\ classify true (reverse e) 129 = Reverts
     /\ stored_key true e 128 = e /\ stored_key true (reverse e) 129 = e).
Proof. exact (conj requests_tcp (conj requests_icmp4 requests_icmp6)). Qed.
Print Assumptions c22_requests.

Example c22_requests_example :
  (* SYN+ECE+CWR / SYN+ACK+ECE from a low port to a high one: the flags win over the ports *)
  let e := {| sip := [10;0;0;1]; sph := 0; spl := 20; dip := [10;0;0;2]; dph := 156; dpl := 64; proto := pTCP |} in
  is_syn 194 = true /\ is_synack 82 = true /\ stored_key false e 194 = e /\ stored_key false (reverse e) 82 = e
  /\ is_mcast_v6 [254;128;0;0;0;0;0;0;0;0;0;0;0;0;0;1] = false.
Proof. repeat split; reflexivity. Qed.

(* TCP, flags and ports together: when the port heuristics designate the direction of e as the
   requesting one (and are not at their default), every packet the requester can send (anything but
   a SYN-ACK) and every packet the responder can send (anything but a bare SYN) file the
   conversation under e -- all four combinations of handshake / mid-stream first packets. *)
Theorem c22_tcp_consistent : forall v6 e a b,
  proto e = pTCP -> ports_equal e = false -> snd (classify_ports_r e) = Remains ->
  is_synack a = false -> is_syn b = false ->
  stored_key v6 e a = e /\ stored_key v6 (reverse e) b = e.
Proof. exact tcp_consistent. Qed.
Print Assumptions c22_tcp_consistent.

Example c22_tcp_consistent_example :
  let e := {| sip := [10;0;0;1]; sph := 156; spl := 64; dip := [10;0;0;2]; dph := 1; dpl := 187; proto := pTCP |} in
  ports_equal e = false /\ snd (classify_ports_r e) = Remains
  /\ is_synack 2 = false /\ is_synack 24 = false /\ is_syn 18 = false /\ is_syn 17 = false.
Proof. repeat split; reflexivity. Qed.

(* Scope boundary (why c22_symmetric is stated per heuristic): a SYN and the port heuristic of the
   answering direction can both be decisive and still agree instead of being opposite, e.g. a
   connection opened from port 20 to port 40000 -- first packet SYN: stored 20 -> 40000; first packet
   an ACK of the other side: stored 40000 -> 20. *)
Theorem c22_mixed_rules_conflict :
  let e := {| sip := [10;0;0;1]; sph := 0; spl := 20; dip := [10;0;0;2]; dph := 156; dpl := 64; proto := 6 |} in
  decisive false e 2 = true /\ decisive false (reverse e) 16 = true
  /\ rule_of false e 2 = RSyn /\ rule_of false (reverse e) 16 = RPortsEph
  /\ opposite (classify false e 2) (classify false (reverse e) 16) = false
  /\ stored_key false e 2 <> stored_key false (reverse e) 16.
Proof. exact mixed_rules_conflict. Qed.
Print Assumptions c22_mixed_rules_conflict.

(* The theorems speak about the bytes the Go code handles: a 13 / 37 byte key decodes to [e], encodes
   back to the same bytes, and the byte-level Reverse() decodes to [reverse e]. *)
Theorem c22_bytes_bridge : forall v6 h e b,
  of_bytes (alen v6) h = Some e ->
  to_bytes e = h
  /\ of_bytes (alen v6) (reverse_bytes (alen v6) h) = Some (reverse e)
  /\ classify_bytes v6 (reverse_bytes (alen v6) h) b = classify v6 (reverse e) b.
Proof. exact bytes_bridge. Qed.
Print Assumptions c22_bytes_bridge.

Example c22_bytes_bridge_example :
  of_bytes 4 [10;0;0;1;156;64;10;0;0;2;0;80;6] =
  Some {| sip := [10;0;0;1]; sph := 156; spl := 64; dip := [10;0;0;2]; dph := 0; dpl := 80; proto := 6 |}
  /\ reverse_bytes 4 [10;0;0;1;156;64;10;0;0;2;0;80;6] = [10;0;0;2;0;80;10;0;0;1;156;64;6].
Proof. split; reflexivity. Qed.
