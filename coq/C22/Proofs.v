(* C22 proofs: symmetry of the port heuristics under key reversal, request/reply rules,
   first-packet insertion, and the byte layout bridge. *)
From Coq Require Import List PeanoNat NArith Bool Lia ZifyBool ZifyN.
From GoProbe.C22 Require Import Model.
Import ListNotations.
Open Scope N_scope.

(* ------------------------------------------------------------------ basic facts *)
Lemma reverse_involutive : forall e, reverse (reverse e) = e.
Proof. intros []; reflexivity. Qed.

Lemma bytes_eqb_refl : forall l, bytes_eqb l l = true.
Proof. induction l as [|x l IH]; cbn; [reflexivity|]. rewrite N.eqb_refl, IH. reflexivity. Qed.

Lemma ep_eqb_refl : forall e, ep_eqb e e = true.
Proof.
  intros e. unfold ep_eqb. rewrite !bytes_eqb_refl, !N.eqb_refl. reflexivity.
Qed.

(* the byte-wise comparison is the strict order of the port numbers *)
Lemma port_lt_num : forall h1 l1 h2 l2, l1 < 256 -> l2 < 256 ->
  port_lt h1 l1 h2 l2 = (port_num h1 l1 <? port_num h2 l2).
Proof. intros. unfold port_lt, port_num. lia. Qed.

Lemma port_num_inj : forall h1 l1 h2 l2, l1 < 256 -> l2 < 256 ->
  port_num h1 l1 = port_num h2 l2 -> h1 = h2 /\ l1 = l2.
Proof. intros. unfold port_num in *. lia. Qed.

(* isEphemeralPort in terms of the port number: 0 or >= 32768 *)
Lemma is_ephemeral_num : forall hi lo, lo < 256 ->
  is_ephemeral hi lo = ((32768 <=? port_num hi lo) || (port_num hi lo =? 0)).
Proof. intros. unfold is_ephemeral, port_num. lia. Qed.

(* ------------------------------------------------------------------ port heuristics *)
(* the final default is reached exactly when the two ports are identical *)
Lemma ports_rule_iff : forall e,
  rule_is_ports (fst (classify_ports_r e)) = negb (ports_equal e).
Proof.
  intros [si sh sl di dh dl p]. unfold classify_ports_r, ports_equal, port_lt; cbn [sph spl dph dpl].
  destruct (is_ephemeral sh sl) eqn:Es; destruct (is_ephemeral dh dl) eqn:Ed; cbn [negb];
    unfold is_ephemeral in *;
    repeat match goal with |- context [if ?c then _ else _] => destruct c eqn:? end;
    cbn [fst rule_is_ports]; lia.
Qed.

Lemma ports_default_verdict : forall e,
  ports_equal e = true -> classify_ports_r e = (RPortsDefault, Remains).
Proof.
  intros [si sh sl di dh dl p]. unfold classify_ports_r, ports_equal, port_lt; cbn [sph spl dph dpl].
  intros H. assert (sh = dh /\ sl = dl) as [-> ->] by lia.
  destruct (is_ephemeral dh dl); cbn [negb];
    repeat match goal with |- context [if ?c then _ else _] => destruct c eqn:? end;
    try reflexivity; lia.
Qed.

(* the core of C22: whenever neither direction falls through to the default, the two verdicts of
   classifyByPorts are opposite -- for all port bytes, by case analysis on
   (ephemeral?, ephemeral?, compare) *)
Lemma ports_opposite : forall e,
  ports_equal e = false ->
  opposite (snd (classify_ports_r e)) (snd (classify_ports_r (reverse e))) = true.
Proof.
  intros [si sh sl di dh dl p]. unfold classify_ports_r, reverse, ports_equal, port_lt;
    cbn [sph spl dph dpl]. intros H.
  destruct (is_ephemeral sh sl) eqn:Es; destruct (is_ephemeral dh dl) eqn:Ed; cbn [negb];
    repeat match goal with |- context [if ?c then _ else _] => destruct c eqn:? end;
    cbn [snd opposite]; try reflexivity; lia.
Qed.

Lemma ports_equal_reverse : forall e, ports_equal (reverse e) = ports_equal e.
Proof. intros []. unfold ports_equal, reverse; cbn. lia. Qed.

(* a verdict attributed to a port rule is the verdict of classifyByPorts *)
Lemma ports_rule_source : forall v6 e a,
  rule_is_ports (rule_of v6 e a) = true -> classify_r v6 e a = classify_ports_r e.
Proof.
  intros v6 e a. unfold rule_of, classify_r, classify_icmp4_r, classify_icmp6_r.
  repeat match goal with |- context [if ?c then _ else _] => destruct c end;
    cbn [fst rule_is_ports]; intros H; try discriminate H; reflexivity.
Qed.

Lemma decisive_ports_equal : forall v6 e a,
  decisive_ports v6 e a = true -> ports_equal e = false.
Proof.
  intros v6 e a H. unfold decisive_ports in H. pose proof (ports_rule_source _ _ _ H) as E.
  unfold rule_of in H. rewrite E, ports_rule_iff in H. destruct (ports_equal e); [discriminate|reflexivity].
Qed.

(* a verdict decisive by the port heuristics is decisive *)
Lemma decisive_ports_decisive : forall v6 e a,
  decisive_ports v6 e a = true -> decisive v6 e a = true.
Proof.
  intros v6 e a H. pose proof (ports_rule_source _ _ _ H) as E. unfold decisive_ports in H.
  unfold decisive, classify. unfold rule_of in *. rewrite E in *.
  destruct e as [si sh sl di dh dl p]. revert H. unfold classify_ports_r; cbn [sph spl dph dpl].
  repeat match goal with |- context [if ?c then _ else _] => destruct c end;
    cbn; intros H; try discriminate H; reflexivity.
Qed.

(* ------------------------------------------------------------------ first-packet insertion *)
Lemma stored_key_opposite : forall v6 e a b,
  opposite (classify v6 e a) (classify v6 (reverse e) b) = true ->
  stored_key v6 e a = stored_key v6 (reverse e) b.
Proof.
  intros v6 e a b. unfold stored_key.
  destruct (classify v6 e a); destruct (classify v6 (reverse e) b); cbn; intros H;
    try discriminate H; rewrite ?reverse_involutive; reflexivity.
Qed.

Lemma stored_key_cases : forall v6 e a, stored_key v6 e a = e \/ stored_key v6 e a = reverse e.
Proof. intros. unfold stored_key. destruct (classify v6 e a); auto. Qed.

Lemma add_pkt_first : forall v6 e a, add_pkt v6 [] e a = [stored_key v6 e a].
Proof. intros. unfold add_pkt. cbn. destruct (is_probably_reverse e); reflexivity. Qed.

(* a packet whose key or reversed key is the only entry does not add an entry *)
Lemma add_pkt_found : forall v6 k e a, k = e \/ k = reverse e -> add_pkt v6 [k] e a = [k].
Proof.
  intros v6 k e a [-> | ->]; unfold add_pkt, key_mem; cbn [existsb]; rewrite ?ep_eqb_refl; cbn;
    repeat match goal with |- context [if ?c then _ else _] => destruct c end; reflexivity.
Qed.

(* both packets of a conversation, in either order: one entry, the key chosen by the first *)
Lemma add_pkt_two : forall v6 e a b,
  add_pkt v6 (add_pkt v6 [] e a) (reverse e) b = [stored_key v6 e a].
Proof.
  intros. rewrite add_pkt_first. apply add_pkt_found.
  destruct (stored_key_cases v6 e a) as [-> | ->]; [right; symmetry; apply reverse_involutive | left; reflexivity].
Qed.

Lemma add_pkt_two' : forall v6 e a b,
  add_pkt v6 (add_pkt v6 [] (reverse e) b) e a = [stored_key v6 (reverse e) b].
Proof.
  intros. rewrite <- (reverse_involutive e) at 2. apply add_pkt_two.
Qed.

(* ------------------------------------------------------------------ c22_symmetric *)
Lemma symmetric : forall v6 e a b,
  decisive_ports v6 e a = true -> decisive_ports v6 (reverse e) b = true ->
  opposite (classify v6 e a) (classify v6 (reverse e) b) = true
  /\ stored_key v6 e a = stored_key v6 (reverse e) b
  /\ add_pkt v6 (add_pkt v6 [] e a) (reverse e) b = add_pkt v6 (add_pkt v6 [] (reverse e) b) e a.
Proof.
  intros v6 e a b H1 H2.
  assert (O : opposite (classify v6 e a) (classify v6 (reverse e) b) = true).
  { unfold classify. rewrite (ports_rule_source _ _ _ H1), (ports_rule_source _ _ _ H2).
    apply ports_opposite. eapply decisive_ports_equal; eauto. }
  split; [exact O|]. pose proof (stored_key_opposite _ _ _ _ O) as K. split; [exact K|].
  rewrite add_pkt_two, add_pkt_two', K. reflexivity.
Qed.

Lemma port_governed_spec : forall v6 e a b, port_governed v6 e a b = true ->
  (proto e = pTCP /\ N.land a flagSYN = 0 /\ N.land b flagSYN = 0)
  \/ (proto e = pUDP /\ is_mcast v6 (sip e) = false /\ is_mcast v6 (dip e) = false).
Proof.
  intros v6 e a b H. unfold port_governed in H. apply orb_prop in H. destruct H as [H | H];
    apply andb_prop in H; destruct H as [H H3]; apply andb_prop in H; destruct H as [H1 H2];
    apply N.eqb_eq in H1; [left | right]; repeat split; auto.
  - apply N.eqb_eq; exact H2.
  - apply N.eqb_eq; exact H3.
  - destruct (is_mcast v6 (sip e)); [discriminate|reflexivity].
  - destruct (is_mcast v6 (dip e)); [discriminate|reflexivity].
Qed.

Lemma governed_rule : forall v6 e a b, port_governed v6 e a b = true ->
  classify_r v6 e a = classify_ports_r e /\ classify_r v6 (reverse e) b = classify_ports_r (reverse e).
Proof.
  intros v6 e a b G. destruct (port_governed_spec _ _ _ _ G) as [[P [A B]] | [P [S D]]]; unfold classify_r; destruct e as [si sh sl di dh dl p];
    cbn [proto reverse sip dip] in *; subst p; cbn [N.eqb pTCP pUDP Pos.eqb].
  - rewrite A, B. cbn. rewrite !andb_false_r. split; reflexivity.
  - rewrite S, D. split; reflexivity.
Qed.

Lemma symmetric_all_ports : forall v6 e a b,
  port_governed v6 e a b = true -> spl e < 256 -> dpl e < 256 ->
  port_num (sph e) (spl e) <> port_num (dph e) (dpl e) ->
  decisive_ports v6 e a = true /\ decisive_ports v6 (reverse e) b = true
  /\ opposite (classify v6 e a) (classify v6 (reverse e) b) = true
  /\ stored_key v6 e a = stored_key v6 (reverse e) b.
Proof.
  intros v6 e a b G Hs Hd Hne. destruct (governed_rule _ _ _ _ G) as [E1 E2].
  assert (Q : ports_equal e = false).
  { unfold ports_equal. destruct ((sph e =? dph e) && (spl e =? dpl e)) eqn:X; [|reflexivity].
    exfalso. apply Hne. unfold port_num. lia. }
  assert (D1 : decisive_ports v6 e a = true).
  { unfold decisive_ports, rule_of. rewrite E1, ports_rule_iff, Q. reflexivity. }
  assert (D2 : decisive_ports v6 (reverse e) b = true).
  { unfold decisive_ports, rule_of. rewrite E2, ports_rule_iff, ports_equal_reverse, Q. reflexivity. }
  destruct (symmetric v6 e a b D1 D2) as [O [K _]]. auto.
Qed.

(* identical ports: both directions take the default, so the first packet seen decides *)
Lemma equal_ports_first_wins : forall v6 e a b,
  port_governed v6 e a b = true -> sph e = dph e -> spl e = dpl e ->
  decisive v6 e a = false /\ decisive v6 (reverse e) b = false
  /\ stored_key v6 e a = e /\ stored_key v6 (reverse e) b = reverse e.
Proof.
  intros v6 e a b G H1 H2. destruct (governed_rule _ _ _ _ G) as [E1 E2].
  assert (Q : ports_equal e = true) by (unfold ports_equal; rewrite H1, H2, !N.eqb_refl; reflexivity).
  pose proof (ports_default_verdict e Q) as V1.
  assert (Q' : ports_equal (reverse e) = true) by (rewrite ports_equal_reverse; exact Q).
  pose proof (ports_default_verdict _ Q') as V2.
  unfold decisive, stored_key, classify, rule_of. rewrite E1, E2, V1, V2. cbn. auto.
Qed.

(* ------------------------------------------------------------------ c22_requests *)
Lemma land_nonzero : forall a m, N.land a m <> 0 -> a <> 0.
Proof. intros a m H E. subst a. apply H. apply N.land_0_l. Qed.

Lemma requests_tcp : forall v6 e syn synack,
  proto e = pTCP -> is_syn syn = true -> is_synack synack = true ->
  classify v6 e syn = Remains /\ classify v6 (reverse e) synack = Reverts
  /\ stored_key v6 e syn = e /\ stored_key v6 (reverse e) synack = e.
Proof.
  intros v6 e syn synack P S SA. unfold is_syn, is_synack in *.
  assert (C1 : classify v6 e syn = Remains).
  { unfold classify, classify_r. rewrite P. cbn [N.eqb pTCP Pos.eqb].
    destruct (N.land syn flagSYN =? 0) eqn:X; [discriminate|].
    destruct (N.land syn flagACK =? 0) eqn:Y; [|discriminate].
    assert (syn <> 0) by (apply (land_nonzero _ flagSYN); lia).
    destruct (syn =? 0) eqn:Z; [lia|]. reflexivity. }
  assert (C2 : classify v6 (reverse e) synack = Reverts).
  { unfold classify, classify_r. destruct e as [si sh sl di dh dl p]; cbn [proto reverse] in *. rewrite P. cbn [N.eqb pTCP Pos.eqb].
    destruct (N.land synack flagSYN =? 0) eqn:X; [discriminate|].
    destruct (N.land synack flagACK =? 0) eqn:Y; [discriminate|].
    assert (synack <> 0) by (apply (land_nonzero _ flagSYN); lia).
    destruct (synack =? 0) eqn:Z; [lia|]. reflexivity. }
  unfold stored_key. rewrite C1, C2, reverse_involutive. auto.
Qed.

Lemma requests_icmp4 : forall e req rep,
  proto e = pICMP -> req = 8 \/ req = 13 -> rep = 0 \/ rep = 14 ->
  classify false e req = Remains /\ classify false (reverse e) rep = Reverts
  /\ stored_key false e req = e /\ stored_key false (reverse e) rep = e.
Proof.
  intros e req rep P Hq Hp.
  assert (C1 : classify false e req = Remains).
  { unfold classify, classify_r. rewrite P. destruct Hq as [-> | ->]; reflexivity. }
  assert (C2 : classify false (reverse e) rep = Reverts).
  { unfold classify, classify_r. destruct e as [si sh sl di dh dl p]; cbn [proto reverse] in *. rewrite P.
    destruct Hp as [-> | ->]; reflexivity. }
  unfold stored_key. rewrite C1, C2, reverse_involutive. auto.
Qed.

Lemma requests_icmp6 : forall e,
  proto e = pICMPv6 -> is_mcast_v6 (sip e) = false ->
  classify true e 128 = Remains /\ classify true (reverse e) 129 = Reverts
  /\ stored_key true e 128 = e /\ stored_key true (reverse e) 129 = e.
Proof.
  intros e P M.
  assert (C1 : classify true e 128 = Remains).
  { unfold classify, classify_r, classify_icmp6_r. rewrite P. cbn [N.eqb pICMPv6 pTCP pUDP Pos.eqb].
    destruct (is_mcast_v6 (dip e)); reflexivity. }
  assert (C2 : classify true (reverse e) 129 = Reverts).
  { unfold classify, classify_r, classify_icmp6_r. destruct e as [si sh sl di dh dl p]; cbn [proto reverse sip dip] in *.
    rewrite P, M. reflexivity. }
  unfold stored_key. rewrite C1, C2, reverse_involutive. auto.
Qed.

(* ------------------------------------------------------------------ scope boundary *)
(* two different heuristics may contradict each other: a SYN sent from a well-known port to an
   ephemeral one (e.g. active-mode FTP data, port 20) says "requester", the ports of the answering
   direction say "requester" as well *)
Definition ex_e : ep := {| sip := [10;0;0;1]; sph := 0; spl := 20; dip := [10;0;0;2]; dph := 156; dpl := 64; proto := 6 |}.
Lemma mixed_rules_conflict :
  decisive false ex_e 2 = true /\ decisive false (reverse ex_e) 16 = true
  /\ rule_of false ex_e 2 = RSyn /\ rule_of false (reverse ex_e) 16 = RPortsEph
  /\ opposite (classify false ex_e 2) (classify false (reverse ex_e) 16) = false
  /\ stored_key false ex_e 2 <> stored_key false (reverse ex_e) 16.
Proof. repeat split; try reflexivity. discriminate. Qed.

(* ------------------------------------------------------------------ byte layout bridge *)
Lemma of_bytes_reverse_v4 : forall h e,
  of_bytes 4 h = Some e -> of_bytes 4 (reverse_bytes 4 h) = Some (reverse e) /\ to_bytes e = h.
Proof.
  intros h e H. unfold of_bytes in H. destruct (Nat.eqb (length h) (hash_len 4)) eqn:E; [|discriminate].
  apply Nat.eqb_eq in E. do 13 (destruct h as [|? h]; [discriminate E|]).
  destruct h; [|discriminate E]. inversion H; subst. split; reflexivity.
Qed.

Lemma of_bytes_reverse_v6 : forall h e,
  of_bytes 16 h = Some e -> of_bytes 16 (reverse_bytes 16 h) = Some (reverse e) /\ to_bytes e = h.
Proof.
  intros h e H. unfold of_bytes in H. destruct (Nat.eqb (length h) (hash_len 16)) eqn:E; [|discriminate].
  apply Nat.eqb_eq in E. do 37 (destruct h as [|? h]; [discriminate E|]).
  destruct h; [|discriminate E]. inversion H; subst. split; reflexivity.
Qed.

Lemma bytes_bridge : forall v6 h e b,
  of_bytes (alen v6) h = Some e ->
  to_bytes e = h
  /\ of_bytes (alen v6) (reverse_bytes (alen v6) h) = Some (reverse e)
  /\ classify_bytes v6 (reverse_bytes (alen v6) h) b = classify v6 (reverse e) b.
Proof.
  intros v6 h e b H. unfold classify_bytes.
  destruct v6; cbn [alen] in *;
    [destruct (of_bytes_reverse_v6 _ _ H) as [R T] | destruct (of_bytes_reverse_v4 _ _ H) as [R T]];
    rewrite R; auto.
Qed.

(* ------------------------------------------------------------------ TCP: flags and ports together *)
(* when the port heuristics designate the direction of e as the requesting one, every packet the
   requester can send (anything but a SYN-ACK) and every packet the responder can send (anything
   but a bare SYN) file the conversation under e *)
Lemma tcp_consistent : forall v6 e a b,
  proto e = pTCP -> ports_equal e = false -> snd (classify_ports_r e) = Remains ->
  is_synack a = false -> is_syn b = false ->
  stored_key v6 e a = e /\ stored_key v6 (reverse e) b = e.
Proof.
  intros v6 e a b P Q V NA NB.
  pose proof (ports_opposite e Q) as O. rewrite V in O.
  assert (V' : snd (classify_ports_r (reverse e)) = Reverts)
    by (destruct (snd (classify_ports_r (reverse e))); cbn in O; try discriminate O; reflexivity).
  assert (C1 : classify v6 e a = Remains).
  { unfold classify, classify_r. rewrite P. cbn [N.eqb pTCP Pos.eqb]. unfold is_synack in NA.
    destruct (a =? 0); cbn [negb andb]; [exact V|].
    destruct (N.land a flagSYN =? 0); cbn [negb andb] in *; [exact V|].
    destruct (N.land a flagACK =? 0); cbn [negb] in *; [reflexivity|discriminate NA]. }
  assert (C2 : classify v6 (reverse e) b = Reverts).
  { unfold classify, classify_r. replace (proto (reverse e)) with pTCP by (destruct e; symmetry; exact P).
    cbn [N.eqb pTCP Pos.eqb]. unfold is_syn in NB.
    destruct (b =? 0); cbn [negb andb]; [exact V'|].
    destruct (N.land b flagSYN =? 0); cbn [negb andb] in *; [exact V'|].
    destruct (N.land b flagACK =? 0); cbn [negb] in *; [discriminate NB|reflexivity]. }
  unfold stored_key. rewrite C1, C2, reverse_involutive. auto.
Qed.
