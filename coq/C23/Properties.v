(* C23 property theorems. Nothing but statements closed by `exact`, Print Assumptions, and one
   non-vacuity Example per theorem. *)
From Coq Require Import String Ascii.
From Coq Require Import List NArith ZArith Bool Arith.
From GoProbe.Base Require Import CorrLib.
From GoProbe.C23 Require Import Model Proofs.
Import ListNotations.

(* FIFO with every field preserved, for ALL histories: for every initial size that holds at least one
   record (the page size in production), every size limit and every sequence of Add (both IP versions,
   all byte / uint32 / int8 field values), Next, Reset and Recycle calls (Recycle = end of a buffering
   cycle and start of the next on the same pool element: Reset, Put, Get(initial size), Assign - the
   element keeps its capacity and its stale bytes), the buffer never panics and the
   observable results satisfy the queue specification spec_ok: every Next returns the oldest item not
   yet returned, with identical key, IP version, packet type, aux byte, errno and size (None exactly
   when the queue is empty); an Add is refused only when the record no longer fits below the size limit
   (used + record > = limit), after which the queue is as before; an accepted Add never takes the
   used space beyond max(limit, initial size). *)
Theorem c23_fifo : forall (init : nat) (lim : N) (ops : list op),
  rec_max <= init -> Forall (fun o => wf_op o = true) ops ->
  exists tr b, run (buf_new init lim) ops = (tr, Some b)
               /\ spec_ok lim (N.of_nat init) [] 0%N ops tr = true.
Proof. exact fifo_all_histories. Qed.
Print Assumptions c23_fifo.

(* the same in the "push everything, then drain" shape: if all inserts were accepted, draining returns
   exactly the inserted items, in order *)
Theorem c23_fifo_fill_drain : forall (init : nat) (lim : N) (its : list item) (b : lbuf),
  rec_max <= init -> Forall (fun it => wf_item it = true) its ->
  add_all (buf_new init lim) its = Ok (b, true) -> drain (S (length its)) b = Ok its.
Proof. exact fifo_fill_drain. Qed.
Print Assumptions c23_fifo_fill_drain.

(* Refusal: in every state reachable by any (multi-cycle) history, a refused Add leaves the buffer (bytes, positions,
   limit) exactly as it was, and it is refused only because the size limit is reached: the bytes
   already written plus this record do not stay below the limit. *)
Theorem c23_refusal : forall (init : nat) (lim : N) (ops : list op) (tr : list obs) (b : lbuf) (it : item) (b' : lbuf),
  rec_max <= init -> Forall (fun o => wf_op o = true) ops -> wf_item it = true ->
  run (buf_new init lim) ops = (tr, Some b) ->
  buf_add b it = Ok (b', false) ->
  b' = b /\ (lim <= N.of_nat (wpos b + reclen it))%N.
Proof. exact refusal_reachable. Qed.
Print Assumptions c23_refusal.

(* ---- non-vacuity *)
Definition ex4 : item :=
  mk_item [1;8;15;22;29;36;43;50;57;64;71;78;85]%N 2%N 1500%N true 7%N (-1)%Z.
Definition ex6 : item :=
  mk_item (repeat 200%N 37) 255%N 4294967295%N false 128%N (-128)%Z.

(* an IPv4 item followed by an IPv6 item (the pair the unfixed layout corrupted), a refused insert
   (limit 70 leaves less than one record after growing 64 -> 70), drains, then a second buffering cycle
   on the same pool element (length back to 64, capacity still 70) that grows again to the limit *)
Example c23_fifo_example :
  let ops := [OAdd ex4; OAdd ex6; OAdd ex4; ONext; ONext; ONext; ORecycle; OAdd ex6; OAdd ex4; ONext] in
  Forall (fun o => wf_op o = true) ops /\ rec_max <= 64 /\
  fst (run (buf_new 64 70%N) ops)
  = [RAdd true; RAdd true; RAdd false; RNext (Some ex4); RNext (Some ex6); RNext None; RRecycle;
     RAdd true; RAdd true; RNext (Some ex6)].
Proof. split; [repeat constructor | split; [unfold rec_max; repeat constructor | vm_compute; reflexivity]]. Qed.

Example c23_fifo_fill_drain_example :
  let its := [ex4; ex6; ex4; ex4; ex6] in
  Forall (fun it => wf_item it = true) its /\
  exists b, add_all (buf_new 45 1000%N) its = Ok (b, true) /\ length (data b) = 180.
Proof. split; [repeat constructor | eexists; split; vm_compute; reflexivity]. Qed.

Example c23_refusal_example :
  let ops := [OAdd ex4; OAdd ex6; ONext] in
  exists tr b, run (buf_new 64 70%N) ops = (tr, Some b) /\ wf_item ex4 = true
               /\ buf_add b ex4 = Ok (b, false) /\ wpos b = 66 /\ reclen ex4 = 21.
Proof. do 2 eexists. repeat split; vm_compute; reflexivity. Qed.
