(* C23 proofs: codec round trips, the representation invariant of the packed buffer and its
   preservation by Add / Next / Reset, the FIFO trace theorem and the refusal theorem. *)
From Coq Require Import String Ascii.
From Coq Require Import List NArith ZArith Bool Arith Lia ZifyBool ZifyNat ZifyN.
From GoProbe.Base Require Import CorrLib.
From GoProbe.C23 Require Import Model.
Import ListNotations.

Ltac Zify.zify_post_hook ::= Z.div_mod_to_equations.

(* ---- field codecs *)
Lemma le32_roundtrip : forall s, (s < 4294967296)%N ->
  le32_get (s mod 256) ((s / 256) mod 256) ((s / 65536) mod 256) ((s / 16777216) mod 256) = s.
Proof. intros s H. unfold le32_get. lia. Qed.

Lemma errno_roundtrip : forall e, (-128 <= e <= 127)%Z -> errno_of (errno_byte e) = e.
Proof.
  intros e H. unfold errno_of, errno_byte.
  destruct (Z.to_N (e mod 256) <? 128)%N eqn:E; lia.
Qed.

Lemma tag_roundtrip : forall v4, (tag_of v4 =? 0)%N = v4.
Proof. destruct v4; reflexivity. Qed.

(* ---- the byte string of a well-formed record and of a sequence of records *)
Definition enc (it : item) : list N :=
  [tag_of (i_v4 it)] ++ i_hash it ++ [i_type it; i_aux it; errno_byte (i_errno it)] ++ le32 (i_size it).
Definition flat (l : list item) : list N := concat (map enc l).

Lemma enc_length : forall it, length (enc it) = reclen it.
Proof. intros. unfold enc, reclen, add_size, le32. rewrite !app_length. simpl. lia. Qed.

Lemma flat_app : forall a b, flat (a ++ b) = flat a ++ flat b.
Proof. intros. unfold flat. rewrite map_app, concat_app. reflexivity. Qed.

Lemma flat_one : forall it, flat [it] = enc it.
Proof. intros. unfold flat. cbn [map concat]. apply app_nil_r. Qed.

Lemma wf_item_spec : forall it, wf_item it = true ->
  length (i_hash it) = hsize (i_v4 it) /\ (i_size it < 4294967296)%N /\ (-128 <= i_errno it <= 127)%Z.
Proof.
  intros it H. unfold wf_item in H.
  repeat (apply andb_true_iff in H; destruct H as [H ?]).
  apply Nat.eqb_eq in H. lia.
Qed.

Lemma reclen_bound : forall it, wf_item it = true -> reclen it <= rec_max /\ 1 <= reclen it.
Proof.
  intros it H. apply wf_item_spec in H. destruct H as [H _].
  unfold reclen, rec_max, add_size. rewrite H. destruct (i_v4 it); simpl; lia.
Qed.

Lemma copy_into_same_length : forall old src, length old = length src -> copy_into old src = src.
Proof.
  intros old src H. unfold copy_into.
  rewrite firstn_all2 by lia. rewrite skipn_all2 by lia. apply app_nil_r.
Qed.

Lemma record_bytes_enc : forall it old, length old = length (i_hash it) -> record_bytes it old = enc it.
Proof. intros it old H. unfold record_bytes, enc. rewrite copy_into_same_length by exact H. reflexivity. Qed.

Lemma splice_at : forall pre rest src,
  splice (pre ++ rest) (length pre) src = pre ++ src ++ skipn (length src) rest.
Proof.
  intros. unfold splice.
  rewrite firstn_app, firstn_all, Nat.sub_diag, firstn_O, app_nil_r.
  rewrite skipn_app. rewrite skipn_all2 by lia.
  replace (length pre + length src - length pre) with (length src) by lia. reflexivity.
Qed.

(* the write performed by Add, when the record fits, replaces exactly the bytes after the prefix *)
Lemma write_ok : forall it pre rest,
  wf_item it = true -> reclen it <= length rest ->
  splice (pre ++ rest) (length pre)
         (record_bytes it (firstn (hsize (i_v4 it)) (skipn (length pre + 1) (pre ++ rest))))
  = pre ++ enc it ++ skipn (reclen it) rest.
Proof.
  intros it pre rest Hwf Hfit.
  destruct (wf_item_spec it Hwf) as [Hh _].
  rewrite record_bytes_enc.
  - rewrite splice_at, enc_length. reflexivity.
  - rewrite firstn_length, skipn_length, app_length. unfold reclen, add_size in Hfit. lia.
Qed.

(* ---- representation invariant: backing array = records already read ++ records pending ++ free
   space (the free space includes whatever lies between len and cap) *)
Definition all_wf (l : list item) : Prop := Forall (fun it => wf_item it = true) l.

Record Inv (init : nat) (b : lbuf) (done pend : list item) : Prop := {
  inv_data : exists rest, data b = (flat done ++ flat pend) ++ rest;
  inv_r : rpos b = length (flat done);
  inv_w : wpos b = length (flat done ++ flat pend);
  inv_wfd : all_wf done;
  inv_wfp : all_wf pend;
  inv_wl : wpos b <= blen b;
  inv_lc : blen b <= length (data b);
  inv_len : rec_max <= blen b;
  inv_init : initsz b = init;
  inv_cap : init <= length (data b);
  inv_bound : (N.of_nat (blen b) <= N.max (limit b) (N.of_nat init))%N
}.

Lemma inv_new : forall init lim, rec_max <= init -> Inv init (buf_new init lim) [] [].
Proof.
  intros. constructor; cbn [buf_new data blen wpos rpos limit initsz flat map concat app length];
    try reflexivity; try constructor; try rewrite repeat_length; try lia.
  exists (repeat 0%N init). reflexivity.
Qed.

Lemma inv_reset : forall init b done pend, Inv init b done pend -> Inv init (buf_reset b) [] [].
Proof.
  intros init b done pend [Hd Hr Hw Hwd Hwp Hwl Hlc Hl Hi Hc Hb].
  constructor; cbn [buf_reset data blen wpos rpos limit initsz flat map concat app length];
    try reflexivity; try constructor; auto; try lia.
  exists (data b). reflexivity.
Qed.

Lemma inv_recycle : forall init b done pend,
  rec_max <= init -> Inv init b done pend -> Inv init (buf_recycle b) [] [].
Proof.
  intros init b done pend Hri [Hd Hr Hw Hwd Hwp Hwl Hlc Hl Hi Hc Hb].
  unfold buf_recycle. rewrite Hi.
  destruct (length (data b) <? init) eqn:E; [lia|].
  constructor; cbn [data blen wpos rpos limit initsz flat map concat app length];
    try reflexivity; try constructor; auto; try lia.
  exists (data b). reflexivity.
Qed.

(* ---- Add *)
Lemma add_write_inv : forall init b done pend it d len' rest',
  d = (flat done ++ flat pend) ++ rest' ->
  wpos b + reclen it <= len' -> len' <= length d -> init <= length d ->
  wpos b = length (flat done ++ flat pend) -> rpos b = length (flat done) ->
  all_wf done -> all_wf pend -> wf_item it = true ->
  rec_max <= len' -> initsz b = init -> (N.of_nat len' <= N.max (limit b) (N.of_nat init))%N ->
  Inv init {| data := splice d (wpos b)
                        (record_bytes it (firstn (hsize (i_v4 it)) (skipn (wpos b + 1) d)));
              blen := len';
              wpos := wpos b + reclen it; rpos := rpos b; limit := limit b; initsz := initsz b |}
      done (pend ++ [it]).
Proof.
  intros init b done pend it d len' rest' Hd Hfit Hlc Hc Hw Hr Hwd Hwp Hwf Hl Hi Hb.
  assert (Hrest : reclen it <= length rest') by (rewrite Hd, app_length in Hlc; lia).
  subst d. rewrite Hw. rewrite write_ok by assumption.
  assert (Hlen : length ((flat done ++ flat pend) ++ enc it ++ skipn (reclen it) rest')
                 = length ((flat done ++ flat pend) ++ rest'))
    by (rewrite !app_length, skipn_length, enc_length; lia).
  constructor; cbn [data blen wpos rpos limit initsz]; try rewrite Hlen; auto; try lia.
  - exists (skipn (reclen it) rest'). rewrite flat_app, flat_one. rewrite <- !app_assoc. reflexivity.
  - rewrite flat_app, flat_one, !app_length, enc_length. lia.
  - apply Forall_app. split; [exact Hwp | constructor; [exact Hwf | constructor]].
Qed.

Lemma add_step : forall init b done pend it,
  Inv init b done pend -> wf_item it = true ->
  (exists b', buf_add b it = Ok (b', true) /\ Inv init b' done (pend ++ [it]) /\ limit b' = limit b
              /\ wpos b' = wpos b + reclen it)
  \/ (buf_add b it = Ok (b, false) /\ (limit b <= N.of_nat (wpos b + reclen it))%N).
Proof.
  intros init b done pend it HI Hwf.
  destruct HI as [[rest Hd] Hr Hw Hwd Hwp Hwl Hlc Hl Hi Hc Hb].
  destruct (wf_item_spec it Hwf) as [Hh _].
  destruct (reclen_bound it Hwf) as [Hrb _].
  unfold buf_add. cbv zeta.
  replace (wpos b + length (i_hash it) + add_size) with (wpos b + reclen it) by (unfold reclen; lia).
  replace (wpos b + hsize (i_v4 it) + add_size) with (wpos b + reclen it) by (unfold reclen; lia).
  destruct (wpos b + reclen it <? blen b) eqn:E1.
  - (* the record fits without growing *)
    left. destruct (blen b <? wpos b + reclen it) eqn:E2; [lia|].
    eexists. split; [reflexivity|]. split; [|split; reflexivity].
    apply add_write_inv with (rest' := rest); auto; lia.
  - destruct ((limit b <=? N.of_nat (blen b))%N
              || (N.min (limit b) (2 * N.of_nat (blen b)) <? N.of_nat (wpos b + reclen it))%N) eqn:E3.
    + (* refused *)
      right. split; [reflexivity|]. unfold rec_max in *. lia.
    + left.
      set (ns := N.to_nat (N.min (limit b) (2 * N.of_nat (blen b)))) in *.
      assert (Hns : wpos b + reclen it <= ns /\ blen b <= ns /\ (N.of_nat ns <= limit b)%N)
        by (unfold ns; lia).
      destruct (length (data b) <? ns) eqn:E4.
      * (* reallocated: first len bytes copied, zeroed tail *)
        destruct (ns <? wpos b + reclen it) eqn:E2; [lia|].
        eexists. split; [reflexivity|]. split; [|split; reflexivity].
        assert (Hfn : firstn (blen b) (data b)
                      = (flat done ++ flat pend) ++ firstn (blen b - wpos b) rest).
        { rewrite Hd, firstn_app, Hw. f_equal. apply firstn_all2. lia. }
        apply add_write_inv with (rest' := firstn (blen b - wpos b) rest ++ repeat 0%N (ns - blen b)); auto; try lia.
        -- rewrite Hfn, <- !app_assoc. reflexivity.
        -- rewrite app_length, repeat_length, firstn_length. lia.
        -- rewrite app_length, repeat_length, firstn_length. lia.
      * (* capacity suffices: re-sliced *)
        destruct (ns <? wpos b + reclen it) eqn:E2; [lia|].
        eexists. split; [reflexivity|]. split; [|split; reflexivity].
        apply add_write_inv with (rest' := rest); auto; lia.
Qed.

(* ---- Next *)
Lemma skipn_app_exact : forall (a r : list N), skipn (length a) (a ++ r) = r.
Proof. intros. rewrite skipn_app, skipn_all, Nat.sub_diag. reflexivity. Qed.

Lemma firstn_app_exact : forall (a r : list N), firstn (length a) (a ++ r) = a.
Proof. intros. rewrite firstn_app, firstn_all, Nat.sub_diag, firstn_O. apply app_nil_r. Qed.

Lemma enc_shape : forall it X,
  enc it ++ X = tag_of (i_v4 it) :: i_hash it ++
    (i_type it :: i_aux it :: errno_byte (i_errno it)
     :: (i_size it mod 256)%N :: ((i_size it / 256) mod 256)%N :: ((i_size it / 65536) mod 256)%N
     :: ((i_size it / 16777216) mod 256)%N :: X).
Proof. intros. unfold enc, le32. cbn [app]. rewrite <- app_assoc. reflexivity. Qed.

Lemma flat_cons : forall it p, flat (it :: p) = enc it ++ flat p.
Proof. reflexivity. Qed.

Lemma next_empty : forall init b done, Inv init b done [] -> buf_next b = Ok (None, b).
Proof.
  intros init b done HI. destruct HI as [_ Hr Hw _ _ _ _ _ _ _ _]. unfold buf_next.
  replace (wpos b <=? rpos b) with true; [reflexivity|].
  rewrite Hw, Hr. cbn [flat map concat]. rewrite app_nil_r. symmetry. apply Nat.leb_refl.
Qed.

Lemma next_step : forall init b done it p,
  Inv init b done (it :: p) ->
  exists b', buf_next b = Ok (Some it, b') /\ Inv init b' (done ++ [it]) p
             /\ limit b' = limit b /\ wpos b' = wpos b.
Proof.
  intros init b done it p [[rest Hd] Hr Hw Hwd Hwp Hwl Hlc Hl Hi Hc Hb].
  assert (Hwf : wf_item it = true) by (inversion Hwp; assumption).
  assert (Hwp' : all_wf p) by (inversion Hwp; assumption).
  destruct (wf_item_spec it Hwf) as [Hh [Hs He]].
  destruct (reclen_bound it Hwf) as [_ Hr1].
  assert (Hwr : rpos b + reclen it <= wpos b)
    by (rewrite Hw, Hr, flat_cons, !app_length, enc_length; lia).
  unfold buf_next.
  destruct (wpos b <=? rpos b) eqn:E1; [lia|].
  destruct (blen b <=? rpos b) eqn:E0; [lia|].
  assert (Hskip : skipn (rpos b) (data b) = enc it ++ (flat p ++ rest)).
  { rewrite Hd, Hr, flat_cons, <- !app_assoc. apply skipn_app_exact. }
  rewrite Hskip, enc_shape, tag_roundtrip.
  replace (rpos b + hsize (i_v4 it) + add_size) with (rpos b + reclen it) by (unfold reclen; lia).
  destruct (blen b <? rpos b + reclen it) eqn:E2; [lia|].
  rewrite <- Hh, skipn_app_exact, firstn_app_exact.
  rewrite le32_roundtrip by exact Hs. rewrite errno_roundtrip by exact He.
  eexists. split.
  - destruct it; reflexivity.
  - split; [|split; reflexivity].
    constructor; cbn [data blen wpos rpos limit initsz]; auto.
    + exists rest. rewrite Hd, flat_app, flat_one, flat_cons, <- !app_assoc. reflexivity.
    + rewrite flat_app, flat_one, app_length, enc_length, Hr. unfold reclen. lia.
    + rewrite Hw, flat_app, flat_one, flat_cons, <- !app_assoc. reflexivity.
    + apply Forall_app. split; [exact Hwd | constructor; [exact Hwf | constructor]].
Qed.

(* ---- histories *)
Lemma list_eqb_refl : forall (l : list N), list_eqb N.eqb l l = true.
Proof. induction l; simpl; [reflexivity|]. rewrite N.eqb_refl, IHl. reflexivity. Qed.

Lemma item_eqb_refl : forall it, item_eqb it it = true.
Proof.
  intros. unfold item_eqb.
  rewrite list_eqb_refl, !N.eqb_refl, Z.eqb_refl, Bool.eqb_reflx. reflexivity.
Qed.

Definition all_wf_ops (ops : list op) : Prop := Forall (fun o => wf_op o = true) ops.

Lemma run_spec : forall init lim ops b done pend,
  rec_max <= init -> Inv init b done pend -> limit b = lim -> all_wf_ops ops ->
  exists tr b' done' pend', run b ops = (tr, Some b') /\ Inv init b' done' pend' /\ limit b' = lim
    /\ spec_ok lim (N.of_nat init) pend (N.of_nat (wpos b)) ops tr = true.
Proof.
  intros init lim ops. induction ops as [|o ops IH]; intros b done pend Hri HI Hlim Hwf.
  - exists [], b, done, pend. split; [reflexivity|]. split; [exact HI|]. split; [exact Hlim|reflexivity].
  - inversion Hwf as [|? ? Hwo Hwf']; subst. destruct o as [it | | | ].
    + (* Add *)
      destruct (add_step _ _ _ _ it HI Hwo) as [[b' [Ha [HI' [Hl' Hw']]]] | [Ha Hle]].
      * destruct (IH b' done (pend ++ [it]) Hri HI' Hl' Hwf') as [tr [bf [d' [p' [Hrun [HIf [Hlf Hspec]]]]]]].
        exists (RAdd true :: tr), bf, d', p'. cbn [run spec_ok]. rewrite Ha, Hrun.
        split; [reflexivity|]. split; [exact HIf|]. split; [exact Hlf|].
        rewrite Hw', Nat2N.inj_add in Hspec. rewrite Hspec, andb_true_r.
        pose proof (inv_wl _ _ _ _ HI'). pose proof (inv_bound _ _ _ _ HI'). rewrite Hl' in *. lia.
      * destruct (IH b done pend Hri HI eq_refl Hwf') as [tr [bf [d' [p' [Hrun [HIf [Hlf Hspec]]]]]]].
        exists (RAdd false :: tr), bf, d', p'. cbn [run spec_ok]. rewrite Ha, Hrun.
        split; [reflexivity|]. split; [exact HIf|]. split; [exact Hlf|]. rewrite Hspec, andb_true_r. lia.
    + (* Next *)
      destruct pend as [|it p].
      * destruct (IH b done [] Hri HI eq_refl Hwf') as [tr [bf [d' [p' [Hrun [HIf [Hlf Hspec]]]]]]].
        exists (RNext None :: tr), bf, d', p'. cbn [run spec_ok]. rewrite (next_empty _ _ _ HI), Hrun.
        split; [reflexivity|]. split; [exact HIf|]. split; [exact Hlf|]. exact Hspec.
      * destruct (next_step _ _ _ _ _ HI) as [b' [Hn [HI' [Hl' Hw']]]].
        destruct (IH b' (done ++ [it]) p Hri HI' Hl' Hwf') as [tr [bf [d' [p' [Hrun [HIf [Hlf Hspec]]]]]]].
        exists (RNext (Some it) :: tr), bf, d', p'. cbn [run spec_ok]. rewrite Hn, Hrun.
        split; [reflexivity|]. split; [exact HIf|]. split; [exact Hlf|]. rewrite item_eqb_refl, <- Hw'. exact Hspec.
    + (* Reset *)
      destruct (IH (buf_reset b) [] [] Hri (inv_reset _ _ _ _ HI) eq_refl Hwf') as [tr [bf [d' [p' [Hrun [HIf [Hlf Hspec]]]]]]].
      exists (RReset :: tr), bf, d', p'. cbn [run spec_ok]. rewrite Hrun.
      split; [reflexivity|]. split; [exact HIf|]. split; [exact Hlf|]. exact Hspec.
    + (* recycling of the pool element *)
      destruct (IH (buf_recycle b) [] [] Hri (inv_recycle _ _ _ _ Hri HI) eq_refl Hwf') as [tr [bf [d' [p' [Hrun [HIf [Hlf Hspec]]]]]]].
      exists (RRecycle :: tr), bf, d', p'. cbn [run spec_ok]. rewrite Hrun.
      split; [reflexivity|]. split; [exact HIf|]. split; [exact Hlf|]. exact Hspec.
Qed.

(* c23_fifo *)
Lemma fifo_all_histories : forall init lim ops,
  rec_max <= init -> all_wf_ops ops ->
  exists tr b, run (buf_new init lim) ops = (tr, Some b)
               /\ spec_ok lim (N.of_nat init) [] 0%N ops tr = true.
Proof.
  intros init lim ops Hi Hwf.
  destruct (run_spec init lim ops (buf_new init lim) [] [] Hi (inv_new init lim Hi) eq_refl Hwf)
    as [tr [b [_ [_ [Hrun [_ [_ Hspec]]]]]]].
  exists tr, b. split; assumption.
Qed.

(* c23_refusal: on every reachable state *)
Lemma refusal_reachable : forall init lim ops tr b it b',
  rec_max <= init -> all_wf_ops ops -> wf_item it = true ->
  run (buf_new init lim) ops = (tr, Some b) ->
  buf_add b it = Ok (b', false) ->
  b' = b /\ (lim <= N.of_nat (wpos b + reclen it))%N.
Proof.
  intros init lim ops tr b it b' Hi Hwf Hit Hrun Hadd.
  destruct (run_spec init lim ops (buf_new init lim) [] [] Hi (inv_new init lim Hi) eq_refl Hwf)
    as [tr' [b2 [d' [p' [Hrun' [HI [Hl _]]]]]]].
  rewrite Hrun in Hrun'. inversion Hrun'; subst b2 tr'.
  destruct (add_step _ _ _ _ it HI Hit) as [[b3 [Ha _]] | [Ha Hle]]; rewrite Hadd in Ha.
  - discriminate.
  - inversion Ha. subst. split; [reflexivity | exact Hle].
Qed.

(* ---- the "push everything, then drain" shape *)
Lemma add_all_inv : forall init its b0 done pend b,
  Inv init b0 done pend -> all_wf its -> add_all b0 its = Ok (b, true) -> Inv init b done (pend ++ its).
Proof.
  intros init its. induction its as [|it r IH]; intros b0 done pend b HI Hwf Hadd.
  - cbn [add_all] in Hadd. inversion Hadd; subst. rewrite app_nil_r. exact HI.
  - inversion Hwf as [|? ? Hit Hr]; subst. cbn [add_all] in Hadd.
    destruct (add_step _ _ _ _ it HI Hit) as [[b' [Ha [HI' _]]] | [Ha _]]; rewrite Ha in Hadd.
    + replace (pend ++ it :: r) with ((pend ++ [it]) ++ r) by (rewrite <- app_assoc; reflexivity).
      eapply IH; eauto.
    + discriminate.
Qed.

Lemma drain_inv : forall init pend b done,
  Inv init b done pend -> drain (S (length pend)) b = Ok pend.
Proof.
  intros init pend. induction pend as [|it p IH]; intros b done HI.
  - cbn [drain length]. rewrite (next_empty _ _ _ HI). reflexivity.
  - destruct (next_step _ _ _ _ _ HI) as [b' [Hn [HI' _]]].
    cbn [length]. change (drain (S (S (length p))) b) with
      (match buf_next b with
       | Ok (None, _) => Ok []
       | Ok (Some it, b') => match drain (S (length p)) b' with Ok l => Ok (it :: l) | Err => Err | Panic => Panic end
       | Err => Err | Panic => Panic
       end).
    rewrite Hn, (IH b' _ HI'). reflexivity.
Qed.

Lemma fifo_fill_drain : forall init lim its b,
  rec_max <= init -> all_wf its ->
  add_all (buf_new init lim) its = Ok (b, true) -> drain (S (length its)) b = Ok its.
Proof.
  intros init lim its b Hi Hwf Hadd.
  apply drain_inv with (init := init) (done := []).
  change its with ([] ++ its). eapply add_all_inv; eauto. apply inv_new. exact Hi.
Qed.
