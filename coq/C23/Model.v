(* C23 model: the local packet buffer of pkg/capture/buffer.go (LocalBuffer.Add / Next / Reset / grow),
   byte-exact, AFTER the two fix commits on branch verif-C23 (record size 8, growth guard).
   Executable definitions only.

   Record layout written by Add at writeBufPos (little-endian host, the size is stored through an
   unsafe *uint32):   tag(1: 0 = IPv4, 1 = IPv6) | epHash(13 or 37) | pktType | auxInfo | errno(int8) | pktSize(4, LE)
   Positions are Go ints, modelled as nat (they never exceed len(data)); the size limit is a free
   configuration value, modelled as N. Bytes are N. *)
From Coq Require Import String Ascii.
From Coq Require Import List NArith ZArith Bool Arith.
From GoProbe.Base Require Import CorrLib.
Import ListNotations.

Record item := mk_item {
  i_hash : list N;   (* flow key (EPHashV4 / EPHashV6 bytes) *)
  i_type : N;        (* pktType byte *)
  i_size : N;        (* pktSize uint32 *)
  i_v4 : bool;       (* isIPv4 *)
  i_aux : N;         (* auxInfo byte *)
  i_errno : Z        (* capturetypes.ParsingErrno (int8) *)
}.

Record lbuf := mk_lbuf {
  data : list N;     (* the backing array of l.data up to its CAPACITY (length data = cap(l.data)) *)
  blen : nat;        (* len(l.data); the capacity survives Reset / Put / Get, the length does not *)
  wpos : nat;        (* writeBufPos *)
  rpos : nat;        (* readBufPos *)
  limit : N;         (* memPool.MaxBufferSize *)
  initsz : nat       (* initialBufferSize = the pool's initialElementSize (page size) *)
}.

Definition hsize (v4 : bool) : nat := if v4 then 13 else 37.   (* EPHashSizeV4 / EPHashSizeV6 *)
Definition add_size : nat := 8.                                (* bufElementAddSize (fixed) *)
Definition rec_max : nat := 45.                                (* largest record: 37 + 8 *)
Definition reclen (it : item) : nat := length (i_hash it) + add_size.

Definition tag_of (v4 : bool) : N := if v4 then 0%N else 1%N.
Definition errno_byte (e : Z) : N := Z.to_N (e mod 256).                      (* int8 stored in one byte *)
Definition errno_of (b : N) : Z := if (b <? 128)%N then Z.of_N b else (Z.of_N b - 256)%Z.
Definition le32 (s : N) : list N :=
  [(s mod 256)%N; ((s / 256) mod 256)%N; ((s / 65536) mod 256)%N; ((s / 16777216) mod 256)%N].
Definition le32_get (s0 s1 s2 s3 : N) : N := (s0 + 256 * s1 + 65536 * s2 + 16777216 * s3)%N.

(* copy(dst, src) where dst currently holds `old`: min(len) bytes are replaced *)
Definition copy_into (old src : list N) : list N :=
  firstn (length old) src ++ skipn (length (firstn (length old) src)) old.

(* l[pos : pos+len(src)] = src (caller guarantees the range is inside l) *)
Definition splice (l : list N) (pos : nat) (src : list N) : list N :=
  firstn pos l ++ src ++ skipn (pos + length src) l.

(* the bytes Add stores for an item, given the bytes currently in the hash field *)
Definition record_bytes (it : item) (old_hash : list N) : list N :=
  [tag_of (i_v4 it)] ++ copy_into old_hash (i_hash it)
  ++ [i_type it; i_aux it; errno_byte (i_errno it)] ++ le32 (i_size it).

(* NewLocalBufferPool + Get + Assign: a zeroed slice of the initial size *)
Definition buf_new (init : nat) (lim : N) : lbuf :=
  {| data := repeat 0%N init; blen := init; wpos := 0; rpos := 0; limit := lim; initsz := init |}.

(* LocalBuffer.Add. Result Ok (b', ok); Panic where Go indexes / slices out of range (this also
   stands for the 4-byte unsafe store running past the slice). *)
Definition buf_add (b : lbuf) (it : item) : res (lbuf * bool) :=
  let len := blen b in
  let need := wpos b + length (i_hash it) + add_size in
  let grown : option (list N * nat) :=
    if need <? len then Some (data b, len)
    else
      let newsize := N.min (limit b) (2 * N.of_nat len) in
      if (limit b <=? N.of_nat len)%N || (newsize <? N.of_nat need)%N then None
      else
        let ns := N.to_nat newsize in
        (* memPool.Resize: re-slice when the capacity suffices (stale bytes of an earlier cycle become
           visible again), else a fresh slice with the first len bytes copied and a zeroed tail *)
        if length (data b) <? ns then Some (firstn len (data b) ++ repeat 0%N (ns - len), ns)
        else Some (data b, ns) in
  match grown with
  | None => Ok (b, false)
  | Some (d, len') =>
    let H := hsize (i_v4 it) in
    if len' <? wpos b + H + add_size then Panic
    else
      let old := firstn H (skipn (wpos b + 1) d) in
      Ok ({| data := splice d (wpos b) (record_bytes it old); blen := len';
             wpos := wpos b + H + add_size; rpos := rpos b; limit := limit b; initsz := initsz b |}, true)
  end.

(* LocalBuffer.Next *)
Definition buf_next (b : lbuf) : res (option item * lbuf) :=
  if wpos b <=? rpos b then Ok (None, b)
  else if blen b <=? rpos b then Panic
  else
    match skipn (rpos b) (data b) with
    | [] => Panic
    | tag :: d1 =>
      let v4 := (tag =? 0)%N in
      let H := hsize v4 in
      if blen b <? rpos b + H + add_size then Panic else
      match skipn H d1 with
      | t :: a :: e :: s0 :: s1 :: s2 :: s3 :: _ =>
        Ok (Some {| i_hash := firstn H d1; i_type := t; i_size := le32_get s0 s1 s2 s3; i_v4 := v4;
                    i_aux := a; i_errno := errno_of e |},
            {| data := data b; blen := blen b; wpos := wpos b; rpos := rpos b + H + add_size;
               limit := limit b; initsz := initsz b |})
      | _ => Panic
      end
    end.

(* LocalBuffer.Reset *)
Definition buf_reset (b : lbuf) : lbuf :=
  {| data := data b; blen := blen b; wpos := 0; rpos := 0; limit := limit b; initsz := initsz b |}.

(* end of a buffering cycle and start of the next one on the same pool element (bufferPackets'
   deferred Reset + capLock.Release -> memPool.Put, then Lock -> memPool.Get(initialElementSize) and
   Assign): Put re-slices to the capacity, Get hands out elem[:initial] (a fresh 2*initial element if
   the capacity were smaller), Assign keeps it as len >= initialBufferSize. Contents are NOT cleared. *)
Definition buf_recycle (b : lbuf) : lbuf :=
  let mem := if length (data b) <? initsz b then repeat 0%N (2 * initsz b) else data b in
  {| data := mem; blen := initsz b; wpos := 0; rpos := 0; limit := limit b; initsz := initsz b |}.

(* ---- histories *)
Inductive op := OAdd (it : item) | ONext | OReset | ORecycle.
Inductive obs := RAdd (ok : bool) | RNext (o : option item) | RReset | RRecycle | RPanic.

(* run a history; a panic ends it (trace ends with RPanic, no final state) *)
Fixpoint run (b : lbuf) (ops : list op) : list obs * option lbuf :=
  match ops with
  | [] => ([], Some b)
  | OAdd it :: ops' =>
    match buf_add b it with
    | Ok (b', ok) => let (tr, f) := run b' ops' in (RAdd ok :: tr, f)
    | _ => ([RPanic], None)
    end
  | ONext :: ops' =>
    match buf_next b with
    | Ok (o, b') => let (tr, f) := run b' ops' in (RNext o :: tr, f)
    | _ => ([RPanic], None)
    end
  | OReset :: ops' => let (tr, f) := run (buf_reset b) ops' in (RReset :: tr, f)
  | ORecycle :: ops' => let (tr, f) := run (buf_recycle b) ops' in (RRecycle :: tr, f)
  end.

(* ---- well-formed inputs: what the Go types / the callers allow
   (epHash[:] of a [13]byte / [37]byte matching isIPv4, bytes, uint32, int8) *)
Definition is_byte (x : N) : bool := (x <? 256)%N.
Definition wf_item (it : item) : bool :=
  (length (i_hash it) =? hsize (i_v4 it)) && forallb is_byte (i_hash it)
  && is_byte (i_type it) && is_byte (i_aux it) && (i_size it <? 4294967296)%N
  && (-128 <=? i_errno it)%Z && (i_errno it <=? 127)%Z.
Definition wf_op (o : op) : bool := match o with OAdd it => wf_item it | _ => true end.

(* ---- specification: a FIFO queue of items, an Add may be refused only when the record does not
   fit below the size limit any more, an accepted Add never takes the buffer beyond
   max(limit, initial size). `used` = bytes of the records accepted since the last Reset / recycling of the pool element. *)
Fixpoint list_eqb {A} (eqb : A -> A -> bool) (x y : list A) : bool :=
  match x, y with
  | [], [] => true
  | a :: x', b :: y' => eqb a b && list_eqb eqb x' y'
  | _, _ => false
  end.
Definition item_eqb (x y : item) : bool :=
  list_eqb N.eqb (i_hash x) (i_hash y) && N.eqb (i_type x) (i_type y) && N.eqb (i_size x) (i_size y)
  && Bool.eqb (i_v4 x) (i_v4 y) && N.eqb (i_aux x) (i_aux y) && Z.eqb (i_errno x) (i_errno y).

Fixpoint spec_ok (lim init : N) (q : list item) (used : N) (ops : list op) (tr : list obs) : bool :=
  match ops, tr with
  | [], [] => true
  | OAdd it :: ops', RAdd true :: tr' =>
    (used + N.of_nat (reclen it) <=? N.max lim init)%N
    && spec_ok lim init (q ++ [it]) (used + N.of_nat (reclen it)) ops' tr'
  | OAdd it :: ops', RAdd false :: tr' =>
    (lim <=? used + N.of_nat (reclen it))%N && spec_ok lim init q used ops' tr'
  | ONext :: ops', RNext o :: tr' =>
    match q, o with
    | [], None => spec_ok lim init q used ops' tr'
    | x :: q', Some y => item_eqb x y && spec_ok lim init q' used ops' tr'
    | _, _ => false
    end
  | OReset :: ops', RReset :: tr' => spec_ok lim init [] 0%N ops' tr'
  | ORecycle :: ops', RRecycle :: tr' => spec_ok lim init [] 0%N ops' tr'
  | _, _ => false
  end.

(* all items pushed, then drained until empty (the DESIGN.md shape of the FIFO statement) *)
Fixpoint add_all (b : lbuf) (its : list item) : res (lbuf * bool) :=
  match its with
  | [] => Ok (b, true)
  | it :: r => match buf_add b it with
               | Ok (b', true) => add_all b' r
               | Ok (b', false) => Ok (b', false)
               | Err => Err | Panic => Panic
               end
  end.
Fixpoint drain (fuel : nat) (b : lbuf) : res (list item) :=
  match fuel with
  | O => Err
  | S f => match buf_next b with
           | Ok (None, _) => Ok []
           | Ok (Some it, b') => match drain f b' with Ok l => Ok (it :: l) | Err => Err | Panic => Panic end
           | Err => Err | Panic => Panic
           end
  end.

(* ---- hex text -> bytes (used by the correspondence cases) *)
Definition hexval (c : ascii) : N :=
  let n := N_of_ascii c in
  if (48 <=? n)%N && (n <=? 57)%N then (n - 48)%N
  else if (97 <=? n)%N && (n <=? 102)%N then (n - 87)%N else 0%N.
Fixpoint unhex (s : string) : list N :=
  match s with
  | String a (String b r) => (16 * hexval a + hexval b)%N :: unhex r
  | _ => []
  end.
