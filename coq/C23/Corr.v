(* C23 correspondence: case type, corr (model trace and final bytes = observed) and
   holds (observed trace meets the FIFO / refusal specification). Executable only. *)
From Coq Require Import String Ascii.
From Coq Require Import List NArith ZArith Bool Arith.
From GoProbe.Base Require Import CorrLib.
From GoProbe.C23 Require Import Model.
Import ListNotations.

(* compact constructors for the generated cases: byte strings travel as hex text *)
Definition A (v4 : bool) (h : string) (t s a : N) (e : Z) : op := OAdd (mk_item (unhex h) t s v4 a e).
Definition G (v4 : bool) (h : string) (t s a : N) (e : Z) : obs := RNext (Some (mk_item (unhex h) t s v4 a e)).
Definition Nx : op := ONext.
Definition Rs : op := OReset.
Definition Y : obs := RAdd true.      (* Add accepted *)
Definition Rf : obs := RAdd false.   (* Add refused *)
Definition E : obs := RNext None.     (* Next on an empty buffer *)
Definition Z0 : obs := RReset.
Definition Rc : op := ORecycle.
Definition Z1 : obs := RRecycle.
Definition P : obs := RPanic.

Record case := mk_case {
  c_init : N;                              (* initial buffer size (page size in production) *)
  c_limit : N;                             (* MaxBufferSize *)
  c_ops : list op;
  c_obs : list obs;                        (* what the real LocalBuffer returned, call by call *)
  c_final : option (string * N * N * N * N) (* after the last call: hex(l.data[:cap]) without its trailing zero bytes,
                                              cap(l.data), len(l.data), writeBufPos, readBufPos; None after a panic *)
}.

Definition obs_eqb (x y : obs) : bool :=
  match x, y with
  | RAdd a, RAdd b => Bool.eqb a b
  | RNext None, RNext None => true
  | RNext (Some a), RNext (Some b) => item_eqb a b
  | RReset, RReset => true
  | RRecycle, RRecycle => true
  | RPanic, RPanic => true
  | _, _ => false
  end.

(* does the model still describe the code? *)
Definition corr (c : case) : bool :=
  let (tr, f) := run (buf_new (N.to_nat (c_init c)) (c_limit c)) (c_ops c) in
  list_eqb obs_eqb tr (c_obs c)
  && match f, c_final c with
     | Some b, Some (h, cp, len, w, r) =>
       let d := unhex h in
       list_eqb N.eqb (data b) (d ++ repeat 0%N (N.to_nat cp - length d))
       && (N.of_nat (length (data b)) =? cp)%N && (N.of_nat (blen b) =? len)%N
       && (N.of_nat (wpos b) =? w)%N && (N.of_nat (rpos b) =? r)%N
     | None, None => true
     | _, _ => false
     end.

(* does the observed behaviour satisfy the property? Computed from the inputs and the observed
   results by the FIFO specification only. Outside the hypotheses of the theorems (an initial size
   below one record, a hash slice whose length does not match the IP version) nothing is claimed. *)
Definition holds (c : case) : bool :=
  if (rec_max <=? N.to_nat (c_init c)) && forallb wf_op (c_ops c)
  then spec_ok (c_limit c) (c_init c) [] 0%N (c_ops c) (c_obs c)
  else true.
