(* C16 model: interface selection of a query.
   Anchors: pkg/types/iface.go (ValidateIfaceName, ValidateAndSeparateFilters, IsIfaceArgumentRegExp,
   ValidateAndExtractRegExp), pkg/types/types.go (IsAnySelector),
   pkg/goDB/engine/query.go (parseIfaceListWithCommaSeparatedString, parseIfaceListWithRegex).
   Executable definitions only.

   Two versions of the comma-separated path are kept:
   - parse_iface_list       the code after the fix commit (what the correspondence run compares with)
   - parse_iface_list_orig  the code as found, on an explicit Go slice model (shared backing array,
                            range over a snapshot of the slice header, append in place, stale tail,
                            Panic on s[i+1:] beyond len) - kept to re-derive the defects in Coq. *)
From Coq Require Import List String Ascii Bool Arith.
From GoProbe.Base Require Import CorrLib.
Import ListNotations.
Open Scope string_scope.
Open Scope nat_scope.

(* ------------------------------------------------------------------ strings *)

Definition comma : ascii := ","%char.
Definition bang : ascii := "!"%char.
Definition slash : ascii := "/"%char.
Definition newline : ascii := Ascii.ascii_of_nat 10.

(* strings.Split(s, ","): never returns an empty list *)
Fixpoint split_comma (s : string) : list string :=
  match s with
  | EmptyString => [EmptyString]
  | String c r =>
    if Ascii.eqb c comma then EmptyString :: split_comma r
    else match split_comma r with
         | h :: t => String c h :: t
         | [] => [String c EmptyString]
         end
  end.

(* the character class [a-zA-Z0-9\.:_-] of ifaceNameRegexp *)
Definition name_char (c : ascii) : bool :=
  let n := nat_of_ascii c in
  ((97 <=? n) && (n <=? 122)) || ((65 <=? n) && (n <=? 90)) || ((48 <=? n) && (n <=? 57))
  || (n =? 46) || (n =? 58) || (n =? 95) || (n =? 45).

Definition has_bang (s : string) : bool :=
  match s with String c _ => Ascii.eqb c bang | EmptyString => false end.

(* Go: s[1:] - panics when len(s) < 1 *)
Definition go_tail (s : string) : res string :=
  match s with String _ r => Ok r | EmptyString => Panic end.

Definition body_ok (s : string) : bool :=
  (1 <=? String.length s) && (String.length s <=? 15) && forallb name_char (list_ascii_of_string s).

(* ValidateIfaceName: non-empty and matches ^!?[a-zA-Z0-9\.:_-]{1,15}$ *)
Definition valid_name (s : string) : bool :=
  match s with
  | EmptyString => false
  | String c r => if Ascii.eqb c bang then body_ok r else body_ok s
  end.

(* ValidateAndSeparateFilters, on the already split list: (positive, negative) *)
Fixpoint separate (toks : list string) : res (list string * list string) :=
  match toks with
  | [] => Ok ([], [])
  | t :: r =>
    if valid_name t then
      if has_bang t then
        res_bind (go_tail t) (fun n => res_bind (separate r) (fun pn => Ok (fst pn, n :: snd pn)))
      else res_bind (separate r) (fun pn => Ok (t :: fst pn, snd pn))
    else Err
  end.

(* strings.EqualFold(s, "any") for ASCII input *)
Definition lower (c : ascii) : ascii :=
  let n := nat_of_ascii c in if (65 <=? n) && (n <=? 90) then ascii_of_nat (n + 32) else c.
Definition is_any (s : string) : bool :=
  match s with
  | String a (String b (String c EmptyString)) =>
    Ascii.eqb (lower a) "a"%char && Ascii.eqb (lower b) "n"%char && Ascii.eqb (lower c) "y"%char
  | _ => false
  end.

(* slices.Contains *)
Definition mem (x : string) (l : list string) : bool := existsb (String.eqb x) l.

(* ------------------------------------------------------------------ fixed code *)

(* the "add interfaces" loop after the fix: `any` takes a copy of all interfaces and stops,
   a listed name is appended if it exists and is not selected yet *)
Fixpoint add_loop (all pos acc : list string) : list string :=
  match pos with
  | [] => acc
  | p :: r =>
    if is_any p then all
    else if mem p all && negb (mem p acc) then add_loop all r (acc ++ [p])
    else add_loop all r acc
  end.

(* slices.DeleteFunc(resulting, func(i) bool { return slices.Contains(negationFilters, i) }) *)
Definition remove_negated (neg l : list string) : list string :=
  filter (fun i => negb (mem i neg)) l.

Definition parse_iface_list (all : list string) (arg : string) : res (list string) :=
  if String.eqb arg "" then Err
  else res_bind (separate (split_comma arg))
                (fun pn => Ok (remove_negated (snd pn) (add_loop all (fst pn) []))).

(* ------------------------------------------------------------------ original code on Go slices *)

(* a slice header over its backing array: cap = length arr, elements at index >= len are the
   stale tail. Slices derived from each other without reallocation share `arr`; the functions below
   thread the one shared array explicitly. *)
Record slice := { arr : list string; len : nat }.
Definition nil_slice : slice := {| arr := []; len := 0 |}.
Definition slice_of (l : list string) : slice := {| arr := l; len := List.length l |}.
Definition slice_list (s : slice) : list string := firstn (len s) (arr s).

Fixpoint set_nth (i : nat) (x : string) (l : list string) : list string :=
  match l, i with
  | [], _ => []
  | _ :: t, 0 => x :: t
  | h :: t, S i' => h :: set_nth i' x t
  end.

(* append(s, x): in place while len < cap, otherwise a new array of doubled capacity *)
Definition append1 (s : slice) (x : string) : slice :=
  if len s <? List.length (arr s) then {| arr := set_nth (len s) x (arr s); len := S (len s) |}
  else let newcap := if List.length (arr s) =? 0 then 1 else 2 * List.length (arr s) in
       {| arr := firstn (len s) (arr s) ++ x :: repeat "" (newcap - len s - 1); len := S (len s) |}.

(* s = append(s[:i], s[i+1:]...): s[i+1:] panics if i+1 > len(s); the copy is in place (len-1 <= cap),
   the last element stays behind as stale tail *)
Definition remove_at (s : slice) (i : nat) : res slice :=
  if len s <? S i then Panic
  else Ok {| arr := firstn i (arr s) ++ firstn (len s - S i) (skipn (S i) (arr s)) ++ skipn (len s - 1) (arr s);
             len := len s - 1 |}.

(* for i, v := range s { if v == notIface { s = append(s[:i], s[i+1:]...) } }
   the range expression is evaluated once: n iterations over the shared array *)
Fixpoint remove_loop (notI : string) (n i : nat) (s : slice) : res slice :=
  match n with
  | 0 => Ok s
  | S n' =>
    if String.eqb (nth i (arr s) "") notI then
      match remove_at s i with
      | Ok s' => remove_loop notI n' (S i) s'
      | Err => Err
      | Panic => Panic
      end
    else remove_loop notI n' (S i) s
  end.

Fixpoint remove_all_orig (neg : list string) (s : slice) : res slice :=
  match neg with
  | [] => Ok s
  | n :: r => res_bind (remove_loop n (len s) 0 s) (remove_all_orig r)
  end.

Fixpoint add_loop_orig (all pos : list string) (acc : slice) : slice :=
  match pos with
  | [] => acc
  | p :: r =>
    if is_any p then slice_of all          (* resultingIfaces = allIfaces: aliases the lister's array *)
    else if mem p all then add_loop_orig all r (append1 acc p)
    else add_loop_orig all r acc
  end.

Definition parse_iface_list_orig (all : list string) (arg : string) : res (list string) :=
  if String.eqb arg "" then Err
  else res_bind (separate (split_comma arg))
        (fun pn => res_bind (remove_all_orig (snd pn) (add_loop_orig all (fst pn) nil_slice))
                            (fun s => Ok (slice_list s))).

(* ------------------------------------------------------------------ regular expression path *)

(* IsIfaceArgumentRegExp: HasPrefix "/" && HasSuffix "/" && len > 2 *)
Definition is_regexp_arg (s : string) : bool :=
  match list_ascii_of_string s with
  | c :: r => Ascii.eqb c slash && (3 <=? String.length s)
              && match rev r with d :: _ => Ascii.eqb d slash | [] => false end
  | [] => false
  end.

(* ValidateAndExtractRegExp's `^/(.*?)/$`: the text between the first and the last slash, provided it
   contains no newline (`.` does not match \n) *)
Definition extract_regexp (s : string) : option string :=
  match list_ascii_of_string s with
  | c :: r =>
    if Ascii.eqb c slash then
      match rev r with
      | d :: m =>
        if Ascii.eqb d slash then
          if existsb (Ascii.eqb newline) m then None else Some (string_of_list_ascii (rev m))
        else None
      | [] => None
      end
    else None
  | [] => None
  end.

Section Regexp.
  (* regexp.Compile and Regexp.MatchString are Go's library: parameters of the model *)
  Variable R : Type.
  Variable compile : string -> option R.
  Variable matches : R -> string -> bool.

  Definition parse_iface_regexp (all : list string) (arg : string) : res (list string) :=
    if String.eqb arg "" then Err
    else match extract_regexp arg with
         | None => Err
         | Some inner =>
           match compile inner with
           | None => Err
           | Some re => Ok (filter (matches re) all)
           end
         end.

  (* QueryRunner.run: the regexp path is preferred when the argument looks like /re/ *)
  Definition select_ifaces (all : list string) (arg : string) : res (list string) :=
    if is_regexp_arg arg then parse_iface_regexp all arg else parse_iface_list all arg.
End Regexp.

(* RunStatement sorts stmt.Ifaces (byte order) before they are reported in Result.Summary.Interfaces *)
Fixpoint insert_sorted (x : string) (l : list string) : list string :=
  match l with
  | [] => [x]
  | y :: r => if String.leb x y then x :: l else y :: insert_sorted x r
  end.
Definition sort_strings (l : list string) : list string := fold_right insert_sorted [] l.

(* ------------------------------------------------------------------ specification vocabulary *)

Definition tokens (arg : string) : list string := split_comma arg.
Definition valid_arg (arg : string) : bool := negb (String.eqb arg "") && forallb valid_name (tokens arg).
(* names listed without / with a leading '!' (the '!' removed) *)
Definition positives (arg : string) : list string := filter (fun t => negb (has_bang t)) (tokens arg).
Definition negatives (arg : string) : list string :=
  map (fun t => match t with String _ r => r | EmptyString => EmptyString end) (filter has_bang (tokens arg)).
Definition any_listed (arg : string) : bool := existsb is_any (positives arg).

(* sanity of the vocabulary: the tokens are exactly the comma-free pieces of the argument *)
Fixpoint join_comma (l : list string) : string :=
  match l with
  | [] => ""
  | [x] => x
  | x :: r => x ++ String comma (join_comma r)
  end.
Definition no_comma (s : string) : bool := negb (existsb (Ascii.eqb comma) (list_ascii_of_string s)).
Definition no_newline (s : string) : bool := negb (existsb (Ascii.eqb newline) (list_ascii_of_string s)).
