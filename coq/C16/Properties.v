(* C16 property theorems. Nothing but statements closed by `exact`, Print Assumptions, and examples. *)
From Coq Require Import List String Ascii Bool.
From GoProbe.Base Require Import CorrLib.
From GoProbe.C16 Require Import Model Proofs.
Import ListNotations.
Open Scope string_scope.

(* For every argument that passes validation and every duplicate-free set of existing interfaces the
   comma-separated path returns (no error, no panic) a duplicate-free list whose members are exactly the
   existing interfaces that are listed (all of them if `any` is listed) and not listed with a leading '!'. *)
Theorem c16_selection : forall all arg, NoDup all -> valid_arg arg = true ->
  exists l, parse_iface_list all arg = Ok l /\ NoDup l /\
    forall i, In i l <->
      (In i all /\ (In i (positives arg) \/ any_listed arg = true) /\ ~ In i (negatives arg)).
Proof. exact selection. Qed.
Print Assumptions c16_selection.

(* no argument and no set of interfaces makes it crash; it refuses exactly the invalid arguments *)
Theorem c16_list_total : forall all arg,
  parse_iface_list all arg <> Panic /\ (parse_iface_list all arg = Err <-> valid_arg arg = false).
Proof. exact list_total. Qed.
Print Assumptions c16_list_total.

(* the vocabulary of c16_selection is the obvious one: the tokens are the comma-free pieces of the argument *)
Theorem c16_tokens : forall arg,
  join_comma (tokens arg) = arg /\ forallb no_comma (tokens arg) = true /\ tokens arg <> [].
Proof. exact (fun arg => conj (join_split arg) (conj (split_no_comma arg) (split_comma_nonempty arg))). Qed.
Print Assumptions c16_tokens.

(* /re/ selects exactly the existing interfaces matched by the compiled expression, in their order;
   compile / matches are Go's regexp library: any functions *)
Theorem c16_regexp : forall (R : Type) (compile : string -> option R) (matches : R -> string -> bool)
  all inner re, no_newline inner = true -> compile inner = Some re ->
  exists l, parse_iface_regexp R compile matches all (slashed inner) = Ok l /\
    l = filter (matches re) all /\
    (forall i, In i l <-> (In i all /\ matches re i = true)) /\ (NoDup all -> NoDup l).
Proof. exact regexp_selects. Qed.
Print Assumptions c16_regexp.

(* the regexp path never panics, answers only for a compiling /re/, and refuses nothing else *)
Theorem c16_regexp_total : forall (R : Type) (compile : string -> option R) (matches : R -> string -> bool)
  all arg,
  match parse_iface_regexp R compile matches all arg with
  | Panic => False
  | Ok l => exists inner re, arg = slashed inner /\ no_newline inner = true /\ compile inner = Some re /\
                             l = filter (matches re) all
  | Err => forall inner, arg = slashed inner -> no_newline inner = true -> compile inner = None
  end.
Proof. exact regexp_total. Qed.
Print Assumptions c16_regexp_total.

(* the dispatch of QueryRunner.run over both paths never crashes *)
Theorem c16_never_panics : forall (R : Type) (compile : string -> option R) (matches : R -> string -> bool)
  all arg, select_ifaces R compile matches all arg <> Panic.
Proof. exact never_panics. Qed.
Print Assumptions c16_never_panics.

(* the code as found (slice model with the shared backing array) did not satisfy c16_selection *)
Theorem c16_orig_refuted : exists all arg, NoDup all /\ valid_arg arg = true /\
  ~ (exists l, parse_iface_list_orig all arg = Ok l /\ NoDup l /\
       forall i, In i l <-> (In i all /\ (In i (positives arg) \/ any_listed arg = true) /\ ~ In i (negatives arg))).
Proof. exact orig_refuted. Qed.
Print Assumptions c16_orig_refuted.

(* non-vacuity *)
Example c16_selection_example :
  let all := ["a"; "b"; "c"] in let arg := "a,a,b,zz,!a,!a" in
  NoDup all /\ valid_arg arg = true /\ parse_iface_list all arg = Ok ["b"] /\
  positives arg = ["a"; "a"; "b"; "zz"] /\ negatives arg = ["a"; "a"] /\ any_listed arg = false.
Proof. repeat split; try reflexivity. repeat constructor; simpl; intuition discriminate. Qed.

Example c16_selection_example_any :
  let all := ["a"; "b"; "c"] in let arg := "b,ANY,!b,!zz" in
  valid_arg arg = true /\ parse_iface_list all arg = Ok ["a"; "c"] /\ any_listed arg = true.
Proof. repeat split; reflexivity. Qed.

Example c16_list_total_example :
  valid_arg "a,,b" = false /\ valid_arg "!" = false /\ valid_arg "abcdefghijklmnop" = false
  /\ parse_iface_list ["a"] "a,,b" = Err.
Proof. repeat split; reflexivity. Qed.

Example c16_tokens_example : tokens "a,,!b," = ["a"; ""; "!b"; ""].
Proof. reflexivity. Qed.

(* a toy matcher: "compiles" unless the text is "(", matches by prefix *)
Example c16_regexp_example :
  let compile := fun s => if String.eqb s "(" then None else Some s in
  no_newline "eth" = true /\ compile "eth" = Some "eth" /\ slashed "eth" = "/eth/" /\
  parse_iface_regexp string compile String.prefix ["eth0"; "wlan0"; "eth2"] "/eth/" = Ok ["eth0"; "eth2"] /\
  parse_iface_regexp string compile String.prefix ["eth0"] "/(/" = Err /\
  parse_iface_regexp string compile String.prefix ["eth0"] "eth" = Err.
Proof. repeat split; reflexivity. Qed.

Example c16_never_panics_example :
  select_ifaces string (fun s => Some s) String.prefix ["a"; "b"] "/a/" = Ok ["a"] /\
  select_ifaces string (fun s => Some s) String.prefix ["a"; "b"] "a,a,!a" = Ok [] /\
  select_ifaces string (fun s => Some s) String.prefix ["a"; "b"] "//" = Err.
Proof. repeat split; reflexivity. Qed.

Example c16_orig_refuted_example :
  parse_iface_list_orig ["eth0"] "eth0,eth0,!eth0" = Panic /\
  parse_iface_list_orig ["a"; "b"] "a,a,b,!a" = Ok ["a"; "b"] /\
  parse_iface_list_orig ["a"; "b"] "b,b" = Ok ["b"; "b"].
Proof. repeat split; reflexivity. Qed.
