(* C16 correspondence: case type, corr (model = observed) and holds (observed meets the spec). *)
From Coq Require Import List String Ascii Bool Arith NArith.
From GoProbe.Base Require Import CorrLib.
From GoProbe.C16 Require Import Model.
Import ListNotations.
Open Scope string_scope.
Open Scope nat_scope.

(* strings with bytes that cannot be written in a Coq literal *)
Definition str_of_bytes (l : list N) : string := string_of_list_ascii (map ascii_of_N l).

Fixpoint list_eqb (a b : list string) : bool :=
  match a, b with
  | [], [] => true
  | x :: r, y :: s => String.eqb x y && list_eqb r s
  | _, _ => false
  end.

Fixpoint nodupb (l : list string) : bool :=
  match l with [] => true | x :: r => negb (mem x r) && nodupb r end.

Definition same_set (a b : list string) : bool :=
  forallb (fun i => mem i b) a && forallb (fun i => mem i a) b.

Inductive case :=
(* parseIfaceListWithCommaSeparatedString(lister(all), arg) = obs; isre = IsIfaceArgumentRegExp(arg) *)
| CList (all : list string) (arg : string) (isre : bool) (obs : res (list string))
(* parseIfaceListWithRegex(lister(all), arg) = obs. The harness compiled arg[1:len-1] with Go's regexp
   on its own: compiles, and table = MatchString for every existing interface *)
| CRegex (all : list string) (arg : string) (isre : bool) (compiles : bool) (table : list (string * bool))
         (obs : res (list string))
(* QueryRunner.Run on a database directory with one sub-directory per interface in `all`:
   obs = Result.Summary.Interfaces (an empty selection is reported as Ok []); the constructor records
   which path the argument must take *)
| CRunList (all : list string) (arg : string) (obs : res (list string))
| CRunRegex (all : list string) (arg : string) (compiles : bool) (table : list (string * bool))
            (obs : res (list string)).

Definition lookup (table : list (string * bool)) (_ : unit) (i : string) : bool :=
  match find (fun e => String.eqb (fst e) i) table with Some e => snd e | None => false end.

(* does the model still describe the code? (order of the result included) *)
Definition corr (c : case) : bool :=
  match c with
  | CList all arg isre obs =>
    Bool.eqb (is_regexp_arg arg) isre && res_eqb list_eqb (parse_iface_list all arg) obs
  | CRegex all arg isre compiles table obs =>
    Bool.eqb (is_regexp_arg arg) isre
    && res_eqb list_eqb
         (parse_iface_regexp unit (fun _ => if compiles then Some tt else None) (lookup table) all arg) obs
  | CRunList all arg obs =>
    negb (is_regexp_arg arg)
    && res_eqb list_eqb
         (res_bind (select_ifaces unit (fun _ => None) (lookup []) all arg) (fun l => Ok (sort_strings l))) obs
  | CRunRegex all arg compiles table obs =>
    is_regexp_arg arg
    && res_eqb list_eqb
         (res_bind (select_ifaces unit (fun _ => if compiles then Some tt else None) (lookup table) all arg)
                   (fun l => Ok (sort_strings l))) obs
  end.

(* the specification, computed from the input and the observed result only *)
Definition spec_list (all : list string) (arg : string) : list string :=
  filter (fun i => (mem i (positives arg) || any_listed arg) && negb (mem i (negatives arg))) all.

(* the text between the outer slashes, no newline inside: what a user means by /re/ *)
Definition wellformed_re (arg : string) : bool :=
  match list_ascii_of_string arg with
  | c :: r => Ascii.eqb c slash
              && match rev r with d :: m => Ascii.eqb d slash && negb (existsb (Ascii.eqb newline) m) | [] => false end
  | [] => false
  end.

Definition holds_list (all : list string) (arg : string) (obs : res (list string)) : bool :=
    match obs with
    | Panic => false
    | Err => negb (valid_arg arg)                       (* only an invalid argument may be refused *)
    | Ok l => if valid_arg arg then nodupb l && same_set l (spec_list all arg) else true
    end.

Definition holds_regex (all : list string) (arg : string) (compiles : bool) (table : list (string * bool))
           (obs : res (list string)) : bool :=
    match obs with
    | Panic => false
    | Err => negb (compiles && wellformed_re arg)
    | Ok l => compiles && nodupb l && same_set l (filter (lookup table tt) all)
    end.

Definition holds (c : case) : bool :=
  match c with
  | CList all arg _ obs => holds_list all arg obs
  | CRegex all arg _ compiles table obs => holds_regex all arg compiles table obs
  | CRunList all arg obs => holds_list all arg obs
  | CRunRegex all arg compiles table obs => holds_regex all arg compiles table obs
  end.
