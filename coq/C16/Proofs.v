(* C16 proofs. *)
From Coq Require Import List String Ascii Bool Arith Lia.
From GoProbe.Base Require Import CorrLib.
From GoProbe.C16 Require Import Model.
Import ListNotations.
Open Scope string_scope.
Open Scope nat_scope.

(* ------------------------------------------------------------------ small facts *)

Lemma mem_In : forall x l, mem x l = true <-> In x l.
Proof.
  intros x l. unfold mem. rewrite existsb_exists. split.
  - intros [y [Hy He]]. apply String.eqb_eq in He. subst. exact Hy.
  - intros H. exists x. split; [exact H | apply String.eqb_refl].
Qed.

Lemma mem_false_In : forall x l, mem x l = false <-> ~ In x l.
Proof.
  intros x l. rewrite <- mem_In. destruct (mem x l); split; intros; congruence.
Qed.

(* ------------------------------------------------------------------ strings.Split *)

Lemma split_comma_nonempty : forall s, split_comma s <> [].
Proof.
  induction s as [|c r IH]; simpl; [discriminate|].
  destruct (Ascii.eqb c comma); [discriminate|].
  destruct (split_comma r); discriminate.
Qed.

Lemma join_split : forall s, join_comma (split_comma s) = s.
Proof.
  induction s as [|c r IH]; [reflexivity|].
  cbn [split_comma]. destruct (Ascii.eqb c comma) eqn:E.
  - apply Ascii.eqb_eq in E. subst c.
    destruct (split_comma r) as [|h t] eqn:Hs; [exfalso; eapply split_comma_nonempty; eauto|].
    change (join_comma ("" :: h :: t)) with ("" ++ String comma (join_comma (h :: t))).
    rewrite IH. reflexivity.
  - destruct (split_comma r) as [|h t] eqn:Hs; [exfalso; eapply split_comma_nonempty; eauto|].
    destruct t as [|h2 t2].
    + simpl in *. subst. reflexivity.
    + change (join_comma (String c h :: h2 :: t2)) with (String c h ++ String comma (join_comma (h2 :: t2))).
      change (join_comma (h :: h2 :: t2)) with (h ++ String comma (join_comma (h2 :: t2))) in IH.
      cbn [append]. rewrite IH. reflexivity.
Qed.

Lemma split_no_comma : forall s, forallb no_comma (split_comma s) = true.
Proof.
  induction s as [|c r IH]; [reflexivity|].
  cbn [split_comma]. destruct (Ascii.eqb c comma) eqn:E.
  - simpl. exact IH.
  - destruct (split_comma r) as [|h t] eqn:Hs; [exfalso; eapply split_comma_nonempty; eauto|].
    cbn [forallb] in *. apply andb_true_iff in IH. destruct IH as [H1 H2]. rewrite H2, andb_true_r.
    unfold no_comma in *. cbn [list_ascii_of_string existsb].
    rewrite (Ascii.eqb_sym comma c), E. exact H1.
Qed.

(* ------------------------------------------------------------------ ValidateAndSeparateFilters *)

Definition drop_bang (t : string) : string := match t with String _ r => r | EmptyString => EmptyString end.

Lemma separate_valid : forall toks, forallb valid_name toks = true ->
  separate toks = Ok (filter (fun t => negb (has_bang t)) toks, map drop_bang (filter has_bang toks)).
Proof.
  induction toks as [|t r IH]; intros H; [reflexivity|].
  simpl in H. apply andb_true_iff in H. destruct H as [Ht Hr].
  cbn [separate]. rewrite Ht. specialize (IH Hr).
  destruct (has_bang t) eqn:Hb.
  - destruct t as [|c t']; [discriminate|]. cbn [go_tail res_bind]. rewrite IH.
    cbn [res_bind fst snd filter negb map]. rewrite Hb. reflexivity.
  - rewrite IH. cbn [res_bind fst snd filter negb map]. rewrite Hb. reflexivity.
Qed.

Lemma separate_invalid : forall toks, forallb valid_name toks = false -> separate toks = Err.
Proof.
  induction toks as [|t r IH]; intros H; [discriminate|].
  simpl in H. cbn [separate]. destruct (valid_name t) eqn:Ht; [|reflexivity].
  simpl in H. specialize (IH H).
  destruct (has_bang t) eqn:Hb.
  - destruct t as [|c t']; [discriminate|]. cbn [go_tail res_bind]. rewrite IH. reflexivity.
  - rewrite IH. reflexivity.
Qed.

Lemma separate_positives : forall arg, valid_arg arg = true ->
  separate (split_comma arg) = Ok (positives arg, negatives arg).
Proof.
  intros arg H. unfold valid_arg in H. apply andb_true_iff in H. destruct H as [_ H].
  unfold tokens in H. rewrite (separate_valid _ H). reflexivity.
Qed.

(* ------------------------------------------------------------------ the add loop *)

Lemma NoDup_snoc : forall (l : list string) x, NoDup l -> ~ In x l -> NoDup (l ++ [x]).
Proof.
  induction l as [|y r IH]; intros x Hn Hx; simpl.
  - constructor; [intros []|constructor].
  - inversion Hn; subst. constructor.
    + rewrite in_app_iff. simpl. intros [H|[H|[]]]; [contradiction|]. subst. apply Hx. left. reflexivity.
    + apply IH; [assumption|]. intros H. apply Hx. right. exact H.
Qed.

Lemma add_loop_spec : forall all, NoDup all -> forall pos acc,
  NoDup acc -> (forall i, In i acc -> In i all) ->
  NoDup (add_loop all pos acc) /\
  forall i, In i (add_loop all pos acc) <-> (In i all /\ (existsb is_any pos = true \/ In i pos \/ In i acc)).
Proof.
  intros all Hall. induction pos as [|p r IH]; intros acc Hacc Hsub.
  - simpl. split; [exact Hacc|]. intros i. split.
    + intros H. split; [apply Hsub; exact H|]. right. right. exact H.
    + intros [_ [H|[H|H]]]; [discriminate|contradiction|exact H].
  - cbn [add_loop existsb]. destruct (is_any p) eqn:Hany.
    + split; [exact Hall|]. intros i. split.
      * intros H. split; [exact H|]. left. reflexivity.
      * intros [H _]. exact H.
    + cbn [orb]. destruct (mem p all && negb (mem p acc)) eqn:Hc.
      * apply andb_true_iff in Hc. destruct Hc as [Hpa Hpn].
        apply mem_In in Hpa. apply negb_true_iff in Hpn. apply mem_false_In in Hpn.
        assert (Hnd : NoDup (acc ++ [p])).
        { apply NoDup_snoc; assumption. }
        assert (Hs : forall i, In i (acc ++ [p]) -> In i all).
        { intros i Hi. apply in_app_iff in Hi. destruct Hi as [Hi|[Hi|[]]]; [apply Hsub; exact Hi|subst; exact Hpa]. }
        destruct (IH _ Hnd Hs) as [N I]. split; [exact N|].
        intros i. rewrite I. rewrite in_app_iff. simpl. tauto.
      * destruct (IH _ Hacc Hsub) as [N I]. split; [exact N|].
        intros i. rewrite I. simpl. split.
        -- intros [Ha [H|[H|H]]]; tauto.
        -- intros [Ha [H|[[H|H]|H]]]; try tauto.
           subst p. apply andb_false_iff in Hc. destruct Hc as [Hc|Hc].
           ++ apply mem_false_In in Hc. contradiction.
           ++ apply negb_false_iff in Hc. apply mem_In in Hc. tauto.
Qed.

(* ------------------------------------------------------------------ comma separated path *)

Lemma selection : forall all arg, NoDup all -> valid_arg arg = true ->
  exists l, parse_iface_list all arg = Ok l /\ NoDup l /\
    forall i, In i l <->
      (In i all /\ (In i (positives arg) \/ any_listed arg = true) /\ ~ In i (negatives arg)).
Proof.
  intros all arg Hall Hv.
  pose proof (separate_positives arg Hv) as Hsep.
  unfold valid_arg in Hv. apply andb_true_iff in Hv. destruct Hv as [Hne _].
  apply negb_true_iff in Hne.
  unfold parse_iface_list. rewrite Hne, Hsep. cbn [res_bind fst snd].
  eexists. split; [reflexivity|].
  destruct (add_loop_spec all Hall (positives arg) [] (NoDup_nil _) (fun i (H : In i []) => match H with end))
    as [N I].
  unfold remove_negated. split; [apply NoDup_filter; exact N|].
  intros i. rewrite filter_In, I, negb_true_iff, mem_false_In. unfold any_listed. simpl. tauto.
Qed.

Lemma list_total : forall all arg,
  parse_iface_list all arg <> Panic /\ (parse_iface_list all arg = Err <-> valid_arg arg = false).
Proof.
  intros all arg. destruct (valid_arg arg) eqn:Hv.
  - pose proof (separate_positives arg Hv) as Hsep.
    unfold valid_arg in Hv. apply andb_true_iff in Hv. destruct Hv as [Hne _].
    apply negb_true_iff in Hne.
    unfold parse_iface_list. rewrite Hne, Hsep. cbn [res_bind]. split; [discriminate|].
    split; discriminate.
  - unfold valid_arg in Hv. unfold parse_iface_list.
    destruct (String.eqb arg "") eqn:Hne; [split; [discriminate|tauto]|].
    simpl in Hv. unfold tokens in Hv. rewrite (separate_invalid _ Hv). cbn [res_bind].
    split; [discriminate|tauto].
Qed.

(* ------------------------------------------------------------------ regular expression path *)

Lemma las_app : forall a b, list_ascii_of_string (a ++ b) = (list_ascii_of_string a ++ list_ascii_of_string b)%list.
Proof. induction a as [|c a IH]; intros b; simpl; [reflexivity|]. rewrite IH. reflexivity. Qed.

Lemma sola_app : forall a b, string_of_list_ascii (a ++ b)%list = string_of_list_ascii a ++ string_of_list_ascii b.
Proof. induction a as [|c a IH]; intros b; simpl; [reflexivity|]. rewrite IH. reflexivity. Qed.

Lemma existsb_rev : forall (f : ascii -> bool) l, existsb f (rev l) = existsb f l.
Proof.
  intros f l. destruct (existsb f l) eqn:E.
  - apply existsb_exists in E. destruct E as [x [Hx Hf]]. apply existsb_exists. exists x. split; [|exact Hf].
    apply in_rev in Hx. exact Hx.
  - destruct (existsb f (rev l)) eqn:E2; [|reflexivity].
    apply existsb_exists in E2. destruct E2 as [x [Hx Hf]]. apply in_rev in Hx.
    assert (existsb f l = true) by (apply existsb_exists; exists x; tauto). congruence.
Qed.

Definition slashed (inner : string) : string := String slash (inner ++ String slash EmptyString).

Lemma extract_slashed : forall inner, no_newline inner = true -> extract_regexp (slashed inner) = Some inner.
Proof.
  intros inner Hn. unfold extract_regexp, slashed. cbn [list_ascii_of_string].
  rewrite Ascii.eqb_refl, las_app. cbn [list_ascii_of_string]. rewrite rev_unit, Ascii.eqb_refl.
  unfold no_newline in Hn. apply negb_true_iff in Hn. rewrite existsb_rev, Hn.
  rewrite rev_involutive, string_of_list_ascii_of_string. reflexivity.
Qed.

Lemma extract_inv : forall arg inner, extract_regexp arg = Some inner ->
  arg = slashed inner /\ no_newline inner = true.
Proof.
  intros arg inner H. unfold extract_regexp in H.
  destruct (list_ascii_of_string arg) as [|c r] eqn:Hl; [discriminate|].
  destruct (Ascii.eqb c slash) eqn:Hc; [|discriminate]. apply Ascii.eqb_eq in Hc. subst c.
  destruct (rev r) as [|d m] eqn:Hr; [discriminate|].
  destruct (Ascii.eqb d slash) eqn:Hd; [|discriminate]. apply Ascii.eqb_eq in Hd. subst d.
  destruct (existsb (Ascii.eqb newline) m) eqn:Hn; [discriminate|].
  inversion H; subst inner. clear H.
  assert (Hrr : r = (rev m ++ [slash])%list).
  { rewrite <- (rev_involutive r), Hr. reflexivity. }
  split.
  - rewrite <- (string_of_list_ascii_of_string arg), Hl, Hrr. unfold slashed.
    cbn [string_of_list_ascii]. rewrite sola_app. reflexivity.
  - unfold no_newline. rewrite list_ascii_of_string_of_list_ascii, existsb_rev, Hn. reflexivity.
Qed.

Section RegexpProofs.
  Variable R : Type.
  Variable compile : string -> option R.
  Variable matches : R -> string -> bool.

  Lemma regexp_selects : forall all inner re, no_newline inner = true -> compile inner = Some re ->
    exists l, parse_iface_regexp R compile matches all (slashed inner) = Ok l /\
      l = filter (matches re) all /\
      (forall i, In i l <-> (In i all /\ matches re i = true)) /\ (NoDup all -> NoDup l).
  Proof.
    intros all inner re Hn Hc. unfold parse_iface_regexp.
    replace (String.eqb (slashed inner) "") with false by reflexivity.
    rewrite (extract_slashed _ Hn), Hc. eexists. split; [reflexivity|]. split; [reflexivity|].
    split; [intros i; apply filter_In|apply NoDup_filter].
  Qed.

  Lemma regexp_total : forall all arg,
    match parse_iface_regexp R compile matches all arg with
    | Panic => False
    | Ok l => exists inner re, arg = slashed inner /\ no_newline inner = true /\ compile inner = Some re /\
                               l = filter (matches re) all
    | Err => forall inner, arg = slashed inner -> no_newline inner = true -> compile inner = None
    end.
  Proof.
    intros all arg. unfold parse_iface_regexp.
    destruct (String.eqb arg "") eqn:He.
    - apply String.eqb_eq in He. subst. intros inner H. discriminate.
    - destruct (extract_regexp arg) as [inner|] eqn:Hx.
      + destruct (extract_inv _ _ Hx) as [Ha Hn].
        destruct (compile inner) as [re|] eqn:Hc.
        * exists inner, re. tauto.
        * intros inner' Ha' _. subst arg. unfold slashed in Ha'. inversion Ha' as [Hi].
          assert (inner' = inner); [|subst; exact Hc].
          clear - Hi. revert inner' Hi. induction inner as [|c s IH]; intros [|c' s'] Hi; simpl in Hi;
            try reflexivity; try (inversion Hi; subst; destruct s'; discriminate);
            try (inversion Hi; subst; destruct s; discriminate).
          inversion Hi; subst. f_equal. apply IH. assumption.
      + intros inner Ha Hn. subst arg. rewrite (extract_slashed _ Hn) in Hx. discriminate.
  Qed.

  Lemma never_panics : forall all arg, select_ifaces R compile matches all arg <> Panic.
  Proof.
    intros all arg. unfold select_ifaces. destruct (is_regexp_arg arg).
    - pose proof (regexp_total all arg) as H. intros E. rewrite E in H. exact H.
    - apply list_total.
  Qed.
End RegexpProofs.

(* ------------------------------------------------------------------ the code as found (before the fix) *)

Lemma orig_panics : parse_iface_list_orig ["eth0"] "eth0,eth0,!eth0" = Panic.
Proof. vm_compute. reflexivity. Qed.

Lemma orig_keeps_negated : parse_iface_list_orig ["a"; "b"] "a,a,b,!a" = Ok ["a"; "b"].
Proof. vm_compute. reflexivity. Qed.

Lemma orig_duplicates : parse_iface_list_orig ["a"; "b"] "b,b" = Ok ["b"; "b"].
Proof. vm_compute. reflexivity. Qed.

(* the original code violates the selection statement: there are an argument and a set of interfaces ... *)
Lemma orig_refuted : exists all arg, NoDup all /\ valid_arg arg = true /\
  ~ (exists l, parse_iface_list_orig all arg = Ok l /\ NoDup l /\
       forall i, In i l <-> (In i all /\ (In i (positives arg) \/ any_listed arg = true) /\ ~ In i (negatives arg))).
Proof.
  exists ["eth0"], "eth0,eth0,!eth0". split; [repeat constructor; intros []|]. split; [reflexivity|].
  intros [l [H _]]. rewrite orig_panics in H. discriminate.
Qed.
