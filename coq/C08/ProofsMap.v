(* C08 proofs, part 1: counters mod 2^64, the abstract map (upd / fold) against group_sum. *)
From Coq Require Import List ZArith NArith Bool Lia Permutation.
From GoProbe.Base Require Import CorrLib.
From GoProbe.C09 Require Import Model.
From GoProbe.C08 Require Import Model.
Import ListNotations.

(* ------------------------------------------------------------------ counters *)
Lemma two64_pos : two64 <> 0%N. Proof. discriminate. Qed.

Lemma add64_comm : forall a b, add64 a b = add64 b a.
Proof. intros. unfold add64. rewrite N.add_comm. reflexivity. Qed.

Lemma add64_assoc : forall a b c, add64 (add64 a b) c = add64 a (add64 b c).
Proof.
  intros. unfold add64.
  rewrite N.add_mod_idemp_l by exact two64_pos.
  rewrite N.add_mod_idemp_r by exact two64_pos.
  rewrite N.add_assoc. reflexivity.
Qed.

Lemma add64_lt : forall a b, (add64 a b <? two64)%N = true.
Proof. intros. apply N.ltb_lt. unfold add64. apply N.mod_lt. exact two64_pos. Qed.

Lemma add64_0_r : forall a, (a <? two64)%N = true -> add64 a 0 = a.
Proof. intros a H. apply N.ltb_lt in H. unfold add64. rewrite N.add_0_r. apply N.mod_small. exact H. Qed.

Lemma cadd_comm : forall x y, cadd x y = cadd y x.
Proof.
  intros [[[a b] c] d] [[[a' b'] c'] d']. unfold cadd.
  rewrite (add64_comm a), (add64_comm b), (add64_comm c), (add64_comm d). reflexivity.
Qed.

Lemma cadd_assoc : forall x y z, cadd (cadd x y) z = cadd x (cadd y z).
Proof.
  intros [[[a b] c] d] [[[a' b'] c'] d'] [[[a'' b''] c''] d'']. unfold cadd.
  rewrite !add64_assoc. reflexivity.
Qed.

Lemma cadd_ok : forall x y, ctr_ok (cadd x y) = true.
Proof.
  intros [[[a b] c] d] [[[a' b'] c'] d']. unfold cadd, ctr_ok. rewrite !add64_lt. reflexivity.
Qed.

Lemma cadd_zero_r : forall x, ctr_ok x = true -> cadd x czero = x.
Proof.
  intros [[[a b] c] d] H. unfold ctr_ok in H.
  apply andb_prop in H. destruct H as [H Hd]. apply andb_prop in H. destruct H as [H Hc].
  apply andb_prop in H. destruct H as [Ha Hb].
  unfold cadd, czero. rewrite !add64_0_r by assumption. reflexivity.
Qed.

Lemma csum_ok : forall l, ctr_ok (csum l) = true.
Proof. destruct l; cbn [csum fold_right]; [reflexivity | apply cadd_ok]. Qed.

Lemma fold_left_cadd : forall l a, ctr_ok a = true -> fold_left cadd l a = cadd a (csum l).
Proof.
  induction l as [|x l IH]; intros a Ha; cbn [fold_left csum fold_right].
  - symmetry. apply cadd_zero_r. exact Ha.
  - rewrite IH by apply cadd_ok. fold (csum l). apply cadd_assoc.
Qed.

Lemma totals_is_sum : forall l, fold_left cadd l czero = csum l.
Proof.
  intros l. rewrite fold_left_cadd by reflexivity.
  rewrite cadd_comm. apply cadd_zero_r. apply csum_ok.
Qed.

(* ------------------------------------------------------------------ generic list facts *)
Lemma flat_map_ext_in : forall {A B} (f g : A -> list B) l,
  (forall x, In x l -> f x = g x) -> flat_map f l = flat_map g l.
Proof.
  induction l as [|a l IH]; intros H; cbn [flat_map]; [reflexivity|].
  rewrite H by (left; reflexivity). rewrite IH; [reflexivity|]. intros x Hx. apply H. right. exact Hx.
Qed.

Lemma flat_map_filter : forall {A B} (f : A -> list B) p l,
  flat_map f (filter p l) = flat_map (fun x => if p x then f x else []) l.
Proof.
  induction l as [|a l IH]; cbn [filter flat_map]; [reflexivity|].
  destruct (p a); cbn [flat_map]; rewrite IH; reflexivity.
Qed.

Lemma filter_flat_map : forall {A B} (f : A -> list B) p l,
  filter p (flat_map f l) = flat_map (fun x => filter p (f x)) l.
Proof.
  induction l as [|a l IH]; cbn [flat_map]; [reflexivity|].
  rewrite filter_app, IH. reflexivity.
Qed.

Lemma map_flat_map : forall {A B C} (f : A -> list B) (g : B -> C) l,
  map g (flat_map f l) = flat_map (fun x => map g (f x)) l.
Proof.
  induction l as [|a l IH]; cbn [flat_map]; [reflexivity|].
  rewrite map_app, IH. reflexivity.
Qed.

Lemma filter_all_false : forall {A} (p : A -> bool) l,
  (forall x, In x l -> p x = false) -> filter p l = [].
Proof.
  induction l as [|a l IH]; intros H; cbn [filter]; [reflexivity|].
  rewrite H by (left; reflexivity). apply IH. intros x Hx. apply H. right. exact Hx.
Qed.

Lemma Permutation_filter' : forall {A} (p : A -> bool) l l',
  Permutation l l' -> Permutation (filter p l) (filter p l').
Proof.
  intros A p l l' H. induction H; cbn [filter].
  - constructor.
  - destruct (p x); [constructor|]; assumption.
  - destruct (p x), (p y); try apply perm_swap; apply Permutation_refl.
  - eapply Permutation_trans; eassumption.
Qed.

Lemma Permutation_flat_map_in : forall {A B} (f g : A -> list B) l,
  (forall x, In x l -> Permutation (f x) (g x)) -> Permutation (flat_map f l) (flat_map g l).
Proof.
  induction l as [|a l IH]; intros H; cbn [flat_map]; [constructor|].
  apply Permutation_app; [apply H; left; reflexivity | apply IH; intros x Hx; apply H; right; exact Hx].
Qed.

(* ------------------------------------------------------------------ the map *)
Section MapFacts.
  Context {K : Type} (dec : forall a b : K, {a = b} + {a <> b}).
  Notation kv := (K * counters)%type.

  Definition addall (m : list kv) (kvs : list kv) : list kv :=
    fold_left (fun m x => upd dec m (fst x) (snd x)) kvs m.

  Fixpoint find (m : list kv) (k : K) : option counters :=
    match m with
    | [] => None
    | (k', c) :: t => if dec k' k then Some c else find t k
    end.

  Definition vals (k : K) (kvs : list kv) : list counters :=
    map snd (filter (fun x => if dec (fst x) k then true else false) kvs).

  Lemma addall_nil : forall m, addall m [] = m.
  Proof. reflexivity. Qed.
  Lemma addall_cons : forall m x kvs, addall m (x :: kvs) = addall (upd dec m (fst x) (snd x)) kvs.
  Proof. reflexivity. Qed.

  Lemma sum_for_vals : forall k kvs, sum_for dec k kvs = csum (vals k kvs).
  Proof. reflexivity. Qed.

  Lemma find_upd : forall m k c k',
    find (upd dec m k c) k' =
    if dec k k' then Some (match find m k with Some c0 => cadd c0 c | None => c end) else find m k'.
  Proof.
    induction m as [|[k0 c0] t IH]; intros k c k'; cbn [upd find].
    - destruct (dec k k'); reflexivity.
    - destruct (dec k0 k) as [E|N].
      + subst k0. cbn [find]. destruct (dec k k'); reflexivity.
      + cbn [find]. destruct (dec k0 k') as [E'|N'].
        * subst k0. destruct (dec k k') as [E2|_]; [subst; contradiction | reflexivity].
        * rewrite IH. reflexivity.
  Qed.

  Lemma keys_upd : forall m k c x, In x (map fst (upd dec m k c)) <-> In x (map fst m) \/ x = k.
  Proof.
    induction m as [|[k0 c0] t IH]; intros k c x; cbn [upd map fst In].
    - split; [intros [H|[]]; right; auto | intros [[]|H]; left; auto].
    - destruct (dec k0 k) as [E|N]; cbn [map fst In].
      + subst. split; [intros [H|H]; auto | intros [[H|H]|H]; auto].
      + rewrite IH. split; [intros [H|[H|H]]; auto | intros [[H|H]|H]; auto].
  Qed.

  Lemma nodup_upd : forall m k c, NoDup (map fst m) -> NoDup (map fst (upd dec m k c)).
  Proof.
    induction m as [|[k0 c0] t IH]; intros k c H; cbn [upd map fst].
    - constructor; [intros [] | constructor].
    - inversion H as [|? ? Hn Ht]; subst. destruct (dec k0 k) as [E|N]; cbn [map fst].
      + constructor; assumption.
      + constructor; [|apply IH; exact Ht].
        intro Hi. apply keys_upd in Hi. destruct Hi as [Hi|Hi]; [contradiction | congruence].
  Qed.

  Lemma nodup_addall : forall kvs m, NoDup (map fst m) -> NoDup (map fst (addall m kvs)).
  Proof.
    induction kvs as [|x kvs IH]; intros m H; [exact H|].
    rewrite addall_cons. apply IH. apply nodup_upd. exact H.
  Qed.

  Lemma keys_addall : forall kvs m x,
    In x (map fst (addall m kvs)) <-> In x (map fst m) \/ In x (map fst kvs).
  Proof.
    induction kvs as [|y kvs IH]; intros m x.
    - rewrite addall_nil. cbn [map In]. tauto.
    - rewrite addall_cons, IH, keys_upd. cbn [map In].
      split; [intros [[H|H]|H]; auto | intros [H|[H|H]]; auto].
  Qed.

  Lemma addall_app : forall a b m, addall m (a ++ b) = addall (addall m a) b.
  Proof. intros. unfold addall. apply fold_left_app. Qed.

  (* the counters found for a key after adding a list of key/value pairs *)
  Lemma find_addall : forall kvs m k,
    find (addall m kvs) k =
    match find m k with
    | Some c0 => Some (fold_left cadd (vals k kvs) c0)
    | None => match vals k kvs with [] => None | c :: t => Some (fold_left cadd t c) end
    end.
  Proof.
    induction kvs as [|[k1 c1] kvs IH]; intros m k.
    - rewrite addall_nil. cbn. destruct (find m k); reflexivity.
    - rewrite addall_cons, IH. cbn [fst snd]. rewrite find_upd.
      unfold vals. cbn [filter fst]. destruct (dec k1 k) as [E|N].
      + subst k1. cbn [map snd fold_left]. destruct (find m k); reflexivity.
      + reflexivity.
  Qed.

  Lemma find_in : forall m k c, NoDup (map fst m) -> (In (k, c) m <-> find m k = Some c).
  Proof.
    induction m as [|[k0 c0] t IH]; intros k c H; cbn [find In].
    - split; [intros [] | discriminate].
    - inversion H as [|? ? Hn Ht]; subst. destruct (dec k0 k) as [E|N].
      + subst k0. split.
        * intros [E|Hi]; [congruence|]. exfalso. apply Hn. apply in_map_iff. exists (k, c). split; [reflexivity | exact Hi].
        * intros E. left. congruence.
      + rewrite <- IH by exact Ht. split; [intros [E|Hi]; [congruence | exact Hi] | intros Hi; right; exact Hi].
  Qed.

  Lemma vals_nil_iff : forall k kvs, vals k kvs = [] <-> ~ In k (map fst kvs).
  Proof.
    induction kvs as [|[k1 c1] kvs IH]; unfold vals in *; cbn [filter map fst In].
    - tauto.
    - destruct (dec k1 k) as [E|N]; cbn [map].
      + split; [discriminate | intros H; exfalso; apply H; left; exact E].
      + rewrite IH. tauto.
  Qed.

  Lemma vals_ok : forall k kvs, Forall (fun x => ctr_ok (snd x) = true) kvs -> Forall (fun c => ctr_ok c = true) (vals k kvs).
  Proof.
    intros k kvs H. unfold vals. apply Forall_forall. intros c Hc. apply in_map_iff in Hc.
    destruct Hc as [x [<- Hx]]. apply filter_In in Hx. rewrite Forall_forall in H. apply H. apply Hx.
  Qed.

  (* membership in the map built from the empty map = membership in the group-by specification *)
  Lemma in_addall_nil : forall kvs k c, Forall (fun x => ctr_ok (snd x) = true) kvs ->
    (In (k, c) (addall [] kvs) <-> In k (map fst kvs) /\ c = sum_for dec k kvs).
  Proof.
    intros kvs k c Hok.
    rewrite find_in by (apply nodup_addall; constructor).
    rewrite find_addall. cbn [find]. rewrite sum_for_vals.
    pose proof (vals_nil_iff k kvs) as Hn. pose proof (vals_ok k kvs Hok) as Hv.
    destruct (vals k kvs) as [|c1 t] eqn:E.
    - split; [discriminate|]. intros [Hi _]. exfalso. apply (proj1 Hn); [reflexivity | exact Hi].
    - inversion Hv; subst. rewrite fold_left_cadd by assumption. cbn [csum fold_right]. fold (csum t).
      split.
      + intros H. injection H as <-. split; [|reflexivity].
        destruct (in_dec dec k (map fst kvs)) as [Hi|Hi]; [exact Hi|]. apply Hn in Hi. discriminate.
      + intros [_ ->]. reflexivity.
  Qed.

  Lemma in_group_sum : forall kvs k c,
    In (k, c) (group_sum dec kvs) <-> In k (map fst kvs) /\ c = sum_for dec k kvs.
  Proof.
    intros. unfold group_sum. rewrite in_map_iff. split.
    - intros [k' [E Hi]]. injection E as <- <-. apply nodup_In in Hi. split; [exact Hi | reflexivity].
    - intros [Hi ->]. exists k. split; [reflexivity | apply nodup_In; exact Hi].
  Qed.

  Lemma keys_group_sum : forall kvs, map fst (group_sum dec kvs) = nodup dec (map fst kvs).
  Proof. intros. unfold group_sum. rewrite map_map. cbn [fst]. apply map_id. Qed.

  Lemma NoDup_of_keys : forall (m : list kv), NoDup (map fst m) -> NoDup m.
  Proof. intros m H. eapply NoDup_map_inv. exact H. Qed.

  Theorem addall_is_group_sum : forall kvs, Forall (fun x => ctr_ok (snd x) = true) kvs ->
    Permutation (addall [] kvs) (group_sum dec kvs).
  Proof.
    intros kvs Hok. apply NoDup_Permutation.
    - apply NoDup_of_keys. apply nodup_addall. constructor.
    - apply NoDup_of_keys. rewrite keys_group_sum. apply NoDup_nodup.
    - intros [k c]. rewrite in_addall_nil by exact Hok. rewrite in_group_sum. tauto.
  Qed.

  (* group_sum of two lists with disjoint keys *)
  Lemma nodup_app_disjoint : forall (a b : list K), (forall x, In x a -> ~ In x b) ->
    nodup dec (a ++ b) = nodup dec a ++ nodup dec b.
  Proof.
    induction a as [|x a IH]; intros b H; cbn [app nodup]; [reflexivity|].
    assert (Hd : forall y, In y a -> ~ In y b) by (intros y Hy; apply H; right; exact Hy).
    destruct (in_dec dec x (a ++ b)) as [Hi|Hn], (in_dec dec x a) as [Ha|Hna].
    - apply IH. exact Hd.
    - exfalso. apply in_app_or in Hi. destruct Hi as [Hi|Hi]; [contradiction|]. apply (H x); [left; reflexivity | exact Hi].
    - exfalso. apply Hn. apply in_or_app. left. exact Ha.
    - cbn [app]. f_equal. apply IH. exact Hd.
  Qed.

  Lemma vals_app : forall k a b, vals k (a ++ b) = vals k a ++ vals k b.
  Proof. intros. unfold vals. rewrite filter_app, map_app. reflexivity. Qed.

  Lemma group_sum_app_disjoint : forall a b : list kv,
    (forall x, In x (map fst a) -> ~ In x (map fst b)) ->
    group_sum dec (a ++ b) = group_sum dec a ++ group_sum dec b.
  Proof.
    intros a b H. unfold group_sum. rewrite map_app, nodup_app_disjoint by exact H. rewrite map_app.
    f_equal; apply map_ext_in; intros k Hk; apply nodup_In in Hk; f_equal;
      rewrite !sum_for_vals, vals_app.
    - assert (E : vals k b = []) by (apply vals_nil_iff; apply H; exact Hk). rewrite E, app_nil_r. reflexivity.
    - assert (E : vals k a = []).
      { apply vals_nil_iff. intro Ha. apply (H k Ha). exact Hk. }
      rewrite E. reflexivity.
  Qed.
End MapFacts.

(* ------------------------------------------------------------------ renaming the keys injectively *)
Section Rename.
  Context {K R : Type} (decK : forall a b : K, {a = b} + {a <> b}) (decR : forall a b : R, {a = b} + {a <> b}).
  Variable g : K -> R.
  Definition gx (x : K * counters) : R * counters := (g (fst x), snd x).

  Lemma upd_rename : forall m k c,
    (forall k', In k' (map fst m) -> g k' = g k -> k' = k) ->
    map gx (upd decK m k c) = upd decR (map gx m) (g k) c.
  Proof.
    induction m as [|[k0 c0] t IH]; intros k c H; cbn [upd map gx fst snd]; [reflexivity|].
    destruct (decK k0 k) as [E|N].
    - subst k0. destruct (decR (g k) (g k)) as [_|N]; [reflexivity | contradiction].
    - destruct (decR (g k0) (g k)) as [E|_].
      + exfalso. apply N. apply H; [left; reflexivity | exact E].
      + cbn [map gx fst snd]. f_equal. apply IH. intros k' Hk. apply H. right. exact Hk.
  Qed.

  Lemma addall_rename : forall kvs m,
    (forall k1 k2, In k1 (map fst m ++ map fst kvs) -> In k2 (map fst m ++ map fst kvs) -> g k1 = g k2 -> k1 = k2) ->
    map gx (addall decK m kvs) = addall decR (map gx m) (map gx kvs).
  Proof.
    induction kvs as [|[k c] kvs IH]; intros m H; [reflexivity|].
    cbn [map]. rewrite !addall_cons. cbn [gx fst snd].
    rewrite <- upd_rename.
    - apply IH. intros k1 k2 H1 H2. apply H; apply in_or_app.
      + apply in_app_or in H1. destruct H1 as [H1|H1].
        * apply keys_upd in H1. destruct H1 as [H1| ->]; [left; exact H1 | right; left; reflexivity].
        * right. right. exact H1.
      + apply in_app_or in H2. destruct H2 as [H2|H2].
        * apply keys_upd in H2. destruct H2 as [H2| ->]; [left; exact H2 | right; left; reflexivity].
        * right. right. exact H2.
    - intros k' Hk. apply H; apply in_or_app; [left; exact Hk | right; left; reflexivity].
  Qed.
End Rename.
