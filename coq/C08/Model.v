(* C08 model: the goDB query engine from the prepared statement to the result rows
   (pkg/goDB/engine/query.go RunStatement, engine/aggregate.go, pkg/goDB/DBWorkManager.go
   CreateWorkerJobs / walkDB / readBlocksAndEvaluate, pkg/goDB/Query.go NewQuery, the IP version
   bookkeeping of pkg/goDB/conditions/node). Executable definitions only.

   The model describes the code WITH the three C08 fixes applied (sound IP-version pruning
   `Node.IPVersion`, rows carry the address as stored instead of going through the
   "12 zero bytes => IPv4" heuristic of types.RawIPToAddr, walkDB takes the year / month lower
   bound from tfirst - EpochDay). The original behaviour is kept as
   `ipver_orig` / `raw_ip_to_addr` and `query_model_orig` so that the defects stay visible
   (Properties.v: c08_original_*_refuted).

   Abstractions (see NOTES.md): the column codec / bit packing (a block is the list of its IPv4
   entries followed by the list of its IPv6 entries), the hash map (a finite map as association
   list; C18), worker goroutines / workload bulks / the merge of the per-workload maps (one map per
   interface, filled day by day; C11 proves the result independent of the split and the schedule),
   interface selection (C16: the model starts from stmt.Ifaces), sorting and time binning of rows
   (rows are a multiset), time.Time.Date (the civil-from-days algorithm, zone = fixed offset). *)
From Coq Require Import List ZArith NArith Bool String.
From GoProbe.Base Require Import CorrLib.
From GoProbe.C09 Require Import Model.
Import ListNotations.
Open Scope Z_scope.

(* ------------------------------------------------------------------ counters (types.Counters) *)
Definition counters := (N * N * N * N)%type.        (* bytes rcvd, bytes sent, packets rcvd, packets sent *)
Definition two64 : N := 18446744073709551616%N.
Definition add64 (a b : N) : N := ((a + b) mod two64)%N.          (* uint64 += *)
Definition cadd (x y : counters) : counters :=
  let '(a, b, c, d) := x in let '(a', b', c', d') := y in
  (add64 a a', add64 b b', add64 c c', add64 d d').
Definition czero : counters := (0, 0, 0, 0)%N.
Definition csum (l : list counters) : counters := fold_right cadd czero l.

(* ------------------------------------------------------------------ the stored data *)
Definition entry := (flow * counters)%type.          (* flow = C09: family, sip, dip, dport, proto *)
Record block := { b_ts : Z; b_v4 : list entry; b_v6 : list entry }.
Record day := { d_ts : Z; d_blocks : list block }.   (* one day directory <year>/<month>/<d_ts> *)
Definition db := list (string * list day).           (* interface directory -> its days, in directory order *)

Fixpoint lookup {A} (i : string) (l : list (string * A)) : option A :=
  match l with
  | [] => None
  | (n, a) :: t => if String.eqb n i then Some a else lookup i t
  end.

(* ------------------------------------------------------------------ the statement *)
Inductive dirf := DNone | DIn | DOut | DUni | DBi.

Record stmt := {
  q_sip : bool; q_dip : bool; q_dport : bool; q_proto : bool;    (* queryAttributes *)
  q_time : bool;                                                 (* LabelSelector.Timestamp *)
  q_iface : bool;      (* LabelSelector.Iface: stored in Query.hasAttrIface, read by nothing in the engine *)
  q_cond : option cond;                                          (* None: no conditional *)
  q_dir : dirf;                                                  (* the split-off direction filter *)
  q_first : Z; q_last : Z;
  q_ifaces : list string                                         (* stmt.Ifaces *)
}.

(* ------------------------------------------------------------------ time.Unix(ts).Year()/Month() *)
(* proleptic Gregorian civil date from the day number (days since 1970-01-01) *)
Definition civil (days : Z) : Z * Z :=
  let z := days + 719468 in
  let era := z / 146097 in
  let doe := z - era * 146097 in
  let yoe := (doe - doe / 1460 + doe / 36524 - doe / 146096) / 365 in
  let y := yoe + era * 400 in
  let doy := doe - (365 * yoe + yoe / 4 - yoe / 100) in
  let mp := (5 * doy + 2) / 153 in
  let m := if mp <? 10 then mp + 3 else mp - 9 in
  (if m <=? 2 then y + 1 else y, m).

(* zone = fixed offset `off` seconds east of UTC *)
Definition year_month (off ts : Z) : Z * Z := civil ((ts + off) / 86400).

Definition write_interval : Z := 300.   (* DBWriteInterval *)
Definition epoch_day : Z := 86400.      (* gpfile.EpochDay *)

(* walkDB: is the day directory visited? year directory, month directory, then the timestamp test.
   The directory of a day is <Year>/<Month> of its timestamp in the writer's zone
   (gpfile.genWritePathForTimestamp). `lo` is the instant whose year / month bound the directories
   from below: tfirst - EpochDay in the fixed code, tfirst in the code as found. *)
Definition day_selected_gen (lo : Z) (off first last : Z) (d : day) : bool :=
  let '(yf, mf) := year_month off lo in
  let '(yl, ml) := year_month off (last + write_interval) in
  let '(y, m) := year_month off (d_ts d) in
  negb ((y <? yf) || (y >? yl))
  && negb (((y =? yf) && (m <? mf)) || ((y =? yl) && (m >? ml)))
  && ((first <? d_ts d + epoch_day) && (d_ts d <? last + write_interval)).

Definition day_selected (off first last : Z) (d : day) : bool :=
  day_selected_gen (first - epoch_day) off first last d.

(* GPDir.TimeRange: indexes the block list *)
Definition first_ts (d : day) : res Z :=
  match d_blocks d with b :: _ => Ok (b_ts b) | [] => Panic end.
Definition last_ts (d : day) : res Z :=
  match rev (d_blocks d) with b :: _ => Ok (b_ts b) | [] => Panic end.

(* CreateWorkerJobs: the selected day directories and tFirstCovered / tLastCovered *)
Definition covered (off first last : Z) (days : list day) : res (list day * Z * Z) :=
  let sel := filter (day_selected off first last) days in
  match sel with
  | [] => Ok ([], first, last)
  | d0 :: _ =>
      bind (first_ts d0) (fun df =>
      bind (last_ts (List.last sel d0)) (fun dl =>
      Ok (sel, if first <? df then df else first, if last >? dl then dl else last)))
  end.

(* ------------------------------------------------------------------ types.IPVersion *)
Inductive ipver := IPNone | IPBoth | IP4 | IP6.

Definition ipver_eqb (a b : ipver) : bool :=
  match a, b with
  | IPNone, IPNone | IPBoth, IPBoth | IP4, IP4 | IP6, IP6 => true
  | _, _ => false
  end.

(* IPVersion.Merge *)
Definition merge (v v2 : ipver) : ipver :=
  match v, v2 with
  | IPNone, _ => v2
  | _, IPBoth => v2
  | _, IPNone => v
  | IPBoth, _ => v
  | _, _ => if ipver_eqb v v2 then v else IPBoth
  end.

Definition limited (v : ipver) : bool := match v with IP4 | IP6 => true | _ => false end.  (* IsLimited *)

(* conditionNode.ipVersion as set by generateCompareValue / conditionBytesAndNetmask *)
Definition leaf_ver (a : attr) (v : value) : ipver :=
  match a, v with
  | (ASip | ADip), VIP _ true => IP4
  | (ASip | ADip), VIP _ false => IP6
  | (ASnet | ADnet), VNet _ colon _ => if colon then IP6 else IP4
  | _, _ => IPNone
  end.

(* ORIGINAL: Attributes() merges the versions per attribute name over the whole tree (not/and/or
   alike) and NewQuery merges over the attribute names. Merge is associative, commutative and
   idempotent, so the result is the merge over all leaves. *)
Fixpoint ipver_orig (n : cond) : ipver :=
  match n with
  | Leaf a _ v => leaf_ver a v
  | Not x => ipver_orig x
  | And l r | Or l r => merge (ipver_orig l) (ipver_orig r)
  end.

(* FIXED: Node.IPVersion - the IP version every flow satisfying the node must have *)
Fixpoint ipver_fixed (n : cond) : ipver :=
  match n with
  | Leaf a Eq v => leaf_ver a v
  | Leaf _ _ _ => IPBoth
  | Not _ => IPBoth
  | And l r =>
      let a := ipver_fixed l in let b := ipver_fixed r in
      if limited a then a else if limited b then b else merge a b
  | Or l r =>
      let a := ipver_fixed l in let b := ipver_fixed r in
      if limited a && ipver_eqb a b then a else IPBoth
  end.

(* ------------------------------------------------------------------ goDB.NewQuery: the plan *)
Fixpoint uses (p : attr -> bool) (n : cond) : bool :=
  match n with
  | Leaf a _ _ => p a
  | Not x => uses p x
  | And l r | Or l r => uses p l || uses p r
  end.

(* conditionalAttributeNameToColumnIndex *)
Definition col_sip (a : attr) : bool := match a with ASip | ASnet => true | _ => false end.
Definition col_dip (a : attr) : bool := match a with ADip | ADnet => true | _ => false end.
Definition col_dport (a : attr) : bool := match a with ADport => true | _ => false end.
Definition col_proto (a : attr) : bool := match a with AProto => true | _ => false end.

Record plan := {
  p_ic : icond;                 (* the instrumented conditional *)
  p_ver : ipver;                (* Query.ipVersion *)
  p_csip : bool; p_cdip : bool; p_cdport : bool; p_cproto : bool   (* hasCondSIP ... *)
}.

(* ParseAndInstrument after parsing (C09: desugar, negation normal form, instrument) + NewQuery *)
Definition make_plan (prune : cond -> ipver) (c : cond) : res plan :=
  bind (desugar c) (fun d =>
  bind (nnf d) (fun n =>
  bind (instrument n) (fun ic =>
  Ok {| p_ic := ic; p_ver := prune n;
        p_csip := uses col_sip n; p_cdip := uses col_dip n;
        p_cdport := uses col_dport n; p_cproto := uses col_proto n |}))).

(* ------------------------------------------------------------------ keys of the aggregate map *)
(* The (extended) key as the tuple of its fields: k_v4 = which sub-map / key width (11 or 35 bytes),
   k_ts = the time extension, unset fields hold zero bytes. *)
Record mkey := { k_v4 : bool; k_ts : option Z; k_sip : bytes; k_dip : bytes; k_dport : N; k_proto : N }.

Definition zeros (n : nat) : bytes := repeat 0%N n.

(* Key.Extend: no extension for ts <= 0 *)
Definition extend_ts (ts : Z) : option Z := if ts <=? 0 then None else Some ts.

(* "Populate key for current entry": only the selected attributes are written *)
Definition pop_key (q : stmt) (is4 : bool) (ts : Z) (f : flow) : mkey :=
  {| k_v4 := is4;
     k_ts := if q_time q then extend_ts ts else None;
     k_sip := if q_sip q then f_sip f else zeros (ipw is4);
     k_dip := if q_dip q then f_dip f else zeros (ipw is4);
     k_dport := if q_dport q then f_dport f else 0%N;
     k_proto := if q_proto q then f_proto f else 0%N |}.

(* "Populate comparison value for current entry": only the columns the conditional mentions *)
Definition cmp_flow (p : plan) (c4 : bool) (f : flow) : flow :=
  {| f_v4 := c4;
     f_sip := if p_csip p then f_sip f else zeros (ipw c4);
     f_dip := if p_cdip p then f_dip f else zeros (ipw c4);
     f_dport := if p_cdport p then f_dport f else 0%N;
     f_proto := if p_cproto p then f_proto f else 0%N |}.

Definition bytes_dec : forall a b : bytes, {a = b} + {a <> b} := list_eq_dec N.eq_dec.
Definition optZ_dec : forall a b : option Z, {a = b} + {a <> b}.
Proof. decide equality. apply Z.eq_dec. Defined.
Definition mkey_dec : forall a b : mkey, {a = b} + {a <> b}.
Proof. decide equality; try apply N.eq_dec; try apply bytes_dec; try apply optZ_dec; apply bool_dec. Defined.

(* ------------------------------------------------------------------ the abstract hash map (C18) *)
Section AMap.
  Context {K : Type} (dec : forall a b : K, {a = b} + {a <> b}).

  (* Map.SetOrUpdate: add to the existing counters or insert *)
  Fixpoint upd (m : list (K * counters)) (k : K) (c : counters) : list (K * counters) :=
    match m with
    | [] => [(k, c)]
    | (k', c') :: t => if dec k' k then (k', cadd c' c) :: t else (k', c') :: upd t k c
    end.

  (* specification side: group by key, sum the counters *)
  Definition sum_for (k : K) (kvs : list (K * counters)) : counters :=
    csum (map snd (filter (fun kv => if dec (fst kv) k then true else false) kvs)).
  Definition group_sum (kvs : list (K * counters)) : list (K * counters) :=
    map (fun k => (k, sum_for k kvs)) (nodup dec (map fst kvs)).
End AMap.

Definition amap := list (mkey * counters).

(* ------------------------------------------------------------------ readBlocksAndEvaluate *)
Fixpoint fold_res {A B} (f : A -> B -> res A) (l : list B) (a : A) : res A :=
  match l with
  | [] => Ok a
  | x :: t => bind (f a x) (fold_res f t)
  end.

(* one entry: populate the key, evaluate the conditional on the comparison value, aggregate.
   is4: isIPv4 (key / sub-map), c4: condIsIPv4 (comparison value) *)
Definition proc_entry (q : stmt) (p : option plan) (ts : Z) (is4 c4 : bool) (m : amap) (e : entry) : res amap :=
  let '(f, c) := e in
  bind (match p with
        | None => Ok true
        | Some pl => bind (eval (p_ic pl) (key_of (cmp_flow pl c4 f))) (fun r => Ok (fst r))
        end) (fun sat =>
  Ok (if sat then upd mkey_dec m (pop_key q is4 ts f) c else m)).

Definition plan_ver (p : option plan) : ipver := match p with Some pl => p_ver pl | None => IPNone end.

(* one block that passed the time filter: entries [startEntry, numEntries) as limited by ipVersion;
   from the v4/v6 mark on the comparison value is the IPv6 one, the key is the IPv6 one only if an
   IP attribute is selected *)
Definition proc_block (q : stmt) (p : option plan) (m : amap) (b : block) : res amap :=
  let v4s := match plan_ver p with IP6 => [] | _ => b_v4 b end in
  let v6s := match plan_ver p with IP4 => [] | _ => b_v6 b end in
  let is4_v6 := negb (q_sip q || q_dip q) in
  bind (fold_res (proc_entry q p (b_ts b) true true) v4s m) (fun m1 =>
  fold_res (proc_entry q p (b_ts b) is4_v6 false) v6s m1).

Definition proc_day (q : stmt) (p : option plan) (tf tl : Z) (m : amap) (d : day) : res amap :=
  fold_res (fun m b => if (b_ts b <? tf) || (b_ts b >? tl) then Ok m else proc_block q p m b) (d_blocks d) m.

(* one interface: work manager + workers + merge into finalMaps[iface] *)
Definition proc_iface (off : Z) (q : stmt) (p : option plan) (days : list day) : res amap :=
  bind (covered off (q_first q) (q_last q) days) (fun x =>
  let '(sel, tf, tl) := x in
  fold_res (proc_day q p tf tl) sel []).

(* ------------------------------------------------------------------ rows *)
Definition addr := (bool * bytes)%type.     (* netip.Addr: Is4, AsSlice *)

(* netip.AddrFromSlice *)
Definition addr_from_slice (ip : bytes) : option addr :=
  if (List.length ip =? 4)%nat then Some (true, ip)
  else if (List.length ip =? 16)%nat then Some (false, ip) else None.

(* ORIGINAL types.RawIPToAddr: 12 zero bytes after the first four => read as IPv4 *)
Definition raw_ip_to_addr (ip : bytes) : option addr :=
  let zeros := List.length (filter (fun x => (x =? 0)%N) (skipn 4 ip)) in
  addr_from_slice (if (zeros =? 12)%nat then firstn 4 ip else ip).

Record rowkey := { r_iface : string; r_ts : option Z; r_sip : option addr; r_dip : option addr;
                   r_dport : N; r_proto : N }.
Definition row := (rowkey * counters)%type.

Definition addr_dec : forall a b : addr, {a = b} + {a <> b}.
Proof. decide equality; [apply bytes_dec | apply bool_dec]. Defined.
Definition optaddr_dec : forall a b : option addr, {a = b} + {a <> b}.
Proof. decide equality. apply addr_dec. Defined.
Definition rowkey_dec : forall a b : rowkey, {a = b} + {a <> b}.
Proof. decide equality; try apply N.eq_dec; try apply optaddr_dec; try apply optZ_dec; apply string_dec. Defined.

(* "RESULTS PREPARATION": labels and attributes of one map entry *)
Definition materialise (toaddr : bytes -> option addr) (q : stmt) (iface : string) (k : mkey) : rowkey :=
  {| r_iface := iface;
     r_ts := k_ts k;
     r_sip := if q_sip q then toaddr (k_sip k) else None;
     r_dip := if q_dip q then toaddr (k_dip k) else None;
     r_dport := if q_dport q then k_dport k else 0%N;
     r_proto := if q_proto q then k_proto k else 0%N |}.

(* the direction filters (types.Counters.IsOnlyInbound ...) *)
Definition dir_ok (d : dirf) (c : counters) : bool :=
  let '(_, _, pr, ps) := c in
  match d with
  | DNone => true
  | DIn => (0 <? pr)%N && (ps =? 0)%N
  | DOut => (0 <? ps)%N && (pr =? 0)%N
  | DUni => ((0 <? pr)%N && (ps =? 0)%N) || ((0 <? ps)%N && (pr =? 0)%N)
  | DBi => (0 <? pr)%N && (0 <? ps)%N
  end.

Record result := { res_rows : list row; res_totals : counters; res_hits : nat }.

(* RunStatement *)
Definition query_model_gen (prune : cond -> ipver) (toaddr : bytes -> option addr) (off : Z)
    (d : db) (q : stmt) : res result :=
  match q_ifaces q with
  | [] => Err                                              (* "no interfaces provided" *)
  | _ =>
    bind (match q_cond q with
          | None => Ok None
          | Some c => bind (make_plan prune c) (fun p => Ok (Some p))
          end) (fun p =>
    bind (fold_res (fun acc iface =>
            match lookup iface d with
            | None => Err                                  (* os.ReadDir of the interface directory fails *)
            | Some days =>
                bind (proc_iface off q p days) (fun m =>
                Ok (acc ++ map (fun kc => (materialise toaddr q iface (fst kc), snd kc))
                               (filter (fun kc => dir_ok (q_dir q) (snd kc)) m)))
            end) (q_ifaces q) []) (fun rows =>
    Ok {| res_rows := rows;
          res_totals := fold_left cadd (map snd rows) czero;   (* totals.Add(val) per emitted row *)
          res_hits := List.length rows |}))
  end.

(* the code with the fixes, local zone = fixed offset `off` *)
Definition query_model_tz (off : Z) : db -> stmt -> res result := query_model_gen ipver_fixed addr_from_slice off.
(* ... zone UTC *)
Definition query_model : db -> stmt -> res result := query_model_tz 0.
(* the code as found *)
Definition query_model_orig : db -> stmt -> res result := query_model_gen ipver_orig raw_ip_to_addr 0.

(* ------------------------------------------------------------------ specification *)
(* all stored flows of the queried interfaces with their interface and block time *)
Definition stored_flow := (string * Z * flow * counters)%type.

Definition block_flows (i : string) (b : block) : list stored_flow :=
  map (fun e => (i, b_ts b, fst e, snd e)) (b_v4 b ++ b_v6 b).
Definition iface_flows (i : string) (days : list day) : list stored_flow :=
  flat_map (fun dy => flat_map (block_flows i) (d_blocks dy)) days.
Definition stored_flows (d : db) (ifaces : list string) : list stored_flow :=
  flat_map (fun i => match lookup i d with Some days => iface_flows i days | None => [] end) ifaces.

Definition sem_opt (c : option cond) (f : flow) : bool :=
  match c with None => true | Some c => sem c f end.

(* the flow satisfies the condition and its block time lies in [first, last] *)
Definition selected (q : stmt) (x : stored_flow) : bool :=
  let '(_, ts, f, _) := x in
  (q_first q <=? ts) && (ts <=? q_last q) && sem_opt (q_cond q) f.

(* projection to the requested attributes and the interface / time labels *)
Definition rowkey_of (q : stmt) (x : stored_flow) : rowkey :=
  let '(i, ts, f, _) := x in
  {| r_iface := i;
     r_ts := if q_time q then Some ts else None;
     r_sip := if q_sip q then Some (f_v4 f, f_sip f) else None;
     r_dip := if q_dip q then Some (f_v4 f, f_dip f) else None;
     r_dport := if q_dport q then f_dport f else 0%N;
     r_proto := if q_proto q then f_proto f else 0%N |}.

Definition ctr_of (x : stored_flow) : counters := snd x.

(* group by, counters summed mod 2^64 *)
Definition spec_groups (d : db) (q : stmt) : list row :=
  group_sum rowkey_dec
    (map (fun x => (rowkey_of q x, ctr_of x)) (filter (selected q) (stored_flows d (q_ifaces q)))).

(* a direction filter keeps exactly the groups whose summed counters satisfy it *)
Definition query_spec (d : db) (q : stmt) : list row :=
  filter (fun r => dir_ok (q_dir q) (snd r)) (spec_groups d q).

(* ------------------------------------------------------------------ well-formedness *)
Definition day_limit : Z := 50000.       (* 2106-11-24; timestamps are handled up to there *)
Definition ts_limit : Z := day_limit * 86400.

Definition ctr_ok (c : counters) : bool :=
  let '(a, b, c, d) := c in (a <? two64)%N && (b <? two64)%N && (c <? two64)%N && (d <? two64)%N.

Definition entry_ok (v4 : bool) (e : entry) : bool :=
  wf_flow (fst e) && Bool.eqb (f_v4 (fst e)) v4 && ctr_ok (snd e).

Fixpoint increasing (l : list Z) : bool :=
  match l with
  | a :: ((b :: _) as t) => (a <? b) && increasing t
  | _ => true
  end.

Definition block_ok (dts : Z) (b : block) : bool :=
  (0 <? b_ts b) && (dts <=? b_ts b) && (b_ts b <? dts + epoch_day)
  && forallb (entry_ok true) (b_v4 b) && forallb (entry_ok false) (b_v6 b).

(* a day directory as the DBWriter produces it: at least one block, block times increasing and
   inside the day, the directory timestamp a multiple of a day *)
Definition day_ok (dy : day) : bool :=
  (0 <=? d_ts dy) && (d_ts dy <? ts_limit) && (d_ts dy mod epoch_day =? 0)
  && negb (match d_blocks dy with [] => true | _ => false end)
  && increasing (map b_ts (d_blocks dy)) && forallb (block_ok (d_ts dy)) (d_blocks dy).

Definition iface_ok (days : list day) : bool :=
  increasing (map d_ts days) && forallb day_ok days.

Definition wf_db (d : db) : bool := forallb (fun x => iface_ok (snd x)) d.

Definition zone_max : Z := 50400.                 (* zone offsets -14h .. +14h *)
Definition first_min : Z := epoch_day + zone_max.  (* 1970-01-02 14:00 *)
Definition zone_ok (off : Z) : bool := (- zone_max <=? off) && (off <=? zone_max).

Fixpoint nodup_str (l : list string) : bool :=
  match l with
  | [] => true
  | x :: t => negb (existsb (String.eqb x) t) && nodup_str t
  end.

(* a prepared statement: existing, distinct interfaces; first_min <= first <= last (ParseTimeRange);
   condition values as IPStringToBytes produces them *)
Definition wf_stmt (d : db) (q : stmt) : bool :=
  nodup_str (q_ifaces q)
  && forallb (fun i => match lookup i d with Some _ => true | None => false end) (q_ifaces q)
  && (first_min <=? q_first q) && (q_first q <=? q_last q) && (q_last q + write_interval <? ts_limit)
  && match q_cond q with Some c => wf_cond c | None => true end.
