(* C08 correspondence: case type, corr (model = observed) and holds (observed = specification).
   A case carries the generated database (addresses through a per-case pool), the statement and
   what engine.NewQueryRunner(db).Run returned. *)
From Coq Require Import List ZArith NArith Bool String.
From GoProbe.Base Require Import CorrLib.
From GoProbe.C09 Require Import Model.
From GoProbe.C08 Require Import Model.
Import ListNotations.

(* ------------------------------------------------------------------ compact input *)
(* stored flow: pool index of sip and dip, dport, proto, four counters; the family is given by the
   list (IPv4 / IPv6) the flow stands in *)
Inductive cflow := F (s d dp pr a b c e : N).
Inductive cblock := B (ts : Z) (v4 v6 : list cflow).
Inductive cday := D (ts : Z) (blocks : list cblock).

(* an address of an observed row: absent, pool index, or explicit *)
Inductive oaddr := OAbs | OIdx (i : N) | ORaw (is4 : bool) (b : bytes).
(* observed row: interface index in stmt.Ifaces, time label (0 = zero time), addresses, dport,
   proto, counters *)
Inductive orow := R (i : nat) (ts : Z) (s d : oaddr) (dp pr a b c e : N).

Inductive outcome := OOk (rows : list orow) (ta tb tc td : N) (hits : nat) | OErr | OPanic.

(* attrs: bit 0 time, 1 sip, 2 dip, 3 dport, 4 proto, 5 iface; off: the local zone the engine ran
   in, seconds east of UTC *)
Inductive case :=
| mkCase (off : Z) (pool : list bytes) (d : list (string * list cday)) (attrs : N) (c : option cond) (dir : dirf)
         (first last : Z) (ifaces : list string) (o : outcome).

Definition pool_get (pool : list bytes) (i : N) : bytes := nth (N.to_nat i) pool [].

Definition mk_entry (pool : list bytes) (v4 : bool) (f : cflow) : entry :=
  match f with
  | F s d dp pr a b c e =>
      ({| f_v4 := v4; f_sip := pool_get pool s; f_dip := pool_get pool d; f_dport := dp; f_proto := pr |},
       (a, b, c, e))
  end.
Definition mk_block pool (b : cblock) : block :=
  match b with B ts v4 v6 => {| b_ts := ts; b_v4 := map (mk_entry pool true) v4; b_v6 := map (mk_entry pool false) v6 |} end.
Definition mk_day pool (d : cday) : day :=
  match d with D ts bs => {| d_ts := ts; d_blocks := map (mk_block pool) bs |} end.
Definition mk_db pool (d : list (string * list cday)) : db :=
  map (fun x => (fst x, map (mk_day pool) (snd x))) d.

Definition mk_stmt (attrs : N) (c : option cond) (dir : dirf) (first last : Z) (ifaces : list string) : stmt :=
  {| q_time := N.testbit attrs 0; q_sip := N.testbit attrs 1; q_dip := N.testbit attrs 2;
     q_dport := N.testbit attrs 3; q_proto := N.testbit attrs 4; q_iface := N.testbit attrs 5;
     q_cond := c; q_dir := dir; q_first := first; q_last := last; q_ifaces := ifaces |}.

Definition mk_addr pool (a : oaddr) : option addr :=
  match a with
  | OAbs => None
  | OIdx i => let b := pool_get pool i in Some ((List.length b =? 4)%nat, b)
  | ORaw is4 b => Some (is4, b)
  end.

Definition mk_row pool (ifaces : list string) (r : orow) : row :=
  match r with
  | R i ts s d dp pr a b c e =>
      ({| r_iface := nth i ifaces EmptyString; r_ts := if (ts =? 0)%Z then None else Some ts;
          r_sip := mk_addr pool s; r_dip := mk_addr pool d; r_dport := dp; r_proto := pr |},
       (a, b, c, e))
  end.

(* ------------------------------------------------------------------ multiset equality of rows *)
Definition ctr_dec : forall a b : counters, {a = b} + {a <> b}.
Proof. repeat decide equality. Defined.
Definition row_dec : forall a b : row, {a = b} + {a <> b}.
Proof. decide equality; [apply ctr_dec | apply rowkey_dec]. Defined.

Fixpoint remove1 (x : row) (l : list row) : option (list row) :=
  match l with
  | [] => None
  | y :: t => if row_dec x y then Some t
              else match remove1 x t with Some t' => Some (y :: t') | None => None end
  end.

Fixpoint same_mset (a b : list row) : bool :=
  match a with
  | [] => match b with [] => true | _ => false end
  | x :: t => match remove1 x b with Some b' => same_mset t b' | None => false end
  end.

Definition ctr_eqb (x y : counters) : bool := if ctr_dec x y then true else false.

(* ------------------------------------------------------------------ corr / holds *)
(* does the model still describe the code? (also: the generator produced a well-formed input) *)
Definition corr_gen (model : Z -> db -> stmt -> res result) (c : case) : bool :=
  match c with
  | mkCase off pool cd attrs cnd dir first last ifaces o =>
      let d := mk_db pool cd in
      let q := mk_stmt attrs cnd dir first last ifaces in
      zone_ok off && wf_db d && wf_stmt d q &&
      match model off d q, o with
      | Ok r, OOk rows ta tb tc td hits =>
          same_mset (map (mk_row pool ifaces) rows) (res_rows r)
          && ctr_eqb (ta, tb, tc, td) (res_totals r) && (hits =? res_hits r)%nat
      | Err, OErr => true
      | Panic, OPanic => true
      | _, _ => false
      end
  end.

Definition corr : case -> bool := corr_gen query_model_tz.
(* the same against the model of the code as found (before the fixes; meaningful for off = 0) *)
Definition corr_orig : case -> bool := corr_gen (fun _ => query_model_orig).

Definition cond_valid (c : option cond) : bool :=
  match c with Some c => valid_spec c | None => true end.

(* does the observed behaviour satisfy the property? Computed from the input by the specification
   (group by over the selected stored flows), not by the model: the rows are the groups kept by the
   direction filter, the totals their sum, the hits their number; a query is refused only for a
   malformed condition *)
Definition holds (c : case) : bool :=
  match c with
  | mkCase off pool cd attrs cnd dir first last ifaces o =>
      let d := mk_db pool cd in
      let q := mk_stmt attrs cnd dir first last ifaces in
      match o with
      | OOk rows ta tb tc td hits =>
          let rs := map (mk_row pool ifaces) rows in
          cond_valid cnd
          && same_mset rs (query_spec d q)
          && ctr_eqb (ta, tb, tc, td) (csum (map snd rs))
          && (hits =? List.length rs)%nat
      | OErr => negb (cond_valid cnd) || match ifaces with [] => true | _ => false end
      | OPanic => false
      end
  end.
