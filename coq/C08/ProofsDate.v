(* C08 proofs, part 2: day selection (walkDB) and the block time filter
   (tFirstCovered / tLastCovered) select exactly the blocks with first <= ts <= last. *)
From Coq Require Import List ZArith NArith Bool Lia.
From GoProbe.Base Require Import CorrLib.
From GoProbe.C09 Require Import Model.
From GoProbe.C08 Require Import Model.
Import ListNotations.
Open Scope Z_scope.

(* ------------------------------------------------------------------ the civil date is monotone *)
Definition ym_le (a b : Z * Z) : bool :=
  (fst a <? fst b) || ((fst a =? fst b) && (snd a <=? snd b)).

(* complete check of all consecutive day numbers 0 .. day_limit (1970-01-01 .. 2106-11-24) *)
Fixpoint steps_ok (n : nat) (d : Z) : bool :=
  match n with
  | O => true
  | S n' => ym_le (civil d) (civil (d + 1)) && steps_ok n' (d + 1)
  end.

Lemma civil_steps : steps_ok (Z.to_nat day_limit) 0 = true.
Proof. vm_compute. reflexivity. Qed.

Lemma ym_le_refl : forall a, ym_le a a = true.
Proof. intros [y m]. unfold ym_le. cbn [fst snd]. rewrite Z.eqb_refl, Z.leb_refl. apply orb_true_r. Qed.

Lemma ym_le_trans : forall a b c, ym_le a b = true -> ym_le b c = true -> ym_le a c = true.
Proof.
  intros [y1 m1] [y2 m2] [y3 m3]. unfold ym_le. cbn [fst snd]. intros H1 H2.
  apply orb_true_iff in H1. apply orb_true_iff in H2. apply orb_true_iff.
  rewrite !andb_true_iff, !Z.ltb_lt, !Z.eqb_eq, !Z.leb_le in *. lia.
Qed.

Lemma steps_ok_spec : forall n d k, steps_ok n d = true -> (k < n)%nat ->
  ym_le (civil (d + Z.of_nat k)) (civil (d + Z.of_nat k + 1)) = true.
Proof.
  induction n as [|n IH]; intros d k H Hk; [inversion Hk|].
  cbn [steps_ok] in H. apply andb_true_iff in H. destruct H as [H1 H2].
  destruct k as [|k].
  - cbn [Z.of_nat]. rewrite Z.add_0_r. exact H1.
  - replace (d + Z.of_nat (S k)) with (d + 1 + Z.of_nat k) by lia. apply IH; [exact H2 | lia].
Qed.

Lemma civil_step : forall d, 0 <= d < day_limit -> ym_le (civil d) (civil (d + 1)) = true.
Proof.
  intros d Hd.
  pose proof (steps_ok_spec _ 0 (Z.to_nat d) civil_steps) as H.
  rewrite Z2Nat.id, Z.add_0_l in H by apply Hd. apply H.
  apply Z2Nat.inj_lt; [apply Hd | | apply Hd].
  apply Z.le_trans with d; [apply Hd | apply Z.lt_le_incl; apply Hd].
Qed.

Lemma civil_mono_nat : forall n d, 0 <= d -> d + Z.of_nat n <= day_limit ->
  ym_le (civil d) (civil (d + Z.of_nat n)) = true.
Proof.
  induction n as [|n IH]; intros d H0 H1.
  - rewrite Z.add_0_r. apply ym_le_refl.
  - eapply ym_le_trans; [apply IH; lia|].
    replace (d + Z.of_nat (S n)) with (d + Z.of_nat n + 1) by lia. apply civil_step. lia.
Qed.

Lemma civil_mono : forall a b, 0 <= a <= b -> b <= day_limit -> ym_le (civil a) (civil b) = true.
Proof.
  intros a b H1 H2. replace b with (a + Z.of_nat (Z.to_nat (b - a))) by lia.
  apply civil_mono_nat; lia.
Qed.

(* ------------------------------------------------------------------ walkDB *)
Definition ts_selected (first last : Z) (d : day) : bool :=
  (first <? d_ts d + epoch_day) && (d_ts d <? last + write_interval).

(* the year / month directory tests never exclude a day the timestamp test accepts (any fixed zone) *)
Lemma day_selected_tz : forall off first last d,
  zone_ok off = true -> first_min <= first -> last + write_interval < ts_limit -> 0 <= d_ts d ->
  day_selected off first last d = ts_selected first last d.
Proof.
  intros off first last d Hz Hf Hl Hd. unfold day_selected, day_selected_gen, ts_selected, year_month.
  destruct (civil ((first - epoch_day + off) / 86400)) as [yf mf] eqn:Cf.
  destruct (civil ((last + write_interval + off) / 86400)) as [yl ml] eqn:Cl.
  destruct (civil ((d_ts d + off) / 86400)) as [y m] eqn:Cd.
  destruct ((first <? d_ts d + epoch_day) && (d_ts d <? last + write_interval)) eqn:E;
    [|apply andb_false_r].
  rewrite andb_true_r. apply andb_true_iff in E. destruct E as [E1 E2].
  apply Z.ltb_lt in E1. apply Z.ltb_lt in E2.
  unfold zone_ok, zone_max in Hz. apply andb_true_iff in Hz. destruct Hz as [Hz1 Hz2].
  apply Z.leb_le in Hz1. apply Z.leb_le in Hz2.
  unfold first_min, zone_max, epoch_day, write_interval, ts_limit in *.
  assert (A : (first - 86400 + off) / 86400 <= (d_ts d + off) / 86400) by (apply Z.div_le_mono; lia).
  assert (B : (d_ts d + off) / 86400 <= (last + 300 + off) / 86400) by (apply Z.div_le_mono; lia).
  assert (C : 0 <= (first - 86400 + off) / 86400) by (apply Z.div_pos; lia).
  assert (D' : (last + 300 + off) / 86400 <= day_limit).
  { apply Z.lt_succ_r. apply Z.div_lt_upper_bound; [lia|]. unfold day_limit in *. lia. }
  pose proof (civil_mono _ _ (conj C A) ltac:(lia)) as M1.
  pose proof (civil_mono ((d_ts d + off) / 86400) ((last + 300 + off) / 86400) ltac:(lia) ltac:(lia)) as M2.
  rewrite Cf, Cd in M1. rewrite Cd, Cl in M2.
  unfold ym_le in M1, M2. cbn [fst snd] in M1, M2.
  apply orb_true_iff in M1. apply orb_true_iff in M2.
  rewrite !andb_true_iff, !Z.ltb_lt, !Z.eqb_eq, !Z.leb_le in M1, M2.
  apply andb_true_iff. split; apply negb_true_iff; apply orb_false_iff; split.
  - apply Z.ltb_ge. lia.
  - rewrite Z.gtb_ltb. apply Z.ltb_ge. lia.
  - apply andb_false_iff. destruct (Z.eq_dec y yf); [right; apply Z.ltb_ge; lia | left; apply Z.eqb_neq; assumption].
  - apply andb_false_iff. destruct (Z.eq_dec y yl); [right; rewrite Z.gtb_ltb; apply Z.ltb_ge; lia | left; apply Z.eqb_neq; assumption].
Qed.

(* ------------------------------------------------------------------ increasing lists *)
Lemma increasing_cons : forall a l, increasing (a :: l) = true ->
  increasing l = true /\ forall x, In x l -> a < x.
Proof.
  intros a l. revert a. induction l as [|b l IH]; intros a H.
  - split; [reflexivity | intros x []].
  - cbn [increasing] in H. apply andb_true_iff in H. destruct H as [H1 H2]. apply Z.ltb_lt in H1.
    split; [exact H2|]. intros x [<-|Hx]; [exact H1|].
    destruct (IH b H2) as [_ Hb]. specialize (Hb x Hx). lia.
Qed.

Lemma increasing_intro : forall a l, increasing l = true -> (forall x, In x l -> a < x) -> increasing (a :: l) = true.
Proof.
  intros a [|b l] H1 H2; [reflexivity|]. cbn [increasing]. apply andb_true_iff. split; [|exact H1].
  apply Z.ltb_lt. apply H2. left. reflexivity.
Qed.

Lemma increasing_filter : forall {A} (f : A -> Z) p l,
  increasing (map f l) = true -> increasing (map f (filter p l)) = true.
Proof.
  induction l as [|a l IH]; intros H; cbn [filter map]; [reflexivity|].
  cbn [map] in H. destruct (increasing_cons _ _ H) as [H1 H2].
  destruct (p a); [|apply IH; exact H1]. cbn [map]. apply increasing_intro; [apply IH; exact H1|].
  intros x Hx. apply H2. apply in_map_iff in Hx. destruct Hx as [y [<- Hy]]. apply filter_In in Hy.
  apply in_map. apply Hy.
Qed.

(* every element is the last one or lies strictly before it *)
Lemma increasing_last : forall {A} (f : A -> Z) l d x,
  increasing (map f l) = true -> In x l -> x = last l d \/ f x < f (last l d).
Proof.
  induction l as [|a l IH]; intros d x H Hx; [destruct Hx|].
  cbn [map] in H. destruct (increasing_cons _ _ H) as [H1 H2].
  destruct l as [|b l].
  - destruct Hx as [<-|[]]. left. reflexivity.
  - change (last (a :: b :: l) d) with (last (b :: l) d).
    destruct Hx as [<-|Hx].
    + right. assert (Hb : In b (b :: l)) by (left; reflexivity).
      destruct (IH d b H1 Hb) as [E|L].
      * rewrite <- E. apply H2. left. reflexivity.
      * assert (f a < f b) by (apply H2; left; reflexivity). lia.
    + apply IH; assumption.
Qed.

Lemma last_in : forall {A} (l : list A) d, l <> [] -> In (last l d) l.
Proof.
  induction l as [|a l IH]; intros d H; [contradiction|].
  destruct l as [|b l]; [left; reflexivity|]. right. apply IH. discriminate.
Qed.

Lemma last_rev_head : forall {A} (l : list A) d, last l d = match rev l with x :: _ => x | [] => d end.
Proof.
  intros A l d. destruct l as [|a l] using rev_ind; [reflexivity|].
  rewrite last_last, rev_app_distr. reflexivity.
Qed.

(* ------------------------------------------------------------------ well-formed days *)
Record day_wf (dy : day) : Prop := {
  dw_ts : 0 <= d_ts dy;
  dw_mod : d_ts dy mod epoch_day = 0;
  dw_nonempty : d_blocks dy <> [];
  dw_inc : increasing (map b_ts (d_blocks dy)) = true;
  dw_blocks : forall b, In b (d_blocks dy) -> 0 < b_ts b /\ d_ts dy <= b_ts b < d_ts dy + epoch_day
}.

Lemma day_ok_wf : forall dy, day_ok dy = true -> day_wf dy.
Proof.
  intros dy H. unfold day_ok in H.
  destruct (andb_prop _ _ H) as [H1 Hf]. destruct (andb_prop _ _ H1) as [H2 He].
  destruct (andb_prop _ _ H2) as [H3 Hd]. destruct (andb_prop _ _ H3) as [H4 Hc].
  destruct (andb_prop _ _ H4) as [Ha Hb].
  constructor.
  - apply Z.leb_le. exact Ha.
  - apply Z.eqb_eq. exact Hc.
  - destruct (d_blocks dy); [discriminate | discriminate].
  - exact He.
  - intros b Hin. rewrite forallb_forall in Hf. specialize (Hf b Hin). unfold block_ok in Hf.
    destruct (andb_prop _ _ Hf) as [G1 _]. destruct (andb_prop _ _ G1) as [G2 _].
    destruct (andb_prop _ _ G2) as [G3 Gc]. destruct (andb_prop _ _ G3) as [Ga Gb].
    apply Z.ltb_lt in Ga. apply Z.leb_le in Gb. apply Z.ltb_lt in Gc. lia.
Qed.

(* the two selected-day tests + block time filter of one interface, any fixed zone *)
Theorem covered_spec : forall off first last days,
  zone_ok off = true ->
  iface_ok days = true -> first_min <= first -> first <= last -> last + write_interval < ts_limit ->
  exists tf tl,
    covered off first last days = Ok (filter (ts_selected first last) days, tf, tl) /\
    forall dy b, In dy days -> In b (d_blocks dy) ->
      ts_selected first last dy && negb ((b_ts b <? tf) || (b_ts b >? tl))
      = (first <=? b_ts b) && (b_ts b <=? last).
Proof.
  intros off first last days Hz Hok Hf Hfl Hl.
  unfold iface_ok in Hok. apply andb_true_iff in Hok. destruct Hok as [Hinc Hdays].
  assert (Wf : forall dy, In dy days -> day_wf dy).
  { intros dy Hd. apply day_ok_wf. rewrite forallb_forall in Hdays. apply Hdays. exact Hd. }
  assert (Esel : filter (day_selected off first last) days = filter (ts_selected first last) days).
  { apply filter_ext_in. intros dy Hd. destruct (Wf dy Hd). apply day_selected_tz; assumption. }
  (* a block of a day that is not selected is out of range *)
  assert (Out : forall dy b, In dy days -> In b (d_blocks dy) -> ts_selected first last dy = false ->
                (first <=? b_ts b) && (b_ts b <=? last) = false).
  { intros dy b Hd Hb Hs. destruct (Wf dy Hd) as [_ _ _ _ Wb]. destruct (Wb b Hb) as [_ Hr].
    unfold ts_selected, epoch_day, write_interval in *. apply andb_false_iff in Hs.
    apply andb_false_iff. destruct Hs as [Hs|Hs]; apply Z.ltb_ge in Hs;
      [left; apply Z.leb_gt; lia | right; apply Z.leb_gt; lia]. }
  unfold covered. rewrite Esel.
  set (sel := filter (ts_selected first last) days).
  assert (Hsel : forall dy, In dy sel <-> In dy days /\ ts_selected first last dy = true)
    by (intros; apply filter_In).
  assert (Hsinc : increasing (map d_ts sel) = true) by (apply increasing_filter; exact Hinc).
  destruct sel as [|d0 rest] eqn:Es.
  - exists first, last. split; [reflexivity|]. intros dy b Hd Hb.
    destruct (ts_selected first last dy) eqn:Hs.
    + exfalso. apply (proj2 (Hsel dy)). split; assumption.
    + symmetry. cbn [andb]. eapply Out; eassumption.
  - set (dl := List.last (d0 :: rest) d0).
    assert (Hd0 : In d0 days /\ ts_selected first last d0 = true) by (apply Hsel; left; reflexivity).
    assert (Hdl : In dl days /\ ts_selected first last dl = true).
    { apply Hsel. apply last_in. discriminate. }
    destruct (Wf d0 (proj1 Hd0)) as [W0a W0b W0c W0d W0e].
    destruct (Wf dl (proj1 Hdl)) as [Wla Wlb Wlc Wld Wle].
    unfold first_ts, last_ts.
    destruct (d_blocks d0) as [|b0 bs0] eqn:Eb0; [contradiction|].
    assert (Hlast : exists bl, rev (d_blocks dl) = bl :: tl (rev (d_blocks dl)) /\ bl = List.last (d_blocks dl) b0).
    { destruct (rev (d_blocks dl)) as [|x r] eqn:Er.
      - exfalso. apply Wlc. apply (f_equal (@rev block)) in Er. rewrite rev_involutive in Er. exact Er.
      - exists x. split; [reflexivity|]. rewrite last_rev_head, Er. reflexivity. }
    destruct Hlast as [bl [Er Ebl]]. rewrite Er. cbn [bind res_bind].
    eexists. eexists. split; [reflexivity|].
    intros dy b Hd Hb.
    destruct (ts_selected first last dy) eqn:Hs; [|symmetry; cbn [andb]; eapply Out; eassumption].
    cbn [andb].
    assert (Hin : In dy (d0 :: rest)) by (apply Hsel; split; assumption).
    destruct (Wf dy Hd) as [Wa Wb Wc Wd We]. destruct (We b Hb) as [Hpos Hr].
    (* lower bound: the first block of the first selected day is the earliest selected block *)
    assert (Lo : b_ts b0 <= b_ts b).
    { destruct Hin as [<-|Hin].
      - rewrite Eb0 in Hb, Wd. cbn [map] in Wd. destruct (increasing_cons _ _ Wd) as [_ Hlt].
        destruct Hb as [<-|Hb]; [lia|]. specialize (Hlt (b_ts b) (in_map b_ts _ _ Hb)). lia.
      - cbn [map] in Hsinc. destruct (increasing_cons _ _ Hsinc) as [_ Hlt].
        specialize (Hlt (d_ts dy) (in_map d_ts _ _ Hin)).
        assert (Hb0 : In b0 (b0 :: bs0)) by (left; reflexivity).
        destruct (W0e b0 Hb0) as [_ Hr0]. unfold epoch_day in *.
        pose proof (Z.div_mod (d_ts d0) 86400 ltac:(lia)). pose proof (Z.div_mod (d_ts dy) 86400 ltac:(lia)).
        lia. }
    (* upper bound: the last block of the last selected day is the latest selected block *)
    assert (Hi : b_ts b <= b_ts bl).
    { assert (Hbl : In bl (d_blocks dl)) by (rewrite Ebl; apply last_in; exact Wlc).
      destruct (increasing_last d_ts (d0 :: rest) d0 dy Hsinc Hin) as [E|L].
      - fold dl in E. subst dy.
        destruct (increasing_last b_ts (d_blocks dl) b0 b Wld Hb) as [E|L]; [rewrite Ebl, <- E; lia | rewrite Ebl; lia].
      - fold dl in L. destruct (Wle bl Hbl) as [_ Hrl]. unfold epoch_day in *.
        pose proof (Z.div_mod (d_ts dl) 86400 ltac:(lia)). pose proof (Z.div_mod (d_ts dy) 86400 ltac:(lia)).
        lia. }
    destruct (first <? b_ts b0) eqn:C1; destruct (last >? b_ts bl) eqn:C2;
      rewrite ?Z.gtb_ltb in *;
      repeat match goal with
             | H : (_ <? _) = true |- _ => apply Z.ltb_lt in H
             | H : (_ <? _) = false |- _ => apply Z.ltb_ge in H
             end;
      destruct (b_ts b <? _) eqn:X1; destruct (_ <? b_ts b) eqn:X2;
      destruct (first <=? b_ts b) eqn:Y1; destruct (b_ts b <=? last) eqn:Y2; cbn; try reflexivity; exfalso;
      repeat match goal with
             | H : (_ <? _) = true |- _ => apply Z.ltb_lt in H
             | H : (_ <? _) = false |- _ => apply Z.ltb_ge in H
             | H : (_ <=? _) = true |- _ => apply Z.leb_le in H
             | H : (_ <=? _) = false |- _ => apply Z.leb_gt in H
             end; lia.
Qed.
