(* C08 proofs, part 5: row materialisation, the interfaces together, the main theorem. *)
From Coq Require Import List ZArith NArith Bool String Lia Permutation.
From GoProbe.Base Require Import CorrLib.
From GoProbe.C09 Require Import Model.
From GoProbe.C08 Require Import Model ProofsMap ProofsDate ProofsCond ProofsScan.
Import ListNotations.
Open Scope Z_scope.

(* ------------------------------------------------------------------ well-formed stored flows *)
Definition sf_ok (x : stored_flow) : Prop :=
  let '(_, ts, f, c) := x in 0 < ts /\ wf_flow f = true /\ ctr_ok c = true.

Lemma iface_flows_ok : forall i days x, iface_ok days = true -> In x (iface_flows i days) ->
  sf_ok x /\ fst (fst (fst x)) = i.
Proof.
  intros i days x Hok Hx. unfold iface_ok in Hok. apply andb_prop in Hok. destruct Hok as [_ Hd].
  unfold iface_flows in Hx. apply in_flat_map in Hx. destruct Hx as [dy [Hdy Hx]].
  apply in_flat_map in Hx. destruct Hx as [b [Hb Hx]].
  rewrite forallb_forall in Hd. specialize (Hd dy Hdy). pose proof (day_blocks_ok dy Hd) as Hbs.
  rewrite forallb_forall in Hbs. specialize (Hbs b Hb). unfold block_ok in Hbs.
  destruct (andb_prop _ _ Hbs) as [B1 H6]. destruct (andb_prop _ _ B1) as [B2 H4].
  destruct (andb_prop _ _ B2) as [B3 _]. destruct (andb_prop _ _ B3) as [Hpos _]. apply Z.ltb_lt in Hpos.
  unfold block_flows in Hx. apply in_map_iff in Hx. destruct Hx as [e [<- He]]. cbn [fst snd sf_ok].
  split; [|reflexivity]. split; [exact Hpos|].
  apply in_app_or in He. rewrite forallb_forall in H4, H6.
  destruct He as [He|He]; [specialize (H4 e He); rename H4 into H | specialize (H6 e He); rename H6 into H];
    unfold entry_ok in H; destruct (andb_prop _ _ H) as [X Hc]; destruct (andb_prop _ _ X) as [Wf _]; split; assumption.
Qed.

(* ------------------------------------------------------------------ key of the map -> key of the row *)
Lemma afs_wf_sip : forall f, wf_flow f = true -> addr_from_slice (f_sip f) = Some (f_v4 f, f_sip f).
Proof.
  intros f H. unfold wf_flow in H.
  destruct (andb_prop _ _ H) as [H1 _]. destruct (andb_prop _ _ H1) as [H2 _].
  destruct (andb_prop _ _ H2) as [H3 _]. destruct (andb_prop _ _ H3) as [H4 _].
  destruct (andb_prop _ _ H4) as [Hs _]. apply Nat.eqb_eq in Hs.
  unfold addr_from_slice. rewrite Hs. destruct (f_v4 f); reflexivity.
Qed.

Lemma afs_wf_dip : forall f, wf_flow f = true -> addr_from_slice (f_dip f) = Some (f_v4 f, f_dip f).
Proof.
  intros f H. unfold wf_flow in H.
  destruct (andb_prop _ _ H) as [H1 _]. destruct (andb_prop _ _ H1) as [H2 _].
  destruct (andb_prop _ _ H2) as [H3 _]. destruct (andb_prop _ _ H3) as [H4 _].
  destruct (andb_prop _ _ H4) as [_ Hd]. apply Nat.eqb_eq in Hd.
  unfold addr_from_slice. rewrite Hd. destruct (f_v4 f); reflexivity.
Qed.

(* the row of a map entry is the projection of the stored flow (M1) *)
Lemma materialise_mkey : forall q x, sf_ok x ->
  materialise addr_from_slice q (fst (fst (fst x))) (mkey_of q x) = rowkey_of q x.
Proof.
  intros q [[[i ts] f] c] [Hts [Wf _]]. unfold materialise, mkey_of, rowkey_of, pop_key.
  cbn [fst snd k_v4 k_ts k_sip k_dip k_dport k_proto].
  assert (Et : extend_ts ts = Some ts).
  { unfold extend_ts. destruct (ts <=? 0) eqn:E; [apply Z.leb_le in E; lia | reflexivity]. }
  rewrite Et. destruct (q_time q), (q_sip q), (q_dip q), (q_dport q), (q_proto q);
    rewrite ?(afs_wf_sip f Wf), ?(afs_wf_dip f Wf); reflexivity.
Qed.

(* two stored flows with the same row key have the same map key (M2) *)
Lemma rowkey_mkey_inj : forall q x y, rowkey_of q x = rowkey_of q y -> mkey_of q x = mkey_of q y.
Proof.
  intros q [[[i ts] f] c] [[[i' ts'] f'] c'] H.
  unfold rowkey_of in H. unfold mkey_of, pop_key, is4_of.
  destruct (q_time q), (q_sip q), (q_dip q), (q_dport q), (q_proto q); cbn [orb negb];
    injection H; intros; subst;
    repeat match goal with H : Some _ = Some _ |- _ => injection H; clear H; intros end;
    repeat match goal with H : f_v4 _ = f_v4 _ |- _ => rewrite H in *; clear H end;
    try congruence;
    try (destruct (f_v4 f), (f_v4 f'); congruence).
Qed.

(* ------------------------------------------------------------------ the rows of one interface *)
Definition kvr_of (q : stmt) (x : stored_flow) : row := (rowkey_of q x, ctr_of x).

Definition sel_flows (q : stmt) (i : string) (days : list day) : list stored_flow :=
  filter (selected q) (iface_flows i days).

Definition iface_rows (q : stmt) (i : string) (m : amap) : list row :=
  map (fun kc => (materialise addr_from_slice q i (fst kc), snd kc))
      (filter (fun kc => dir_ok (q_dir q) (snd kc)) m).

Lemma iface_rows_spec : forall q i days, iface_ok days = true ->
  Permutation
    (iface_rows q i (addall mkey_dec [] (map (kv_of q) (sel_flows q i days))))
    (filter (fun r => dir_ok (q_dir q) (snd r)) (group_sum rowkey_dec (map (kvr_of q) (sel_flows q i days)))).
Proof.
  intros q i days Hok. unfold iface_rows.
  set (S := sel_flows q i days).
  assert (HS : forall x, In x S -> sf_ok x /\ fst (fst (fst x)) = i).
  { intros x Hx. apply (iface_flows_ok i days x Hok). unfold S, sel_flows in Hx. apply filter_In in Hx. apply Hx. }
  (* filter on the counters commutes with renaming the keys *)
  assert (E1 : forall m : amap,
    map (fun kc => (materialise addr_from_slice q i (fst kc), snd kc)) (filter (fun kc => dir_ok (q_dir q) (snd kc)) m)
    = filter (fun r : row => dir_ok (q_dir q) (snd r)) (map (gx (materialise addr_from_slice q i)) m)).
  { induction m as [|[k c] m IH]; [reflexivity|]. cbn [filter map gx fst snd].
    destruct (dir_ok (q_dir q) c); cbn [map]; rewrite IH; reflexivity. }
  rewrite E1. apply Permutation_filter'.
  rewrite (addall_rename mkey_dec rowkey_dec).
  - assert (E2 : map (gx (materialise addr_from_slice q i)) (map (kv_of q) S) = map (kvr_of q) S).
    { rewrite map_map. apply map_ext_in. intros x Hx. destruct (HS x Hx) as [Hx1 Hx2].
      unfold gx, kv_of, kvr_of. cbn [fst snd]. rewrite <- Hx2. rewrite materialise_mkey by exact Hx1. reflexivity. }
    rewrite E2. cbn [map]. apply addall_is_group_sum.
    apply Forall_forall. intros r Hr. apply in_map_iff in Hr. destruct Hr as [x [<- Hx]].
    destruct (HS x Hx) as [Hx1 _]. destruct x as [[[i0 ts] f] c]. apply Hx1.
  - cbn [map app]. intros k1 k2 H1 H2 E.
    rewrite map_map in H1, H2. apply in_map_iff in H1. apply in_map_iff in H2.
    destruct H1 as [x [<- Hx]]. destruct H2 as [y [<- Hy]]. cbn [kv_of fst] in *.
    destruct (HS x Hx) as [Hx1 Hx2]. destruct (HS y Hy) as [Hy1 Hy2].
    apply rowkey_mkey_inj. rewrite <- (materialise_mkey q x Hx1), <- (materialise_mkey q y Hy1), Hx2, Hy2. exact E.
Qed.

(* ------------------------------------------------------------------ all interfaces *)
Lemma nodup_str_NoDup : forall l, nodup_str l = true -> NoDup l.
Proof.
  induction l as [|a l IH]; intros H; [constructor|].
  cbn [nodup_str] in H. apply andb_prop in H. destruct H as [Ha Hl]. constructor; [|apply IH; exact Hl].
  intro Hi. apply negb_true_iff in Ha. assert (existsb (String.eqb a) l = true); [|congruence].
  apply existsb_exists. exists a. split; [exact Hi | apply String.eqb_refl].
Qed.

(* group_sum distributes over the interfaces because the interface is part of the row key *)
Lemma group_sum_ifaces : forall (KV : string -> list (rowkey * counters)) l, NoDup l ->
  (forall i r, In r (KV i) -> r_iface (fst r) = i) ->
  group_sum rowkey_dec (flat_map KV l) = flat_map (fun i => group_sum rowkey_dec (KV i)) l.
Proof.
  intros KV l Hn Hk. induction l as [|a l IH]; [reflexivity|].
  inversion Hn as [|? ? Ha Hl]; subst. cbn [flat_map].
  rewrite group_sum_app_disjoint; [rewrite (IH Hl); reflexivity|].
  intros k H1 H2. apply in_map_iff in H1. destruct H1 as [r1 [<- H1]].
  apply in_map_iff in H2. destruct H2 as [r2 [E H2]]. apply in_flat_map in H2. destruct H2 as [j [Hj H2]].
  apply Ha. rewrite <- (Hk a r1 H1), <- E, (Hk j r2 H2). exact Hj.
Qed.

Lemma fold_ifaces : forall {A} (step : list A -> string -> res (list A)) (R : string -> list A) l acc,
  (forall acc i, In i l -> step acc i = Ok (acc ++ R i)) ->
  fold_res step l acc = Ok (acc ++ flat_map R l).
Proof.
  induction l as [|a l IH]; intros acc H; cbn [fold_res flat_map].
  - rewrite app_nil_r. reflexivity.
  - rewrite H by (left; reflexivity). rewrite bind_ok, IH.
    + rewrite app_assoc. reflexivity.
    + intros acc' i Hi. apply H. right. exact Hi.
Qed.

Lemma wf_db_lookup : forall d i days, wf_db d = true -> lookup i d = Some days -> iface_ok days = true.
Proof.
  induction d as [|[n ds] d IH]; intros i days H L; [discriminate|].
  cbn [wf_db forallb snd] in H. apply andb_prop in H. destruct H as [H1 H2].
  cbn [lookup] in L. destruct (String.eqb n i); [injection L as <-; exact H1 | eapply IH; eassumption].
Qed.

Record stmt_wf (d : db) (q : stmt) : Prop := {
  sw_nodup : NoDup (q_ifaces q);
  sw_lookup : forall i, In i (q_ifaces q) -> exists days, lookup i d = Some days;
  sw_first : first_min <= q_first q; sw_order : q_first q <= q_last q;
  sw_last : q_last q + write_interval < ts_limit;
  sw_cond : match q_cond q with Some c => wf_cond c = true | None => True end
}.

Lemma wf_stmt_wf : forall d q, wf_stmt d q = true -> stmt_wf d q.
Proof.
  intros d q H. unfold wf_stmt in H.
  destruct (andb_prop _ _ H) as [H1 Hc]. destruct (andb_prop _ _ H1) as [H2 Hl].
  destruct (andb_prop _ _ H2) as [H3 Ho]. destruct (andb_prop _ _ H3) as [H4 Hf].
  destruct (andb_prop _ _ H4) as [Hn Hk].
  constructor.
  - apply nodup_str_NoDup. exact Hn.
  - intros i Hi. rewrite forallb_forall in Hk. specialize (Hk i Hi).
    destruct (lookup i d) as [days|]; [exists days; reflexivity | discriminate].
  - apply Z.leb_le. exact Hf.
  - apply Z.leb_le. exact Ho.
  - apply Z.ltb_lt. exact Hl.
  - destruct (q_cond q); [exact Hc | exact I].
Qed.

(* the specification, interface by interface *)
Lemma query_spec_ifaces : forall d q, wf_db d = true -> stmt_wf d q ->
  query_spec d q =
  flat_map (fun i => match lookup i d with
                     | Some days => filter (fun r => dir_ok (q_dir q) (snd r))
                                      (group_sum rowkey_dec (map (kvr_of q) (sel_flows q i days)))
                     | None => []
                     end) (q_ifaces q).
Proof.
  intros d q Hd [Hn Hk _ _ _ _]. unfold query_spec, spec_groups, stored_flows.
  rewrite filter_flat_map, map_flat_map.
  rewrite (group_sum_ifaces (fun i => map (fun x => (rowkey_of q x, ctr_of x))
             (filter (selected q) match lookup i d with Some days => iface_flows i days | None => [] end))).
  - rewrite filter_flat_map. apply flat_map_ext_in. intros i Hi.
    destruct (Hk i Hi) as [days L]. rewrite L. reflexivity.
  - exact Hn.
  - intros i r Hr. apply in_map_iff in Hr. destruct Hr as [x [<- Hx]]. apply filter_In in Hx. destruct Hx as [Hx _].
    destruct (lookup i d) as [days|] eqn:L; [|destruct Hx].
    destruct (iface_flows_ok i days x (wf_db_lookup _ _ _ Hd L) Hx) as [_ E].
    destruct x as [[[i0 ts] f] c]. exact E.
Qed.

(* ------------------------------------------------------------------ the plan exists / is the statement's *)
Lemma plan_stage : forall q (k : option plan -> res result) r,
  match q_cond q with Some c => wf_cond c = true | None => True end ->
  bind (match q_cond q with
        | None => Ok None
        | Some c => bind (make_plan ipver_fixed c) (fun p => Ok (Some p))
        end) k = Ok r ->
  exists p, plan_ok q p /\ k p = Ok r.
Proof.
  intros q k r Wc H. unfold plan_ok. destruct (q_cond q) as [c|].
  - destruct (make_plan ipver_fixed c) as [pl| |] eqn:E; cbn in H; try discriminate.
    exists (Some pl). split; [split; [reflexivity | exact Wc] | exact H].
  - exists None. split; [exact I | exact H].
Qed.

(* ------------------------------------------------------------------ main theorem *)
Theorem query_is_aggregation_tz : forall off d q r, zone_ok off = true -> wf_db d = true -> wf_stmt d q = true ->
  query_model_tz off d q = Ok r ->
  Permutation (res_rows r) (query_spec d q) /\
  res_totals r = csum (map snd (res_rows r)) /\
  res_hits r = List.length (res_rows r).
Proof.
  intros off d q r Hz Hd Hq H. pose proof (wf_stmt_wf _ _ Hq) as W.
  unfold query_model_tz, query_model_gen in H.
  assert (H' : bind (match q_cond q with
                     | None => Ok None
                     | Some c => bind (make_plan ipver_fixed c) (fun p => Ok (Some p))
                     end) (fun p =>
               bind (fold_res (fun acc iface =>
                       match lookup iface d with
                       | None => Err
                       | Some days => bind (proc_iface off q p days) (fun m => Ok (acc ++ iface_rows q iface m))
                       end) (q_ifaces q) []) (fun rows =>
               Ok {| res_rows := rows; res_totals := fold_left cadd (map snd rows) czero;
                     res_hits := List.length rows |})) = Ok r).
  { destruct (q_ifaces q); [discriminate | exact H]. }
  clear H. destruct (plan_stage q _ r (sw_cond _ _ W) H') as [p [Hp Hr]]. clear H'.
  set (R := fun i => match lookup i d with
                     | Some days => iface_rows q i (addall mkey_dec [] (map (kv_of q) (sel_flows q i days)))
                     | None => []
                     end).
  rewrite (fold_ifaces _ R) in Hr.
  - cbn [app] in Hr. rewrite bind_ok in Hr. injection Hr as <-. cbn [res_rows res_totals res_hits].
    split; [|split; [apply totals_is_sum | reflexivity]].
    rewrite (query_spec_ifaces d q Hd W). apply Permutation_flat_map_in. intros i Hi. unfold R.
    destruct (sw_lookup _ _ W i Hi) as [days L]. rewrite L.
    apply iface_rows_spec. eapply wf_db_lookup; eassumption.
  - intros acc i Hi. destruct (sw_lookup _ _ W i Hi) as [days L]. unfold R. rewrite L.
    rewrite (proc_iface_spec q p Hp off i days Hz (wf_db_lookup _ _ _ Hd L) (sw_first _ _ W) (sw_order _ _ W) (sw_last _ _ W)).
    rewrite bind_ok. reflexivity.
Qed.

Theorem query_is_aggregation : forall d q r, wf_db d = true -> wf_stmt d q = true ->
  query_model d q = Ok r ->
  Permutation (res_rows r) (query_spec d q) /\
  res_totals r = csum (map snd (res_rows r)) /\
  res_hits r = List.length (res_rows r).
Proof. intros d q r. apply (query_is_aggregation_tz 0). reflexivity. Qed.

(* a well-formed statement with a well-formed condition is answered: no error, no panic *)
Lemma make_plan_prepare : forall prune c, is_ok (make_plan prune c) = is_ok (prepare c).
Proof.
  intros. unfold make_plan, prepare, bind. destruct (desugar c); cbn [res_bind]; try reflexivity.
  destruct (nnf a); cbn [res_bind]; try reflexivity. destruct (instrument a0); reflexivity.
Qed.

Theorem query_total : forall off d q, zone_ok off = true -> wf_db d = true -> wf_stmt d q = true -> q_ifaces q <> [] ->
  match q_cond q with Some c => is_ok (prepare c) = true | None => True end ->
  exists r, query_model_tz off d q = Ok r.
Proof.
  intros off d q Hz Hd Hq Hne Hc. pose proof (wf_stmt_wf _ _ Hq) as W.
  unfold query_model_tz, query_model_gen. destruct (q_ifaces q) as [|i0 l0] eqn:El; [contradiction|].
  rewrite <- El. clear Hne.
  assert (exists p, plan_ok q p /\
            match q_cond q with None => Ok None | Some c => bind (make_plan ipver_fixed c) (fun p => Ok (Some p)) end = Ok p).
  { unfold plan_ok. pose proof (sw_cond _ _ W) as Wc. destruct (q_cond q) as [c|].
    - rewrite <- (make_plan_prepare ipver_fixed) in Hc. destruct (make_plan ipver_fixed c) as [pl| |] eqn:E; try discriminate.
      exists (Some pl). split; [split; [reflexivity | exact Wc] | reflexivity].
    - exists None. split; [exact I | reflexivity]. }
  destruct H as [p [Hp Ep]]. rewrite Ep, bind_ok.
  rewrite (fold_ifaces _ (fun i => match lookup i d with
                     | Some days => iface_rows q i (addall mkey_dec [] (map (kv_of q) (sel_flows q i days)))
                     | None => []
                     end)).
  - rewrite bind_ok. eexists. reflexivity.
  - intros acc i Hi. destruct (sw_lookup _ _ W i Hi) as [days L]. rewrite L.
    rewrite (proc_iface_spec q p Hp off i days Hz (wf_db_lookup _ _ _ Hd L) (sw_first _ _ W) (sw_order _ _ W) (sw_last _ _ W)).
    rewrite bind_ok. reflexivity.
Qed.

(* ------------------------------------------------------------------ corollaries *)
Lemma csum_perm : forall l l', Permutation l l' -> csum l = csum l'.
Proof.
  intros l l' H. induction H; cbn [csum fold_right].
  - reflexivity.
  - fold (csum l) (csum l'). rewrite IHPermutation. reflexivity.
  - fold (csum l). rewrite <- !cadd_assoc. rewrite (cadd_comm y x). reflexivity.
  - congruence.
Qed.

Theorem totals_hits_spec : forall d q r, wf_db d = true -> wf_stmt d q = true ->
  query_model d q = Ok r ->
  res_totals r = csum (map snd (query_spec d q)) /\ res_hits r = List.length (query_spec d q).
Proof.
  intros d q r Hd Hq H. destruct (query_is_aggregation d q r Hd Hq H) as [P [T N]].
  split.
  - rewrite T. apply csum_perm. apply Permutation_map. exact P.
  - rewrite N. apply Permutation_length. exact P.
Qed.

Theorem direction_filter_spec : forall d q r row, wf_db d = true -> wf_stmt d q = true ->
  query_model d q = Ok r ->
  (In row (res_rows r) <-> In row (spec_groups d q) /\ dir_ok (q_dir q) (snd row) = true).
Proof.
  intros d q r row Hd Hq H. destruct (query_is_aggregation d q r Hd Hq H) as [P _].
  unfold query_spec in P. split; intros Hi.
  - apply (Permutation_in _ P) in Hi. apply filter_In in Hi. exact Hi.
  - apply (Permutation_in _ (Permutation_sym P)). apply filter_In. exact Hi.
Qed.

(* the groups are distinct: one row per projected key *)
Theorem rows_distinct : forall d q r, wf_db d = true -> wf_stmt d q = true ->
  query_model d q = Ok r -> NoDup (map fst (res_rows r)).
Proof.
  intros d q r Hd Hq H. destruct (query_is_aggregation d q r Hd Hq H) as [P _].
  eapply Permutation_NoDup; [apply Permutation_map; apply Permutation_sym; exact P|].
  unfold query_spec, spec_groups.
  set (kvs := map (fun x : stored_flow => (rowkey_of q x, ctr_of x)) _).
  assert (Hn : NoDup (map fst (group_sum rowkey_dec kvs))) by (rewrite keys_group_sum; apply NoDup_nodup).
  revert Hn. generalize (group_sum rowkey_dec kvs). intros g. induction g as [|x g IH]; intros Hn; [constructor|].
  cbn [filter]. inversion Hn as [|? ? Hx Hg]; subst.
  destruct (dir_ok (q_dir q) (snd x)); [|apply IH; exact Hg].
  cbn [map]. constructor; [|apply IH; exact Hg].
  intro Hi. apply Hx. apply in_map_iff in Hi. destruct Hi as [y [E Hy]]. apply filter_In in Hy.
  apply in_map_iff. exists y. split; [exact E | apply Hy].
Qed.
