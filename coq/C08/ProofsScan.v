(* C08 proofs, part 4: scanning one interface (readBlocksAndEvaluate over the selected days) fills
   the map with exactly the selected stored flows of that interface, keyed by the populated key. *)
From Coq Require Import List ZArith NArith Bool String Lia.
From GoProbe.Base Require Import CorrLib.
From GoProbe.C09 Require Import Model.
From GoProbe.C08 Require Import Model ProofsMap ProofsDate ProofsCond.
Import ListNotations.
Open Scope Z_scope.

Lemma bind_ok : forall {A B} (a : A) (f : A -> res B), bind (Ok a) f = f a.
Proof. reflexivity. Qed.

(* which sub-map / key width an entry of family f_v4 goes to *)
Definition is4_of (q : stmt) (f : flow) : bool :=
  if f_v4 f then true else negb (q_sip q || q_dip q).

Definition mkey_of (q : stmt) (x : stored_flow) : mkey :=
  let '(_, ts, f, _) := x in pop_key q (is4_of q f) ts f.

Definition kv_of (q : stmt) (x : stored_flow) : mkey * counters := (mkey_of q x, ctr_of x).

(* the plan belongs to the statement's condition *)
Definition plan_ok (q : stmt) (p : option plan) : Prop :=
  match q_cond q, p with
  | None, None => True
  | Some c, Some pl => make_plan ipver_fixed c = Ok pl /\ wf_cond c = true
  | _, _ => False
  end.

Definition semq (q : stmt) (e : entry) : bool := sem_opt (q_cond q) (fst e).

Section Scan.
  Variable q : stmt.
  Variable p : option plan.
  Hypothesis Hp : plan_ok q p.

  Lemma proc_entry_ok : forall ts is4 v4 m e, entry_ok v4 e = true ->
    proc_entry q p ts is4 v4 m e =
    Ok (if semq q e then upd mkey_dec m (pop_key q is4 ts (fst e)) (snd e) else m).
  Proof.
    intros ts is4 v4 m [f c] He. unfold entry_ok in He. cbn [fst snd] in He.
    destruct (andb_prop _ _ He) as [H1 _]. destruct (andb_prop _ _ H1) as [Wf Hv].
    apply eqb_prop in Hv. unfold proc_entry, semq. cbn [fst snd].
    unfold plan_ok in Hp. destruct (q_cond q) as [cd|], p as [pl|]; try contradiction.
    - destruct Hp as [Hm Wc]. subst v4.
      destruct (plan_eval _ _ _ f Hm Wc Wf) as [k Ek]. rewrite Ek. reflexivity.
    - reflexivity.
  Qed.

  Definition ekv (is4 : bool) (ts : Z) (e : entry) : mkey * counters := (pop_key q is4 ts (fst e), snd e).

  Lemma fold_entries : forall ts is4 v4 l m, forallb (entry_ok v4) l = true ->
    fold_res (proc_entry q p ts is4 v4) l m =
    Ok (addall mkey_dec m (map (ekv is4 ts) (filter (semq q) l))).
  Proof.
    induction l as [|e l IH]; intros m H; [reflexivity|].
    cbn [forallb] in H. apply andb_prop in H. destruct H as [He Hl].
    cbn [fold_res]. rewrite (proc_entry_ok _ _ _ _ _ He), bind_ok, (IH _ Hl). cbn [filter].
    destruct (semq q e); [cbn [map]; rewrite addall_cons|]; reflexivity.
  Qed.

  (* pruning never removes an entry that satisfies the condition *)
  Lemma prune_sound : forall f,
    (plan_ver p = IP4 -> f_v4 f = false -> sem_opt (q_cond q) f = false) /\
    (plan_ver p = IP6 -> f_v4 f = true -> sem_opt (q_cond q) f = false).
  Proof.
    intros f. unfold plan_ok in Hp. destruct (q_cond q) as [c|], p as [pl|]; try contradiction;
      cbn [plan_ver sem_opt]; [|split; discriminate].
    destruct Hp as [Hm _]. destruct (make_plan_inv _ _ _ Hm) as [n P].
    rewrite <- (plan_sem _ _ _ _ f P). destruct P as [_ _ Ev _ _ _ _]. rewrite Ev.
    apply ipver_fixed_sound.
  Qed.

  Definition block_kvs (b : block) : list (mkey * counters) :=
    map (ekv true (b_ts b)) (filter (semq q) (b_v4 b))
    ++ map (ekv (negb (q_sip q || q_dip q)) (b_ts b)) (filter (semq q) (b_v6 b)).

  Lemma entries_family : forall v4 l e, forallb (entry_ok v4) l = true -> In e l -> f_v4 (fst e) = v4.
  Proof.
    intros v4 l e H He. rewrite forallb_forall in H. specialize (H e He). unfold entry_ok in H.
    destruct (andb_prop _ _ H) as [H1 _]. destruct (andb_prop _ _ H1) as [_ Hv]. apply eqb_prop. exact Hv.
  Qed.

  Lemma proc_block_ok : forall m b,
    forallb (entry_ok true) (b_v4 b) = true -> forallb (entry_ok false) (b_v6 b) = true ->
    proc_block q p m b = Ok (addall mkey_dec m (block_kvs b)).
  Proof.
    intros m b H4 H6. unfold proc_block, block_kvs. rewrite addall_app.
    assert (E4 : forall l, match plan_ver p with IP6 => [] | _ => b_v4 b end = l ->
                 forallb (entry_ok true) l = true /\ filter (semq q) l = filter (semq q) (b_v4 b)).
    { intros l <-. destruct (plan_ver p) eqn:V; try (split; [exact H4 | reflexivity]).
      split; [reflexivity|]. symmetry. apply filter_all_false. intros e He. unfold semq.
      apply (proj2 (prune_sound (fst e)) V). eapply entries_family; eassumption. }
    assert (E6 : forall l, match plan_ver p with IP4 => [] | _ => b_v6 b end = l ->
                 forallb (entry_ok false) l = true /\ filter (semq q) l = filter (semq q) (b_v6 b)).
    { intros l <-. destruct (plan_ver p) eqn:V; try (split; [exact H6 | reflexivity]).
      split; [reflexivity|]. symmetry. apply filter_all_false. intros e He. unfold semq.
      apply (proj1 (prune_sound (fst e)) V). eapply entries_family; eassumption. }
    destruct (E4 _ eq_refl) as [A4 B4]. destruct (E6 _ eq_refl) as [A6 B6].
    rewrite (fold_entries _ _ _ _ _ A4), bind_ok, (fold_entries _ _ _ _ _ A6), B4, B6. reflexivity.
  Qed.

  Definition time_ok (tf tl : Z) (b : block) : bool := negb ((b_ts b <? tf) || (b_ts b >? tl)).

  Lemma proc_blocks_ok : forall tf tl dts bs m, forallb (block_ok dts) bs = true ->
    fold_res (fun m b => if (b_ts b <? tf) || (b_ts b >? tl) then Ok m else proc_block q p m b) bs m =
    Ok (addall mkey_dec m (flat_map (fun b => if time_ok tf tl b then block_kvs b else []) bs)).
  Proof.
    induction bs as [|b bs IH]; intros m H; [reflexivity|].
    cbn [forallb] in H. apply andb_prop in H. destruct H as [Hb Hbs].
    unfold block_ok in Hb. destruct (andb_prop _ _ Hb) as [Hb1 H6]. destruct (andb_prop _ _ Hb1) as [_ H4].
    cbn [fold_res flat_map]. rewrite addall_app. unfold time_ok at 1.
    destruct ((b_ts b <? tf) || (b_ts b >? tl)); cbn [negb].
    - rewrite bind_ok, addall_nil. apply IH. exact Hbs.
    - rewrite (proc_block_ok _ _ H4 H6), bind_ok. apply IH. exact Hbs.
  Qed.

  Definition day_kvs (tf tl : Z) (dy : day) : list (mkey * counters) :=
    flat_map (fun b => if time_ok tf tl b then block_kvs b else []) (d_blocks dy).

  Lemma day_blocks_ok : forall dy, day_ok dy = true -> forallb (block_ok (d_ts dy)) (d_blocks dy) = true.
  Proof. intros dy H. unfold day_ok in H. apply andb_prop in H. apply H. Qed.

  Lemma proc_days_ok : forall tf tl ds m, forallb day_ok ds = true ->
    fold_res (proc_day q p tf tl) ds m = Ok (addall mkey_dec m (flat_map (day_kvs tf tl) ds)).
  Proof.
    induction ds as [|dy ds IH]; intros m H; [reflexivity|].
    cbn [forallb] in H. apply andb_prop in H. destruct H as [Hd Hds].
    cbn [fold_res flat_map]. rewrite addall_app. unfold proc_day at 1.
    rewrite (proc_blocks_ok _ _ _ _ _ (day_blocks_ok _ Hd)), bind_ok. apply IH. exact Hds.
  Qed.

  (* ---------------------------------------------------------------- against the stored flows *)
  Lemma block_kvs_flows : forall i b,
    forallb (entry_ok true) (b_v4 b) = true -> forallb (entry_ok false) (b_v6 b) = true ->
    block_kvs b = map (kv_of q) (filter (fun x => sem_opt (q_cond q) (snd (fst x))) (block_flows i b)).
  Proof.
    intros i b H4 H6. unfold block_kvs, block_flows.
    rewrite map_app, filter_app, map_app.
    assert (G : forall v4 is4 l, forallb (entry_ok v4) l = true ->
                (forall f, f_v4 f = v4 -> is4_of q f = is4) ->
                map (ekv is4 (b_ts b)) (filter (semq q) l) =
                map (kv_of q) (filter (fun x => sem_opt (q_cond q) (snd (fst x)))
                                      (map (fun e => (i, b_ts b, fst e, snd e)) l))).
    { intros v4 is4 l Hl Hi. induction l as [|e l IH]; [reflexivity|].
      cbn [forallb] in Hl. apply andb_prop in Hl. destruct Hl as [He Hl].
      cbn [map filter fst snd]. unfold semq at 1.
      destruct (sem_opt (q_cond q) (fst e)); [|apply IH; exact Hl].
      cbn [map]. rewrite (IH Hl). f_equal. unfold ekv, kv_of, mkey_of, ctr_of. cbn [fst snd].
      rewrite (Hi (fst e)); [reflexivity|]. unfold entry_ok in He.
      destruct (andb_prop _ _ He) as [X _]. destruct (andb_prop _ _ X) as [_ Y]. apply eqb_prop. exact Y. }
    rewrite (G true true _ H4), (G false (negb (q_sip q || q_dip q)) _ H6); [reflexivity| |];
      intros f Hf; unfold is4_of; rewrite Hf; reflexivity.
  Qed.

  Lemma flat_map_const_nil : forall {A B} (l : list A), flat_map (fun _ => @nil B) l = [].
  Proof. induction l; [reflexivity | exact IHl]. Qed.

  (* one interface: the map after the scan *)
  Theorem proc_iface_spec : forall off i days, zone_ok off = true ->
    iface_ok days = true -> first_min <= q_first q -> q_first q <= q_last q -> q_last q + write_interval < ts_limit ->
    proc_iface off q p days =
    Ok (addall mkey_dec [] (map (kv_of q) (filter (selected q) (iface_flows i days)))).
  Proof.
    intros off i days Hz Hok Hf Hfl Hl.
    destruct (covered_spec off _ _ _ Hz Hok Hf Hfl Hl) as [tf [tl [Hc Hr]]].
    unfold proc_iface. rewrite Hc, bind_ok.
    unfold iface_ok in Hok. apply andb_prop in Hok. destruct Hok as [_ Hdays].
    assert (Hsel : forallb day_ok (filter (ts_selected (q_first q) (q_last q)) days) = true).
    { apply forallb_forall. intros dy Hd. apply filter_In in Hd. rewrite forallb_forall in Hdays. apply Hdays. apply Hd. }
    rewrite (proc_days_ok _ _ _ _ Hsel). f_equal. f_equal.
    unfold iface_flows. rewrite !filter_flat_map, !map_flat_map, flat_map_filter.
    apply flat_map_ext_in. intros dy Hd.
    rewrite filter_flat_map, map_flat_map.
    assert (Hb : forallb (block_ok (d_ts dy)) (d_blocks dy) = true).
    { apply day_blocks_ok. rewrite forallb_forall in Hdays. apply Hdays. exact Hd. }
    transitivity (flat_map (fun b => if ts_selected (q_first q) (q_last q) dy && time_ok tf tl b
                                     then block_kvs b else []) (d_blocks dy)).
    { unfold day_kvs. destruct (ts_selected (q_first q) (q_last q) dy); cbn [andb]; [reflexivity|].
      symmetry. apply flat_map_const_nil. }
    apply flat_map_ext_in. intros b Hbin.
    rewrite forallb_forall in Hb. specialize (Hb b Hbin). unfold block_ok in Hb.
    destruct (andb_prop _ _ Hb) as [Hb1 H6]. destruct (andb_prop _ _ Hb1) as [_ H4].
    unfold time_ok. rewrite (Hr dy b Hd Hbin).
    assert (Esel : forall x, In x (block_flows i b) ->
              selected q x = ((q_first q <=? b_ts b) && (b_ts b <=? q_last q)) && sem_opt (q_cond q) (snd (fst x))).
    { intros x Hx. unfold block_flows in Hx. apply in_map_iff in Hx. destruct Hx as [e [<- _]]. reflexivity. }
    destruct ((q_first q <=? b_ts b) && (b_ts b <=? q_last q)).
    - rewrite (block_kvs_flows i b H4 H6). f_equal. apply filter_ext_in. intros x Hx. rewrite (Esel x Hx). reflexivity.
    - rewrite filter_all_false; [reflexivity|]. intros x Hx. rewrite (Esel x Hx). reflexivity.
  Qed.
End Scan.
