(* C08 property theorems. Only statements closed by `exact`, Print Assumptions and one non-vacuity
   Example per theorem.

   query_model d q : res result      RunStatement on the database d (interface -> day directories ->
                                     blocks -> IPv4 / IPv6 entries) for the prepared statement q:
                                     plan (C09 prepare + IP version + condition columns), walkDB day
                                     selection, tFirstCovered/tLastCovered, readBlocksAndEvaluate
                                     (pruning, key / comparison value population, Evaluate, SetOrUpdate),
                                     row materialisation, direction filter, totals, hits
   query_spec d q : list row         filter dir (group by (project attrs + iface/time labels)
                                       (filter (sem cond /\ first <= ts <= last) stored_flows)), counters
                                     summed mod 2^64
   wf_db d                           what the DBWriter produces: day directories in increasing order at
                                     multiples of 86400 below 2106, >= 1 block per day, block times
                                     increasing, positive and inside their day, entries with 4+4 / 16+16
                                     address bytes, 16-bit port, 8-bit protocol, 64-bit counters
   wf_stmt d q                       distinct existing interfaces, 136800 <= first <= last, condition values
                                     as IPStringToBytes produces them
   query_model_tz off                the engine in a local zone `off` seconds east of UTC (-14h .. +14h);
                                     query_model = query_model_tz 0. The zone only enters through the
                                     year / month directory tests of walkDB. *)
From Coq Require Import List ZArith NArith Bool String Permutation.
From GoProbe.Base Require Import CorrLib.
From GoProbe.C09 Require Import Model.
From GoProbe.C08 Require Import Model ProofsMap ProofsDate ProofsCond ProofsScan ProofsQuery.
Import ListNotations.

(* For EVERY database, attribute selection, condition of the grammar, time range and interface
   set: the returned rows are, as a multiset, exactly the groups of the stored flows that satisfy
   the condition and whose block time lies in [first, last], grouped by the requested attributes
   and the interface / time labels, with the four counters summed, kept iff the summed counters
   satisfy the direction filter; the totals are the sum of the returned rows and the hit count is
   their number. *)
Theorem c08_query_is_aggregation : forall off d q r, zone_ok off = true -> wf_db d = true -> wf_stmt d q = true ->
  query_model_tz off d q = Ok r ->
  Permutation (res_rows r) (query_spec d q) /\
  res_totals r = csum (map snd (res_rows r)) /\
  res_hits r = List.length (res_rows r).
Proof. exact query_is_aggregation_tz. Qed.
Print Assumptions c08_query_is_aggregation.

(* totals and hits against the specification itself *)
Theorem c08_totals_hits : forall d q r, wf_db d = true -> wf_stmt d q = true ->
  query_model d q = Ok r ->
  res_totals r = csum (map snd (query_spec d q)) /\ res_hits r = List.length (query_spec d q).
Proof. exact totals_hits_spec. Qed.
Print Assumptions c08_totals_hits.

(* a direction filter keeps exactly the groups whose summed counters satisfy it *)
Theorem c08_direction_filter : forall d q r row, wf_db d = true -> wf_stmt d q = true ->
  query_model d q = Ok r ->
  (In row (res_rows r) <-> In row (spec_groups d q) /\ dir_ok (q_dir q) (snd row) = true).
Proof. exact direction_filter_spec. Qed.
Print Assumptions c08_direction_filter.

(* one row per group *)
Theorem c08_rows_distinct : forall d q r, wf_db d = true -> wf_stmt d q = true ->
  query_model d q = Ok r -> NoDup (map fst (res_rows r)).
Proof. exact rows_distinct. Qed.
Print Assumptions c08_rows_distinct.

(* a well-formed statement with an acceptable condition is answered: no error, no panic *)
Theorem c08_query_total : forall off d q, zone_ok off = true -> wf_db d = true -> wf_stmt d q = true -> q_ifaces q <> [] ->
  match q_cond q with Some c => is_ok (prepare c) = true | None => True end ->
  exists r, query_model_tz off d q = Ok r.
Proof. exact query_total. Qed.
Print Assumptions c08_query_total.

(* the IP-version analysis (Node.IPVersion) limits a condition to one family only if the
   condition is false for every flow of the other family *)
Theorem c08_pruning_sound : forall n f,
  (ipver_fixed n = IP4 -> f_v4 f = false -> sem n f = false) /\
  (ipver_fixed n = IP6 -> f_v4 f = true -> sem n f = false).
Proof. exact ipver_fixed_sound. Qed.
Print Assumptions c08_pruning_sound.

(* day selection and block time filter of one interface (any fixed zone): a block is scanned iff
   first <= ts <= last *)
Theorem c08_time_filter : forall off first last days, zone_ok off = true ->
  iface_ok days = true -> (first_min <= first)%Z -> (first <= last)%Z -> (last + write_interval < ts_limit)%Z ->
  exists tf tl,
    covered off first last days = Ok (filter (ts_selected first last) days, tf, tl) /\
    forall dy b, In dy days -> In b (d_blocks dy) ->
      ts_selected first last dy && negb ((b_ts b <? tf)%Z || (b_ts b >? tl)%Z)
      = (first <=? b_ts b)%Z && (b_ts b <=? last)%Z.
Proof. exact covered_spec. Qed.
Print Assumptions c08_time_filter.

(* ------------------------------------------------------------------ examples / refutations *)
Open Scope string_scope.
Open Scope N_scope.

Definition a4 : bytes := [10; 0; 0; 1].
Definition b4 : bytes := [10; 0; 0; 2].
Definition a6 : bytes := [32; 1; 13; 184; 0; 0; 0; 0; 0; 0; 0; 0; 0; 0; 0; 1].
Definition z6 : bytes := [0; 0; 0; 0; 0; 0; 0; 0; 0; 0; 0; 0; 0; 0; 0; 0].    (* "::" *)
Definition fl (v4 : bool) (s d : bytes) (dp pr : N) : flow :=
  {| f_v4 := v4; f_sip := s; f_dip := d; f_dport := dp; f_proto := pr |}.

(* 2024-02-01 (UTC): one block at noon, two IPv4 and two IPv6 flows *)
Definition ex_db : db :=
  [("eth0", [{| d_ts := 1706745600;
                d_blocks := [{| b_ts := 1706788800;
                                b_v4 := [(fl true a4 b4 80 6, (100, 10, 2, 1)); (fl true b4 a4 443 6, (7, 0, 1, 0))];
                                b_v6 := [(fl false a6 z6 80 6, (50, 5, 1, 1)); (fl false z6 a6 53 17, (8, 0, 2, 0))] |}] |}])].

Definition ex_stmt (c : option cond) : stmt :=
  {| q_sip := true; q_dip := false; q_dport := true; q_proto := false; q_time := false; q_iface := false;
     q_cond := c; q_dir := DNone; q_first := 1706788740; q_last := 1706788860; q_ifaces := ["eth0"] |}.

(* sip = 10.0.0.1 | dport = 80 *)
Definition ex_cond : cond := Or (Leaf ASip Eq (VIP a4 true)) (Leaf ADport Eq (VPort 80)).

(* the hypotheses are met by a database with both families and a disjunction over an IPv4 address
   and a port; the answer has the IPv4 and the IPv6 flow to port 80 *)
Example c08_query_is_aggregation_example :
  zone_ok (-18000) = true /\ wf_db ex_db = true /\ wf_stmt ex_db (ex_stmt (Some ex_cond)) = true /\
  match query_model_tz (-18000) ex_db (ex_stmt (Some ex_cond)) with
  | Ok r => List.length (res_rows r) = 2%nat /\ res_totals r = (150, 15, 3, 2)
  | _ => False
  end.
Proof. vm_compute. repeat split; reflexivity. Qed.

Example c08_totals_hits_example :
  List.length (query_spec ex_db (ex_stmt (Some ex_cond))) = 2%nat /\
  csum (map snd (query_spec ex_db (ex_stmt (Some ex_cond)))) = (150, 15, 3, 2).
Proof. vm_compute. split; reflexivity. Qed.

Example c08_direction_filter_example :
  let q := {| q_sip := false; q_dip := false; q_dport := true; q_proto := false; q_time := true; q_iface := true;
              q_cond := None; q_dir := DIn; q_first := 1000000; q_last := 1800000000; q_ifaces := ["eth0"] |} in
  wf_stmt ex_db q = true /\ List.length (spec_groups ex_db q) = 3%nat /\
  match query_model ex_db q with Ok r => List.length (res_rows r) = 2%nat | _ => False end.
Proof. vm_compute. repeat split; reflexivity. Qed.

Example c08_rows_distinct_example :
  match query_model ex_db (ex_stmt None) with Ok r => List.length (res_rows r) = 4%nat | _ => False end.
Proof. vm_compute. reflexivity. Qed.

Example c08_query_total_example :
  q_ifaces (ex_stmt (Some ex_cond)) <> [] /\ is_ok (prepare ex_cond) = true.
Proof. split; [discriminate | vm_compute; reflexivity]. Qed.

(* sip = 10.0.0.1 & dport = 80 is limited to IPv4, the disjunction and the inequality are not *)
Example c08_pruning_sound_example :
  ipver_fixed (And (Leaf ADport Eq (VPort 80)) (Leaf ASip Eq (VIP a4 true))) = IP4 /\
  ipver_fixed ex_cond = IPBoth /\ ipver_fixed (Leaf ASip Ne (VIP a4 true)) = IPBoth /\
  ipver_orig ex_cond = IP4 /\ ipver_orig (Leaf ASip Ne (VIP a4 true)) = IP4.
Proof. vm_compute. repeat split; reflexivity. Qed.

Example c08_time_filter_example :
  iface_ok (snd (nth 0 ex_db ("", []))) = true /\
  covered 0 1706788801 1706800000 (snd (nth 0 ex_db ("", []))) =
    Ok (snd (nth 0 ex_db ("", [])), 1706788801%Z, 1706788800%Z).
Proof. vm_compute. split; reflexivity. Qed.

(* The code as found violated the property. (1) The original IP-version bookkeeping
   (merge of the versions of all address literals) drops the IPv6 flow to port 80 for
   `sip = 10.0.0.1 | dport = 80`, and both IPv6 flows for `sip != 10.0.0.1`. *)
Example c08_original_pruning_refuted :
  let q1 := ex_stmt (Some ex_cond) in
  let q2 := ex_stmt (Some (Leaf ASip Ne (VIP a4 true))) in
  match query_model_gen ipver_orig addr_from_slice 0 ex_db q1, query_model_gen ipver_orig addr_from_slice 0 ex_db q2 with
  | Ok r1, Ok r2 =>
      (List.length (res_rows r1) = 1 /\ List.length (query_spec ex_db q1) = 2)%nat /\
      (List.length (res_rows r2) = 1 /\ List.length (query_spec ex_db q2) = 3)%nat
  | _, _ => False
  end.
Proof. vm_compute. repeat split; reflexivity. Qed.

(* (2) types.RawIPToAddr turned the stored IPv6 source address "::" into the IPv4 address 0.0.0.0 *)
Example c08_original_row_address_refuted :
  match query_model_gen ipver_fixed raw_ip_to_addr 0 ex_db (ex_stmt None) with
  | Ok r => existsb (fun x => match r_sip (fst x) with Some (true, [0; 0; 0; 0]) => true | _ => false end) (res_rows r) = true
            /\ existsb (fun x => match r_sip (fst x) with Some (true, [0; 0; 0; 0]) => true | _ => false end)
                       (query_spec ex_db (ex_stmt None)) = false
  | _ => False
  end.
Proof. vm_compute. split; reflexivity. Qed.

(* (3) walkDB as found took the year / month lower bound from tfirst itself: with the local zone
   5 hours west of UTC the day directory of 2024-02-01 (UTC) lies in the month directory 2024/01 and
   a query for noon of 2024-02-01 skipped it, although the timestamp test accepts the day. *)
Example c08_original_month_selection_refuted :
  let day := {| d_ts := 1706745600; d_blocks := [] |} in
  day_selected_gen 1706788740 (-18000) 1706788740 1706788860 day = false /\
  day_selected (-18000) 1706788740 1706788860 day = true /\
  day_selected_gen 1706788740 0 1706788740 1706788860 day = true.
Proof. vm_compute. repeat split; reflexivity. Qed.
