(* C08 proofs, part 3: the conditional inside the query: evaluation on the partially populated
   comparison value equals the semantics on the stored flow; the IP-version pruning is sound. *)
From Coq Require Import List ZArith NArith Bool.
From GoProbe.Base Require Import CorrLib.
From GoProbe.C09 Require Import Model ProofsTree.
From GoProbe.C08 Require Import Model.
Import ListNotations.

(* ------------------------------------------------------------------ only core attributes reach the plan *)
Definition core_attr (a : attr) : bool :=
  match a with ASip | ADip | ASnet | ADnet | ADport | AProto => true | _ => false end.

Fixpoint core (n : cond) : bool :=
  match n with
  | Leaf a _ _ => core_attr a
  | Not x => core x
  | And l r | Or l r => core l && core r
  end.

Lemma desugar_core : forall c d, desugar c = Ok d -> core d = true.
Proof.
  induction c as [a cm v|x IH|l IHl r IHr|l IHl r IHr]; intros d H; cbn [desugar] in H.
  - destruct a; cbn [desugar_leaf] in H; try (injection H as <-; reflexivity);
      unfold desugar_pair in H; destruct cm; try discriminate; injection H as <-; reflexivity.
  - apply bind_inv in H. destruct H as [x' [E H]]. injection H as <-. cbn [core]. eauto.
  - apply bind_inv in H. destruct H as [l' [El H]]. apply bind_inv in H. destruct H as [r' [Er H]].
    injection H as <-. cbn [core]. rewrite (IHl _ El), (IHr _ Er). reflexivity.
  - apply bind_inv in H. destruct H as [l' [El H]]. apply bind_inv in H. destruct H as [r' [Er H]].
    injection H as <-. cbn [core]. rewrite (IHl _ El), (IHr _ Er). reflexivity.
Qed.

Lemma nnf_core : forall c neg dep t, nnf_h c neg dep = Ok t -> core c = true -> core t = true.
Proof.
  induction c as [a cm v|x IH|l IHl r IHr|l IHl r IHr]; intros neg dep t H C;
    cbn [nnf_h] in H; destruct (max_depth <? dep)%N; try discriminate.
  - injection H as <-. exact C.
  - eapply IH; eauto.
  - cbn [core] in C. apply andb_prop in C. destruct C as [Cl Cr].
    apply bind_inv in H. destruct H as [l' [El H]]. apply bind_inv in H. destruct H as [r' [Er H]].
    injection H as <-. destruct neg; cbn [core]; rewrite (IHl _ _ _ El Cl), (IHr _ _ _ Er Cr); reflexivity.
  - cbn [core] in C. apply andb_prop in C. destruct C as [Cl Cr].
    apply bind_inv in H. destruct H as [l' [El H]]. apply bind_inv in H. destruct H as [r' [Er H]].
    injection H as <-. destruct neg; cbn [core]; rewrite (IHl _ _ _ El Cl), (IHr _ _ _ Er Cr); reflexivity.
Qed.

(* ------------------------------------------------------------------ the comparison value *)
Definition maskf (hs hd hp hr c4 : bool) (f : flow) : flow :=
  {| f_v4 := c4;
     f_sip := if hs then f_sip f else zeros (ipw c4);
     f_dip := if hd then f_dip f else zeros (ipw c4);
     f_dport := if hp then f_dport f else 0%N;
     f_proto := if hr then f_proto f else 0%N |}.

Lemma cmp_flow_maskf : forall p c4 f,
  cmp_flow p c4 f = maskf (p_csip p) (p_cdip p) (p_cdport p) (p_cproto p) c4 f.
Proof. reflexivity. Qed.

Lemma zeros_length : forall n, length (zeros n) = n.
Proof. intros. apply repeat_length. Qed.

Lemma zeros_ok : forall n, forallb byte_ok (zeros n) = true.
Proof. induction n; [reflexivity | exact IHn]. Qed.

Lemma maskf_wf : forall hs hd hp hr f, wf_flow f = true -> wf_flow (maskf hs hd hp hr (f_v4 f) f) = true.
Proof.
  intros hs hd hp hr f H. unfold wf_flow in *. cbn [maskf f_v4 f_sip f_dip f_dport f_proto].
  destruct (andb_prop _ _ H) as [H1 Hr]. destruct (andb_prop _ _ H1) as [H2 Hp].
  destruct (andb_prop _ _ H2) as [H3 Hbd]. destruct (andb_prop _ _ H3) as [H4 Hbs].
  destruct (andb_prop _ _ H4) as [Hls Hld].
  destruct hs, hd, hp, hr;
    rewrite ?zeros_length, ?zeros_ok, ?Hls, ?Hld, ?Hbs, ?Hbd, ?Hp, ?Hr, ?Nat.eqb_refl; reflexivity.
Qed.

(* a core condition only looks at the columns `uses` reports *)
Lemma sem_mask : forall n hs hd hp hr f, core n = true ->
  (uses col_sip n = true -> hs = true) -> (uses col_dip n = true -> hd = true) ->
  (uses col_dport n = true -> hp = true) -> (uses col_proto n = true -> hr = true) ->
  sem n (maskf hs hd hp hr (f_v4 f) f) = sem n f.
Proof.
  induction n as [a cm v|x IH|l IHl r IHr|l IHl r IHr]; intros hs hd hp hr f C Hs Hd Hp Hr.
  - cbn [uses] in *. destruct a; try discriminate; cbn [col_sip col_dip col_dport col_proto] in *.
    + rewrite (Hs eq_refl). reflexivity.
    + rewrite (Hd eq_refl). reflexivity.
    + rewrite (Hs eq_refl). reflexivity.
    + rewrite (Hd eq_refl). reflexivity.
    + rewrite (Hp eq_refl). reflexivity.
    + rewrite (Hr eq_refl). reflexivity.
  - cbn [sem]. f_equal. apply IH; assumption.
  - cbn [core] in C. apply andb_prop in C. destruct C as [Cl Cr]. cbn [uses] in *. cbn [sem].
    rewrite IHl, IHr; try assumption; try reflexivity;
      intros E; (apply Hs || apply Hd || apply Hp || apply Hr); rewrite E; try reflexivity; apply orb_true_r.
  - cbn [core] in C. apply andb_prop in C. destruct C as [Cl Cr]. cbn [uses] in *. cbn [sem].
    rewrite IHl, IHr; try assumption; try reflexivity;
      intros E; (apply Hs || apply Hd || apply Hp || apply Hr); rewrite E; try reflexivity; apply orb_true_r.
Qed.

(* ------------------------------------------------------------------ the plan *)
Record plan_of (prune : cond -> ipver) (c : cond) (pl : plan) (n : cond) : Prop := {
  po_desugar : exists d, desugar c = Ok d /\ nnf d = Ok n;
  po_instr : instrument n = Ok (p_ic pl);
  po_ver : p_ver pl = prune n;
  po_sip : p_csip pl = uses col_sip n; po_dip : p_cdip pl = uses col_dip n;
  po_dport : p_cdport pl = uses col_dport n; po_proto : p_cproto pl = uses col_proto n
}.

Lemma make_plan_inv : forall prune c pl, make_plan prune c = Ok pl -> exists n, plan_of prune c pl n.
Proof.
  intros prune c pl H. unfold make_plan in H.
  apply bind_inv in H. destruct H as [d [Ed H]]. apply bind_inv in H. destruct H as [n [En H]].
  apply bind_inv in H. destruct H as [ic [Ei H]]. injection H as <-.
  exists n. constructor; [exists d; split; assumption | exact Ei | reflexivity ..].
Qed.

Lemma plan_sem : forall prune c pl n f, plan_of prune c pl n -> sem n f = sem c f.
Proof.
  intros prune c pl n f [[d [Ed En]] Ei _ _ _ _ _].
  unfold nnf in En. rewrite (nnf_sem _ _ _ _ _ f En Ei), xorb_false_l. apply desugar_sem. exact Ed.
Qed.

Lemma plan_prepare : forall prune c pl n, plan_of prune c pl n -> prepare c = Ok (p_ic pl).
Proof.
  intros prune c pl n [[d [Ed En]] Ei _ _ _ _ _]. unfold prepare. rewrite Ed. cbn [bind res_bind].
  rewrite En. cbn [res_bind]. exact Ei.
Qed.

Lemma plan_core : forall prune c pl n, plan_of prune c pl n -> core n = true.
Proof.
  intros prune c pl n [[d [Ed En]] _ _ _ _ _ _]. unfold nnf in En.
  eapply nnf_core; [exact En | eapply desugar_core; exact Ed].
Qed.

(* Evaluate on the comparison value of a stored flow = the semantics of the condition on the flow *)
Theorem plan_eval : forall prune c pl f, make_plan prune c = Ok pl -> wf_cond c = true -> wf_flow f = true ->
  exists k, eval (p_ic pl) (key_of (cmp_flow pl (f_v4 f) f)) = Ok (sem c f, k).
Proof.
  intros prune c pl f H Wc Wf. destruct (make_plan_inv _ _ _ H) as [n P].
  rewrite cmp_flow_maskf. eexists.
  rewrite (prepare_correct c (p_ic pl) _ Wc (maskf_wf _ _ _ _ f Wf) (plan_prepare _ _ _ _ P)).
  f_equal. f_equal.
  rewrite <- (plan_sem _ _ _ _ _ P), <- (plan_sem _ _ _ _ f P).
  pose proof (plan_core _ _ _ _ P) as C. destruct P as [_ _ _ Es Ed Ep Er].
  apply sem_mask; try assumption; intros E; congruence.
Qed.

(* ------------------------------------------------------------------ pruning *)
Lemma leaf_ver_sound : forall a v f,
  (leaf_ver a v = IP4 -> f_v4 f = false -> sem_leaf a Eq v f = false) /\
  (leaf_ver a v = IP6 -> f_v4 f = true -> sem_leaf a Eq v f = false).
Proof.
  intros a v f. split; intros H F; destruct a; cbn [leaf_ver] in H; try discriminate;
    destruct v as [b v4|b colon m| | |]; try discriminate;
    try (destruct v4; try discriminate); try (destruct colon; try discriminate);
    cbn [sem_leaf sem_addr sem_eq addr_is in_net negb]; rewrite F; reflexivity.
Qed.

Theorem ipver_fixed_sound : forall n f,
  (ipver_fixed n = IP4 -> f_v4 f = false -> sem n f = false) /\
  (ipver_fixed n = IP6 -> f_v4 f = true -> sem n f = false).
Proof.
  induction n as [a cm v|x IH|l IHl r IHr|l IHl r IHr]; intros f.
  - destruct cm; cbn [ipver_fixed sem]; try (split; discriminate). apply leaf_ver_sound.
  - cbn [ipver_fixed]. split; discriminate.
  - destruct (IHl f) as [L4 L6], (IHr f) as [R4 R6]. cbn [ipver_fixed sem].
    destruct (ipver_fixed l), (ipver_fixed r); cbn [limited merge ipver_eqb]; split; intros H F;
      try discriminate;
      try (rewrite L4 by (reflexivity || assumption); reflexivity);
      try (rewrite L6 by (reflexivity || assumption); reflexivity);
      try (rewrite R4 by (reflexivity || assumption); apply andb_false_r);
      try (rewrite R6 by (reflexivity || assumption); apply andb_false_r).
  - destruct (IHl f) as [L4 L6], (IHr f) as [R4 R6]. cbn [ipver_fixed sem].
    destruct (ipver_fixed l), (ipver_fixed r); cbn [limited ipver_eqb andb]; split; intros H F;
      try discriminate;
      try (rewrite L4, R4 by (reflexivity || assumption); reflexivity);
      try (rewrite L6, R6 by (reflexivity || assumption); reflexivity).
Qed.
