(* C11 proofs, part C: the statements used by Properties.v *)
From stdpp Require Import gmap.
From Coq Require Import NArith List Bool Lia Permutation Arith.
From GoProbe.C11 Require Import Model Corr ProofsA ProofsB.
Import ListNotations.

Lemma spec_result_msum mask days :
  spec_result mask days = msum (map (eval_workload mask) (create_worker_jobs days)).
Proof. unfold spec_result. now rewrite fold_merge_msum, merge_empty_l. Qed.

(* every complete run, under every capacity, worker count >= 1, memory mode and schedule *)
Lemma result_schedule_independent c days s :
  1 <= c_P c -> steps c (wq_init days) s -> final s -> acc s = spec_result (c_mask c) days.
Proof.
  intros HP R F. rewrite spec_result_msum.
  eapply inv_final; eauto. apply inv_steps; auto.
Qed.

Lemma result_config_independent c1 c2 days s1 s2 :
  1 <= c_P c1 -> 1 <= c_P c2 -> c_mask c1 = c_mask c2 ->
  steps c1 (wq_init days) s1 -> final s1 -> steps c2 (wq_init days) s2 -> final s2 -> acc s1 = acc s2.
Proof.
  intros H1 H2 E R1 F1 R2 F2.
  rewrite (result_schedule_independent c1 days s1), (result_schedule_independent c2 days s2); auto.
  now rewrite E.
Qed.

Lemma merge_order_irrelevant mask (wls perm : list workload) : Permutation wls perm ->
  fold_left merge_map (map (eval_workload mask) perm) ∅ = fold_left merge_map (map (eval_workload mask) wls) ∅.
Proof. intros H. apply fold_merge_perm. apply Permutation_map. now symmetry. Qed.

Lemma cap_fixed_ge P n : n <= cap_fixed P n.
Proof. unfold cap_fixed. lia. Qed.

Lemma terminates_cap c ws :
  1 <= c_P c -> length ws <= c_cap c -> 1 <= c_mcap c -> inevitably_final c (init ws).
Proof. intros HP Hc Hm. apply (inevitable c ws); auto. now apply inv_init. Qed.

Lemma terminates P lowmem mask days : 1 <= P ->
  inevitably_final (wq_cfg P lowmem mask days) (wq_init days).
Proof.
  intros HP. apply terminates_cap; cbn; auto.
  - apply cap_fixed_ge.
  - lia.
Qed.

(* the final state is not only inevitable but reachable: the hypotheses of the result theorem are
   satisfiable for every input *)
Lemma inevitable_reachable c s : inevitably_final c s -> exists s', steps c s s' /\ final s'.
Proof.
  induction 1 as [s F|s [x Hx] _ IH].
  - exists s. split; [apply steps_refl|exact F].
  - destruct (IH x Hx) as (s' & R & F). exists s'. split; auto.
    clear - Hx R. induction R as [|s1 s2 s3 R IH S].
    + eapply steps_step; [apply steps_refl|exact Hx].
    + eapply steps_step; [apply IH; exact Hx|exact S].
Qed.

Lemma final_reachable P lowmem mask days : 1 <= P ->
  exists s, steps (wq_cfg P lowmem mask days) (wq_init days) s /\ final s.
Proof. intros HP. apply inevitable_reachable. now apply terminates. Qed.

(* the original capacity 64 * P: a deadlock is reachable iff there are more workloads than slots *)
Lemma orig_deadlock_iff P lowmem mask days : 1 <= P ->
  (exists s, steps (wq_cfg_orig P lowmem mask days) (wq_init days) s
             /\ stuck (wq_cfg_orig P lowmem mask days) s /\ ~ final s)
  <-> 64 * P < (length days + 31) / 32.
Proof.
  intros HP. rewrite <- jobs_length. set (ws := create_worker_jobs days).
  set (c := wq_cfg_orig P lowmem mask days).
  assert (c_cap c = 64 * P) as Ecap by reflexivity.
  split.
  - intros (s & R & St & NF).
    destruct (Nat.lt_ge_cases (64 * P) (length ws)) as [|Hle]; auto. exfalso.
    assert (inevitably_final c (init ws)) as I.
    { apply terminates_cap; [exact HP|exact Hle|cbn; lia]. }
    eapply inevitable_not_stuck; [eapply inevitable_steps; [exact I|exact R]|exact NF|exact St].
  - intros Hlt.
    destruct (skipn (64 * P) ws) as [|w l2] eqn:E.
    { assert (length (skipn (64 * P) ws) = 0) as L by now rewrite E. rewrite skipn_length in L. lia. }
    assert (length (firstn (64 * P) ws) = 64 * P) as L by (rewrite firstn_length; lia).
    exists (pst (firstn (64 * P) ws) (w :: l2)). split; [|split].
    + unfold wq_init. fold ws. rewrite <- (firstn_skipn (64 * P) ws) at 1. rewrite E.
      apply steps_pst. rewrite L, Ecap. lia.
    + apply pst_full_stuck. now rewrite L, Ecap.
    + unfold final. cbn. discriminate.
Qed.
