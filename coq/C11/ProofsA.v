(* C11 proofs, part A: the merge of flow maps is a commutative monoid action; folds of merges are
   invariant under permutation; workload evaluation is a homomorphism (merge of parts = whole). *)
From stdpp Require Import gmap.
From Coq Require Import NArith List Bool Lia Permutation.
From AAC_tactics Require Import AAC.
From GoProbe.C11 Require Import Model Corr.
Import ListNotations.
Local Open Scope N_scope.

Lemma two64_pos : two64 <> 0.
Proof. discriminate. Qed.

Lemma add64_comm a b : add64 a b = add64 b a.
Proof. unfold add64. now rewrite N.add_comm. Qed.

Lemma add64_assoc a b c : add64 (add64 a b) c = add64 a (add64 b c).
Proof.
  unfold add64.
  rewrite N.add_mod_idemp_l by apply two64_pos.
  rewrite N.add_mod_idemp_r by apply two64_pos.
  now rewrite N.add_assoc.
Qed.

Lemma cadd_comm a b : cadd a b = cadd b a.
Proof.
  destruct a as [[[a1 a2] a3] a4], b as [[[b1 b2] b3] b4]; cbn [cadd].
  now rewrite (add64_comm a1), (add64_comm a2), (add64_comm a3), (add64_comm a4).
Qed.

Lemma cadd_assoc a b c : cadd (cadd a b) c = cadd a (cadd b c).
Proof.
  destruct a as [[[a1 a2] a3] a4], b as [[[b1 b2] b3] b4], c as [[[c1 c2] c3] c4]; cbn [cadd].
  now rewrite !add64_assoc.
Qed.

Lemma merge_lookup a b k :
  merge_map a b !! k = match a !! k, b !! k with
                       | Some x, Some y => Some (cadd x y)
                       | Some x, None => Some x
                       | None, o => o
                       end.
Proof.
  unfold merge_map. rewrite lookup_union_with.
  destruct (a !! k), (b !! k); reflexivity.
Qed.

Lemma merge_comm a b : merge_map a b = merge_map b a.
Proof.
  apply map_eq; intros k. rewrite !merge_lookup.
  destruct (a !! k), (b !! k); try reflexivity. now rewrite cadd_comm.
Qed.

Lemma merge_assoc a b c : merge_map a (merge_map b c) = merge_map (merge_map a b) c.
Proof.
  apply map_eq; intros k. rewrite !merge_lookup.
  destruct (a !! k), (b !! k), (c !! k); try reflexivity. now rewrite cadd_assoc.
Qed.

Lemma merge_empty_r a : merge_map a ∅ = a.
Proof. apply map_eq; intros k. rewrite merge_lookup, lookup_empty. now destruct (a !! k). Qed.

Lemma merge_empty_l a : merge_map ∅ a = a.
Proof. now rewrite merge_comm, merge_empty_r. Qed.

Global Instance merge_Assoc : Associative eq merge_map := merge_assoc.
Global Instance merge_Comm : Commutative eq merge_map := merge_comm.
Global Instance merge_Unit : Unit eq merge_map ∅ :=
  {| law_neutral_left := merge_empty_l; law_neutral_right := merge_empty_r |}.

(* pairwise commutation of the aggregator's step ... *)
Lemma merge_right_comm a x y : merge_map (merge_map a x) y = merge_map (merge_map a y) x.
Proof. aac_reflexivity. Qed.

(* ... lifted over Permutation *)
Lemma fold_merge_perm l1 l2 : Permutation l1 l2 ->
  forall a, fold_left merge_map l1 a = fold_left merge_map l2 a.
Proof.
  induction 1; intros a; cbn [fold_left].
  - reflexivity.
  - apply IHPermutation.
  - now rewrite merge_right_comm.
  - now rewrite IHPermutation1.
Qed.

(* the aggregator skips empty items: the same as merging them *)
Lemma agg_recv_merge a m : agg_recv a m = merge_map a m.
Proof.
  unfold agg_recv. destruct (Nat.eqb_spec (size m) 0) as [H|H]; [|reflexivity].
  apply map_size_empty_iff in H. subst. now rewrite merge_empty_r.
Qed.

(* sum of a list of maps *)
Definition msum (l : list flowmap) : flowmap := fold_right merge_map ∅ l.

Lemma msum_app l1 l2 : msum (l1 ++ l2) = merge_map (msum l1) (msum l2).
Proof.
  induction l1 as [|x l1 IH]; cbn [msum fold_right app].
  - now rewrite merge_empty_l.
  - fold (msum (l1 ++ l2)) (msum l1). rewrite IH. aac_reflexivity.
Qed.

Lemma msum_cons x l : msum (x :: l) = merge_map x (msum l).
Proof. reflexivity. Qed.

Lemma fold_merge_msum l a : fold_left merge_map l a = merge_map a (msum l).
Proof.
  revert a; induction l as [|x l IH]; intros a; cbn [fold_left].
  - cbn. now rewrite merge_empty_r.
  - rewrite IH, msum_cons. aac_reflexivity.
Qed.

(* ------------------------------------------------------------------ evaluation is additive *)

Definition single (k : key) (c : counters) : flowmap := {[ k := c ]}.

Lemma set_or_update_merge k c m : set_or_update k c m = merge_map m (single k c).
Proof.
  apply map_eq; intros i. unfold set_or_update, single. rewrite merge_lookup.
  destruct (decide (i = k)) as [->|Hne].
  - rewrite lookup_singleton. destruct (m !! k) eqn:E; now rewrite lookup_insert.
  - rewrite lookup_singleton_ne by congruence.
    destruct (m !! k) eqn:E; rewrite lookup_insert_ne by congruence; now destruct (m !! i).
Qed.

Definition day_map (mask i : N) (d : day) : flowmap :=
  msum (map (fun f => single (key_of mask i f) (cnt_of f)) d).

Lemma eval_day_merge mask i d m : eval_day mask i d m = merge_map m (day_map mask i d).
Proof.
  unfold eval_day, day_map. revert m; induction d as [|f d IH]; intros m; cbn [fold_left map].
  - cbn. now rewrite merge_empty_r.
  - rewrite IH, set_or_update_merge, msum_cons. aac_reflexivity.
Qed.

Definition days_map (mask : N) (w : list (N * day)) : flowmap :=
  msum (map (fun id => day_map mask (fst id) (snd id)) w).

Lemma fold_days_merge mask w m :
  fold_left (fun m id => eval_day mask (fst id) (snd id) m) w m = merge_map m (days_map mask w).
Proof.
  unfold days_map. revert m; induction w as [|id w IH]; intros m; cbn [fold_left map].
  - cbn. now rewrite merge_empty_r.
  - rewrite IH, eval_day_merge, msum_cons. aac_reflexivity.
Qed.

Lemma eval_workload_days mask w : eval_workload mask w = days_map mask w.
Proof. unfold eval_workload. now rewrite fold_days_merge, merge_empty_l. Qed.

Lemma days_map_app mask w1 w2 : days_map mask (w1 ++ w2) = merge_map (days_map mask w1) (days_map mask w2).
Proof. unfold days_map. now rewrite map_app, msum_app. Qed.

(* the workloads created by the walk are a partition of the (indexed) day list, in order *)
Lemma walk_concat B cur i days :
  concat (walk B cur i days) = cur ++ index_from i days.
Proof.
  revert cur i; induction days as [|d t IH]; intros cur i; cbn [walk index_from].
  - destruct cur; cbn; now rewrite ?app_nil_r.
  - destruct (Nat.eqb _ B); cbn [concat]; rewrite IH; cbn; now rewrite <- app_assoc.
Qed.

Lemma msum_eval_concat mask (ws : list workload) :
  msum (map (eval_workload mask) ws) = days_map mask (concat ws).
Proof.
  induction ws as [|w ws IH]; cbn [map concat].
  - reflexivity.
  - now rewrite msum_cons, IH, days_map_app, eval_workload_days.
Qed.

(* merging the per-workload maps gives the per-key sum over all stored flows *)
Lemma spec_result_flat mask days : spec_result mask days = spec_flat mask days.
Proof.
  unfold spec_result, spec_flat, create_worker_jobs.
  rewrite fold_merge_msum, merge_empty_l, msum_eval_concat, walk_concat. cbn [app].
  now rewrite fold_days_merge, merge_empty_l.
Qed.
