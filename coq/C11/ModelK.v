(* C11 model, keepalive layer: the work queue of Model.v together with the keepalive callback and
   the two locks it involves. Definitions only.

   pkg/goDB/Query.go UpdateKeepalive (called by every worker after every block it has read) takes the
   Query mutex and, if the keepalive interval has elapsed, runs the callback installed by
   engine.aggregate while still holding it: the callback takes finalStats.RLock(), logs the stats (the
   log handler resolves Stats.LogValue() inside this section) and releases the read lock.
   The aggregator, for every item it receives, calls finalStats.Add(item.Stats), which takes the WRITE
   lock of the same sync.RWMutex. RWMutex semantics: a reader is admitted iff no writer holds the lock
   and no writer is waiting; a waiting writer is admitted when there is no reader; not reentrant.

   k_nest = how many times the callback takes the read lock, nested: 1 for the code as it is
   (LogValue reads the counters without locking), 2 if LogValue took the read lock itself. *)
From stdpp Require Import gmap.
From Coq Require Import NArith List Bool.
From GoProbe.C11 Require Import Model.
Import ListNotations.

Inductive kphase := KUp (j : nat) | KDown (j : nat).   (* j read locks held; acquiring / releasing *)
Inductive aphase := AIdle | AWant | AHold.            (* aggregator: not in Add / waiting for the write lock / holding it *)

Record kst := {
  base : st;
  kslot : option (nat * kphase);   (* the worker (index) that is inside the callback; it holds the Query mutex *)
  readers : nat;                   (* finalStats: read locks held *)
  wwait : bool;                    (* finalStats: a writer is waiting *)
  writer : bool;                   (* finalStats: write lock held *)
  agg : aphase;
  budget : nat }.                  (* keepalive callbacks still to come in this query (one per block at most) *)

Record kcfg := { k_c : cfg; k_nest : nat }.

Definition kinit (ws : list workload) (B : nat) : kst :=
  {| base := init ws; kslot := None; readers := 0; wwait := false; writer := false; agg := AIdle; budget := B |}.
Definition kfinal (s : kst) : Prop := final (base s).

Definition set_base (s : kst) (b : st) : kst :=
  {| base := b; kslot := kslot s; readers := readers s; wwait := wwait s; writer := writer s; agg := agg s;
     budget := budget s |}.
Definition set_lock (s : kst) (sl : option (nat * kphase)) (r : nat) (bu : nat) : kst :=
  {| base := base s; kslot := sl; readers := r; wwait := wwait s; writer := writer s; agg := agg s; budget := bu |}.

Inductive kstep (k : kcfg) : kst -> kst -> Prop :=
| KLift s b' :       (* any step of the work queue except the aggregator's receive; the worker inside the
                        callback does not move *)
    step (k_c k) (base s) b' ->
    (length (mchan (base s)) <= length (mchan b'))%nat ->
    (forall i ph, kslot s = Some (i, ph) -> nth_error (workers b') i = nth_error (workers (base s)) i) ->
    kstep k s (set_base s b')
| KBegin s l1 m l2 b :  (* a worker that is evaluating a workload enters UpdateKeepalive: Query mutex free *)
    workers (base s) = l1 ++ WBusy m :: l2 -> kslot s = None -> budget s = S b ->
    kstep k s (set_lock s (Some (length l1, KUp 0)) (readers s) b)
| KRLock s i j :     (* RLock: admitted iff no writer holds the lock and none is waiting *)
    kslot s = Some (i, KUp j) -> (j < k_nest k)%nat -> writer s = false -> wwait s = false ->
    kstep k s (set_lock s (Some (i, KUp (S j))) (S (readers s)) (budget s))
| KTop s i n :       (* all read locks taken, the record is logged: first RUnlock *)
    kslot s = Some (i, KUp (S n)) -> k_nest k = S n ->
    kstep k s (set_lock s (Some (i, KDown n)) (pred (readers s)) (budget s))
| KRUnlock s i j :
    kslot s = Some (i, KDown (S j)) ->
    kstep k s (set_lock s (Some (i, KDown j)) (pred (readers s)) (budget s))
| KEnd s i :         (* the callback returns, UpdateKeepalive releases the Query mutex *)
    kslot s = Some (i, KDown 0) ->
    kstep k s (set_lock s None (readers s) (budget s))
| KAggReq s m t :    (* the aggregator has an item and calls finalStats.Add: Lock() is requested *)
    mchan (base s) = m :: t -> agg_done (base s) = false -> agg s = AIdle ->
    kstep k s {| base := base s; kslot := kslot s; readers := readers s; wwait := true; writer := writer s;
                 agg := AWant; budget := budget s |}
| KAggAcq s :        (* the waiting writer is admitted when there is no reader *)
    agg s = AWant -> readers s = 0%nat ->
    kstep k s {| base := base s; kslot := kslot s; readers := 0; wwait := false; writer := true;
                 agg := AHold; budget := budget s |}
| KAggRel s b' :     (* Add done: Unlock, and the item is merged (the receive step of the work queue) *)
    agg s = AHold -> step (k_c k) (base s) b' -> (length (mchan b') < length (mchan (base s)))%nat ->
    kstep k s {| base := b'; kslot := kslot s; readers := readers s; wwait := wwait s; writer := false;
                 agg := AIdle; budget := budget s |}.

Inductive ksteps (k : kcfg) : kst -> kst -> Prop :=
| ksteps_refl s : ksteps k s s
| ksteps_step s1 s2 s3 : ksteps k s1 s2 -> kstep k s2 s3 -> ksteps k s1 s3.

Definition kstuck (k : kcfg) (s : kst) : Prop := forall s', ~ kstep k s s'.

Inductive kinevitably_final (k : kcfg) : kst -> Prop :=
| KIF_final s : kfinal s -> kinevitably_final k s
| KIF_step s : (exists s', kstep k s s') -> (forall s', kstep k s s' -> kinevitably_final k s') ->
               kinevitably_final k s.

(* the system of the code as it is (one read lock per callback) for a list of day directories *)
Definition wqk_cfg (P : nat) (lowmem : bool) (mask : N) (days : list day) (nest : nat) : kcfg :=
  {| k_c := wq_cfg P lowmem mask days; k_nest := nest |}.
Definition wqk_init (days : list day) (B : nat) : kst := kinit (create_worker_jobs days) B.
