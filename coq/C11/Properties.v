(* C11 property theorems. Nothing but statements closed by `exact`, Print Assumptions and one
   non-vacuity Example per theorem. *)
From stdpp Require Import gmap.
From Coq Require Import NArith List Bool Permutation Lia.
From GoProbe.C11 Require Import Model Corr ProofsA ProofsB ProofsC ProofsD ModelK ProofsK ProofsK2.
Import ListNotations.

(* For EVERY run of the work queue (every assignment of workloads to workers, every interleaving,
   every arrival order at the aggregator), every worker count P >= 1, every capacity of the two
   channels and both memory modes: the map the aggregator ends with is the merge of the per-workload
   maps in day order. *)
Theorem c11_result_schedule_independent : forall (c : cfg) (days : list day) (s : st),
  1 <= c_P c -> steps c (wq_init days) s -> final s ->
  acc s = fold_left merge_map (map (eval_workload (c_mask c)) (create_worker_jobs days)) ∅.
Proof. exact result_schedule_independent. Qed.
Print Assumptions c11_result_schedule_independent.

(* ... hence two complete runs under different worker counts, capacities, memory modes and
   schedules end with the same map *)
Theorem c11_result_config_independent : forall (c1 c2 : cfg) (days : list day) (s1 s2 : st),
  1 <= c_P c1 -> 1 <= c_P c2 -> c_mask c1 = c_mask c2 ->
  steps c1 (wq_init days) s1 -> final s1 -> steps c2 (wq_init days) s2 -> final s2 -> acc s1 = acc s2.
Proof. exact result_config_independent. Qed.
Print Assumptions c11_result_config_independent.

(* the merge of the per-workload maps does not depend on their order (DESIGN A.7) *)
Theorem c11_merge_order_irrelevant : forall mask (wls perm : list workload), Permutation wls perm ->
  fold_left merge_map (map (eval_workload mask) perm) ∅ = fold_left merge_map (map (eval_workload mask) wls) ∅.
Proof. exact merge_order_irrelevant. Qed.
Print Assumptions c11_merge_order_irrelevant.

(* ... and it is the per-key sum (mod 2^64) over all flows of all day directories: grouping the
   directories into workloads of 32 is invisible *)
Theorem c11_result_is_sum : forall mask days,
  fold_left merge_map (map (eval_workload mask) (create_worker_jobs days)) ∅ = spec_flat mask days.
Proof. exact spec_result_flat. Qed.
Print Assumptions c11_result_is_sum.

(* the fixed code: for every P >= 1, every number of day directories, both memory modes, the final
   state is inevitable - no run can get stuck and no run is infinite, whatever the scheduler does *)
Theorem c11_terminates : forall P lowmem mask (days : list day), 1 <= P ->
  inevitably_final (wq_cfg P lowmem mask days) (wq_init days).
Proof. exact terminates. Qed.
Print Assumptions c11_terminates.

(* the hypotheses of the result theorems are satisfiable for every input: a complete run exists *)
Theorem c11_final_reachable : forall P lowmem mask (days : list day), 1 <= P ->
  exists s, steps (wq_cfg P lowmem mask days) (wq_init days) s /\ final s.
Proof. exact final_reachable. Qed.
Print Assumptions c11_final_reachable.

(* the ORIGINAL code (capacity 64 * P, producer run to completion before any worker exists): a state
   that is not final and from which no goroutine can move is reachable iff ceil(days/32) > 64 * P *)
Theorem c11_deadlock_iff : forall P lowmem mask (days : list day), 1 <= P ->
  (exists s, steps (wq_cfg_orig P lowmem mask days) (wq_init days) s
             /\ stuck (wq_cfg_orig P lowmem mask days) s /\ ~ final s)
  <-> 64 * P < (length days + 31) / 32.
Proof. exact orig_deadlock_iff. Qed.
Print Assumptions c11_deadlock_iff.

(* the executable scheduler that the correspondence check runs produces runs of `step`: a model run
   that reports `Final m` is a complete run ending with the map m *)
Theorem c11_model_run_sound : forall capf P lowmem mask (days : list day) sched m,
  run_model capf P lowmem mask days sched = Final m ->
  exists s, steps (mk_cfg capf P lowmem mask (create_worker_jobs days)) (wq_init days) s /\ final s /\ acc s = m.
Proof. exact run_model_sound. Qed.
Print Assumptions c11_model_run_sound.

(* ---- keepalives enabled (ModelK.v): the callback run by a worker under the Query mutex takes the
   read lock of finalStats (k_nest times, nested), the aggregator's Add takes its write lock; RWMutex
   semantics (a waiting writer blocks new readers). B = number of callbacks still to come. *)

(* results are untouched by the keepalive machinery: every complete run ends with the same map *)
Theorem c11_keepalive_result : forall (k : kcfg) (days : list day) (B : nat) (s : kst),
  1 <= c_P (k_c k) -> ksteps k (wqk_init days B) s -> kfinal s ->
  acc (base s) = fold_left merge_map (map (eval_workload (c_mask (k_c k))) (create_worker_jobs days)) ∅.
Proof. exact ka_result. Qed.
Print Assumptions c11_keepalive_result.

(* the code as it is (one read lock per callback): the final state is inevitable for every P >= 1,
   every number of day directories, every number of keepalive callbacks, every interleaving *)
Theorem c11_keepalive_terminates : forall P lowmem mask (days : list day) (B : nat), 1 <= P ->
  kinevitably_final (wqk_cfg P lowmem mask days 1) (wqk_init days B).
Proof. exact ka_terminates. Qed.
Print Assumptions c11_keepalive_terminates.

(* ... and this depends on the read lock NOT being taken again inside the callback: with a nested
   read lock (k_nest = 2), two workloads, one worker and one callback a reachable state is stuck *)
Theorem c11_keepalive_nested_rlock_refuted : forall (c : cfg) (w1 w2 : workload) (B : nat),
  c_P c = 1 -> 2 <= c_cap c -> 1 <= c_mcap c ->
  exists s, ksteps {| k_c := c; k_nest := 2 |} (kinit [w1; w2] (S B)) s
            /\ kstuck {| k_c := c; k_nest := 2 |} s /\ ~ kfinal s.
Proof. exact nested_refuted. Qed.
Print Assumptions c11_keepalive_nested_rlock_refuted.

(* ------------------------------------------------------------------ non-vacuity *)

Definition ex_flow1 : flow := (0, 1, 2, 443, 6, (3, 5, 1, 2))%N.
Definition ex_flow2 : flow := (7, 5, 6, 53, 17, (18446744073709551615, 0, 1, 0))%N.
Definition ex_days : list day := repeat [ex_flow1; ex_flow2] 40 ++ repeat [ex_flow2] 30.

Definition rows_of (o : outcome) : option (list (key * counters)) :=
  match o with Final m => Some (map_to_list m) | _ => None end.
Definition ends (o : outcome) : bool := match o with Final _ => true | _ => false end.

(* a complete run of the executable scheduler on 70 days (3 workloads), 3 workers: it ends, its
   result is the per-key sum, with a counter that wrapped (40 + 30 times 2^64 - 1) *)
Example c11_result_example :
  rows_of (run_model cap_fixed 3 false 30%N ex_days [5; 1; 9; 2]%N)
  = Some [(21575513361, (18446744073709551546, 0, 70, 0)); (4328635142, (120, 200, 40, 80))]%N
  /\ map_to_list (spec_flat 30%N ex_days)
     = [(21575513361, (18446744073709551546, 0, 70, 0)); (4328635142, (120, 200, 40, 80))]%N
  /\ enc 0 5 6 53 17 = 21575513361%N.
Proof. split; [|split]; vm_compute; reflexivity. Qed.

Example c11_config_example :
  rows_of (run_model cap_fixed 1 true 2%N ex_days [0]%N)
  = rows_of (run_model cap_fixed 16 false 2%N ex_days [3; 1; 4; 1; 5; 9; 2; 6]%N)
  /\ ends (run_model cap_fixed 1 true 2%N ex_days [0]%N) = true.
Proof. split; vm_compute; reflexivity. Qed.

Example c11_merge_example :
  let a := eval_workload 30%N [(0%N, [ex_flow1])] in let b := eval_workload 30%N [(1%N, [ex_flow1; ex_flow2])] in
  map_to_list (merge_map (merge_map ∅ a) b) = map_to_list (merge_map (merge_map ∅ b) a)
  /\ size a = 1 /\ size b = 2 /\ size (merge_map a b) = 2.
Proof. cbv zeta. repeat split; vm_compute; reflexivity. Qed.

Example c11_sum_example :
  length (create_worker_jobs ex_days) = 3 /\ size (spec_flat 31%N ex_days) = 110.
Proof. split; vm_compute; reflexivity. Qed.

(* 2049 day directories, one processing unit: the model of the original code gets stuck, the model
   of the fixed code ends; 2048 directories end in both *)
Example c11_terminates_example :
  ends (run_model cap_orig 1 false 30%N (repeat [ex_flow1] 2049) [1; 2; 3]%N) = false
  /\ ends (run_model cap_fixed 1 false 30%N (repeat [ex_flow1] 2049) [1; 2; 3]%N) = true
  /\ ends (run_model cap_orig 1 false 30%N (repeat [ex_flow1] 2048) [1; 2; 3]%N) = true.
Proof. split; [|split]; vm_compute; reflexivity. Qed.

Example c11_deadlock_example : 64 * 1 < (2049 + 31) / 32 /\ ~ 64 * 1 < (2048 + 31) / 32.
Proof. split; vm_compute; lia. Qed.

Example c11_model_run_example :
  ends (run_model cap_fixed 2 true 6%N ex_days [4; 4; 1]%N) = true.
Proof. vm_compute; reflexivity. Qed.

Example c11_keepalive_example :
  length (create_worker_jobs (repeat [ex_flow1] 33)) = 2
  /\ c_P (wq_cfg 1 false 30%N (repeat [ex_flow1] 33)) = 1
  /\ 2 <= c_cap (wq_cfg 1 false 30%N (repeat [ex_flow1] 33))
  /\ 1 <= c_mcap (wq_cfg 1 false 30%N (repeat [ex_flow1] 33))
  /\ k_nest (wqk_cfg 3 true 30%N ex_days 1) = 1.
Proof. repeat split; vm_compute; lia. Qed.
