(* C11 proofs, keepalive layer: projection onto the work queue, lock invariants, termination with a
   single (non-nested) read lock, and the stuck state a nested read lock admits. *)
From stdpp Require Import gmap.
From Coq Require Import NArith List Bool Lia Arith.
From GoProbe.C11 Require Import Model Corr ProofsA ProofsB ModelK.
Import ListNotations.

(* ------------------------------------------------------------------ projection *)

Lemma kstep_base k s s' : kstep k s s' -> base s' = base s \/ step (k_c k) (base s) (base s').
Proof. destruct 1; cbn; auto. Qed.

Lemma ksteps_base k s s' : ksteps k s s' -> steps (k_c k) (base s) (base s').
Proof.
  induction 1 as [|s1 s2 s3 R IH S]; [apply steps_refl|].
  destruct (kstep_base _ _ _ S) as [E|E]; [now rewrite E|eapply steps_step; eauto].
Qed.

(* ------------------------------------------------------------------ invariant *)

Definition held (sl : option (nat * kphase)) : nat :=
  match sl with None => 0 | Some (_, KUp j) => j | Some (_, KDown j) => j end.

Section K.
Variable k : kcfg.
Variable ws0 : list workload.
Hypothesis HP : 1 <= c_P (k_c k).
Hypothesis Hcap : length ws0 <= c_cap (k_c k).
Hypothesis Hmcap : 1 <= c_mcap (k_c k).
Hypothesis Hnest : 1 <= k_nest k.

Record kinv (s : kst) : Prop := {
  ki_base : inv (k_c k) ws0 (base s);
  ki_readers : readers s = held (kslot s);
  ki_phase : match kslot s with
             | Some (_, KUp j) => j <= k_nest k
             | Some (_, KDown j) => j < k_nest k
             | None => True end;
  ki_writer : writer s = match agg s with AHold => true | _ => false end;
  ki_wwait : wwait s = match agg s with AWant => true | _ => false end;
  ki_item : agg s <> AIdle -> mchan (base s) <> [] /\ agg_done (base s) = false;
  ki_excl : agg s = AHold -> readers s = 0 }.

Lemma kinv_init B : kinv (kinit ws0 B).
Proof. constructor; cbn; auto; try congruence. apply inv_init. Qed.

(* the receive step is the only one that shortens mapChan; it needs an item and a live aggregator *)
Lemma step_mchan c b b' : step c b b' ->
  (length (mchan b') < length (mchan b) -> exists m t, mchan b = m :: t /\ agg_done b = false /\ mchan b' = t
                                                     /\ agg_done b' = false)
  /\ (length (mchan b) <= length (mchan b') -> agg_done b = false -> mchan b <> [] ->
      mchan b' <> [] /\ agg_done b' = false).
Proof.
  destruct 1; cbn; split; intros; try lia; try (split; auto; congruence);
    rewrite ?app_length in *; cbn in *; try lia.
  - split; auto. destruct (mchan s); cbn; discriminate.
  - exists m, t. auto.
  - rewrite H in *. cbn in *. lia.
  - rewrite H0 in *. cbn in *. lia.
Qed.

Lemma kinv_step s s' : kinv s -> kstep k s s' -> kinv s'.
Proof.
  intros [I1 I2 I3 I4 I5 I6 I7] H.
  destruct H as [s b' S L G|s l1 m l2 b W Sl Bu|s i j Sl Lt Wr Ww|s i n Sl N|s i j Sl|s i Sl|s m t M D A|s A R|s b' A S L];
    constructor; cbn [base kslot readers wwait writer agg budget set_base set_lock held]; auto;
    try (eapply inv_step; eauto; fail); try rewrite Sl in *; cbn [held] in *; try lia; try congruence.
  - intros NA. destruct (I6 NA) as [NE D]. destruct (step_mchan _ _ _ S) as [_ K]. apply K; auto.
  - intros E. rewrite E in I4. congruence.
  - intros E. rewrite (I7 E). reflexivity.
  - intros E. rewrite (I7 E). reflexivity.
  - rewrite A in I4. exact I4.
  - intros _. rewrite M. split; [discriminate|auto].
  - intros _. apply I6. rewrite A. discriminate.
  - rewrite A in I5. exact I5.
Qed.

Lemma kinv_steps B s : ksteps k (kinit ws0 B) s -> kinv s.
Proof.
  intros H. remember (kinit ws0 B) as s0 eqn:E. induction H as [|s1 s2 s3 H IH S]; subst.
  - apply kinv_init.
  - eapply kinv_step; eauto.
Qed.

(* ------------------------------------------------------------------ measure *)

Definition aggw (a : aphase) : nat := match a with AIdle => 2 | AWant => 1 | AHold => 0 end.
Definition slotw (sl : option (nat * kphase)) : nat :=
  match sl with None => 0 | Some (_, KUp j) => (k_nest k - j) + k_nest k + 1 | Some (_, KDown j) => j + 1 end.
Definition kmeasure (s : kst) : nat :=
  3 * measure (k_c k) (base s) + aggw (agg s) + budget s * (2 * k_nest k + 2) + slotw (kslot s).

Lemma kstep_measure s s' : kinv s -> kstep k s s' -> kmeasure s' < kmeasure s.
Proof.
  intros [I1 I2 I3 I4 I5 I6 I7] H.
  destruct H as [s b' S L G|s l1 m l2 b W Sl Bu|s i j Sl Lt Wr Ww|s i n Sl N|s i j Sl|s i Sl|s m t M D A|s A R|s b' A S L];
    unfold kmeasure; cbn [base kslot readers wwait writer agg budget set_base set_lock];
    try rewrite Sl in *; try rewrite A in *; try rewrite Bu in *; cbn [slotw aggw] in *;
    try (pose proof (step_measure _ _ HP _ _ I1 S)); try lia; try nia.
Qed.

(* ------------------------------------------------------------------ progress with ONE read lock *)

Hypothesis Hone : k_nest k = 1.

Lemma kprogress s : kinv s -> ~ kfinal s -> exists s', kstep k s s'.
Proof.
  intros I NF. pose proof I as [I1 I2 I3 I4 I5 I6 I7].
  destruct (kslot s) as [[i ph]|] eqn:Sl.
  - (* a worker is inside the callback *)
    destruct ph as [j|j].
    + rewrite Hone in I3. destruct j as [|j].
      * (* wants the read lock *)
        destruct (agg s) eqn:A.
        -- eexists. eapply (KRLock k s i 0); eauto; try lia; try (rewrite ?I4, ?I5, ?A; reflexivity).
        -- eexists. apply KAggAcq; auto; try (rewrite I2; reflexivity).
        -- destruct (I6 ltac:(congruence)) as [NE D].
           destruct (mchan (base s)) as [|m t] eqn:M; [congruence|].
           eexists. eapply (KAggRel k s); eauto.
           ++ apply (SRecv (k_c k) (base s) m t); auto.
           ++ cbn. rewrite M. cbn. lia.
      * assert (j = 0) as -> by lia. eexists. eapply (KTop k s i 0); eauto.
    + destruct j as [|j].
      * eexists. eapply KEnd; eauto.
      * eexists. eapply KRUnlock; eauto.
  - (* nobody holds a read lock *)
    destruct (agg s) eqn:A.
    + destruct (progress (k_c k) ws0 HP Hcap Hmcap (base s) I1 NF) as [b' S].
      destruct (Nat.le_gt_cases (length (mchan (base s))) (length (mchan b'))) as [L|L].
      * eexists. eapply (KLift k s b'); eauto. rewrite Sl. discriminate.
      * destruct (step_mchan _ _ _ S) as [K _]. destruct (K L) as (m & t & M & D & _).
        eexists. eapply (KAggReq k s m t); eauto.
    + eexists. apply KAggAcq; auto; try (rewrite I2; reflexivity).
    + destruct (I6 ltac:(congruence)) as [NE D].
      destruct (mchan (base s)) as [|m t] eqn:M; [congruence|].
      eexists. eapply (KAggRel k s); eauto.
      * apply (SRecv (k_c k) (base s) m t); auto.
      * cbn. rewrite M. cbn. lia.
Qed.

Lemma kinevitable s : kinv s -> kinevitably_final k s.
Proof.
  remember (kmeasure s) as n eqn:E. revert s E.
  induction n as [n IH] using lt_wf_ind. intros s E I.
  destruct (agg_done (base s)) eqn:Ha.
  - now apply KIF_final.
  - apply KIF_step.
    + apply kprogress; auto. unfold kfinal, final. congruence.
    + intros s' H. apply (IH (kmeasure s')); auto.
      * subst. now apply kstep_measure.
      * eapply kinv_step; eauto.
Qed.

End K.
