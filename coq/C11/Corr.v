(* C11 correspondence: case type, corr (model = observed) and holds (observed meets the spec).
   Executable only. *)
From stdpp Require Import gmap.
From Coq Require Import NArith List Bool.
From GoProbe.C11 Require Import Model.
Import ListNotations.
Local Open Scope N_scope.

Definition rowkey := (N * N * N * N * N)%type.      (* time bin, sip, dip, dport, proto as printed by the harness *)
Definition orow := (rowkey * counters)%type.

Record case := mkCase {
  k_mask : N;                                        (* query attributes: bit 0 time, 1 sip, 2 dip, 3 dport, 4 proto *)
  k_ifs : list (list day * list (N * N));            (* per interface: day templates, run-length list (count, template) *)
  k_sched : list N;                                  (* scheduler choices for the model runs *)
  k_runs : list (N * bool * bool * N);               (* per configuration: P, low-mem, ended without error, digest of rows+totals *)
  k_rows : list (list orow);                         (* per interface: sorted rows of the first configuration *)
  k_totals : counters }.                             (* Summary.Totals of the first configuration *)

Definition expand (ifc : list day * list (N * N)) : list day :=
  flat_map (fun nt => repeat (nth (N.to_nat (snd nt)) (fst ifc) []) (N.to_nat (fst nt))) (snd ifc).

Definition ceqb (a b : counters) : bool :=
  let '(a1, a2, a3, a4) := a in let '(b1, b2, b3, b4) := b in
  (a1 =? b1) && (a2 =? b2) && (a3 =? b3) && (a4 =? b4).

Definition rk_enc (k : rowkey) : key := let '(t, s, d, dp, pr) := k in enc t s d dp pr.

Fixpoint strictly_increasing (l : list N) : bool :=
  match l with
  | a :: (b :: _) as t => (a <? b) && strictly_increasing t
  | _ => true
  end.

(* the observed rows are exactly the entries of m *)
Definition rows_match (m : flowmap) (rows : list orow) : bool :=
  (size m =? length rows)%nat
  && strictly_increasing (map (fun r => rk_enc (fst r)) rows)
  && forallb (fun r => match m !! rk_enc (fst r) with Some c => ceqb c (snd r) | None => false end) rows.

Fixpoint forallb2 {A B} (f : A -> B -> bool) (l1 : list A) (l2 : list B) : bool :=
  match l1, l2 with
  | [], [] => true
  | a :: t1, b :: t2 => f a b && forallb2 f t1 t2
  | _, _ => false
  end.

(* does the model (of the fixed code) still describe the code?  For every configuration that was
   run, the work-queue model is run under the case's schedule with that P and memory mode, for every
   interface: it must end iff the query ended, and its final map must be the observed rows. *)
Definition corr (c : case) : bool :=
  forallb (fun r => let '(P, lm, ended, _) := r in
    forallb2 (fun ifc rows =>
      match run_model cap_fixed (N.to_nat P) lm (k_mask c) (expand ifc) (k_sched c) with
      | Final m => ended && rows_match m rows
      | Stuck => negb ended
      | OutOfFuel => false
      end) (k_ifs c) (k_rows c)) (k_runs c).

(* specification, independent of workloads, workers and channels: every flow of every day directory
   added into one map per interface *)
Fixpoint index_from {A} (i : N) (l : list A) : list (N * A) :=
  match l with [] => [] | x :: t => (i, x) :: index_from (N.succ i) t end.
Definition spec_flat (mask : N) (days : list day) : flowmap :=
  fold_left (fun m id => eval_day mask (fst id) (snd id) m) (index_from 0 days) ∅.

Definition czero : counters := (0, 0, 0, 0).

(* does the observed behaviour satisfy the property?  Every configuration ended without error, all
   configurations returned the same rows and totals, the rows are the per-key sums of the stored
   flows and the totals are the sum of the rows. *)
Definition holds (c : case) : bool :=
  match k_runs c with
  | [] => false
  | (_, _, _, d0) :: _ =>
    forallb (fun r => let '(_, _, ended, d) := r in ended && (d =? d0)) (k_runs c)
    && forallb2 (fun ifc rows => rows_match (spec_flat (k_mask c) (expand ifc)) rows) (k_ifs c) (k_rows c)
    && ceqb (k_totals c) (fold_left (fun a r => cadd a (snd r)) (concat (k_rows c)) czero)
  end.
