(* C11 proofs, part B: the work queue. Result of every complete run; termination; the deadlock of
   the original capacity. *)
From stdpp Require Import gmap.
From Coq Require Import NArith List Bool Lia Permutation Arith.
From AAC_tactics Require Import AAC.
From GoProbe.C11 Require Import Model Corr ProofsA.
Import ListNotations.

(* ------------------------------------------------------------------ worker lists *)

Definition busy (ws : list wstate) : list flowmap :=
  flat_map (fun w => match w with WBusy m => [m] | _ => [] end) ws.
Definition not_done (ws : list wstate) : nat :=
  length (filter (fun w => match w with WDone => false | _ => true end) ws).

Lemma busy_app l1 l2 : busy (l1 ++ l2) = busy l1 ++ busy l2.
Proof. unfold busy. now rewrite flat_map_app. Qed.
Lemma not_done_app l1 l2 : not_done (l1 ++ l2) = not_done l1 + not_done l2.
Proof. unfold not_done. now rewrite filter_app, app_length. Qed.
Lemma busy_repeat_idle n : busy (repeat WIdle n) = [].
Proof. induction n; cbn; auto. Qed.
Lemma not_done_repeat_idle n : not_done (repeat WIdle n) = n.
Proof. unfold not_done. induction n; cbn; auto. Qed.
Lemma all_done_busy ws : all_done ws = true -> busy ws = [].
Proof. induction ws as [|[]]; cbn; intros; auto; discriminate. Qed.
Lemma all_done_not_done ws : all_done ws = true -> not_done ws = 0.
Proof. unfold not_done. induction ws as [|[]]; cbn; intros; auto; discriminate. Qed.
Lemma all_done_app l1 x l2 : all_done (l1 ++ x :: l2) = true -> x = WDone.
Proof.
  unfold all_done. rewrite forallb_app. cbn. destruct x; auto; rewrite ?andb_false_r; discriminate.
Qed.

(* a worker list has a busy worker, or an idle one, or all are done *)
Lemma workers_cases ws :
  (exists l1 m l2, ws = l1 ++ WBusy m :: l2) \/ (exists l1 l2, ws = l1 ++ WIdle :: l2) \/ all_done ws = true.
Proof.
  induction ws as [|w ws IH].
  - right; right; reflexivity.
  - destruct w.
    + right; left. exists [], ws. reflexivity.
    + left. exists [], m, ws. reflexivity.
    + destruct IH as [(l1 & m & l2 & ->)|[(l1 & l2 & ->)|H]].
      * left. exists (WDone :: l1), m, l2. reflexivity.
      * right; left. exists (WDone :: l1), l2. reflexivity.
      * right; right. exact H.
Qed.

Lemma msum_nil : msum [] = ∅.
Proof. reflexivity. Qed.

Lemma busy_cons_busy m l : busy (WBusy m :: l) = m :: busy l.
Proof. reflexivity. Qed.
Lemma busy_cons_idle l : busy (WIdle :: l) = busy l.
Proof. reflexivity. Qed.
Lemma busy_cons_done l : busy (WDone :: l) = busy l.
Proof. reflexivity. Qed.

Ltac msimp := repeat (rewrite ?busy_app, ?busy_cons_busy, ?busy_cons_idle, ?busy_cons_done, ?map_app, ?msum_app,
                              ?msum_cons, ?msum_nil, ?merge_empty_r, ?merge_empty_l; cbn [app map]).

(* ------------------------------------------------------------------ invariants *)

Section Run.
Variable c : cfg.
Variable ws0 : list workload.
Hypothesis HP : 1 <= c_P c.

Notation ev := (eval_workload (c_mask c)).

Definition pending (s : st) : list flowmap :=
  mchan s ++ busy (workers s) ++ map ev (wchan s) ++ map ev (todo s).

Record inv (s : st) : Prop := {
  i_closed : pclosed s = true -> todo s = [];
  i_nostart : started s = false -> workers s = [] /\ mclosed s = false;
  i_start : started s = true -> pclosed s = true /\ length (workers s) = c_P c;
  i_done : In WDone (workers s) -> wchan s = [];
  i_mclosed : mclosed s = true -> started s = true /\ all_done (workers s) = true;
  i_agg : agg_done s = true -> mclosed s = true /\ mchan s = [];
  i_len : length (wchan s) + length (todo s) <= length ws0;
  i_sum : merge_map (acc s) (msum (pending s)) = msum (map ev ws0) }.

Lemma inv_init : inv (init ws0).
Proof.
  constructor; cbn; try discriminate; auto; try lia.
  unfold pending; cbn. now rewrite merge_empty_l.
Qed.

Lemma in_app_mid {A} (x y : A) l1 l2 : In x (l1 ++ y :: l2) -> x = y \/ In x (l1 ++ l2).
Proof. rewrite !in_app_iff. cbn. intuition. Qed.

Lemma inv_step s s' : inv s -> step c s s' -> inv s'.
Proof.
  intros I H. destruct I as [I1 I2 I3 I4 I5 I6 I7 I8]. unfold pending in I8.
  destruct H as [s w t Ht Hp Hl|s Ht Hp|s Hp Hs|s l1 l2 w t Hw Hc|s l1 l2 Hw Hc Hp|s l1 l2 m Hw Hl|s m t Hm Ha|s Hs Hd Hm|s Hm Hc Ha];
    constructor; unfold pending; cbn [todo pclosed wchan started workers mchan mclosed acc agg_done]; auto.
  - (* push *) discriminate.
  - intros E. destruct (I3 E) as [E' _]. congruence.
  - intros Hin. specialize (I4 Hin). destruct (started s) eqn:E.
    + destruct (I3 eq_refl); congruence.
    + destruct (I2 eq_refl) as [W _]. rewrite W in Hin. destruct Hin.
  - rewrite app_length, Ht in *. cbn in *. lia.
  - rewrite Ht in I8. rewrite <- I8, map_app. cbn [map]. rewrite <- !app_assoc. reflexivity.
  - (* closeW *) intros E. destruct (I3 E) as [E' _]. congruence.
  - rewrite Ht in *. auto.
  - rewrite Ht in I8. exact I8.
  - (* start *) discriminate.
  - intros _. split; auto. apply repeat_length.
  - intros Hin. apply repeat_spec in Hin. discriminate.
  - intros E. destruct (I2 Hs) as [_ E']. congruence.
  - destruct (I2 Hs) as [W _]. rewrite W in I8. cbn in I8. now rewrite busy_repeat_idle.
  - (* take *) intros E. destruct (I2 E) as [W _]. rewrite W in Hw. destruct l1; discriminate.
  - intros E. destruct (I3 E) as [E1 E2]. split; auto.
    rewrite Hw in E2. rewrite app_length in *. cbn in *. lia.
  - intros Hin. apply in_app_mid in Hin. destruct Hin as [E|Hin]; [discriminate|].
    assert (In WDone (workers s)) as Hin' by (rewrite Hw; rewrite in_app_iff in *; cbn; tauto).
    specialize (I4 Hin'). congruence.
  - intros E. destruct (I5 E) as [_ D]. rewrite Hw in D. apply all_done_app in D. discriminate.
  - rewrite Hc in I7. cbn in I7. lia.
  - rewrite Hw, Hc in I8. rewrite <- I8. msimp. aac_reflexivity.
  - (* exit *) intros E. destruct (I2 E) as [W _]. rewrite W in Hw. destruct l1; discriminate.
  - intros E. destruct (I3 E) as [E1 E2]. split; auto.
    rewrite Hw in E2. rewrite app_length in *. cbn in *. lia.
  - intros E. destruct (I5 E) as [_ D]. rewrite Hw in D. apply all_done_app in D. discriminate.
  - rewrite Hc in I7. exact I7.
  - rewrite Hw, Hc in I8. rewrite <- I8. msimp. reflexivity.
  - (* send *) intros E. destruct (I2 E) as [W _]. rewrite W in Hw. destruct l1; discriminate.
  - intros E. destruct (I3 E) as [E1 E2]. split; auto.
    rewrite Hw in E2. rewrite app_length in *. cbn in *. lia.
  - intros Hin. apply in_app_mid in Hin. destruct Hin as [E|Hin]; [discriminate|].
    apply I4. rewrite Hw. rewrite in_app_iff in *; cbn; tauto.
  - intros E. destruct (I5 E) as [_ D]. rewrite Hw in D. apply all_done_app in D. discriminate.
  - intros E. destruct (I6 E) as [E1 E2]. rewrite E2. destruct (I5 E1) as [_ D].
    rewrite Hw in D. apply all_done_app in D. discriminate.
  - rewrite Hw in I8. rewrite <- I8. msimp. aac_reflexivity.
  - (* recv *) discriminate.
  - rewrite Hm in I8. rewrite <- I8, agg_recv_merge. msimp. aac_reflexivity.
  - (* closeM *) discriminate.
  - intros E. destruct (I6 E) as [E' _]. congruence.
  - (* finish *) intros E. destruct (I5 Hm) as [E' _]. congruence.
  - rewrite Hc in I8. exact I8.
Qed.

Lemma inv_steps s : steps c (init ws0) s -> inv s.
Proof.
  intros H. remember (init ws0) as s0 eqn:E. induction H as [|s1 s2 s3 H IH S]; subst.
  - apply inv_init.
  - eapply inv_step; eauto.
Qed.

(* in a final state nothing is pending *)
Lemma inv_final s : inv s -> final s -> acc s = msum (map ev ws0).
Proof.
  intros [I1 I2 I3 I4 I5 I6 I7 I8] F. unfold final in F.
  destruct (I6 F) as [Hm Hc]. destruct (I5 Hm) as [Hs Hd]. destruct (I3 Hs) as [Hp Hl].
  assert (wchan s = []) as Hw.
  { apply I4. destruct (workers s) as [|w l]; [cbn in Hl; lia|].
    cbn in Hd. destruct w; try discriminate. now left. }
  rewrite <- I8. unfold pending. rewrite Hc, Hw, (I1 Hp), (all_done_busy _ Hd). cbn.
  now rewrite merge_empty_r.
Qed.

(* ------------------------------------------------------------------ termination *)

Definition b2n (b : bool) : nat := if b then 0 else 1.
Definition measure (s : st) : nat :=
  4 * length (todo s) + 3 * length (wchan s) + 2 * length (busy (workers s)) + length (mchan s)
  + b2n (pclosed s) + (if started s then 0 else c_P c + 1) + not_done (workers s)
  + b2n (mclosed s) + b2n (agg_done s).

Lemma step_measure s s' : inv s -> step c s s' -> S (measure s') = measure s.
Proof.
  intros I H. destruct I as [I1 I2 I3 I4 I5 I6 I7 I8].
  destruct H as [s w t Ht Hp Hl|s Ht Hp|s Hp Hs|s l1 l2 w t Hw Hc|s l1 l2 Hw Hc Hp|s l1 l2 m Hw Hl|s m t Hm Ha|s Hs Hd Hm|s Hm Hc Ha];
    unfold measure; cbn [todo pclosed wchan started workers mchan mclosed acc agg_done];
    rewrite ?Ht, ?Hp, ?Hs, ?Hw, ?Hc, ?Hm, ?Ha, ?app_length, ?busy_app, ?not_done_app, ?app_length; cbn [length b2n busy flat_map app not_done filter]; try lia.
  - (* start *) destruct (I2 Hs) as [W _]. rewrite W, busy_repeat_idle, not_done_repeat_idle. cbn. lia.
Qed.

Hypothesis Hcap : length ws0 <= c_cap c.
Hypothesis Hmcap : 1 <= c_mcap c.

Lemma progress s : inv s -> ~ final s -> exists s', step c s s'.
Proof.
  intros [I1 I2 I3 I4 I5 I6 I7 I8] NF. unfold final in NF.
  destruct (agg_done s) eqn:Ha; [congruence|]. clear NF.
  destruct (pclosed s) eqn:Hp.
  2:{ destruct (todo s) as [|w t] eqn:Ht.
      - eexists. now apply SCloseW.
      - eexists. apply (SPush c s w t); auto. cbn in I7. lia. }
  destruct (started s) eqn:Hs.
  2:{ eexists. now apply SStart. }
  destruct (mclosed s) eqn:Hm.
  { destruct (mchan s) as [|m t] eqn:Hc.
    - eexists. now apply SFinish.
    - eexists. now apply (SRecv c s m t). }
  destruct (workers_cases (workers s)) as [(l1 & m & l2 & Hw)|[(l1 & l2 & Hw)|Hd]].
  - destruct (Nat.ltb_spec (length (mchan s)) (c_mcap c)) as [Hl|Hl].
    + eexists. now apply (SSend c s l1 l2 m).
    + destruct (mchan s) as [|m' t] eqn:Hc; [cbn in Hl; lia|].
      eexists. now apply (SRecv c s m' t).
  - destruct (wchan s) as [|w t] eqn:Hc.
    + eexists. now apply (SExit c s l1 l2).
    + eexists. now apply (STake c s l1 l2 w t).
  - eexists. now apply SCloseM.
Qed.

Lemma inevitable s : inv s -> inevitably_final c s.
Proof.
  remember (measure s) as n eqn:E. revert s E.
  induction n as [n IH] using lt_wf_ind. intros s E I.
  destruct (agg_done s) eqn:Ha.
  - now apply IF_final.
  - apply IF_step.
    + apply progress; auto. unfold final. congruence.
    + intros s' H. apply (IH (measure s')); auto.
      * pose proof (step_measure s s' I H). lia.
      * eapply inv_step; eauto.
Qed.

End Run.

(* ------------------------------------------------------------------ general facts on runs *)

Lemma final_step c s s' : final s -> step c s s' -> final s'.
Proof. unfold final. intros F H. destruct H; cbn; congruence. Qed.

Lemma inevitable_steps c s s' : inevitably_final c s -> steps c s s' -> inevitably_final c s'.
Proof.
  intros H R. induction R as [|s1 s2 s3 R IH S]; auto.
  specialize (IH H). destruct IH as [s2 F|s2 _ N].
  - apply IF_final. eapply final_step; eauto.
  - now apply N.
Qed.

Lemma inevitable_not_stuck c s : inevitably_final c s -> ~ final s -> ~ stuck c s.
Proof. intros [s' F|s' [x Hx] _] NF St; [contradiction|]. exact (St x Hx). Qed.

(* ------------------------------------------------------------------ the original capacity *)

Definition pst (l1 l2 : list workload) : st :=
  {| todo := l2; pclosed := false; wchan := l1; started := false; workers := [];
     mchan := []; mclosed := false; acc := ∅; agg_done := false |}.

(* the producer alone can always fill the channel up to its capacity *)
Lemma steps_pst c l1 : forall l2, length l1 <= c_cap c -> steps c (init (l1 ++ l2)) (pst l1 l2).
Proof.
  induction l1 as [|w l1 IH] using rev_ind; intros l2 H.
  - apply steps_refl.
  - rewrite <- app_assoc. cbn [app]. rewrite app_length in H. cbn in H.
    eapply steps_step; [apply (IH (w :: l2)); lia|].
    apply (SPush c (pst l1 (w :: l2)) w l2); cbn; auto. lia.
Qed.

(* with a full channel, directories left to push and no consumer, nothing can move *)
Lemma pst_full_stuck c l1 w l2 : length l1 = c_cap c -> stuck c (pst l1 (w :: l2)).
Proof.
  intros L s' H.
  inversion H; subst; cbn in *; try discriminate; try lia; try congruence;
    match goal with H : [] = ?l ++ _ :: _ |- _ => destruct l; discriminate end.
Qed.

Lemma walk_length cur i days : length cur < 32 ->
  length (walk 32 cur i days) = (length cur + length days + 31) / 32.
Proof.
  revert cur i; induction days as [|d t IH]; intros cur i Hc; cbn [walk length].
  - destruct cur as [|x cur]; cbn [length] in *.
    + reflexivity.
    + symmetry. rewrite Nat.add_0_r.
      assert (S (length cur) + 31 = 1 * 32 + length cur) as -> by lia.
      rewrite Nat.div_add_l by lia. rewrite Nat.div_small by lia. reflexivity.
  - rewrite app_length. cbn [length]. destruct (Nat.eqb_spec (length cur + 1) 32) as [E|E].
    + cbn [length]. rewrite IH by (cbn; lia). cbn [length].
      assert (length cur + S (length t) + 31 = 1 * 32 + (0 + length t + 31)) as -> by lia.
      rewrite Nat.div_add_l by lia. lia.
    + rewrite IH by (rewrite app_length; cbn; lia). rewrite app_length. cbn [length].
      f_equal. lia.
Qed.

Lemma jobs_length days : length (create_worker_jobs days) = (length days + 31) / 32.
Proof. unfold create_worker_jobs, work_bulk_size. now rewrite walk_length by (cbn; lia). Qed.
