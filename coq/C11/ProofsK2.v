(* C11 proofs, keepalive layer, part 2: top-level statements and the nested-read-lock deadlock *)
From stdpp Require Import gmap.
From Coq Require Import NArith List Bool Lia Arith.
From GoProbe.C11 Require Import Model Corr ProofsA ProofsB ProofsC ModelK ProofsK.
Import ListNotations.

Lemma ka_result k days B s : 1 <= c_P (k_c k) ->
  ksteps k (wqk_init days B) s -> kfinal s -> acc (base s) = spec_result (c_mask (k_c k)) days.
Proof.
  intros HP R F. apply (result_schedule_independent (k_c k) days (base s)); auto.
  apply ksteps_base in R. exact R.
Qed.

Lemma ka_terminates P lowmem mask days B : 1 <= P ->
  kinevitably_final (wqk_cfg P lowmem mask days 1) (wqk_init days B).
Proof.
  intros HP. apply (kinevitable (wqk_cfg P lowmem mask days 1) (create_worker_jobs days)); cbn; auto.
  - apply cap_fixed_ge.
  - lia.
  - apply kinv_init.
Qed.

Lemma ksteps_head k s1 s2 s3 : kstep k s1 s2 -> ksteps k s2 s3 -> ksteps k s1 s3.
Proof.
  intros H R. induction R as [|a b c R IH S].
  - eapply ksteps_step; [apply ksteps_refl|exact H].
  - eapply ksteps_step; [apply IH; exact H|exact S].
Qed.

(* the state in which the worker holds one read lock and wants the second, while the aggregator's
   Add waits for the write lock *)
Definition nested_deadlock (mask : N) (w1 w2 : workload) (B : nat) : kst :=
  {| base := {| todo := []; pclosed := true; wchan := []; started := true;
                workers := [WBusy (eval_workload mask w2)]; mchan := [eval_workload mask w1];
                mclosed := false; acc := ∅; agg_done := false |};
     kslot := Some (0, KUp 1); readers := 1; wwait := true; writer := false; agg := AWant; budget := B |}.

Lemma nested_reachable c w1 w2 B : c_P c = 1 -> 2 <= c_cap c -> 1 <= c_mcap c ->
  ksteps {| k_c := c; k_nest := 2 |} (kinit [w1; w2] (S B)) (nested_deadlock (c_mask c) w1 w2 B).
Proof.
  intros HP Hc Hm. unfold kinit, init.
  eapply ksteps_head.
  { eapply KLift; [apply (SPush c _ w1 [w2]); cbn; auto; lia|cbn; lia|cbn; discriminate]. }
  cbn [k_c k_nest set_base base kslot readers wwait writer agg budget todo pclosed wchan started workers mchan mclosed acc agg_done app].
  eapply ksteps_head.
  { eapply KLift; [apply (SPush c _ w2 []); cbn; auto; lia|cbn; lia|cbn; discriminate]. }
  cbn [k_c k_nest set_base base kslot readers wwait writer agg budget todo pclosed wchan started workers mchan mclosed acc agg_done app].
  eapply ksteps_head.
  { eapply KLift; [apply SCloseW; cbn; auto|cbn; lia|cbn; discriminate]. }
  cbn [k_c k_nest set_base base kslot readers wwait writer agg budget todo pclosed wchan started workers mchan mclosed acc agg_done app].
  eapply ksteps_head.
  { eapply KLift; [apply SStart; cbn; auto|cbn; lia|cbn; discriminate]. }
  cbn [k_c k_nest set_base base kslot readers wwait writer agg budget todo pclosed wchan started workers mchan mclosed acc agg_done app].
  rewrite HP. cbn [repeat].
  eapply ksteps_head.
  { eapply KLift; [apply (STake c _ [] [] w1 [w2]); cbn; auto|cbn; lia|cbn; discriminate]. }
  cbn [k_c k_nest set_base base kslot readers wwait writer agg budget todo pclosed wchan started workers mchan mclosed acc agg_done app].
  eapply ksteps_head.
  { eapply KLift; [apply (SSend c _ [] [] (eval_workload (c_mask c) w1)); cbn; auto; lia|cbn; lia|cbn; discriminate]. }
  cbn [k_c k_nest set_base base kslot readers wwait writer agg budget todo pclosed wchan started workers mchan mclosed acc agg_done app].
  eapply ksteps_head.
  { eapply KLift; [apply (STake c _ [] [] w2 []); cbn; auto|cbn; lia|cbn; discriminate]. }
  cbn [k_c k_nest set_base base kslot readers wwait writer agg budget todo pclosed wchan started workers mchan mclosed acc agg_done app].
  eapply ksteps_head.
  { eapply (KBegin _ _ [] (eval_workload (c_mask c) w2) [] B); cbn; auto. }
  cbn [k_c k_nest set_lock base kslot readers wwait writer agg budget length].
  eapply ksteps_head.
  { eapply (KRLock _ _ 0 0); cbn; auto. }
  cbn [k_c k_nest set_lock base kslot readers wwait writer agg budget].
  eapply ksteps_head.
  { eapply (KAggReq _ _ (eval_workload (c_mask c) w1) []); cbn; auto. }
  cbn [k_c k_nest base kslot readers wwait writer agg budget].
  apply ksteps_refl.
Qed.

Lemma nested_stuck c w1 w2 B : kstuck {| k_c := c; k_nest := 2 |} (nested_deadlock (c_mask c) w1 w2 B).
Proof.
  intros s' H. unfold nested_deadlock in H.
  inversion H as [s b' S L G|s l1 m l2 b W Sl Bu|s i j Sl Lt Wr Ww|s i n Sl N|s i j Sl|s i Sl|s m t M D A|s A R|s b' A S L];
    subst; cbn in *; try discriminate; try congruence; try lia.
  - (* a step of the work queue: only the send of the worker inside the callback would be possible *)
    specialize (G 0 (KUp 1) eq_refl).
    inversion S; subst; cbn in *; try discriminate; try congruence; try lia;
      repeat match goal with
             | H : [_] = ?l ++ _ :: _ |- _ => destruct l as [|? [|? ?]]; cbn in H; try discriminate
             end; try congruence.
    match goal with H : [_] = _ :: _ |- _ => injection H as ? ?; subst end. cbn in *. lia.
Qed.

Lemma nested_refuted c w1 w2 B : c_P c = 1 -> 2 <= c_cap c -> 1 <= c_mcap c ->
  exists s, ksteps {| k_c := c; k_nest := 2 |} (kinit [w1; w2] (S B)) s
            /\ kstuck {| k_c := c; k_nest := 2 |} s /\ ~ kfinal s.
Proof.
  intros HP Hc Hm. exists (nested_deadlock (c_mask c) w1 w2 B). split; [|split].
  - now apply nested_reachable.
  - apply nested_stuck.
  - unfold kfinal, final. cbn. discriminate.
Qed.
