(* C11 proofs, part D: the executable scheduler used by the correspondence check only produces runs
   of the step relation. *)
From stdpp Require Import gmap.
From Coq Require Import NArith List Bool Lia Arith.
From GoProbe.C11 Require Import Model Corr ProofsA ProofsB.
Import ListNotations.

Lemma replace_each_spec {A} (f : A -> option A) l l' :
  In l' (replace_each f l) -> exists l1 x y l2, l = l1 ++ x :: l2 /\ f x = Some y /\ l' = l1 ++ y :: l2.
Proof.
  revert l'; induction l as [|a t IH]; intros l' H; cbn in H; [contradiction|].
  apply in_app_iff in H. destruct H as [H|H].
  - destruct (f a) as [y|] eqn:E; [|contradiction]. destruct H as [<-|[]].
    exists [], a, y, t. auto.
  - apply in_map_iff in H. destruct H as (l'' & <- & H).
    destruct (IH _ H) as (l1 & x & y & l2 & -> & Hf & ->).
    exists (a :: l1), x, y, l2. auto.
Qed.

Lemma successors_sound c s s' : In s' (successors c s) -> step c s s'.
Proof.
  unfold successors. rewrite !in_app_iff. intros [H|[H|[H|[H|[H|[H|H]]]]]].
  - destruct (todo s) as [|w t] eqn:Et, (pclosed s) eqn:Ep; try contradiction.
    + destruct H as [<-|[]]. now apply SCloseW.
    + destruct (Nat.ltb_spec (length (wchan s)) (c_cap c)); [|contradiction].
      destruct H as [<-|[]]. now apply (SPush c s w t).
  - destruct (pclosed s) eqn:Ep, (started s) eqn:Es; try contradiction.
    destruct H as [<-|[]]. now apply SStart.
  - destruct (wchan s) as [|w t] eqn:Ew.
    + destruct (pclosed s) eqn:Ep; [|contradiction].
      apply in_map_iff in H. destruct H as (ws & <- & H).
      apply replace_each_spec in H. destruct H as (l1 & x & y & l2 & Hw & Hf & ->).
      destruct x; try discriminate. injection Hf as <-. now apply (SExit c s l1 l2).
    + apply in_map_iff in H. destruct H as (ws & <- & H).
      apply replace_each_spec in H. destruct H as (l1 & x & y & l2 & Hw & Hf & ->).
      destruct x; try discriminate. injection Hf as <-. now apply (STake c s l1 l2 w t).
  - destruct (Nat.ltb_spec (length (mchan s)) (c_mcap c)); [|contradiction].
    apply in_flat_map in H. destruct H as (i & _ & H).
    destruct (nth_error (workers s) i) as [[|m|]|] eqn:En; try contradiction.
    destruct H as [<-|[]].
    apply nth_error_split in En. destruct En as (l1 & l2 & Hw & Hl).
    assert (firstn i (workers s) = l1) as ->.
    { rewrite Hw, <- Hl. rewrite firstn_app, Nat.sub_diag, firstn_all. cbn. now rewrite app_nil_r. }
    assert (skipn (S i) (workers s) = l2) as ->.
    { rewrite Hw, <- Hl. rewrite skipn_app, skipn_all2 by lia.
      replace (S (length l1) - length l1) with 1 by lia. reflexivity. }
    now apply (SSend c s l1 l2 m).
  - destruct (mchan s) as [|m t] eqn:Em, (agg_done s) eqn:Ea; try contradiction.
    destruct H as [<-|[]]. now apply (SRecv c s m t).
  - destruct (started s) eqn:Es, (all_done (workers s)) eqn:Ed, (mclosed s) eqn:Em; try contradiction.
    destruct H as [<-|[]]. now apply SCloseM.
  - destruct (mchan s) as [|m t] eqn:Em; [|contradiction].
    destruct (mclosed s) eqn:Ec, (agg_done s) eqn:Ea; try contradiction.
    destruct H as [<-|[]]. now apply SFinish.
Qed.

Lemma steps_trans c s1 s2 s3 : steps c s1 s2 -> steps c s2 s3 -> steps c s1 s3.
Proof. intros H1 H2. induction H2; eauto using steps_step. Qed.

Lemma run_sched_sound c fuel sched : forall rest s m,
  run_sched c fuel sched rest s = Final m -> exists s', steps c s s' /\ final s' /\ acc s' = m.
Proof.
  induction fuel as [|fuel IH]; intros rest s m H; cbn [run_sched] in H; [discriminate|].
  destruct (agg_done s) eqn:Ea.
  - injection H as <-. exists s. split; [apply steps_refl|]. split; [exact Ea|reflexivity].
  - destruct (successors c s) as [|x xs] eqn:Es; [discriminate|].
    match type of H with (let '(_, _) := ?p in _) = _ => destruct p as [ch rest'] end.
    apply IH in H. destruct H as (s' & R & F & A).
    exists s'. split; [|auto].
    eapply steps_trans; [|exact R].
    eapply steps_step; [apply steps_refl|]. apply successors_sound. rewrite Es.
    apply nth_In. apply Nat.mod_upper_bound. cbn. lia.
Qed.

(* a model run that reports Final m is a complete run of the step relation ending with m *)
Lemma run_model_sound capf P lowmem mask days sched m :
  run_model capf P lowmem mask days sched = Final m ->
  exists s, steps (mk_cfg capf P lowmem mask (create_worker_jobs days)) (wq_init days) s /\ final s /\ acc s = m.
Proof. unfold run_model. apply run_sched_sound. Qed.
