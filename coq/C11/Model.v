(* C11 model: the query work queue of goDB (pkg/goDB/DBWorkManager.go, pkg/goDB/engine/query.go,
   pkg/goDB/engine/aggregate.go) as a small-step transition system. Executable definitions and the
   (inductive) step relation only; no proofs.

   Goroutines of one interface of one query, in the order in which RunStatement creates them:
     aggregator   started first (qr.aggregate), receives maps from mapChan (capacity 1024) and merges
     producer     CreateWorkerJobs, run by the calling goroutine TO COMPLETION (it pushes one workload
                  per 32 day directories into workloadChan and closes it) ...
     workers      ... and only then does ExecuteWorkerReadJobs start P workers; each takes a workload,
                  evaluates it to a map, sends the map on mapChan, and exits when workloadChan is
                  closed and drained; when all have exited (wg.Wait) mapChan is closed
   The capacity of workloadChan is a parameter of the model:
     original code     64 * P                              (cap_orig)
     fixed code        max (64 * P) (number of workloads)  (cap_fixed) *)
From stdpp Require Import gmap.
From Coq Require Import NArith List Bool.
Import ListNotations.
Local Open Scope N_scope.

(* ------------------------------------------------------------------ flow maps *)

Definition key := N.
Definition counters := (N * N * N * N)%type.       (* bytes rcvd, bytes sent, packets rcvd, packets sent *)
Definition two64 : N := 18446744073709551616.
Definition add64 (a b : N) : N := (a + b) mod two64. (* Go uint64 addition wraps *)
Definition cadd (a b : counters) : counters :=
  let '(a1, a2, a3, a4) := a in let '(b1, b2, b3, b4) := b in
  (add64 a1 b1, add64 a2 b2, add64 a3 b3, add64 a4 b4).
Notation flowmap := (gmap key counters).

(* hashmap.Map.SetOrUpdate *)
Definition set_or_update (k : key) (c : counters) (m : flowmap) : flowmap :=
  match m !! k with
  | Some old => <[k := cadd old c]> m
  | None => <[k := c]> m
  end.

(* hashmap.Map.Merge: every entry of b is SetOrUpdate'd into a *)
Definition merge_map (a b : flowmap) : flowmap := union_with (fun x y => Some (cadd x y)) a b.

(* ------------------------------------------------------------------ days, workloads *)

(* block index within the day, sip, dip, dport, proto (small table indices / values), counters *)
Definition flow := (N * N * N * N * N * counters)%type.
Definition day := list flow.
Definition workload := list (N * day).              (* (day index, day) *)

Definition enc (t s d dp pr : N) : key := (((t * 256 + s) * 256 + d) * 65536 + dp) * 256 + pr.

(* the key under the query's attribute set: bit 0 time, 1 sip, 2 dip, 3 dport, 4 proto *)
Definition key_of (mask dayidx : N) (f : flow) : key :=
  let '(b, s, d, dp, pr, _) := f in
  enc (if N.testbit mask 0 then dayidx * 288 + b + 1 else 0)
      (if N.testbit mask 1 then s else 0) (if N.testbit mask 2 then d else 0)
      (if N.testbit mask 3 then dp else 0) (if N.testbit mask 4 then pr else 0).
Definition cnt_of (f : flow) : counters := snd f.

(* readBlocksAndEvaluate for one day directory *)
Definition eval_day (mask dayidx : N) (d : day) (m : flowmap) : flowmap :=
  fold_left (fun m f => set_or_update (key_of mask dayidx f) (cnt_of f) m) d m.
(* one worker iteration: a fresh map filled from all day directories of the workload *)
Definition eval_workload (mask : N) (w : workload) : flowmap :=
  fold_left (fun m id => eval_day mask (fst id) (snd id) m) w ∅.

(* CreateWorkerJobs: the bulk grows by one directory at a time; when it has B entries it is pushed
   and reset; a non-empty rest is flushed at the end *)
Fixpoint walk (B : nat) (cur : workload) (idx : N) (days : list day) : list workload :=
  match days with
  | [] => match cur with [] => [] | _ => [cur] end
  | d :: t => let cur' := cur ++ [(idx, d)] in
              if Nat.eqb (length cur') B then cur' :: walk B [] (N.succ idx) t
              else walk B cur' (N.succ idx) t
  end.
Definition work_bulk_size : nat := 32.
Definition create_worker_jobs (days : list day) : list workload := walk work_bulk_size [] 0 days.

(* ------------------------------------------------------------------ the transition system *)

Record cfg := { c_P : nat;            (* numProcessingUnits *)
                c_cap : nat;          (* capacity of workloadChan *)
                c_mcap : nat;         (* capacity of mapChan (1024) *)
                c_lowmem : bool;      (* low-memory mode: decides Clear vs ClearFast of merged items and
                                         whether workers use a memory pool; no transition depends on it *)
                c_mask : N }.

Inductive wstate := WIdle | WBusy (m : flowmap) | WDone.

Record st := { todo : list workload;       (* day directories the producer has not yet pushed, as workloads *)
               pclosed : bool;             (* CreateWorkerJobs returned: workloadChan closed *)
               wchan : list workload;      (* contents of workloadChan, FIFO *)
               started : bool;             (* ExecuteWorkerReadJobs has spawned the workers *)
               workers : list wstate;
               mchan : list flowmap;       (* contents of mapChan, FIFO *)
               mclosed : bool;             (* wg.Wait returned and mapChan was closed *)
               acc : flowmap;              (* the aggregator's finalMap *)
               agg_done : bool }.          (* the aggregate result was pushed: the query ends *)

Definition init (ws : list workload) : st :=
  {| todo := ws; pclosed := false; wchan := []; started := false; workers := []; mchan := [];
     mclosed := false; acc := ∅; agg_done := false |}.

Definition final (s : st) : Prop := agg_done s = true.

(* aggregate: empty items are skipped, others merged *)
Definition agg_recv (a m : flowmap) : flowmap := if (size m =? 0)%nat then a else merge_map a m.

Definition all_done (ws : list wstate) : bool :=
  forallb (fun w => match w with WDone => true | _ => false end) ws.

Inductive step (c : cfg) : st -> st -> Prop :=
| SPush s w t :          (* producer: workloadChan <- workload ; blocks while the channel is full *)
    todo s = w :: t -> pclosed s = false -> (length (wchan s) < c_cap c)%nat ->
    step c s {| todo := t; pclosed := false; wchan := wchan s ++ [w]; started := started s;
                workers := workers s; mchan := mchan s; mclosed := mclosed s; acc := acc s;
                agg_done := agg_done s |}
| SCloseW s :            (* producer: deferred close(workloadChan), CreateWorkerJobs returns *)
    todo s = [] -> pclosed s = false ->
    step c s {| todo := []; pclosed := true; wchan := wchan s; started := started s;
                workers := workers s; mchan := mchan s; mclosed := mclosed s; acc := acc s;
                agg_done := agg_done s |}
| SStart s :             (* ExecuteWorkerReadJobs: only reached after CreateWorkerJobs has returned *)
    pclosed s = true -> started s = false ->
    step c s {| todo := todo s; pclosed := true; wchan := wchan s; started := true;
                workers := repeat WIdle (c_P c); mchan := mchan s; mclosed := mclosed s; acc := acc s;
                agg_done := agg_done s |}
| STake s l1 l2 w t :    (* a worker receives a workload and evaluates it *)
    workers s = l1 ++ WIdle :: l2 -> wchan s = w :: t ->
    step c s {| todo := todo s; pclosed := pclosed s; wchan := t; started := started s;
                workers := l1 ++ WBusy (eval_workload (c_mask c) w) :: l2; mchan := mchan s;
                mclosed := mclosed s; acc := acc s; agg_done := agg_done s |}
| SExit s l1 l2 :        (* range over the closed, drained workloadChan ends: wg.Done *)
    workers s = l1 ++ WIdle :: l2 -> wchan s = [] -> pclosed s = true ->
    step c s {| todo := todo s; pclosed := true; wchan := []; started := started s;
                workers := l1 ++ WDone :: l2; mchan := mchan s; mclosed := mclosed s; acc := acc s;
                agg_done := agg_done s |}
| SSend s l1 l2 m :      (* mapChan <- resultMap ; blocks while mapChan is full *)
    workers s = l1 ++ WBusy m :: l2 -> (length (mchan s) < c_mcap c)%nat ->
    step c s {| todo := todo s; pclosed := pclosed s; wchan := wchan s; started := started s;
                workers := l1 ++ WIdle :: l2; mchan := mchan s ++ [m]; mclosed := mclosed s;
                acc := acc s; agg_done := agg_done s |}
| SRecv s m t :          (* aggregator: for item := range mapChan *)
    mchan s = m :: t -> agg_done s = false ->
    step c s {| todo := todo s; pclosed := pclosed s; wchan := wchan s; started := started s;
                workers := workers s; mchan := t; mclosed := mclosed s; acc := agg_recv (acc s) m;
                agg_done := false |}
| SCloseM s :            (* wg.Wait returns, RunStatement closes mapChan *)
    started s = true -> all_done (workers s) = true -> mclosed s = false ->
    step c s {| todo := todo s; pclosed := pclosed s; wchan := wchan s; started := true;
                workers := workers s; mchan := mchan s; mclosed := true; acc := acc s;
                agg_done := agg_done s |}
| SFinish s :            (* aggregator: mapChan closed and drained: push the result *)
    mclosed s = true -> mchan s = [] -> agg_done s = false ->
    step c s {| todo := todo s; pclosed := pclosed s; wchan := wchan s; started := started s;
                workers := workers s; mchan := []; mclosed := true; acc := acc s; agg_done := true |}.

Inductive steps (c : cfg) : st -> st -> Prop :=
| steps_refl s : steps c s s
| steps_step s1 s2 s3 : steps c s1 s2 -> step c s2 s3 -> steps c s1 s3.

Definition stuck (c : cfg) (s : st) : Prop := forall s', ~ step c s s'.

(* "every run reaches the final state": the final state is inevitable *)
Inductive inevitably_final (c : cfg) : st -> Prop :=
| IF_final s : final s -> inevitably_final c s
| IF_step s : (exists s', step c s s') -> (forall s', step c s s' -> inevitably_final c s') ->
              inevitably_final c s.

(* the two capacities *)
Definition cap_orig (P n : nat) : nat := 64 * P.
Definition cap_fixed (P n : nat) : nat := Nat.max (64 * P) n.
Definition mk_cfg (capf : nat -> nat -> nat) (P : nat) (lowmem : bool) (mask : N) (ws : list workload) : cfg :=
  {| c_P := P; c_cap := capf P (length ws); c_mcap := 1024; c_lowmem := lowmem; c_mask := mask |}.

(* the system of the (fixed) code for a list of day directories *)
Definition wq_cfg (P : nat) (lowmem : bool) (mask : N) (days : list day) : cfg :=
  mk_cfg cap_fixed P lowmem mask (create_worker_jobs days).
Definition wq_cfg_orig (P : nat) (lowmem : bool) (mask : N) (days : list day) : cfg :=
  mk_cfg cap_orig P lowmem mask (create_worker_jobs days).
Definition wq_init (days : list day) : st := init (create_worker_jobs days).

(* specification of the result: every flow of every day added into one map, in day order *)
Definition spec_result (mask : N) (days : list day) : flowmap :=
  fold_left merge_map (map (eval_workload mask) (create_worker_jobs days)) ∅.

(* ------------------------------------------------------------------ an executable scheduler *)

(* all ways to replace one element of a list that satisfies f *)
Fixpoint replace_each {A} (f : A -> option A) (l : list A) : list (list A) :=
  match l with
  | [] => []
  | x :: t => (match f x with Some y => [y :: t] | None => [] end) ++ map (cons x) (replace_each f t)
  end.

Definition set_workers (s : st) (ws : list wstate) : st :=
  {| todo := todo s; pclosed := pclosed s; wchan := wchan s; started := started s; workers := ws;
     mchan := mchan s; mclosed := mclosed s; acc := acc s; agg_done := agg_done s |}.

(* the successors of a state, in a fixed order *)
Definition successors (c : cfg) (s : st) : list st :=
  (match todo s, pclosed s with
   | w :: t, false => if (length (wchan s) <? c_cap c)%nat then
       [{| todo := t; pclosed := false; wchan := wchan s ++ [w]; started := started s; workers := workers s;
           mchan := mchan s; mclosed := mclosed s; acc := acc s; agg_done := agg_done s |}] else []
   | [], false => [{| todo := []; pclosed := true; wchan := wchan s; started := started s; workers := workers s;
           mchan := mchan s; mclosed := mclosed s; acc := acc s; agg_done := agg_done s |}]
   | _, true => []
   end) ++
  (if pclosed s && negb (started s) then
     [{| todo := todo s; pclosed := true; wchan := wchan s; started := true; workers := repeat WIdle (c_P c);
         mchan := mchan s; mclosed := mclosed s; acc := acc s; agg_done := agg_done s |}] else []) ++
  (match wchan s with
   | w :: t => map (fun ws => {| todo := todo s; pclosed := pclosed s; wchan := t; started := started s;
                                 workers := ws; mchan := mchan s; mclosed := mclosed s; acc := acc s;
                                 agg_done := agg_done s |})
                   (replace_each (fun x => match x with WIdle => Some (WBusy (eval_workload (c_mask c) w)) | _ => None end)
                                 (workers s))
   | [] => if pclosed s then
             map (fun ws => {| todo := todo s; pclosed := true; wchan := []; started := started s; workers := ws;
                               mchan := mchan s; mclosed := mclosed s; acc := acc s; agg_done := agg_done s |})
                 (replace_each (fun x => match x with WIdle => Some WDone | _ => None end) (workers s))
           else []
   end) ++
  (if (length (mchan s) <? c_mcap c)%nat then
     flat_map (fun i => match nth_error (workers s) i with
                        | Some (WBusy m) =>
                          [{| todo := todo s; pclosed := pclosed s; wchan := wchan s; started := started s;
                              workers := firstn i (workers s) ++ WIdle :: skipn (S i) (workers s);
                              mchan := mchan s ++ [m]; mclosed := mclosed s; acc := acc s; agg_done := agg_done s |}]
                        | _ => [] end) (seq 0 (length (workers s)))
   else []) ++
  (match mchan s, agg_done s with
   | m :: t, false => [{| todo := todo s; pclosed := pclosed s; wchan := wchan s; started := started s;
                          workers := workers s; mchan := t; mclosed := mclosed s; acc := agg_recv (acc s) m;
                          agg_done := false |}]
   | _, _ => []
   end) ++
  (if started s && all_done (workers s) && negb (mclosed s) then
     [{| todo := todo s; pclosed := pclosed s; wchan := wchan s; started := true; workers := workers s;
         mchan := mchan s; mclosed := true; acc := acc s; agg_done := agg_done s |}] else []) ++
  (match mchan s with
   | [] => if mclosed s && negb (agg_done s) then
             [{| todo := todo s; pclosed := pclosed s; wchan := wchan s; started := started s; workers := workers s;
                 mchan := []; mclosed := true; acc := acc s; agg_done := true |}] else []
   | _ => []
   end).

Inductive outcome := Final (m : flowmap) | Stuck | OutOfFuel.

(* run under the schedule given by a (cyclically used) list of choices *)
Fixpoint run_sched (c : cfg) (fuel : nat) (sched rest : list N) (s : st) : outcome :=
  match fuel with
  | O => OutOfFuel
  | S fuel' =>
    if agg_done s then Final (acc s) else
    match successors c s with
    | [] => Stuck
    | x :: xs =>
      let '(ch, rest') := match rest with [] => (match sched with [] => (0, []) | a :: r => (a, r) end)
                                        | a :: r => (a, r) end in
      run_sched c fuel' sched rest' (nth (N.to_nat ch mod length (x :: xs)) (x :: xs) x)
    end
  end.

(* number of steps of every complete run is 4 n + P + 4 *)
Definition run_model (capf : nat -> nat -> nat) (P : nat) (lowmem : bool) (mask : N) (days : list day)
           (sched : list N) : outcome :=
  let ws := create_worker_jobs days in
  run_sched (mk_cfg capf P lowmem mask ws) (4 * length ws + P + 6) sched sched (init ws).
