(* C14 model: the comparators that order result rows and the row limit.
   Go sources: pkg/results/sort.go (By and its closures), pkg/results/result.go (Row.Less,
   Labels.Less, Attributes.Less), pkg/query/query.go (PostProcess truncation),
   cmd/global-query/pkg/distributed/query.go (finalizeResult: sort, PostProcess, min(limit, bound)).
   Executable definitions only.

   The model describes the code AFTER the fix commit "fix: order rows by instant and break label
   ties on the host id" (Labels.Less).  The comparator of the unfixed code is kept as
   [labels_less_v0] / [by_v0] so that the defect is a Coq fact too (Proofs.v, the v0_refuted lemmas). *)
From Coq Require Import List ZArith NArith String Ascii Bool.
From GoProbe.Base Require Import CorrLib.
Import ListNotations.
Open Scope N_scope.

(* ---- values ------------------------------------------------------------------------- *)

(* time.Time: [inst] = nanoseconds since the Unix epoch (Before/After/Equal look at nothing else);
   [zone] = identity of the rest of the representation (the *Location pointer, monotonic bit):
   Go's == / != on time.Time values is equality of BOTH fields. *)
Record tstamp := { inst : Z; zone : Z }.

(* netip.Addr: the zero Addr, an IPv4 address (32-bit value), an IPv6 address (128-bit value, zone).
   Go's == on Addr is structural equality of this type (::ffff:1.2.3.4 and 1.2.3.4 differ). *)
Inductive addr := ANone | A4 (v : N) | A6 (v : N) (z : string).

Record labels := { l_ts : tstamp; l_iface : string; l_host : string; l_hostid : string }.
Record attrs := { a_sip : addr; a_dip : addr; a_proto : N; a_dport : N }.
Record counters := { c_br : N; c_bs : N; c_pr : N; c_ps : N }.   (* uint64 each *)
Record row := { r_labels : labels; r_attrs : attrs; r_counters : counters }.

(* compact constructor used by the generated cases *)
Definition R (i z : Z) (host hostid iface : string) (sip dip : addr) (proto dport br bs pr ps : N) : row :=
  {| r_labels := {| l_ts := {| inst := i; zone := z |}; l_iface := iface; l_host := host; l_hostid := hostid |};
     r_attrs := {| a_sip := sip; a_dip := dip; a_proto := proto; a_dport := dport |};
     r_counters := {| c_br := br; c_bs := bs; c_pr := pr; c_ps := ps |} |}.

(* ---- time.Time ------------------------------------------------------------------------ *)
Definition t_equal (a b : tstamp) : bool := Z.eqb (inst a) (inst b).          (* a.Equal(b)  *)
Definition t_before (a b : tstamp) : bool := Z.ltb (inst a) (inst b).         (* a.Before(b) *)
Definition t_after (a b : tstamp) : bool := Z.ltb (inst b) (inst a).          (* a.After(b)  *)
Definition t_eqeq (a b : tstamp) : bool := Z.eqb (inst a) (inst b) && Z.eqb (zone a) (zone b).  (* a == b *)

(* ---- netip.Addr ------------------------------------------------------------------------ *)
Definition addr_bits (a : addr) : N := match a with ANone => 0 | A4 _ => 32 | A6 _ _ => 128 end.
Definition addr_val (a : addr) : N := match a with ANone => 0 | A4 v => v | A6 v _ => v end.
Definition addr_zone (a : addr) : string := match a with A6 _ z => z | _ => EmptyString end.
Definition addr_is6 (a : addr) : bool := match a with A6 _ _ => true | _ => false end.

Definition addr_eqb (a b : addr) : bool :=
  match a, b with
  | ANone, ANone => true
  | A4 x, A4 y => N.eqb x y
  | A6 x z, A6 y w => N.eqb x y && String.eqb z w
  | _, _ => false
  end.

(* Addr.Compare: bit length, then the 128-bit value (hi, lo), then the zone for IPv6 *)
Definition addr_compare (a b : addr) : comparison :=
  if addr_bits a <? addr_bits b then Lt else if addr_bits b <? addr_bits a then Gt
  else if addr_val a <? addr_val b then Lt else if addr_val b <? addr_val a then Gt
  else if addr_is6 a then
         (if String.ltb (addr_zone a) (addr_zone b) then Lt
          else if String.ltb (addr_zone b) (addr_zone a) then Gt else Eq)
       else Eq.
Definition addr_less (a b : addr) : bool := match addr_compare a b with Lt => true | _ => false end.

(* ---- Attributes.Less / Labels.Less / Row.Less ------------------------------------------- *)
Definition attrs_eqb (a b : attrs) : bool :=
  addr_eqb (a_sip a) (a_sip b) && addr_eqb (a_dip a) (a_dip b) && N.eqb (a_proto a) (a_proto b)
  && N.eqb (a_dport a) (a_dport b).

Definition attrs_less (a a2 : attrs) : bool :=
  if negb (addr_eqb (a_sip a) (a_sip a2)) then addr_less (a_sip a) (a_sip a2)
  else if negb (addr_eqb (a_dip a) (a_dip a2)) then addr_less (a_dip a) (a_dip a2)
  else if negb (N.eqb (a_proto a) (a_proto a2)) then N.ltb (a_proto a) (a_proto a2)
  else N.ltb (a_dport a) (a_dport a2).

(* fixed code: instants compared with Equal/Before, ties broken on host name, host id, interface *)
Definition labels_less (l l2 : labels) : bool :=
  if negb (t_equal (l_ts l) (l_ts l2)) then t_before (l_ts l) (l_ts l2)
  else if negb (String.eqb (l_host l) (l_host l2)) then String.ltb (l_host l) (l_host l2)
  else if negb (String.eqb (l_hostid l) (l_hostid l2)) then String.ltb (l_hostid l) (l_hostid l2)
  else String.ltb (l_iface l) (l_iface l2).

(* unfixed code: `l.Timestamp != l2.Timestamp` (zone-sensitive) and no host id *)
Definition labels_less_v0 (l l2 : labels) : bool :=
  if negb (t_eqeq (l_ts l) (l_ts l2)) then t_before (l_ts l) (l_ts l2)
  else if negb (String.eqb (l_host l) (l_host l2)) then String.ltb (l_host l) (l_host l2)
  else String.ltb (l_iface l) (l_iface l2).

Definition row_less_with (lless : labels -> labels -> bool) (r r2 : row) : bool :=
  if attrs_eqb (r_attrs r) (r_attrs r2) then lless (r_labels r) (r_labels r2)
  else attrs_less (r_attrs r) (r_attrs r2).
Definition row_less := row_less_with labels_less.

(* ---- results.By --------------------------------------------------------------------------- *)
Definition add64 (a b : N) : N := (a + b) mod 18446744073709551616.

Definition pk_sum (r : row) : N := add64 (c_ps (r_counters r)) (c_pr (r_counters r)).
Definition pk_in (r : row) : N := c_pr (r_counters r).
Definition pk_out (r : row) : N := c_ps (r_counters r).
Definition by_sum (r : row) : N := add64 (c_bs (r_counters r)) (c_br (r_counters r)).
Definition by_in (r : row) : N := c_br (r_counters r).
Definition by_out (r : row) : N := c_bs (r_counters r).

(* the counter closures: equal sort values fall back to Row.Less (arguments swapped when descending) *)
Definition cmp_counter (rless : row -> row -> bool) (asc : bool) (v : row -> N) : row -> row -> bool :=
  if asc then fun e1 e2 => if N.eqb (v e1) (v e2) then rless e1 e2 else N.ltb (v e1) (v e2)
  else fun e1 e2 => if N.eqb (v e1) (v e2) then rless e2 e1 else N.ltb (v e2) (v e1).

Definition cmp_time (rless : row -> row -> bool) (asc : bool) : row -> row -> bool :=
  if asc then fun e1 e2 => if t_equal (l_ts (r_labels e1)) (l_ts (r_labels e2)) then rless e1 e2
                           else t_before (l_ts (r_labels e1)) (l_ts (r_labels e2))
  else fun e1 e2 => if t_equal (l_ts (r_labels e1)) (l_ts (r_labels e2)) then rless e2 e1
                    else t_after (l_ts (r_labels e1)) (l_ts (r_labels e2)).

(* sort order: 1 packets, 2 bytes, 3 time; direction: 1 sum, 2 in, 3 out, 4 both; anything else panics *)
Definition by_with (rless : row -> row -> bool) (k d : Z) (asc : bool) : res (row -> row -> bool) :=
  (if k =? 1 then
     if (d =? 4) || (d =? 1) then Ok (cmp_counter rless asc pk_sum)
     else if d =? 2 then Ok (cmp_counter rless asc pk_in)
     else if d =? 3 then Ok (cmp_counter rless asc pk_out)
     else Panic
   else if k =? 2 then
     if (d =? 4) || (d =? 1) then Ok (cmp_counter rless asc by_sum)
     else if d =? 2 then Ok (cmp_counter rless asc by_in)
     else if d =? 3 then Ok (cmp_counter rless asc by_out)
     else Panic
   else if k =? 3 then Ok (cmp_time rless asc)
   else Panic)%Z.
Definition by_ := by_with row_less.
Definition by_v0 := by_with (row_less_with labels_less_v0).

(* ---- sorting: the reference algorithm (insertion sort); Go uses pdqsort, see c14_unique_order --- *)
Fixpoint insert (lt : row -> row -> bool) (x : row) (l : list row) : list row :=
  match l with
  | [] => [x]
  | y :: t => if lt y x then y :: insert lt x t else x :: y :: t
  end.
Definition sort_rows (lt : row -> row -> bool) (l : list row) : list row := fold_right (insert lt) [] l.

(* ---- the row limit -------------------------------------------------------------------------- *)
(* PostProcess: if s.NumResults != 0 && s.NumResults < len(rows) { rows = rows[:s.NumResults] } *)
Definition limit_pp (n : N) (l : list row) : list row :=
  if negb (n =? 0) && (n <? N.of_nat (List.length l)) then firstn (N.to_nat n) l else l.
(* finalizeResult: PostProcess, then limit := min(NumResults, bound); if limit < len(rows) { rows[:limit] } *)
Definition limit_fin (n bound : N) (l : list row) : list row :=
  let l1 := limit_pp n l in
  let m := N.min n bound in
  if m <? N.of_nat (List.length l1) then firstn (N.to_nat m) l1 else l1.

(* ---- time binning inside PostProcess (pkg/results/time_bin.go), restated from the C13 model ----- *)
(* Go's == on Labels / MergeableAttributes: timestamps with their zone, strings, addresses *)
Definition labels_eqb (a b : labels) : bool :=
  t_eqeq (l_ts a) (l_ts b) && String.eqb (l_iface a) (l_iface b) && String.eqb (l_host a) (l_host b)
  && String.eqb (l_hostid a) (l_hostid b).
Definition gokey_eqb (a b : row) : bool :=
  labels_eqb (r_labels a) (r_labels b) && attrs_eqb (r_attrs a) (r_attrs b).

Definition ns_per_s : Z := 1000000000.
Definition five_min_ns : Z := 300000000000.                 (* types.DefaultTimeResolution *)
Definition zero_inst : Z := (-62135596800000000000)%Z.       (* time.Time{} : IsZero *)
Definition zone_local : Z := 100.                            (* time.Unix(..) carries time.Local *)

(* BinTimestamp(ts, binSize) with s = int64(binSize.Seconds()); Go's % truncates (Z.rem).
   int64 overflow is not modelled (|ts| + s < 2^63 in every run). *)
Definition bin_sec (ts s : Z) : Z :=
  (if s <=? 0 then ts else
   let r := Z.rem ts s in
   if r =? 0 then ts else if r <? 0 then ts - r else (ts - r) + s)%Z.

(* loop body of BinTime: rows with a zero timestamp keep it, all others get time.Unix(bin, 0) *)
Definition bin_row (size_ns : Z) (r : row) : row :=
  let t := l_ts (r_labels r) in
  if Z.eqb (inst t) zero_inst then r
  else
    let sec := Z.div (inst t) ns_per_s in                    (* Timestamp.Unix() *)
    let b := bin_sec sec (Z.quot size_ns ns_per_s) in
    {| r_labels := {| l_ts := {| inst := Z.mul b ns_per_s; zone := zone_local |};
                      l_iface := l_iface (r_labels r); l_host := l_host (r_labels r);
                      l_hostid := l_hostid (r_labels r) |};
       r_attrs := r_attrs r; r_counters := r_counters r |}.

Definition cadd (a b : counters) : counters :=               (* Counters.Add: uint64 += *)
  {| c_br := add64 (c_br a) (c_br b); c_bs := add64 (c_bs a) (c_bs b);
     c_pr := add64 (c_pr a) (c_pr b); c_ps := add64 (c_ps a) (c_ps b) |}.

(* RowsMap.MergeRow; the Go map as a list in first-insertion order (its iteration order is random,
   the sort that follows makes the order irrelevant: c14_order_independent) *)
Fixpoint merge_row (x : row) (m : list row) : list row :=
  match m with
  | [] => [x]
  | y :: t => if gokey_eqb y x
              then {| r_labels := r_labels y; r_attrs := r_attrs y;
                      r_counters := cadd (r_counters y) (r_counters x) |} :: t
              else y :: merge_row x t
  end.
Definition merge_rows (l : list row) : list row := fold_left (fun m x => merge_row x m) l [].

(* TimeBinner.BinTime: merge the binned rows, then ToRowsSortedTo(By(SortTime, DirectionSum, true)) *)
Definition rebin (size_ns : Z) (l : list row) : list row :=
  sort_rows (cmp_time row_less true) (merge_rows (map (bin_row size_ns) l)).

(* the rows the limit is applied to. [tb] = Some TimeBinSize when the statement selects the time label
   (LabelSelector.Timestamp), None otherwise; binning runs unless the size is the default 5 minutes *)
Definition stage (tb : option Z) (s : list row) : list row :=
  match tb with
  | Some size => if Z.eqb size five_min_ns then s else rebin size s
  | None => s
  end.

(* ---- the two pipelines that are observed ------------------------------------------------------ *)
(* results.By(k, d, asc).Sort(rows), then Statement.PostProcess *)
Definition run_sort (k d : Z) (asc : bool) (l : list row) : res (list row) :=
  match by_ k d asc with Ok less => Ok (sort_rows less l) | _ => Panic end.
Definition run_pp (k d : Z) (asc : bool) (tb : option Z) (n : N) (l : list row) : res (list row) :=
  match run_sort k d asc l with Ok s => Ok (limit_pp n (stage tb s)) | _ => Panic end.
(* finalizeResult: nothing happens for an empty row map (By is not even called) *)
Definition run_fin (k d : Z) (asc : bool) (tb : option Z) (n bound : N) (l : list row) : res (list row) :=
  match l with
  | [] => Ok []
  | _ => match run_sort k d asc l with Ok s => Ok (limit_fin n bound (stage tb s)) | _ => Panic end
  end.

(* ---- the identity of a row for ordering purposes: attributes and labels, the timestamp as an instant *)
Definition lkey (l : labels) : Z * (string * (string * string)) :=
  (inst (l_ts l), (l_host l, (l_hostid l, l_iface l))).
Definition row_key (r : row) : attrs * (Z * (string * (string * string))) := (r_attrs r, lkey (r_labels r)).
