(* C14 correspondence: case type, corr (model output = observed output) and holds (the observed
   outputs satisfy the specification: one output whatever the input order, a permutation of the input,
   ordered by the selected primary value, and the limited output is the prefix of the right length). *)
From Coq Require Import List ZArith NArith String Bool.
From GoProbe.Base Require Import CorrLib.
From GoProbe.C14 Require Import Model.
Import ListNotations.
Open Scope N_scope.

Record case := Case {
  ck : Z; cd : Z; casc : bool;          (* results.SortOrder, types.Direction, ascending *)
  ctb : option Z;                       (* Some TimeBinSize (ns) if the statement selects the time label *)
  climit : N;                           (* Statement.NumResults *)
  cbound : option N;                    (* None: By(..).Sort + Statement.PostProcess;
                                           Some b: distributed finalizeResult (RowsMap, bound b) *)
  crows : list row;                     (* the multiset, in its base order *)
  cextra : list row;                    (* rows seen in an output that are not input rows (re-binned rows);
                                           indices address crows ++ cextra *)
  cfull : list (res (list N));          (* DISTINCT observed outputs of By(..).Sort over every tried input
                                           order, as indices; Panic if By/Sort panicked *)
  clim : list (res (list N * N)) }.     (* DISTINCT observed final (rows, Hits.Displayed) *)

(* ---- equality of observables *)
Definition counters_eqb (a b : counters) : bool :=
  N.eqb (c_br a) (c_br b) && N.eqb (c_bs a) (c_bs b) && N.eqb (c_pr a) (c_pr b) && N.eqb (c_ps a) (c_ps b).
Definition row_eqb (a b : row) : bool :=
  labels_eqb (r_labels a) (r_labels b) && attrs_eqb (r_attrs a) (r_attrs b)
  && counters_eqb (r_counters a) (r_counters b).
Fixpoint rows_eqb (a b : list row) : bool :=
  match a, b with
  | [], [] => true
  | x :: s, y :: t => row_eqb x y && rows_eqb s t
  | _, _ => false
  end.

Fixpoint pick (rows : list row) (idx : list N) : option (list row) :=
  match idx with
  | [] => Some []
  | i :: t => match nth_error rows (N.to_nat i), pick rows t with
              | Some r, Some l => Some (r :: l)
              | _, _ => None
              end
  end.

Definition nonempty {A} (l : list A) : bool := match l with [] => false | _ => true end.

(* every observed output equals the expected result *)
Definition all_equal {A} (proj : A -> list N) (extra : A -> res (list row) -> bool)
    (rows : list row) (expect : res (list row)) (outs : list (res A)) : bool :=
  nonempty outs &&
  forallb (fun o => match o, expect with
                    | Ok a, Ok e => match pick rows (proj a) with Some l => rows_eqb l e | None => false end
                                    && extra a expect
                    | Panic, Panic => true
                    | _, _ => false end) outs.

Definition pool (c : case) : list row := crows c ++ cextra c.

(* does the model still describe the code? *)
Definition corr (c : case) : bool :=
  all_equal (fun a => a) (fun _ _ => true) (pool c) (run_sort (ck c) (cd c) (casc c) (crows c)) (cfull c)
  && all_equal fst
       (fun a e => match e with Ok l => N.eqb (snd a) (N.of_nat (List.length l)) | _ => true end)
       (pool c)
       (match cbound c with
        | None => run_pp (ck c) (cd c) (casc c) (ctb c) (climit c) (crows c)
        | Some b => run_fin (ck c) (cd c) (casc c) (ctb c) (climit c) b (crows c) end) (clim c).

(* ---- the specification, written against the record fields only (no comparator of the model) *)
Definition valid_order (k d : Z) : bool :=
  (((k =? 1) || (k =? 2)) && (1 <=? d) && (d <=? 4) || (k =? 3))%Z.

(* the value the rows are primarily ordered by (counter sums are uint64 sums) *)
Definition primary (k d : Z) (r : row) : Z :=
  if (k =? 3)%Z then inst (l_ts (r_labels r))
  else
    let c := r_counters r in
    let rcvd := if (k =? 1)%Z then c_pr c else c_br c in
    let sent := if (k =? 1)%Z then c_ps c else c_bs c in
    Z.of_N (if (d =? 2)%Z then rcvd else if (d =? 3)%Z then sent else (rcvd + sent) mod 2 ^ 64).

Fixpoint primary_sorted (k d : Z) (asc : bool) (l : list row) : bool :=
  match l with
  | x :: ((y :: _) as t) =>
    (if asc then (primary k d x <=? primary k d y)%Z else (primary k d y <=? primary k d x)%Z)
    && primary_sorted k d asc t
  | _ => true
  end.

Definition is_perm_of_range (n : nat) (f : list N) : bool :=
  Nat.eqb (List.length f) n && forallb (fun i => existsb (N.eqb (N.of_nat i)) f) (seq 0 n).

Fixpoint is_prefix (a b : list N) : bool :=
  match a, b with
  | [], _ => true
  | x :: s, y :: t => N.eqb x y && is_prefix s t
  | _, _ => false
  end.

(* ---- specification of the re-binned result: one row per (bin end, labels, attributes) group with the
   counters summed, ordered by time; written with the ceiling formula, independently of Model.bin_sec *)
Definition spec_bin (size_ns : Z) (r : row) : row :=
  let t := l_ts (r_labels r) in
  if (inst t =? zero_inst)%Z then r
  else
    let s := (size_ns / 1000000000)%Z in
    let sec := (inst t / 1000000000)%Z in
    let b := if (s <=? 0)%Z then sec else ((sec + s - 1) / s * s)%Z in
    {| r_labels := {| l_ts := {| inst := (b * 1000000000)%Z; zone := 100 |}; l_iface := l_iface (r_labels r);
                      l_host := l_host (r_labels r); l_hostid := l_hostid (r_labels r) |};
       r_attrs := r_attrs r; r_counters := r_counters r |}.

Definition sum64 (f : counters -> N) (l : list row) : N :=
  fold_right (fun r acc => (f (r_counters r) + acc) mod 2 ^ 64) 0 l.

Fixpoint distinct_groups (l : list row) : list row :=
  match l with
  | [] => []
  | x :: t => let d := distinct_groups t in if existsb (gokey_eqb x) d then d else x :: d
  end.

Fixpoint pairwise_distinct (l : list row) : bool :=
  match l with
  | [] => true
  | x :: t => negb (existsb (gokey_eqb x) t) && pairwise_distinct t
  end.

Definition binned_ok (c : case) (size : Z) (out : list row) : bool :=
  let sb := map (spec_bin size) (crows c) in
  let g := N.of_nat (List.length (distinct_groups sb)) in
  let lim := match cbound c with None => climit c | Some b => N.min (climit c) b end in
  primary_sorted 3 1 true out                                  (* ordered by time *)
  && pairwise_distinct out                                     (* one row per group *)
  && forallb (fun o =>                                         (* ... carrying the sum of its group *)
       let members := filter (gokey_eqb o) sb in
       nonempty members
       && N.eqb (c_br (r_counters o)) (sum64 c_br members) && N.eqb (c_bs (r_counters o)) (sum64 c_bs members)
       && N.eqb (c_pr (r_counters o)) (sum64 c_pr members) && N.eqb (c_ps (r_counters o)) (sum64 c_ps members)) out
  && (if climit c =? 0
      then match cbound c with None => N.of_nat (List.length out) =? g | Some _ => true end
      else N.of_nat (List.length out) =? N.min lim g)        (* the first `limit` groups *)
  && match rev out with                                        (* no dropped group is earlier than a kept one *)
     | [] => true
     | last :: _ =>
       forallb (fun r => existsb (gokey_eqb r) out
                         || (inst (l_ts (r_labels last)) <=? inst (l_ts (r_labels r)))%Z) sb
     end.

(* does the observed behaviour satisfy the property? *)
Definition holds (c : case) : bool :=
  if valid_order (ck c) (cd c) then
    match cfull c, clim c with
    | [Ok f], [Ok (l, disp)] =>                            (* ONE output over all input orders *)
      let n := List.length (crows c) in
      is_perm_of_range n f                                 (* the same rows *)
      && match pick (crows c) f with
         | Some rs => primary_sorted (ck c) (cd c) (casc c) rs   (* in the selected order *)
         | None => false end
      && (disp =? N.of_nat (List.length l))                (* Hits.Displayed = rows returned *)
      && (if match ctb c with Some size => negb (size =? five_min_ns)%Z | None => false end
          then                                             (* re-binned: first rows of the sorted groups *)
            match ctb c, pick (pool c) l with
            | Some size, Some out => binned_ok c size out
            | _, _ => false
            end
          else
            is_prefix l f                                  (* the limit keeps the first rows *)
            && (if climit c =? 0 then true
                else N.of_nat (List.length l) =?
                     N.min (match cbound c with None => climit c | Some b => N.min (climit c) b end) (N.of_nat n)))
    | _, _ => false
    end
  else true.
