(* C14 correspondence: case type, corr (model output = observed output) and holds (the observed
   outputs satisfy the specification: one output whatever the input order, a permutation of the input,
   ordered by the selected primary value, and the limited output is the prefix of the right length). *)
From Coq Require Import List ZArith NArith String Bool.
From GoProbe.Base Require Import CorrLib.
From GoProbe.C14 Require Import Model.
Import ListNotations.
Open Scope N_scope.

Record case := Case {
  ck : Z; cd : Z; casc : bool;          (* results.SortOrder, types.Direction, ascending *)
  climit : N;                           (* Statement.NumResults *)
  cbound : option N;                    (* None: By(..).Sort + Statement.PostProcess;
                                           Some b: distributed finalizeResult (RowsMap, bound b) *)
  crows : list row;                     (* the multiset, in its base order *)
  cfull : list (res (list N));          (* DISTINCT observed outputs of By(..).Sort over every tried input
                                           order, as indices into crows; Panic if By/Sort panicked *)
  clim : list (res (list N)) }.         (* DISTINCT observed outputs after the limit *)

(* ---- equality of observables *)
Definition tstamp_eqb (a b : tstamp) : bool := Z.eqb (inst a) (inst b) && Z.eqb (zone a) (zone b).
Definition labels_eqb (a b : labels) : bool :=
  tstamp_eqb (l_ts a) (l_ts b) && String.eqb (l_iface a) (l_iface b) && String.eqb (l_host a) (l_host b)
  && String.eqb (l_hostid a) (l_hostid b).
Definition counters_eqb (a b : counters) : bool :=
  N.eqb (c_br a) (c_br b) && N.eqb (c_bs a) (c_bs b) && N.eqb (c_pr a) (c_pr b) && N.eqb (c_ps a) (c_ps b).
Definition row_eqb (a b : row) : bool :=
  labels_eqb (r_labels a) (r_labels b) && attrs_eqb (r_attrs a) (r_attrs b)
  && counters_eqb (r_counters a) (r_counters b).
Fixpoint rows_eqb (a b : list row) : bool :=
  match a, b with
  | [], [] => true
  | x :: s, y :: t => row_eqb x y && rows_eqb s t
  | _, _ => false
  end.

Fixpoint pick (rows : list row) (idx : list N) : option (list row) :=
  match idx with
  | [] => Some []
  | i :: t => match nth_error rows (N.to_nat i), pick rows t with
              | Some r, Some l => Some (r :: l)
              | _, _ => None
              end
  end.

Definition nonempty {A} (l : list A) : bool := match l with [] => false | _ => true end.

(* every observed output equals the expected result *)
Definition all_equal (rows : list row) (expect : res (list row)) (outs : list (res (list N))) : bool :=
  nonempty outs &&
  forallb (fun o => match o, expect with
                    | Ok idx, Ok e => match pick rows idx with Some l => rows_eqb l e | None => false end
                    | Panic, Panic => true
                    | _, _ => false end) outs.

(* does the model still describe the code? *)
Definition corr (c : case) : bool :=
  all_equal (crows c) (run_sort (ck c) (cd c) (casc c) (crows c)) (cfull c)
  && all_equal (crows c)
       (match cbound c with
        | None => run_pp (ck c) (cd c) (casc c) (climit c) (crows c)
        | Some b => run_fin (ck c) (cd c) (casc c) (climit c) b (crows c) end) (clim c).

(* ---- the specification, written against the record fields only (no comparator of the model) *)
Definition valid_order (k d : Z) : bool :=
  (((k =? 1) || (k =? 2)) && (1 <=? d) && (d <=? 4) || (k =? 3))%Z.

(* the value the rows are primarily ordered by (counter sums are uint64 sums) *)
Definition primary (k d : Z) (r : row) : Z :=
  if (k =? 3)%Z then inst (l_ts (r_labels r))
  else
    let c := r_counters r in
    let rcvd := if (k =? 1)%Z then c_pr c else c_br c in
    let sent := if (k =? 1)%Z then c_ps c else c_bs c in
    Z.of_N (if (d =? 2)%Z then rcvd else if (d =? 3)%Z then sent else (rcvd + sent) mod 2 ^ 64).

Fixpoint primary_sorted (k d : Z) (asc : bool) (l : list row) : bool :=
  match l with
  | x :: ((y :: _) as t) =>
    (if asc then (primary k d x <=? primary k d y)%Z else (primary k d y <=? primary k d x)%Z)
    && primary_sorted k d asc t
  | _ => true
  end.

Definition is_perm_of_range (n : nat) (f : list N) : bool :=
  Nat.eqb (List.length f) n && forallb (fun i => existsb (N.eqb (N.of_nat i)) f) (seq 0 n).

Fixpoint is_prefix (a b : list N) : bool :=
  match a, b with
  | [], _ => true
  | x :: s, y :: t => N.eqb x y && is_prefix s t
  | _, _ => false
  end.

(* does the observed behaviour satisfy the property? *)
Definition holds (c : case) : bool :=
  if valid_order (ck c) (cd c) then
    match cfull c, clim c with
    | [Ok f], [Ok l] =>                                    (* ONE output over all input orders *)
      let n := List.length (crows c) in
      is_perm_of_range n f                                 (* the same rows *)
      && match pick (crows c) f with
         | Some rs => primary_sorted (ck c) (cd c) (casc c) rs   (* in the selected order *)
         | None => false end
      && is_prefix l f                                     (* the limit keeps the first rows *)
      && (if climit c =? 0 then true
          else N.of_nat (List.length l) =?
               N.min (match cbound c with None => climit c | Some b => N.min (climit c) b end) (N.of_nat n))
    | _, _ => false
    end
  else true.
