(* C14 proofs: every comparator returned by results.By is a strict weak order that is total on rows
   with distinct (attributes, labels-as-instants) keys; hence a unique sorted permutation, independence
   of the input order for any correct sorting algorithm, and the limit is a prefix holding the top rows. *)
From Coq Require Import List ZArith NArith String Ascii Bool Lia Sorted Permutation.
From GoProbe.Base Require Import CorrLib.
From GoProbe.C14 Require Import Model.
Import ListNotations.

(* ---- strict total orders given as boolean functions --------------------------------------- *)
Record sto {A : Type} (lt : A -> A -> bool) : Prop := {
  sto_irr : forall x, lt x x = false;
  sto_trans : forall x y z, lt x y = true -> lt y z = true -> lt x z = true;
  sto_tot : forall x y, lt x y = false -> lt y x = false -> x = y }.

Definition lex {A B : Type} (eqA ltA : A -> A -> bool) (ltB : B -> B -> bool) (p q : A * B) : bool :=
  if eqA (fst p) (fst q) then ltB (snd p) (snd q) else ltA (fst p) (fst q).

Lemma sto_lex : forall {A B} (eqA ltA : A -> A -> bool) (ltB : B -> B -> bool),
  (forall x y, eqA x y = true <-> x = y) -> sto ltA -> sto ltB -> sto (lex eqA ltA ltB).
Proof.
  intros A B eqA ltA ltB Heq [irA trA toA] [irB trB toB].
  assert (Hrefl : forall x, eqA x x = true) by (intro x; apply Heq; reflexivity).
  assert (Hneq : forall x y, eqA x y = false -> x <> y).
  { intros x y E F. subst. rewrite Hrefl in E. discriminate. }
  split.
  - intros [a b]. unfold lex; cbn. rewrite Hrefl. apply irB.
  - intros [a1 b1] [a2 b2] [a3 b3]. unfold lex; cbn.
    destruct (eqA a1 a2) eqn:E12; destruct (eqA a2 a3) eqn:E23.
    + apply Heq in E12. apply Heq in E23. subst. rewrite Hrefl. apply trB.
    + apply Heq in E12. subst. rewrite E23. auto.
    + apply Heq in E23. subst. rewrite E12. auto.
    + intros H1 H2. pose proof (trA _ _ _ H1 H2) as H13.
      destruct (eqA a1 a3) eqn:E13; [|exact H13].
      apply Heq in E13. subst. rewrite irA in H13. discriminate.
  - intros [a1 b1] [a2 b2]. unfold lex; cbn.
    destruct (eqA a1 a2) eqn:E12.
    + apply Heq in E12. subst. rewrite Hrefl. intros H1 H2. f_equal. auto.
    + destruct (eqA a2 a1) eqn:E21.
      * apply Heq in E21. subst. rewrite Hrefl in E12. discriminate.
      * intros H1 H2. exfalso. apply (Hneq _ _ E12). auto.
Qed.

Lemma sto_flip : forall {A} (lt : A -> A -> bool), sto lt -> sto (fun x y => lt y x).
Proof.
  intros A lt [ir tr to]. split; auto.
  - intros x y z H1 H2. exact (tr _ _ _ H2 H1).
Qed.

Lemma sto_map : forall {A K} (f : A -> K) (ltK : K -> K -> bool),
  (forall x y, f x = f y -> x = y) -> sto ltK -> sto (fun x y => ltK (f x) (f y)).
Proof.
  intros A K f ltK inj [ir tr to]. split; auto.
  - intros x y z. apply tr.
Qed.

Lemma sto_ext : forall {A} (lt lt' : A -> A -> bool),
  (forall x y, lt x y = lt' x y) -> sto lt' -> sto lt.
Proof.
  intros A lt lt' E [ir tr to]. split.
  - intro x. rewrite E. apply ir.
  - intros x y z. rewrite !E. apply tr.
  - intros x y. rewrite !E. apply to.
Qed.

Lemma sto_N : sto N.ltb.
Proof.
  split.
  - intro x. apply N.ltb_irrefl.
  - intros x y z H1 H2. apply N.ltb_lt in H1, H2. apply N.ltb_lt. lia.
  - intros x y H1 H2. apply N.ltb_ge in H1, H2. lia.
Qed.

Lemma sto_Z : sto Z.ltb.
Proof.
  split.
  - intro x. apply Z.ltb_irrefl.
  - intros x y z H1 H2. apply Z.ltb_lt in H1, H2. apply Z.ltb_lt. lia.
  - intros x y H1 H2. apply Z.ltb_ge in H1, H2. lia.
Qed.

(* ---- Go's < on strings: byte-wise lexicographic = String.ltb -------------------------------- *)
Lemma ascii_compare_refl : forall a, Ascii.compare a a = Eq.
Proof. intro a. unfold Ascii.compare. apply N.compare_refl. Qed.

Lemma string_compare_refl : forall s, String.compare s s = Eq.
Proof. induction s; cbn; [reflexivity|]. rewrite ascii_compare_refl. exact IHs. Qed.

Lemma string_compare_lt_trans : forall s1 s2 s3,
  String.compare s1 s2 = Lt -> String.compare s2 s3 = Lt -> String.compare s1 s3 = Lt.
Proof.
  induction s1 as [|a1 s1 IH]; intros [|a2 s2] [|a3 s3]; cbn; try discriminate; auto.
  unfold Ascii.compare.
  destruct (N.compare_spec (N_of_ascii a1) (N_of_ascii a2)) as [E12|L12|G12]; try discriminate;
  destruct (N.compare_spec (N_of_ascii a2) (N_of_ascii a3)) as [E23|L23|G23]; try discriminate; intros H1 H2.
  - rewrite E12, E23, N.compare_refl. eauto.
  - rewrite E12. apply N.compare_lt_iff in L23. rewrite L23. reflexivity.
  - rewrite <- E23. apply N.compare_lt_iff in L12. rewrite L12. reflexivity.
  - assert (L : (N_of_ascii a1 < N_of_ascii a3)%N) by lia. apply N.compare_lt_iff in L. rewrite L. reflexivity.
Qed.

Lemma sto_string : sto String.ltb.
Proof.
  unfold String.ltb. split.
  - intro s. rewrite string_compare_refl. reflexivity.
  - intros x y z. destruct (String.compare x y) eqn:E1; try discriminate.
    destruct (String.compare y z) eqn:E2; try discriminate. intros _ _.
    rewrite (string_compare_lt_trans _ _ _ E1 E2). reflexivity.
  - intros x y. rewrite (String.compare_antisym y x).
    destruct (String.compare x y) eqn:E; cbn; try discriminate.
    intros _ _. apply String.compare_eq_iff. exact E.
Qed.

Lemma string_eqb_spec' : forall x y, String.eqb x y = true <-> x = y.
Proof. intros. apply String.eqb_eq. Qed.
Lemma N_eqb_spec' : forall x y, N.eqb x y = true <-> x = y.
Proof. intros. apply N.eqb_eq. Qed.
Lemma Z_eqb_spec' : forall x y, Z.eqb x y = true <-> x = y.
Proof. intros. apply Z.eqb_eq. Qed.

(* ---- netip.Addr ------------------------------------------------------------------------------ *)
Definition akey (a : addr) : N * (N * string) := (addr_bits a, (addr_val a, addr_zone a)).
Definition lt_akey := lex N.eqb N.ltb (lex N.eqb N.ltb String.ltb).

Lemma akey_inj : forall a b, akey a = akey b -> a = b.
Proof. intros [|x|x z] [|y|y w]; unfold akey; cbn; intro H; inversion H; subst; reflexivity. Qed.

Lemma sto_lt_akey : sto lt_akey.
Proof.
  apply sto_lex; [apply N_eqb_spec' | apply sto_N |].
  apply sto_lex; [apply N_eqb_spec' | apply sto_N | apply sto_string].
Qed.

Lemma ltb_false_of_irr : forall n : N, (n <? n)%N = false.
Proof. apply N.ltb_irrefl. Qed.

Lemma addr_less_rep : forall a b, addr_less a b = lt_akey (akey a) (akey b).
Proof.
  intros a b. unfold addr_less, addr_compare, lt_akey, lex, akey; cbn [fst snd].
  destruct (N.ltb_spec (addr_bits a) (addr_bits b)) as [Hb|Hb].
  { destruct (N.eqb_spec (addr_bits a) (addr_bits b)); [lia|reflexivity]. }
  destruct (N.ltb_spec (addr_bits b) (addr_bits a)) as [Hb'|Hb'].
  { destruct (N.eqb_spec (addr_bits a) (addr_bits b)); [lia|reflexivity]. }
  destruct (N.eqb_spec (addr_bits a) (addr_bits b)) as [Eb|]; [|lia].
  destruct (N.ltb_spec (addr_val a) (addr_val b)) as [Hv|Hv].
  { destruct (N.eqb_spec (addr_val a) (addr_val b)); [lia|reflexivity]. }
  destruct (N.ltb_spec (addr_val b) (addr_val a)) as [Hv'|Hv'].
  { destruct (N.eqb_spec (addr_val a) (addr_val b)); [lia|reflexivity]. }
  destruct (N.eqb_spec (addr_val a) (addr_val b)) as [Ev|]; [|lia].
  destruct a as [|x|x z]; destruct b as [|y|y w]; cbn in *; try reflexivity; try discriminate.
  destruct (String.ltb z w); [reflexivity|]. destruct (String.ltb w z); reflexivity.
Qed.

Lemma sto_addr : sto addr_less.
Proof.
  apply (sto_ext _ (fun a b => lt_akey (akey a) (akey b)) addr_less_rep).
  apply sto_map; [apply akey_inj | apply sto_lt_akey].
Qed.

Lemma addr_eqb_spec : forall a b, addr_eqb a b = true <-> a = b.
Proof.
  intros [|x|x z] [|y|y w]; cbn; split; intro H; try discriminate; try reflexivity.
  - apply N.eqb_eq in H. subst. reflexivity.
  - inversion H. apply N.eqb_refl.
  - apply andb_prop in H. destruct H as [H1 H2]. apply N.eqb_eq in H1. apply String.eqb_eq in H2. subst. reflexivity.
  - inversion H. rewrite N.eqb_refl, String.eqb_refl. reflexivity.
Qed.

(* ---- Attributes.Less ---------------------------------------------------------------------------- *)
Definition atkey (a : attrs) : addr * (addr * (N * N)) := (a_sip a, (a_dip a, (a_proto a, a_dport a))).
Definition lt_atkey := lex addr_eqb addr_less (lex addr_eqb addr_less (lex N.eqb N.ltb N.ltb)).

Lemma atkey_inj : forall a b, atkey a = atkey b -> a = b.
Proof. intros [s d p q] [s' d' p' q']; unfold atkey; cbn; intro H; inversion H; reflexivity. Qed.

Lemma sto_lt_atkey : sto lt_atkey.
Proof.
  apply sto_lex; [apply addr_eqb_spec | apply sto_addr |].
  apply sto_lex; [apply addr_eqb_spec | apply sto_addr |].
  apply sto_lex; [apply N_eqb_spec' | apply sto_N | apply sto_N].
Qed.

Lemma attrs_less_rep : forall a b, attrs_less a b = lt_atkey (atkey a) (atkey b).
Proof.
  intros a b. unfold attrs_less, lt_atkey, lex, atkey; cbn [fst snd].
  destruct (addr_eqb (a_sip a) (a_sip b)); cbn [negb]; [|reflexivity].
  destruct (addr_eqb (a_dip a) (a_dip b)); cbn [negb]; [|reflexivity].
  destruct (N.eqb (a_proto a) (a_proto b)); reflexivity.
Qed.

Lemma sto_attrs : sto attrs_less.
Proof.
  apply (sto_ext _ (fun a b => lt_atkey (atkey a) (atkey b)) attrs_less_rep).
  apply sto_map; [apply atkey_inj | apply sto_lt_atkey].
Qed.

Lemma attrs_eqb_spec : forall a b, attrs_eqb a b = true <-> a = b.
Proof.
  intros [s d p q] [s' d' p' q']. unfold attrs_eqb; cbn. split.
  - intro H. repeat (apply andb_prop in H; destruct H as [H ?]).
    apply addr_eqb_spec in H. apply addr_eqb_spec in H2. apply N.eqb_eq in H1, H0. subst. reflexivity.
  - intro H. inversion H; subst.
    rewrite (proj2 (addr_eqb_spec s' s') eq_refl), (proj2 (addr_eqb_spec d' d') eq_refl), !N.eqb_refl. reflexivity.
Qed.

(* ---- Labels.Less (fixed code): an order on the label key, the timestamp as an instant ---------- *)
Definition lt_lkey := lex Z.eqb Z.ltb (lex String.eqb String.ltb (lex String.eqb String.ltb String.ltb)).

Lemma sto_lt_lkey : sto lt_lkey.
Proof.
  apply sto_lex; [apply Z_eqb_spec' | apply sto_Z |].
  apply sto_lex; [apply string_eqb_spec' | apply sto_string |].
  apply sto_lex; [apply string_eqb_spec' | apply sto_string | apply sto_string].
Qed.

Lemma labels_less_rep : forall l l2, labels_less l l2 = lt_lkey (lkey l) (lkey l2).
Proof.
  intros l l2. unfold labels_less, lt_lkey, lex, lkey, t_equal, t_before; cbn [fst snd].
  destruct (Z.eqb (inst (l_ts l)) (inst (l_ts l2))); cbn [negb]; [|reflexivity].
  destruct (String.eqb (l_host l) (l_host l2)); cbn [negb]; [|reflexivity].
  destruct (String.eqb (l_hostid l) (l_hostid l2)); reflexivity.
Qed.

(* ---- Row.Less ------------------------------------------------------------------------------------ *)
Definition lt_rkey := lex attrs_eqb attrs_less lt_lkey.

Lemma sto_lt_rkey : sto lt_rkey.
Proof. apply sto_lex; [apply attrs_eqb_spec | apply sto_attrs | apply sto_lt_lkey]. Qed.

Lemma row_less_rep : forall r r2, row_less r r2 = lt_rkey (row_key r) (row_key r2).
Proof.
  intros r r2. unfold row_less, row_less_with, lt_rkey, lex, row_key; cbn [fst snd].
  rewrite labels_less_rep. reflexivity.
Qed.

(* ---- the property of a comparator: strict weak order, incomparable rows have the same key ------- *)
Definition sto_on {A K : Type} (key : A -> K) (lt : A -> A -> bool) : Prop :=
  (forall x, lt x x = false) /\
  (forall x y z, lt x y = true -> lt y z = true -> lt x z = true) /\
  (forall x y z, lt x z = true -> lt x y = true \/ lt y z = true) /\
  (forall x y, lt x y = false -> lt y x = false -> key x = key y).

Lemma sto_on_of_rep : forall {A K F} (key : A -> K) (f : A -> F) (ltF : F -> F -> bool) (lt : A -> A -> bool),
  sto ltF -> (forall x y, lt x y = ltF (f x) (f y)) -> (forall x y, f x = f y -> key x = key y) ->
  sto_on key lt.
Proof.
  intros A K F key f ltF lt [ir tr to] rep fk. repeat split.
  - intro x. rewrite rep. apply ir.
  - intros x y z. rewrite !rep. apply tr.
  - intros x y z. rewrite !rep. intro Hxz.
    destruct (ltF (f x) (f y)) eqn:Exy; [left; reflexivity|].
    destruct (ltF (f y) (f x)) eqn:Eyx.
    + right. exact (tr _ _ _ Eyx Hxz).
    + right. rewrite <- (to _ _ Exy Eyx). exact Hxz.
  - intros x y. rewrite !rep. intros H1 H2. apply fk. apply to; assumption.
Qed.

Lemma sto_on_total : forall {A K} (key : A -> K) lt, sto_on key lt ->
  forall x y, key x <> key y -> lt x y = true \/ lt y x = true.
Proof.
  intros A K key lt (_ & _ & _ & to) x y Hk.
  destruct (lt x y) eqn:E1; [left; reflexivity|].
  destruct (lt y x) eqn:E2; [right; reflexivity|].
  exfalso. apply Hk. apply to; assumption.
Qed.

Lemma sto_on_asym : forall {A K} (key : A -> K) lt, sto_on key lt ->
  forall x y, lt x y = true -> lt y x = false.
Proof.
  intros A K key lt (ir & tr & _ & _) x y H.
  destruct (lt y x) eqn:E; [|reflexivity].
  rewrite <- (ir x). symmetry. exact (tr _ _ _ H E).
Qed.

(* ---- the closures of By ----------------------------------------------------------------------------- *)
Lemma cmp_counter_sto_on : forall asc v, sto_on row_key (cmp_counter row_less asc v).
Proof.
  intros asc v.
  pose (f := fun r : row => (v r, row_key r)).
  pose (ltF := lex N.eqb N.ltb lt_rkey).
  assert (S : sto ltF) by (apply sto_lex; [apply N_eqb_spec' | apply sto_N | apply sto_lt_rkey]).
  assert (FK : forall x y, f x = f y -> row_key x = row_key y) by (intros x y H; exact (f_equal snd H)).
  destruct asc.
  - apply (sto_on_of_rep row_key f ltF); auto.
    intros x y. unfold cmp_counter, ltF, lex, f; cbn [fst snd]. rewrite row_less_rep. reflexivity.
  - apply (sto_on_of_rep row_key f (fun a b => ltF b a)); auto.
    + apply sto_flip. exact S.
    + intros x y. unfold cmp_counter, ltF, lex, f; cbn [fst snd]. rewrite row_less_rep, (N.eqb_sym (v y) (v x)). reflexivity.
Qed.

Lemma cmp_time_sto_on : forall asc, sto_on row_key (cmp_time row_less asc).
Proof.
  intros asc.
  pose (f := fun r : row => (inst (l_ts (r_labels r)), row_key r)).
  pose (ltF := lex Z.eqb Z.ltb lt_rkey).
  assert (S : sto ltF) by (apply sto_lex; [apply Z_eqb_spec' | apply sto_Z | apply sto_lt_rkey]).
  assert (FK : forall x y, f x = f y -> row_key x = row_key y) by (intros x y H; exact (f_equal snd H)).
  destruct asc.
  - apply (sto_on_of_rep row_key f ltF); auto.
    intros x y. unfold cmp_time, ltF, lex, f, t_equal, t_before; cbn [fst snd]. rewrite row_less_rep. reflexivity.
  - apply (sto_on_of_rep row_key f (fun a b => ltF b a)); auto.
    + apply sto_flip. exact S.
    + intros x y. unfold cmp_time, ltF, lex, f, t_equal, t_after; cbn [fst snd].
      rewrite row_less_rep, (Z.eqb_sym (inst (l_ts (r_labels y)))). reflexivity.
Qed.

Lemma by_sto_on : forall k d asc less, by_ k d asc = Ok less -> sto_on row_key less.
Proof.
  intros k d asc less. unfold by_, by_with.
  repeat match goal with
         | |- context [if ?c then _ else _] => destruct c
         end; intro H; inversion H; subst;
    first [apply cmp_counter_sto_on | apply cmp_time_sto_on].
Qed.

Lemma by_strict_total : forall k d asc less, by_ k d asc = Ok less ->
  (forall r, less r r = false) /\
  (forall r1 r2 r3, less r1 r2 = true -> less r2 r3 = true -> less r1 r3 = true) /\
  (forall r1 r2 r3, less r1 r3 = true -> less r1 r2 = true \/ less r2 r3 = true) /\
  (forall r1 r2, row_key r1 <> row_key r2 -> less r1 r2 = true \/ less r2 r1 = true).
Proof.
  intros k d asc less H. pose proof (by_sto_on k d asc less H) as S.
  exact (conj (proj1 S) (conj (proj1 (proj2 S)) (conj (proj1 (proj2 (proj2 S))) (sto_on_total row_key less S)))).
Qed.

Definition valid_order (k d : Z) : Prop := ((k = 1 \/ k = 2) /\ 1 <= d <= 4 \/ k = 3)%Z.

Lemma by_defined : forall k d asc, valid_order k d -> exists less, by_ k d asc = Ok less.
Proof.
  intros k d asc H. unfold by_, by_with.
  destruct H as [[Hk Hd]| ->].
  - assert (D : (d = 1 \/ d = 2 \/ d = 3 \/ d = 4)%Z) by lia.
    destruct Hk as [-> | ->]; destruct D as [-> | [-> | [-> | ->]]]; cbn; eexists; reflexivity.
  - cbn. eexists; reflexivity.
Qed.

Lemma by_panics : forall k d asc, ~ valid_order k d -> by_ k d asc = Panic.
Proof.
  intros k d asc H. unfold by_, by_with, valid_order in *.
  destruct (Z.eqb_spec k 1); [destruct (Z.eqb_spec d 4), (Z.eqb_spec d 1), (Z.eqb_spec d 2), (Z.eqb_spec d 3); cbn; try reflexivity; exfalso; apply H; lia|].
  destruct (Z.eqb_spec k 2); [destruct (Z.eqb_spec d 4), (Z.eqb_spec d 1), (Z.eqb_spec d 2), (Z.eqb_spec d 3); cbn; try reflexivity; exfalso; apply H; lia|].
  destruct (Z.eqb_spec k 3); [exfalso; apply H; lia | reflexivity].
Qed.

(* ---- sortedness as sort.Sort establishes it: no later element is less than an earlier one ----------- *)
Definition ngt {A} (lt : A -> A -> bool) : A -> A -> Prop := fun a b => lt b a = false.

Lemma ngt_trans : forall {A K} (key : A -> K) lt, sto_on key lt -> Relation_Definitions.transitive _ (ngt lt).
Proof.
  intros A K key lt (_ & _ & nt & _) a b c Hab Hbc. unfold ngt in *.
  destruct (lt c a) eqn:E; [|reflexivity].
  destruct (nt c b a E) as [H|H]; congruence.
Qed.

Lemma sorted_unique : forall {A K} (key : A -> K) lt, sto_on key lt -> forall l1 l2 : list A,
  (forall a b, In a l1 -> In b l1 -> key a = key b -> a = b) ->
  Permutation l1 l2 -> Sorted (ngt lt) l1 -> Sorted (ngt lt) l2 -> l1 = l2.
Proof.
  intros A K key lt Hs l1 l2 Hk Hp S1 S2.
  apply (Sorted_StronglySorted (ngt_trans key lt Hs)) in S1, S2.
  revert l2 Hk Hp S2. induction S1 as [|a t1 St1 IH Fa]; intros l2 Hk Hp S2.
  - apply Permutation_nil in Hp. subst. reflexivity.
  - destruct l2 as [|b t2]; [apply Permutation_sym, Permutation_nil in Hp; discriminate|].
    inversion S2 as [|b' t2' St2 Fb]; subst.
    assert (Ia : In a (b :: t2)) by (apply (Permutation_in _ Hp); left; reflexivity).
    assert (Ib : In b (a :: t1)) by (apply (Permutation_in _ (Permutation_sym Hp)); left; reflexivity).
    assert (E : a = b).
    { destruct Ia as [->|Ia]; [reflexivity|]. destruct Ib as [->|Ib]; [reflexivity|].
      rewrite Forall_forall in Fa, Fb. pose proof (Fa _ Ib) as H1. pose proof (Fb _ Ia) as H2. unfold ngt in *.
      destruct Hs as (_ & _ & _ & to).
      apply Hk; [left; reflexivity | right; exact Ib | apply to; assumption]. }
    subst b. f_equal. apply IH.
    + intros x y Hx Hy. apply Hk; right; assumption.
    + exact (Permutation_cons_inv Hp).
    + exact St2.
Qed.

(* ---- the reference sort ---------------------------------------------------------------------------- *)
Lemma insert_perm : forall lt x l, Permutation (x :: l) (insert lt x l).
Proof.
  intros lt x l. induction l as [|y t IH]; cbn; [apply Permutation_refl|].
  destruct (lt y x); [|apply Permutation_refl].
  eapply perm_trans; [apply perm_swap|]. apply perm_skip. exact IH.
Qed.

Lemma sort_perm : forall lt l, Permutation l (sort_rows lt l).
Proof.
  intros lt l. induction l as [|x t IH]; cbn; [constructor|].
  eapply perm_trans; [apply perm_skip, IH | apply insert_perm].
Qed.

Lemma insert_hdrel : forall lt a x l, ngt lt a x -> HdRel (ngt lt) a l -> HdRel (ngt lt) a (insert lt x l).
Proof.
  intros lt a x l Hax Hl. destruct l as [|y t]; cbn; [constructor; exact Hax|].
  destruct (lt y x); constructor; [inversion Hl; assumption | exact Hax].
Qed.

Lemma insert_sorted : forall {K} (key : row -> K) lt, sto_on key lt -> forall x l,
  Sorted (ngt lt) l -> Sorted (ngt lt) (insert lt x l).
Proof.
  intros K key lt Hs x l S. induction S as [|y t St IH Hd]; cbn; [repeat constructor|].
  destruct (lt y x) eqn:E.
  - constructor; [exact IH|]. apply insert_hdrel; [|exact Hd]. unfold ngt. exact (sto_on_asym key lt Hs _ _ E).
  - constructor; [constructor; assumption|]. constructor. exact E.
Qed.

Lemma sort_sorted : forall {K} (key : row -> K) lt, sto_on key lt -> forall l, Sorted (ngt lt) (sort_rows lt l).
Proof.
  intros K key lt Hs l. induction l as [|x t IH]; cbn; [constructor|]. apply (insert_sorted key lt Hs). exact IH.
Qed.

Lemma key_functional_perm : forall {A K} (key : A -> K) (l l' : list A), Permutation l l' ->
  (forall a b, In a l -> In b l -> key a = key b -> a = b) ->
  (forall a b, In a l' -> In b l' -> key a = key b -> a = b).
Proof.
  intros A K key l l' Hp H a b Ia Ib. apply H; eapply Permutation_in; try eassumption; apply Permutation_sym; exact Hp.
Qed.

(* any algorithm that returns a sorted permutation returns what the reference sort returns *)
Lemma any_sort_is_model_sort : forall {K} (key : row -> K) lt, sto_on key lt -> forall l out,
  (forall a b, In a l -> In b l -> key a = key b -> a = b) ->
  Permutation l out -> Sorted (ngt lt) out -> out = sort_rows lt l.
Proof.
  intros K key lt Hs l out Hk Hp So.
  apply (sorted_unique key lt Hs).
  - exact (key_functional_perm key _ _ Hp Hk).
  - eapply perm_trans; [apply Permutation_sym; exact Hp | apply sort_perm].
  - exact So.
  - apply (sort_sorted key lt Hs).
Qed.

Lemma sort_order_independent : forall {K} (key : row -> K) lt, sto_on key lt -> forall l l',
  (forall a b, In a l -> In b l -> key a = key b -> a = b) ->
  Permutation l l' -> sort_rows lt l = sort_rows lt l'.
Proof.
  intros K key lt Hs l l' Hk Hp. symmetry.
  apply (any_sort_is_model_sort key lt Hs); [exact Hk | | apply (sort_sorted key lt Hs)].
  eapply perm_trans; [exact Hp | apply sort_perm].
Qed.

(* ---- the limit ------------------------------------------------------------------------------------- *)
Lemma limit_pp_firstn : forall n l, n <> 0%N -> limit_pp n l = firstn (N.to_nat n) l.
Proof.
  intros n l Hn. unfold limit_pp.
  destruct (N.eqb_spec n 0); [contradiction|]. cbn [negb andb].
  destruct (N.ltb_spec n (N.of_nat (List.length l))); [reflexivity|].
  symmetry. apply firstn_all2. lia.
Qed.

Lemma limit_pp_zero : forall l, limit_pp 0 l = l.
Proof. reflexivity. Qed.

Lemma limit_fin_firstn : forall n b l, limit_fin n b l = firstn (N.to_nat (N.min n b)) l.
Proof.
  intros n b l. unfold limit_fin.
  destruct (N.eqb_spec n 0) as [->|Hn].
  - rewrite limit_pp_zero. replace (N.min 0 b) with 0%N by lia. cbn [N.to_nat firstn].
    destruct l; reflexivity.
  - rewrite (limit_pp_firstn n l Hn).
    destruct (N.ltb_spec (N.min n b) (N.of_nat (List.length (firstn (N.to_nat n) l)))) as [H|H].
    + rewrite firstn_firstn. f_equal. lia.
    + rewrite firstn_length in H.
      destruct (Nat.le_gt_cases (List.length l) (N.to_nat n)) as [Hl|Hl].
      * rewrite (firstn_all2 l Hl). symmetry. apply firstn_all2. lia.
      * f_equal. lia.
Qed.

Lemma strongly_sorted_app : forall {A} (R : A -> A -> Prop) l1 l2, StronglySorted R (l1 ++ l2) ->
  forall x y, In x l1 -> In y l2 -> R x y.
Proof.
  intros A R l1. induction l1 as [|a t IH]; intros l2 S x y Ix Iy; [contradiction|].
  cbn in S. inversion S as [|a' t' St Fa]; subst. destruct Ix as [->|Ix].
  - rewrite Forall_forall in Fa. apply Fa. apply in_or_app. right. exact Iy.
  - eapply IH; eassumption.
Qed.

Lemma limit_keeps_top : forall {K} (key : row -> K) lt, sto_on key lt -> forall l m x y,
  In x (firstn m (sort_rows lt l)) -> In y (skipn m (sort_rows lt l)) -> lt y x = false.
Proof.
  intros K key lt Hs l m x y Ix Iy.
  pose proof (sort_sorted key lt Hs l) as S.
  apply (Sorted_StronglySorted (ngt_trans key lt Hs)) in S.
  rewrite <- (firstn_skipn m (sort_rows lt l)) in S.
  exact (strongly_sorted_app _ _ _ S x y Ix Iy).
Qed.

(* ---- the limit after re-binning (PostProcess with a time resolution) ------------------------------- *)
Lemma rebin_spec : forall size n bound (s : list row),
  let rb := rebin size s in
  Permutation (merge_rows (map (bin_row size) s)) rb /\
  Sorted (ngt (cmp_time row_less true)) rb /\
  (n <> 0%N -> limit_pp n rb = firstn (N.to_nat n) rb) /\ limit_pp 0 rb = rb /\
  limit_fin n bound rb = firstn (N.to_nat (N.min n bound)) rb /\
  (forall m x y, In x (firstn m rb) -> In y (skipn m rb) -> cmp_time row_less true y x = false).
Proof.
  intros size n bound s rb. unfold rb, rebin.
  pose proof (cmp_time_sto_on true) as Hs.
  repeat split.
  - apply sort_perm.
  - apply (sort_sorted row_key _ Hs).
  - apply limit_pp_firstn.
  - apply limit_fin_firstn.
  - apply (limit_keeps_top row_key _ Hs).
Qed.

Lemma stage_limits : forall tb n bound (s : list row),
  (n <> 0%N -> limit_pp n (stage tb s) = firstn (N.to_nat n) (stage tb s)) /\
  limit_pp 0 (stage tb s) = stage tb s /\
  limit_fin n bound (stage tb s) = firstn (N.to_nat (N.min n bound)) (stage tb s).
Proof. intros. repeat split; [apply limit_pp_firstn | apply limit_fin_firstn]. Qed.

Lemma stage_cases : forall tb (s : list row),
  (tb = None \/ tb = Some five_min_ns -> stage tb s = s) /\
  (forall size, tb = Some size -> size <> five_min_ns -> stage tb s = rebin size s).
Proof.
  intros tb s. split.
  - intros [->| ->]; reflexivity.
  - intros size -> Hne. unfold stage. destruct (Z.eqb_spec size five_min_ns); [contradiction|reflexivity].
Qed.

Lemma run_pp_spec : forall k d asc tb n l less, by_ k d asc = Ok less ->
  run_pp k d asc tb n l = Ok (limit_pp n (stage tb (sort_rows less l))).
Proof. intros k d asc tb n l less H. unfold run_pp, run_sort. rewrite H. reflexivity. Qed.

Lemma run_fin_spec : forall k d asc tb n bound l less, by_ k d asc = Ok less -> l <> [] ->
  run_fin k d asc tb n bound l = Ok (limit_fin n bound (stage tb (sort_rows less l))).
Proof.
  intros k d asc tb n bound l less H Hl. unfold run_fin, run_sort. rewrite H.
  destruct l; [contradiction|reflexivity].
Qed.

(* ---- the defects of the unfixed comparator, as facts about its model ----------------------------- *)
Open Scope string_scope.
Definition v0_a : row := R 1700000000000000000 0 "hostA" "1" "eth0" (A4 167772161) (A4 167772162) 6 80 10 20 1 2.
Definition v0_zone : row := R 1700000000000000000 1 "hostA" "1" "eth1" (A4 167772161) (A4 167772162) 6 80 10 20 1 2.
Definition v0_hostid : row := R 1700000000000000000 0 "hostA" "2" "eth0" (A4 167772161) (A4 167772162) 6 80 10 20 1 2.

(* same instant in two zones, different interfaces: neither row is less than the other *)
Lemma v0_refuted_zone : exists less, by_v0 3 1 true = Ok less /\ row_key v0_a <> row_key v0_zone /\
  less v0_a v0_zone = false /\ less v0_zone v0_a = false.
Proof. eexists. split; [reflexivity|]. split; [intro H; inversion H|]. split; vm_compute; reflexivity. Qed.

(* rows that differ only in the host id: neither is less than the other *)
Lemma v0_refuted_hostid : exists less, by_v0 2 1 false = Ok less /\ row_key v0_a <> row_key v0_hostid /\
  less v0_a v0_hostid = false /\ less v0_hostid v0_a = false.
Proof. eexists. split; [reflexivity|]. split; [intro H; inversion H|]. split; vm_compute; reflexivity. Qed.

(* and the reference sort of the unfixed comparator depends on the input order *)
Lemma v0_order_dependent : exists less, by_v0 3 1 true = Ok less /\
  sort_rows less [v0_a; v0_zone] <> sort_rows less [v0_zone; v0_a].
Proof. eexists. split; [reflexivity|]. vm_compute. intro H. inversion H. Qed.
