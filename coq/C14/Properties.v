(* C14 property theorems. Nothing but statements closed by `exact`, Print Assumptions and examples.
   [by_ k d asc] models results.By (sort order k: 1 packets 2 bytes 3 time; direction d: 1 sum 2 in 3 out
   4 both; Panic outside). [row_key r] = (attributes, (instant, (host, (host id, interface)))): the labels
   and attributes of a row with the timestamp taken as an instant, i.e. without its time zone.
   [ngt less a b] := less b a = false, the postcondition sort.Sort establishes between earlier/later rows. *)
From Coq Require Import List ZArith NArith String Bool Sorted Permutation.
From GoProbe.Base Require Import CorrLib.
From GoProbe.C14 Require Import Model Proofs.
Import ListNotations.

(* every comparator By can return is irreflexive, transitive, negatively transitive (a strict weak order)
   and total on rows with distinct keys: labels and attributes always break the tie, whatever the zones *)
Theorem c14_strict_total : forall k d asc less, by_ k d asc = Ok less ->
  (forall r, less r r = false) /\
  (forall r1 r2 r3, less r1 r2 = true -> less r2 r3 = true -> less r1 r3 = true) /\
  (forall r1 r2 r3, less r1 r3 = true -> less r1 r2 = true \/ less r2 r3 = true) /\
  (forall r1 r2, row_key r1 <> row_key r2 -> less r1 r2 = true \/ less r2 r1 = true).
Proof. exact by_strict_total. Qed.
Print Assumptions c14_strict_total.

(* By is defined exactly on the enumerated sort orders and directions *)
Theorem c14_by_defined : forall k d asc,
  (((k = 1 \/ k = 2) /\ 1 <= d <= 4 \/ k = 3)%Z -> exists less, by_ k d asc = Ok less) /\
  (~ ((k = 1 \/ k = 2) /\ 1 <= d <= 4 \/ k = 3)%Z -> by_ k d asc = Panic).
Proof. exact (fun k d asc => conj (by_defined k d asc) (by_panics k d asc)). Qed.
Print Assumptions c14_by_defined.

(* two sorted permutations of the same rows are equal, whatever algorithm produced them, provided rows
   with equal keys are identical rows (true duplicates are allowed) *)
Theorem c14_unique_order : forall k d asc less l1 l2, by_ k d asc = Ok less ->
  (forall a b, In a l1 -> In b l1 -> row_key a = row_key b -> a = b) ->
  Permutation l1 l2 -> Sorted (ngt less) l1 -> Sorted (ngt less) l2 -> l1 = l2.
Proof. exact (fun k d asc less l1 l2 H => sorted_unique row_key less (by_sto_on k d asc less H) l1 l2). Qed.
Print Assumptions c14_unique_order.

(* the reference sort returns a sorted permutation, and the result does not depend on the input order *)
Theorem c14_order_independent : forall k d asc less l l', by_ k d asc = Ok less ->
  (forall a b, In a l -> In b l -> row_key a = row_key b -> a = b) ->
  Permutation l l' ->
  Permutation l (sort_rows less l) /\ Sorted (ngt less) (sort_rows less l) /\
  sort_rows less l = sort_rows less l'.
Proof.
  exact (fun k d asc less l l' H Hk Hp =>
    conj (sort_perm less l) (conj (sort_sorted row_key less (by_sto_on k d asc less H) l)
      (sort_order_independent row_key less (by_sto_on k d asc less H) l l' Hk Hp))).
Qed.
Print Assumptions c14_order_independent.

(* the limit of PostProcess (0 = none) and of finalizeResult is a prefix of the rows it is applied to
   ([stage tb]: the sorted rows, re-binned first when the statement has a time resolution), and without
   re-binning no dropped row sorts before a kept one *)
Theorem c14_limit_is_prefix : forall k d asc less tb n bound l, by_ k d asc = Ok less ->
  let s := sort_rows less l in
  run_pp k d asc tb n l = Ok (limit_pp n (stage tb s)) /\
  (l <> [] -> run_fin k d asc tb n bound l = Ok (limit_fin n bound (stage tb s))) /\
  ((n <> 0%N -> limit_pp n (stage tb s) = firstn (N.to_nat n) (stage tb s)) /\
   limit_pp 0 (stage tb s) = stage tb s /\
   limit_fin n bound (stage tb s) = firstn (N.to_nat (N.min n bound)) (stage tb s)) /\
  ((tb = None \/ tb = Some five_min_ns -> stage tb s = s) /\
   (forall size, tb = Some size -> size <> five_min_ns -> stage tb s = rebin size s)) /\
  (forall m x y, In x (firstn m s) -> In y (skipn m s) -> less y x = false).
Proof.
  exact (fun k d asc less tb n bound l H =>
    conj (run_pp_spec k d asc tb n l less H) (conj (run_fin_spec k d asc tb n bound l less H)
      (conj (stage_limits tb n bound _) (conj (stage_cases tb _)
        (limit_keeps_top row_key less (by_sto_on k d asc less H) l))))).
Qed.
Print Assumptions c14_limit_is_prefix.

(* with a time resolution the limit is applied AFTER re-binning: the re-binned rows are the merged
   (bin, labels, attributes) groups sorted by time, the limited result is their first rows, and no
   dropped group sorts before a kept one *)
Theorem c14_limit_after_rebin : forall size n bound (s : list row),
  let rb := rebin size s in
  Permutation (merge_rows (map (bin_row size) s)) rb /\
  Sorted (ngt (cmp_time row_less true)) rb /\
  (n <> 0%N -> limit_pp n rb = firstn (N.to_nat n) rb) /\ limit_pp 0 rb = rb /\
  limit_fin n bound rb = firstn (N.to_nat (N.min n bound)) rb /\
  (forall m x y, In x (firstn m rb) -> In y (skipn m rb) -> cmp_time row_less true y x = false).
Proof. exact rebin_spec. Qed.
Print Assumptions c14_limit_after_rebin.

(* the comparator of the unfixed code (time.Time compared with !=, no host id) was not total *)
Theorem c14_unfixed_refuted :
  (exists less, by_v0 3 1 true = Ok less /\ row_key v0_a <> row_key v0_zone /\
     less v0_a v0_zone = false /\ less v0_zone v0_a = false) /\
  (exists less, by_v0 2 1 false = Ok less /\ row_key v0_a <> row_key v0_hostid /\
     less v0_a v0_hostid = false /\ less v0_hostid v0_a = false) /\
  (exists less, by_v0 3 1 true = Ok less /\ sort_rows less [v0_a; v0_zone] <> sort_rows less [v0_zone; v0_a]).
Proof. exact (conj v0_refuted_zone (conj v0_refuted_hostid v0_order_dependent)). Qed.
Print Assumptions c14_unfixed_refuted.

(* ---- non-vacuity -------------------------------------------------------------------------------- *)
(* the hypotheses are met by the rows that defeated the unfixed code: same instant in two zones, rows that
   differ only in the host id, plus a true duplicate; both input orders give the same four rows *)
Example c14_example_rows : let l := [v0_zone; v0_a; v0_hostid; v0_a] in
  (forall k d, In (k, d) [(3, 1); (2, 1); (1, 4); (2, 2); (1, 3)]%Z -> forall asc, exists less,
     by_ k d asc = Ok less /\ sort_rows less l = sort_rows less (rev l)) /\
  (forall a b, In a l -> In b l -> row_key a = row_key b -> a = b) /\
  (exists less, by_ 3 1 true = Ok less /\ sort_rows less l = [v0_a; v0_a; v0_zone; v0_hostid] /\
     limit_pp 2 (sort_rows less l) = [v0_a; v0_a] /\ limit_fin 3 2 (sort_rows less l) = [v0_a; v0_a] /\
     run_fin 3 1 true (Some 3600000000000%Z) 1000 1 l =
       Ok [R 1700002800000000000 100 "hostA" "1" "eth0" (A4 167772161) (A4 167772162) 6 80 20 40 2 4]) /\
  row_key v0_a <> row_key v0_zone /\ row_key v0_a <> row_key v0_hostid.
Proof.
  cbv zeta. split; [|split; [|split; [|split]]].
  - intros k d H asc. cbn in H.
    destruct H as [H|[H|[H|[H|[H|[]]]]]]; inversion H; subst; destruct asc; eexists; split; try reflexivity; vm_compute; reflexivity.
  - intros a b Ia Ib. cbn in Ia, Ib.
    destruct Ia as [<-|[<-|[<-|[<-|[]]]]]; destruct Ib as [<-|[<-|[<-|[<-|[]]]]]; intro H; try reflexivity; inversion H.
  - eexists. split; [reflexivity|]. repeat split; vm_compute; reflexivity.
  - intro H; inversion H.
  - intro H; inversion H.
Qed.

Example c14_example_panics : by_ 0 1 true = Panic /\ by_ 1 0 false = Panic /\ by_ 2 5 true = Panic.
Proof. repeat split. Qed.
