(* C14 property theorems. Nothing but statements closed by `exact`, Print Assumptions and examples.
   [by_ k d asc] models results.By (sort order k: 1 packets 2 bytes 3 time; direction d: 1 sum 2 in 3 out
   4 both; Panic outside). [row_key r] = (attributes, (instant, (host, (host id, interface)))): the labels
   and attributes of a row with the timestamp taken as an instant, i.e. without its time zone.
   [ngt less a b] := less b a = false, the postcondition sort.Sort establishes between earlier/later rows. *)
From Coq Require Import List ZArith NArith String Bool Sorted Permutation.
From GoProbe.Base Require Import CorrLib.
From GoProbe.C14 Require Import Model Proofs.
Import ListNotations.

(* every comparator By can return is irreflexive, transitive, negatively transitive (a strict weak order)
   and total on rows with distinct keys: labels and attributes always break the tie, whatever the zones *)
Theorem c14_strict_total : forall k d asc less, by_ k d asc = Ok less ->
  (forall r, less r r = false) /\
  (forall r1 r2 r3, less r1 r2 = true -> less r2 r3 = true -> less r1 r3 = true) /\
  (forall r1 r2 r3, less r1 r3 = true -> less r1 r2 = true \/ less r2 r3 = true) /\
  (forall r1 r2, row_key r1 <> row_key r2 -> less r1 r2 = true \/ less r2 r1 = true).
Proof. exact by_strict_total. Qed.
Print Assumptions c14_strict_total.

(* By is defined exactly on the enumerated sort orders and directions *)
Theorem c14_by_defined : forall k d asc,
  (((k = 1 \/ k = 2) /\ 1 <= d <= 4 \/ k = 3)%Z -> exists less, by_ k d asc = Ok less) /\
  (~ ((k = 1 \/ k = 2) /\ 1 <= d <= 4 \/ k = 3)%Z -> by_ k d asc = Panic).
Proof. exact (fun k d asc => conj (by_defined k d asc) (by_panics k d asc)). Qed.
Print Assumptions c14_by_defined.

(* two sorted permutations of the same rows are equal, whatever algorithm produced them, provided rows
   with equal keys are identical rows (true duplicates are allowed) *)
Theorem c14_unique_order : forall k d asc less l1 l2, by_ k d asc = Ok less ->
  (forall a b, In a l1 -> In b l1 -> row_key a = row_key b -> a = b) ->
  Permutation l1 l2 -> Sorted (ngt less) l1 -> Sorted (ngt less) l2 -> l1 = l2.
Proof. exact (fun k d asc less l1 l2 H => sorted_unique row_key less (by_sto_on k d asc less H) l1 l2). Qed.
Print Assumptions c14_unique_order.

(* the reference sort returns a sorted permutation, and the result does not depend on the input order *)
Theorem c14_order_independent : forall k d asc less l l', by_ k d asc = Ok less ->
  (forall a b, In a l -> In b l -> row_key a = row_key b -> a = b) ->
  Permutation l l' ->
  Permutation l (sort_rows less l) /\ Sorted (ngt less) (sort_rows less l) /\
  sort_rows less l = sort_rows less l'.
Proof.
  exact (fun k d asc less l l' H Hk Hp =>
    conj (sort_perm less l) (conj (sort_sorted row_key less (by_sto_on k d asc less H) l)
      (sort_order_independent row_key less (by_sto_on k d asc less H) l l' Hk Hp))).
Qed.
Print Assumptions c14_order_independent.

(* the limit of PostProcess (0 = none) and of finalizeResult is a prefix of the sorted rows, and no
   dropped row sorts before a kept one *)
Theorem c14_limit_is_prefix : forall k d asc less n bound l, by_ k d asc = Ok less ->
  let s := sort_rows less l in
  (n <> 0%N -> limit_pp n s = firstn (N.to_nat n) s) /\ limit_pp 0 s = s /\
  limit_fin n bound s = firstn (N.to_nat (N.min n bound)) s /\
  (forall m x y, In x (firstn m s) -> In y (skipn m s) -> less y x = false).
Proof.
  exact (fun k d asc less n bound l H =>
    conj (limit_pp_firstn n _) (conj (limit_pp_zero _) (conj (limit_fin_firstn n bound _)
      (limit_keeps_top row_key less (by_sto_on k d asc less H) l)))).
Qed.
Print Assumptions c14_limit_is_prefix.

(* the comparator of the unfixed code (time.Time compared with !=, no host id) was not total *)
Theorem c14_unfixed_refuted :
  (exists less, by_v0 3 1 true = Ok less /\ row_key v0_a <> row_key v0_zone /\
     less v0_a v0_zone = false /\ less v0_zone v0_a = false) /\
  (exists less, by_v0 2 1 false = Ok less /\ row_key v0_a <> row_key v0_hostid /\
     less v0_a v0_hostid = false /\ less v0_hostid v0_a = false) /\
  (exists less, by_v0 3 1 true = Ok less /\ sort_rows less [v0_a; v0_zone] <> sort_rows less [v0_zone; v0_a]).
Proof. exact (conj v0_refuted_zone (conj v0_refuted_hostid v0_order_dependent)). Qed.
Print Assumptions c14_unfixed_refuted.

(* ---- non-vacuity -------------------------------------------------------------------------------- *)
(* the hypotheses are met by the rows that defeated the unfixed code: same instant in two zones, rows that
   differ only in the host id, plus a true duplicate; both input orders give the same four rows *)
Example c14_example_rows : let l := [v0_zone; v0_a; v0_hostid; v0_a] in
  (forall k d, In (k, d) [(3, 1); (2, 1); (1, 4); (2, 2); (1, 3)]%Z -> forall asc, exists less,
     by_ k d asc = Ok less /\ sort_rows less l = sort_rows less (rev l)) /\
  (forall a b, In a l -> In b l -> row_key a = row_key b -> a = b) /\
  (exists less, by_ 3 1 true = Ok less /\ sort_rows less l = [v0_a; v0_a; v0_zone; v0_hostid] /\
     limit_pp 2 (sort_rows less l) = [v0_a; v0_a] /\ limit_fin 3 2 (sort_rows less l) = [v0_a; v0_a]) /\
  row_key v0_a <> row_key v0_zone /\ row_key v0_a <> row_key v0_hostid.
Proof.
  cbv zeta. split; [|split; [|split; [|split]]].
  - intros k d H asc. cbn in H.
    destruct H as [H|[H|[H|[H|[H|[]]]]]]; inversion H; subst; destruct asc; eexists; split; try reflexivity; vm_compute; reflexivity.
  - intros a b Ia Ib. cbn in Ia, Ib.
    destruct Ia as [<-|[<-|[<-|[<-|[]]]]]; destruct Ib as [<-|[<-|[<-|[<-|[]]]]]; intro H; try reflexivity; inversion H.
  - eexists. split; [reflexivity|]. repeat split; vm_compute; reflexivity.
  - intro H; inversion H.
  - intro H; inversion H.
Qed.

Example c14_example_panics : by_ 0 1 true = Panic /\ by_ 1 0 false = Panic /\ by_ 2 5 true = Panic.
Proof. repeat split. Qed.
