(* C17 property theorems. Nothing but statements closed by `exact`, and Print Assumptions. *)
From Coq Require Import List ZArith String Bool.
From GoProbe.C17 Require Import Model Proofs.
Open Scope Z_scope.

(* every member of the Direction enumeration maps to its name and back to itself *)
Theorem c17_direction_roundtrip : forall d, 0 <= d <= 4 -> dir_from_string (dir_string d) = d.
Proof. exact dir_roundtrip. Qed.
Print Assumptions c17_direction_roundtrip.

Theorem c17_direction_names_distinct : forall d1 d2, 0 <= d1 <= 4 -> 0 <= d2 <= 4 ->
  dir_string d1 = dir_string d2 -> d1 = d2.
Proof. exact dir_names_injective. Qed.
Print Assumptions c17_direction_names_distinct.

Theorem c17_sortorder_roundtrip : forall d, 0 <= d <= 3 -> sort_from_string (sort_string d) = d.
Proof. exact sort_roundtrip. Qed.
Print Assumptions c17_sortorder_roundtrip.

(* the JSON form of an enumeration value decodes to the same value *)
Theorem c17_direction_json : forall d, 0 <= d <= 4 -> dir_of_json (dir_to_json d) = Some d.
Proof. exact dir_json_roundtrip. Qed.
Print Assumptions c17_direction_json.

Theorem c17_sortorder_json : forall d, 0 <= d <= 3 -> sort_of_json (sort_to_json d) = Some d.
Proof. exact sort_json_roundtrip. Qed.
Print Assumptions c17_sortorder_json.

(* a result row (labels with optional timestamp, attributes with optional addresses and
   omitted zero protocol/port, counters with omitted zeros) survives encode/decode *)
Theorem c17_row_roundtrip : forall r, wf_row r = true -> row_of_json (row_to_json r) = Some r.
Proof. exact row_roundtrip. Qed.
Print Assumptions c17_row_roundtrip.

(* non-vacuity: a concrete row with a timestamp, one address, zero port meets the hypothesis *)
Example c17_row_example :
  let r := {| r_labels := {| l_ts := Some "2024-04-12T03:20:00Z"%string; l_iface := "eth0"%string;
                             l_host := ""%string; l_hostid := "7"%string |};
              r_attrs := {| a_sip := Some "10.0.0.1"%string; a_dip := None; a_proto := 6; a_dport := 0 |};
              r_counters := {| c_br := 1; c_bs := 0; c_pr := 18446744073709551615; c_ps := 0 |} |} in
  wf_row r = true /\ row_of_json (row_to_json r) = Some r.
Proof. split; reflexivity. Qed.
