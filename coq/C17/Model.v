(* C17 model: enumeration <-> string maps and the field logic of the custom JSON
   marshalers of result rows (pkg/types/direction.go, pkg/results/sort.go, pkg/results/result.go).
   Executable definitions only. The JSON *text* layer is outside the model: JSON values are trees. *)
From Coq Require Import List ZArith String Bool.
Import ListNotations.
Open Scope string_scope.
Open Scope Z_scope.

(* ---- enumerations: Go ints, so the model works on Z and covers out-of-range values *)
Definition dir_string (d : Z) : string :=
  if d =? 1 then "sum" else if d =? 2 then "in" else if d =? 3 then "out"
  else if d =? 4 then "bi-directional" else "unknown".

Definition dir_from_string (s : string) : Z :=
  if String.eqb s "sum" then 1 else if String.eqb s "in" then 2
  else if String.eqb s "out" then 3 else if String.eqb s "bi-directional" then 4 else 0.

Definition sort_string (d : Z) : string :=
  if d =? 1 then "packets" else if d =? 2 then "bytes" else if d =? 3 then "time" else "unknown".

Definition sort_from_string (s : string) : Z :=
  if String.eqb s "packets" then 1 else if String.eqb s "bytes" then 2
  else if String.eqb s "time" then 3 else 0.

(* ---- JSON trees *)
Inductive json :=
| JNull | JBool (b : bool) | JNum (z : Z) | JStr (s : string)
| JArr (l : list json) | JObj (l : list (string * json)).

Fixpoint jget (k : string) (l : list (string * json)) : option json :=
  match l with
  | [] => None
  | (k', v) :: r => if String.eqb k k' then Some v else jget k r
  end.

(* enum marshalers: a JSON string holding the name *)
Definition dir_to_json (d : Z) : json := JStr (dir_string d).
Definition dir_of_json (j : json) : option Z :=
  match j with JStr s => Some (dir_from_string s) | _ => None end.
Definition sort_to_json (d : Z) : json := JStr (sort_string d).
Definition sort_of_json (j : json) : option Z :=
  match j with JStr s => Some (sort_from_string s) | _ => None end.

(* ---- row field logic. Timestamps and addresses are carried as their canonical text
   (RFC3339 / netip.Addr.String); `None` = zero time / invalid address. *)
Record labels := { l_ts : option string; l_iface : string; l_host : string; l_hostid : string }.
Record attrs  := { a_sip : option string; a_dip : option string; a_proto : Z; a_dport : Z }.
Record counters := { c_br : Z; c_bs : Z; c_pr : Z; c_ps : Z }.

Definition opt_field (k : string) (o : option json) : list (string * json) :=
  match o with Some v => [(k, v)] | None => [] end.
Definition str_field (k s : string) : list (string * json) :=
  if String.eqb s "" then [] else [(k, JStr s)].
Definition num_field (k : string) (z : Z) : list (string * json) :=
  if z =? 0 then [] else [(k, JNum z)].

Definition labels_to_json (l : labels) : json :=
  JObj (opt_field "timestamp" (option_map JStr (l_ts l)) ++ str_field "iface" (l_iface l)
        ++ str_field "host" (l_host l) ++ str_field "host_id" (l_hostid l)).

Definition attrs_to_json (a : attrs) : json :=
  JObj (opt_field "sip" (option_map JStr (a_sip a)) ++ opt_field "dip" (option_map JStr (a_dip a))
        ++ num_field "proto" (a_proto a) ++ num_field "dport" (a_dport a)).

Definition counters_to_json (c : counters) : json :=
  JObj (num_field "br" (c_br c) ++ num_field "bs" (c_bs c) ++ num_field "pr" (c_pr c) ++ num_field "ps" (c_ps c)).

Definition get_str (k : string) (l : list (string * json)) : option string :=
  match jget k l with None => Some "" | Some (JStr s) => Some s | Some _ => None end.
Definition get_optstr (k : string) (l : list (string * json)) : option (option string) :=
  match jget k l with None => Some None | Some (JStr s) => Some (Some s) | Some _ => None end.
Definition get_num (k : string) (l : list (string * json)) : option Z :=
  match jget k l with None => Some 0 | Some (JNum z) => Some z | Some _ => None end.

Definition labels_of_json (j : json) : option labels :=
  match j with
  | JObj l =>
    match get_optstr "timestamp" l, get_str "iface" l, get_str "host" l, get_str "host_id" l with
    | Some t, Some i, Some h, Some hi => Some {| l_ts := t; l_iface := i; l_host := h; l_hostid := hi |}
    | _, _, _, _ => None
    end
  | _ => None
  end.

Definition attrs_of_json (j : json) : option attrs :=
  match j with
  | JObj l =>
    match get_optstr "sip" l, get_optstr "dip" l, get_num "proto" l, get_num "dport" l with
    | Some s, Some d, Some p, Some dp => Some {| a_sip := s; a_dip := d; a_proto := p; a_dport := dp |}
    | _, _, _, _ => None
    end
  | _ => None
  end.

Definition counters_of_json (j : json) : option counters :=
  match j with
  | JObj l =>
    match get_num "br" l, get_num "bs" l, get_num "pr" l, get_num "ps" l with
    | Some a, Some b, Some c, Some d => Some {| c_br := a; c_bs := b; c_pr := c; c_ps := d |}
    | _, _, _, _ => None
    end
  | _ => None
  end.

Record row := { r_labels : labels; r_attrs : attrs; r_counters : counters }.
Definition row_to_json (r : row) : json :=
  JObj [("labels", labels_to_json (r_labels r)); ("attributes", attrs_to_json (r_attrs r));
        ("counters", counters_to_json (r_counters r))].
Definition row_of_json (j : json) : option row :=
  match j with
  | JObj l =>
    match jget "labels" l, jget "attributes" l, jget "counters" l with
    | Some jl, Some ja, Some jc =>
      match labels_of_json jl, attrs_of_json ja, counters_of_json jc with
      | Some a, Some b, Some c => Some {| r_labels := a; r_attrs := b; r_counters := c |}
      | _, _, _ => None
      end
    | _, _, _ => None
    end
  | _ => None
  end.

(* a timestamp text must be non-empty to be a timestamp at all (RFC3339 is never empty);
   same for an address *)
Definition wf_opt (o : option string) : bool := match o with Some s => negb (String.eqb s "") | None => true end.
Definition wf_row (r : row) : bool :=
  wf_opt (l_ts (r_labels r)) && wf_opt (a_sip (r_attrs r)) && wf_opt (a_dip (r_attrs r)).
