From Coq Require Import List ZArith String Bool Lia.
From GoProbe.C17 Require Import Model.
Import ListNotations.
Open Scope string_scope.
Open Scope Z_scope.

Lemma dir_roundtrip : forall d, 0 <= d <= 4 -> dir_from_string (dir_string d) = d.
Proof.
  intros d Hd.
  assert (H : d = 0 \/ d = 1 \/ d = 2 \/ d = 3 \/ d = 4) by lia.
  destruct H as [-> | [-> | [-> | [-> | ->]]]]; reflexivity.
Qed.

Lemma dir_out_of_range : forall d, d < 0 \/ 4 < d -> dir_from_string (dir_string d) = 0.
Proof.
  intros d Hd. unfold dir_string.
  destruct (d =? 1) eqn:E1; [lia|]. destruct (d =? 2) eqn:E2; [lia|].
  destruct (d =? 3) eqn:E3; [lia|]. destruct (d =? 4) eqn:E4; [lia|]. reflexivity.
Qed.

Lemma dir_names_injective : forall d1 d2, 0 <= d1 <= 4 -> 0 <= d2 <= 4 ->
  dir_string d1 = dir_string d2 -> d1 = d2.
Proof.
  intros d1 d2 H1 H2 E. rewrite <- (dir_roundtrip d1 H1), <- (dir_roundtrip d2 H2), E. reflexivity.
Qed.

Lemma sort_roundtrip : forall d, 0 <= d <= 3 -> sort_from_string (sort_string d) = d.
Proof.
  intros d Hd.
  assert (H : d = 0 \/ d = 1 \/ d = 2 \/ d = 3) by lia.
  destruct H as [-> | [-> | [-> | ->]]]; reflexivity.
Qed.

Lemma dir_json_roundtrip : forall d, 0 <= d <= 4 -> dir_of_json (dir_to_json d) = Some d.
Proof. intros d H. unfold dir_of_json, dir_to_json. rewrite dir_roundtrip; auto. Qed.

Lemma sort_json_roundtrip : forall d, 0 <= d <= 3 -> sort_of_json (sort_to_json d) = Some d.
Proof. intros d H. unfold sort_of_json, sort_to_json. rewrite sort_roundtrip; auto. Qed.

(* ---- rows *)
Lemma labels_roundtrip : forall l, wf_opt (l_ts l) = true -> labels_of_json (labels_to_json l) = Some l.
Proof.
  intros [ts i h hi] _. unfold labels_to_json, labels_of_json, str_field, opt_field,
    get_optstr, get_str; cbn [l_ts l_iface l_host l_hostid option_map].
  destruct ts as [t|]; destruct (String.eqb i "") eqn:Ei; destruct (String.eqb h "") eqn:Eh;
    destruct (String.eqb hi "") eqn:Ehi; cbn;
    repeat match goal with H : String.eqb _ _ = true |- _ => apply String.eqb_eq in H; subst end;
    reflexivity.
Qed.

Lemma num_roundtrip_aux : forall k z rest, get_num k (num_field k z ++ rest) =
  if z =? 0 then get_num k rest else Some z.
Proof.
  intros k z rest. unfold num_field. destruct (z =? 0); [reflexivity|].
  cbn. unfold get_num. cbn. rewrite String.eqb_refl. reflexivity.
Qed.

Lemma attrs_roundtrip : forall a, attrs_of_json (attrs_to_json a) = Some a.
Proof.
  intros [s d p dp]. unfold attrs_to_json, attrs_of_json, num_field, opt_field,
    get_optstr, get_num; cbn [a_sip a_dip a_proto a_dport option_map].
  destruct s as [s|]; destruct d as [d|]; destruct (p =? 0) eqn:Ep; destruct (dp =? 0) eqn:Edp; cbn;
    repeat match goal with H : (_ =? 0) = true |- _ => apply Z.eqb_eq in H; subst end;
    reflexivity.
Qed.

Lemma counters_roundtrip : forall c, counters_of_json (counters_to_json c) = Some c.
Proof.
  intros [a b c d]. unfold counters_to_json, counters_of_json, num_field, get_num;
    cbn [c_br c_bs c_pr c_ps].
  destruct (a =? 0) eqn:Ea; destruct (b =? 0) eqn:Eb; destruct (c =? 0) eqn:Ec; destruct (d =? 0) eqn:Ed; cbn;
    repeat match goal with H : (_ =? 0) = true |- _ => apply Z.eqb_eq in H; subst end;
    reflexivity.
Qed.

Lemma row_of_json_obj : forall jl ja jc,
  row_of_json (JObj [("labels", jl); ("attributes", ja); ("counters", jc)]) =
  match labels_of_json jl, attrs_of_json ja, counters_of_json jc with
  | Some a, Some b, Some c => Some {| r_labels := a; r_attrs := b; r_counters := c |}
  | _, _, _ => None
  end.
Proof. reflexivity. Qed.

Lemma row_roundtrip : forall r, wf_row r = true -> row_of_json (row_to_json r) = Some r.
Proof.
  intros [l a c] H. unfold wf_row in H. cbn [r_labels r_attrs] in H.
  apply andb_prop in H. destruct H as [H _]. apply andb_prop in H. destruct H as [Hl _].
  unfold row_to_json. cbn [r_labels r_attrs r_counters]. rewrite row_of_json_obj.
  rewrite labels_roundtrip by exact Hl. rewrite attrs_roundtrip, counters_roundtrip. reflexivity.
Qed.
