(* C17 correspondence: case type, corr (model = observed) and holds (observed meets the spec). *)
From Coq Require Import List ZArith String Bool.
From GoProbe.C17 Require Import Model.
Import ListNotations.
Open Scope Z_scope.

Fixpoint json_eqb (a b : json) : bool :=
  match a, b with
  | JNull, JNull => true
  | JBool x, JBool y => Bool.eqb x y
  | JNum x, JNum y => Z.eqb x y
  | JStr x, JStr y => String.eqb x y
  | JArr x, JArr y =>
    (fix go l1 l2 := match l1, l2 with
                     | [], [] => true
                     | h1 :: t1, h2 :: t2 => json_eqb h1 h2 && go t1 t2
                     | _, _ => false end) x y
  | JObj x, JObj y =>
    (fix go l1 l2 := match l1, l2 with
                     | [], [] => true
                     | (k1, h1) :: t1, (k2, h2) :: t2 => String.eqb k1 k2 && json_eqb h1 h2 && go t1 t2
                     | _, _ => false end) x y
  | _, _ => false
  end.

Definition ostr_eqb (a b : option string) : bool :=
  match a, b with Some x, Some y => String.eqb x y | None, None => true | _, _ => false end.
Definition oz_eqb (a b : option Z) : bool :=
  match a, b with Some x, Some y => Z.eqb x y | None, None => true | _, _ => false end.

Definition labels_eqb (ts_too : bool) (a b : labels) : bool :=
  (if ts_too then ostr_eqb (l_ts a) (l_ts b) else true) && String.eqb (l_iface a) (l_iface b)
  && String.eqb (l_host a) (l_host b) && String.eqb (l_hostid a) (l_hostid b).
Definition attrs_eqb (a b : attrs) : bool :=
  ostr_eqb (a_sip a) (a_sip b) && ostr_eqb (a_dip a) (a_dip b) && Z.eqb (a_proto a) (a_proto b)
  && Z.eqb (a_dport a) (a_dport b).
Definition counters_eqb (a b : counters) : bool :=
  Z.eqb (c_br a) (c_br b) && Z.eqb (c_bs a) (c_bs b) && Z.eqb (c_pr a) (c_pr b) && Z.eqb (c_ps a) (c_ps b).
Definition row_eqb (ts_too : bool) (a b : row) : bool :=
  labels_eqb ts_too (r_labels a) (r_labels b) && attrs_eqb (r_attrs a) (r_attrs b)
  && counters_eqb (r_counters a) (r_counters b).
Definition orow_eqb (a b : option row) : bool :=
  match a, b with Some x, Some y => row_eqb true x y | None, None => true | _, _ => false end.

Inductive case :=
| CDir (v : Z) (s : string) (back : Z) (jback : option Z)
| CSort (v : Z) (s : string) (back : Z) (jback : option Z)
| CDirFrom (s : string) (v : Z)
| CSortFrom (s : string) (v : Z)
| CRow (r : row) (j : json) (back : option row) (instant_equal : bool)
| CEq (what : string) (ok : bool) (fields : list (string * string * string)).

(* does the model still describe the code? *)
Definition corr (c : case) : bool :=
  match c with
  | CDir v s back jb => String.eqb (dir_string v) s && Z.eqb (dir_from_string s) back
                        && oz_eqb (dir_of_json (dir_to_json v)) jb
  | CSort v s back jb => String.eqb (sort_string v) s && Z.eqb (sort_from_string s) back
                         && oz_eqb (sort_of_json (sort_to_json v)) jb
  | CDirFrom s v => Z.eqb (dir_from_string s) v
  | CSortFrom s v => Z.eqb (sort_from_string s) v
  | CRow r j back _ => json_eqb (row_to_json r) j && orow_eqb (row_of_json j) back
  | CEq _ _ _ => true
  end.

(* does the observed behaviour satisfy the property? *)
Definition holds (c : case) : bool :=
  match c with
  | CDir v _ back jb => if (0 <=? v) && (v <=? 4) then Z.eqb back v && oz_eqb jb (Some v) else true
  | CSort v _ back jb => if (0 <=? v) && (v <=? 3) then Z.eqb back v && oz_eqb jb (Some v) else true
  | CDirFrom _ _ => true
  | CSortFrom _ _ => true
  | CRow r _ back inst =>
    (* equivalent value: same instant (zone-normalised), everything else identical *)
    match back with Some b => row_eqb false r b && inst | None => false end
  | CEq _ ok fields => ok && forallb (fun f => String.eqb (snd (fst f)) (snd f)) fields
  end.
