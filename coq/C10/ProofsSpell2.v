(* C10 proofs, part 3b: after-gap lemmas per rule, literal rules, tokens as pieces,
   plain tokens => quiet. *)
From Coq Require Import List Ascii String Bool Arith NArith Lia.
From GoProbe.Base Require Import CorrLib.
From GoProbe.C10 Require Import Model ProofsTok ProofsSan ProofsSpell1.
Import ListNotations.
Open Scope char_scope.

Lemma beq_refl : forall a, beq a a = true.
Proof. induction a as [| x a IH]; [reflexivity |]. simpl. rewrite Ascii.eqb_refl. exact IH. Qed.

Lemma beq_false_ne : forall a b, beq a b = false -> b <> a.
Proof. intros a b H E. subst. rewrite beq_refl in H. discriminate. Qed.

(* the matcher that is tried behind white space, and the operator word of a rule *)
Definition am (r : rule) : matcher :=
  match r with
  | RLit p rep => m_lit p rep
  | RWord w rep => m_word w rep
  | RNot => m_word (B "not") (B "!")
  | RNotP => m_notp (B "!(")
  | RPre w rep => m_pre w rep
  end.
Definition rule_word (r : rule) : bytes :=
  match r with RWord w _ | RPre w _ => w | RNot | RNotP => B "not" | RLit _ _ => [] end.
Definition is_lit (r : rule) : bool := match r with RLit _ _ => true | _ => false end.

Definition wrule (r : rule) : bool := negb (nullb (rule_word r)) && forallb opc (rule_word r).

Definition tok_ok (r : rule) (t : bytes) : bool :=
  negb (nullb t) && forallb nws t && negb (beq t (rule_word r))
  && (negb (opc (hd " " t)) || forallb nbr t).

Lemma wsm_am : forall r, is_lit r = false -> wsm (am r).
Proof.
  intros [p rep | w rep | | | w rep] H; try discriminate; simpl.
  - apply wsm_word. - apply wsm_word. - apply wsm_notp. - apply wsm_pre.
Qed.

Lemma tok_ok_parts : forall r t, tok_ok r t = true ->
  t <> [] /\ forallb nws t = true /\ rule_word r <> t /\ (opc (hd " " t) = false \/ forallb nbr t = true).
Proof.
  intros r t H. unfold tok_ok in H.
  repeat (apply andb_true_iff in H; destruct H as [H ?]).
  split; [destruct t; [discriminate | discriminate] |].
  split; [assumption |]. split.
  - apply beq_false_ne. apply negb_true_iff. assumption.
  - apply orb_true_iff in H0. destruct H0 as [H0 | H0]; [left; apply negb_true_iff; exact H0 | right; exact H0].
Qed.

Lemma head_ok_tok : forall t stuff, t <> [] -> forallb nws t = true -> head_ok (t ++ stuff) = true.
Proof.
  intros [| x t] stuff H1 H2; [contradiction |]. simpl in *. apply andb_true_iff in H2. tauto.
Qed.

Lemma in_nws : forall x t, forallb nws t = true -> In x t -> re_ws x = false.
Proof.
  intros x t H Hin. rewrite forallb_forall in H. specialize (H x Hin). apply negb_true_iff. exact H.
Qed.

(* strip of an operator word from (token ++ stuff) leaves a text starting with a byte of the token *)
Lemma strip_tok : forall r t stuff s2, wrule r = true -> tok_ok r t = true ->
  stuff_ok stuff = true -> strip_prefix (rule_word r) (t ++ stuff) = Some s2 ->
  exists x s2', s2 = x :: s2' /\ re_ws x = false /\ is_bracket x = false.
Proof.
  intros r t stuff s2 HW0 Ht Hs H.
  unfold wrule in HW0. apply andb_true_iff in HW0. destruct HW0 as [HW1 HW].
  destruct (tok_ok_parts r t Ht) as [Hne [Hn [Hw Hb]]].
  destruct (strip_boundary _ _ _ _ HW Hs Hw H) as [x [s2' [E Hin]]].
  exists x, s2'. split; [exact E |]. split; [eapply in_nws; eassumption |].
  destruct Hb as [Hb | Hb].
  - (* the token starts with a byte no operator word starts with: the strip cannot succeed unless
       the word is empty, in which case x is the head *)
    destruct t as [| y t]; [contradiction |]. simpl in Hb.
    destruct (rule_word r) as [| a W] eqn:EW.
    + discriminate.
    + simpl in HW. apply andb_true_iff in HW. destruct HW as [Ha _].
      simpl in H. destruct (Ascii.eqb a y) eqn:Ey; [| discriminate].
      apply Ascii.eqb_eq in Ey. subst y. rewrite Ha in Hb. discriminate.
  - rewrite forallb_forall in Hb. specialize (Hb x Hin). unfold nbr in Hb. apply negb_true_iff. exact Hb.
Qed.

Lemma span_blank : forall t stuff, t <> [] -> forallb nws t = true ->
  span_ws (" " :: t ++ stuff) = (1, t ++ stuff).
Proof.
  intros t stuff H1 H2. change (" " :: t ++ stuff) with ([" "] ++ (t ++ stuff)).
  rewrite span_ws_gap; [reflexivity | reflexivity | apply head_ok_tok; assumption].
Qed.

(* AG: behind a gap, a token that is not the rule's word is not matched *)
Lemma after_gap : forall r t stuff, is_lit r = false -> wrule r = true ->
  tok_ok r t = true -> stuff_ok stuff = true -> hit (am r) (" " :: t ++ stuff) = false.
Proof.
  intros r t stuff Hl HW Ht Hs.
  destruct (tok_ok_parts r t Ht) as [Hne [Hn _]].
  destruct r as [p rep | w rep | | | w rep]; try discriminate; unfold hit, am.
  - unfold m_word. rewrite span_blank by assumption. simpl Nat.eqb. cbv iota.
    destruct (strip_prefix w (t ++ stuff)) as [s2 |] eqn:E; [| reflexivity].
    destruct (strip_tok (RWord w rep) t stuff s2 HW Ht Hs E) as [x [s2' [E2 [Hx _]]]]. subst s2.
    rewrite span_ws_nws by exact Hx. reflexivity.
  - unfold m_word. rewrite span_blank by assumption. simpl Nat.eqb. cbv iota.
    destruct (strip_prefix (B "not") (t ++ stuff)) as [s2 |] eqn:E; [| reflexivity].
    destruct (strip_tok RNot t stuff s2 HW Ht Hs E) as [x [s2' [E2 [Hx _]]]]. subst s2.
    rewrite span_ws_nws by exact Hx. reflexivity.
  - unfold m_notp. rewrite span_blank by assumption. simpl Nat.eqb. cbv iota.
    destruct (strip_prefix (B "not") (t ++ stuff)) as [s2 |] eqn:E; [| reflexivity].
    destruct (strip_tok RNotP t stuff s2 HW Ht Hs E) as [x [s2' [E2 [_ Hx]]]]. subst s2. rewrite Hx. reflexivity.
  - unfold m_pre. rewrite span_blank by assumption. simpl Nat.eqb. cbv iota.
    destruct (strip_prefix w (t ++ stuff)) as [s2 |] eqn:E; [| reflexivity].
    destruct (strip_tok (RPre w rep) t stuff s2 HW Ht Hs E) as [x [s2' [E2 [Hx _]]]]. subst s2.
    rewrite span_ws_nws by exact Hx. reflexivity.
Qed.

(* at the start of the text (the ^ alternative of the two "not" rules) *)
Lemma at_start : forall r t stuff, (r = RNot \/ r = RNotP) -> tok_ok r t = true -> stuff_ok stuff = true ->
  hit (match r with RNot => m_word_start (B "not") (B "!") | _ => m_notp_start (B "!(") end) (t ++ stuff) = false.
Proof.
  intros r t stuff Hr Ht Hs.
  destruct (tok_ok_parts r t Ht) as [Hne [Hn _]].
  assert (HW : wrule r = true) by (destruct Hr; subst; reflexivity).
  assert (Hhead : forall m, wsm m -> m (t ++ stuff) = None).
  { intros m Hm. destruct t as [| y t]; [contradiction |]. simpl in Hn. apply andb_true_iff in Hn.
    destruct Hn as [Hy _]. apply (wsm_nws m Hm). apply negb_true_iff. exact Hy. }
  destruct Hr; subst r; unfold hit.
  - unfold m_word_start.
    destruct (strip_prefix (B "not") (t ++ stuff)) as [s2 |] eqn:E.
    + destruct (strip_tok RNot t stuff s2 HW Ht Hs E) as [x [s2' [E2 [Hx _]]]]. subst s2.
      rewrite span_ws_nws by exact Hx. simpl Nat.eqb. cbv iota.
      rewrite (Hhead _ (wsm_word _ _)). reflexivity.
    + rewrite (Hhead _ (wsm_word _ _)). reflexivity.
  - unfold m_notp_start.
    destruct (strip_prefix (B "not") (t ++ stuff)) as [s2 |] eqn:E.
    + destruct (strip_tok RNotP t stuff s2 HW Ht Hs E) as [x [s2' [E2 [_ Hx]]]]. subst s2. rewrite Hx.
      rewrite (Hhead _ (wsm_notp _)). reflexivity.
    + rewrite (Hhead _ (wsm_notp _)). reflexivity.
Qed.

Lemma no_match_tl : forall m s, no_match m s = true -> no_match m (tl s) = true.
Proof.
  intros m [| c s] H; [reflexivity |]. cbn [no_match] in H. apply andb_true_iff in H. simpl. tauto.
Qed.

(* a text made of pieces is left alone by a white-space rule *)
Lemma ws_rule_quiet : forall r l t stuff, is_lit r = false -> wrule r = true ->
  pieces_ok l [] = true -> gaps_ok (am r) l [] = true ->
  flat l = t ++ stuff -> tok_ok r t = true -> stuff_ok stuff = true ->
  quiet_rule r (flat l) = true.
Proof.
  intros r l t stuff Hl HW Hp Hg Hf Ht Hs.
  pose proof (flat_no_match (am r) l (wsm_am r Hl) Hp Hg) as Hnm.
  destruct r as [p rep | w rep | | | w rep]; try discriminate; unfold quiet_rule; try exact Hnm.
  - change (am RNot) with (m_word (B "not") (B "!")) in Hnm.
    rewrite (no_match_tl _ _ Hnm), andb_true_r. rewrite Hf.
    rewrite (at_start RNot t stuff (or_introl eq_refl) Ht Hs). reflexivity.
  - change (am RNotP) with (m_notp (B "!(")) in Hnm.
    rewrite (no_match_tl _ _ Hnm), andb_true_r. rewrite Hf.
    rewrite (at_start RNotP t stuff (or_intror eq_refl) Ht Hs). reflexivity.
Qed.

(* ---- literal rules: decided by a property of the whole text *)
Fixpoint lit_free (s : bytes) : bool :=
  match s with
  | [] => true
  | c :: r => negb (sp1 c) && (match r with d :: _ => negb (dch c && dch d) | [] => true end) && lit_free r
  end.

Definition lit_ok (p : bytes) : bool :=
  match p with
  | [] => false
  | [x] => sp1 x
  | x :: y :: _ => dch x && dch y
  end.

Lemma lit_free_no_match : forall p rep s, lit_ok p = true -> lit_free s = true -> no_match (m_lit p rep) s = true.
Proof.
  intros p rep. induction s as [| c r IH]; intros Hp H; [reflexivity |].
  cbn [lit_free] in H. apply andb_true_iff in H. destruct H as [H H3].
  apply andb_true_iff in H. destruct H as [H1 H2].
  cbn [no_match]. rewrite IH by assumption. rewrite andb_true_r.
  unfold hit, m_lit. destruct p as [| x [| y p]]; [discriminate | |].
  - simpl in Hp. simpl. destruct (Ascii.eqb x c) eqn:E; [| reflexivity].
    apply Ascii.eqb_eq in E. subst. rewrite Hp in H1. discriminate.
  - simpl in Hp. apply andb_true_iff in Hp. destruct Hp as [Hx Hy]. simpl.
    destruct (Ascii.eqb x c) eqn:E; [| reflexivity]. apply Ascii.eqb_eq in E. subst c.
    destruct r as [| d r]; [reflexivity |].
    destruct (Ascii.eqb y d) eqn:E2; [| reflexivity]. apply Ascii.eqb_eq in E2. subst d.
    rewrite Hx, Hy in H2. discriminate.
Qed.

Lemma lit_free_app : forall x y, lit_free x = true -> lit_free y = true ->
  (dch (last x " ") = false \/ dch (hd " " y) = false) -> lit_free (x ++ y) = true.
Proof.
  induction x as [| c x IH]; intros y Hx Hy Hb; [exact Hy |].
  cbn [lit_free] in Hx. apply andb_true_iff in Hx. destruct Hx as [Hx H3].
  apply andb_true_iff in Hx. destruct Hx as [H1 H2].
  destruct x as [| c' x].
  - simpl app. cbn [lit_free]. rewrite H1, Hy. simpl. rewrite andb_true_r.
    destruct y as [| d y]; [reflexivity |]. simpl in Hb.
    destruct Hb as [Hb | Hb]; rewrite Hb; [reflexivity | rewrite andb_false_r; reflexivity].
  - change ((c :: c' :: x) ++ y) with (c :: (c' :: x) ++ y). cbn [lit_free].
    change ((c' :: x) ++ y) with (c' :: x ++ y) at 1. rewrite H1, H2. simpl andb.
    apply IH; [exact H3 | exact Hy | exact Hb].
Qed.

Lemma lit_free_chars : forall t, forallb (fun c => negb (sp1 c) && negb (dch c)) t = true -> lit_free t = true.
Proof.
  induction t as [| c t IH]; intros H; [reflexivity |].
  simpl in H. apply andb_true_iff in H. destruct H as [H Ht].
  apply andb_true_iff in H. destruct H as [H1 H2]. apply negb_true_iff in H2.
  cbn [lit_free]. rewrite H1, IH by exact Ht. rewrite H2. destruct t; reflexivity.
Qed.

(* ---- tokens joined by blanks, as pieces *)
Fixpoint pj (ts : list bytes) (g : bytes) : list piece :=
  match ts with
  | [] => []
  | [t] => [(t, g)]
  | t :: r => (t, [" "]) :: pj r g
  end.

Lemma flat_pj : forall ts g, ts <> [] -> flat (pj ts g) = join ts ++ g.
Proof.
  induction ts as [| t ts IH]; intros g H; [contradiction |].
  destruct ts as [| t2 ts].
  - simpl. rewrite app_nil_r. reflexivity.
  - change (pj (t :: t2 :: ts) g) with ((t, [" "]) :: pj (t2 :: ts) g).
    change (join (t :: t2 :: ts)) with (t ++ " " :: join (t2 :: ts)).
    cbn [flat]. rewrite IH by discriminate. rewrite <- app_assoc. reflexivity.
Qed.

(* what follows the first token *)
Definition tail_stuff (ts : list bytes) (g v : bytes) : bytes :=
  match ts with [] => g ++ v | _ => " " :: flat (pj ts g) ++ v end.

Lemma flat_pj_head : forall t ts g v, flat (pj (t :: ts) g) ++ v = t ++ tail_stuff ts g v.
Proof.
  intros t [| t2 ts] g v.
  - simpl. rewrite app_nil_r, <- app_assoc. reflexivity.
  - change (pj (t :: t2 :: ts) g) with ((t, [" "]) :: pj (t2 :: ts) g). cbn [flat].
    unfold tail_stuff. rewrite <- !app_assoc. reflexivity.
Qed.

Lemma tail_stuff_ok : forall ts g v, stuff_ok (g ++ v) = true -> stuff_ok (tail_stuff ts g v) = true.
Proof. intros [| t ts] g v H; [exact H | reflexivity]. Qed.

Lemma gaps_pj : forall r ts g v, is_lit r = false -> wrule r = true ->
  forallb (tok_ok r) ts = true -> stuff_ok (g ++ v) = true ->
  (g = [] \/ hit (am r) (" " :: v) = false) ->
  gaps_ok (am r) (pj ts g) v = true.
Proof.
  intros r ts g v Hl HW. induction ts as [| t ts IH]; intros Ht Hs Hg; [reflexivity |].
  simpl in Ht. apply andb_true_iff in Ht. destruct Ht as [Ht Hts].
  destruct ts as [| t2 ts].
  - simpl. rewrite andb_true_r. destruct Hg as [-> | Hg]; [reflexivity |].
    rewrite Hg. apply orb_true_r.
  - change (pj (t :: t2 :: ts) g) with ((t, [" "]) :: pj (t2 :: ts) g). cbn [gaps_ok nullb orb].
    rewrite IH by assumption. rewrite andb_true_r.
    rewrite flat_pj_head. simpl in Hts. apply andb_true_iff in Hts. destruct Hts as [Ht2 _].
    rewrite after_gap; [reflexivity | assumption | assumption | exact Ht2 | apply tail_stuff_ok; exact Hs].
Qed.

Definition chunk_ok (t : bytes) : bool := negb (nullb t) && forallb nws t.

Lemma pieces_pj : forall ts g v, forallb chunk_ok ts = true -> forallb re_ws g = true ->
  (g = [] \/ head_ok v = true) -> pieces_ok (pj ts g) v = true.
Proof.
  induction ts as [| t ts IH]; intros g v Ht Hg Hv; [reflexivity |].
  simpl in Ht. apply andb_true_iff in Ht. destruct Ht as [Ht Hts].
  unfold chunk_ok in Ht. apply andb_true_iff in Ht. destruct Ht as [Ht1 Ht2].
  destruct ts as [| t2 ts].
  - simpl. rewrite Ht1, Ht2, Hg. simpl. rewrite andb_true_r.
    destruct Hv as [-> | Hv]; [reflexivity | rewrite Hv; apply orb_true_r].
  - change (pj (t :: t2 :: ts) g) with ((t, [" "]) :: pj (t2 :: ts) g). cbn [pieces_ok].
    rewrite flat_pj_head. rewrite Ht1, Ht2, IH by assumption.
    simpl in Hts. apply andb_true_iff in Hts. destruct Hts as [Ht3 _].
    unfold chunk_ok in Ht3. apply andb_true_iff in Ht3. destruct Ht3 as [Ha Hb].
    rewrite head_ok_tok; [reflexivity | destruct t2; [discriminate | discriminate] | exact Hb].
Qed.
