(* C10 proofs, part 3a: generic facts about the rewriting function and the white-space matchers. *)
From Coq Require Import List Ascii String Bool Arith NArith Lia.
From GoProbe.Base Require Import CorrLib.
From GoProbe.C10 Require Import Model ProofsTok ProofsSan.
Import ListNotations.
Open Scope char_scope.

Definition nws (c : ascii) : bool := negb (re_ws c).
(* bytes occurring in operator words *)
Definition opc (c : ascii) : bool :=
  let n := N_of_ascii c in ((97 <=? n) && (n <=? 122))%N || Ascii.eqb c "-".
Definition nbr (c : ascii) : bool := negb (is_bracket c).
Definition dch (c : ascii) : bool := inb c ["&"; "|"; "="].
Definition sp1 (c : ascii) : bool := inb c ["*"; "+"; "{"; "["; "}"; "]"].

Ltac allchars c := destruct c as [[] [] [] [] [] [] [] []]; vm_compute; try congruence; auto.

Lemma opc_nws : forall c, opc c = true -> re_ws c = false.
Proof. intros c. allchars c. Qed.
Lemma opc_nbr : forall c, opc c = true -> is_bracket c = false.
Proof. intros c. allchars c. Qed.
Lemma ws_not_opc : forall c, re_ws c = true -> opc c = false.
Proof. intros c. allchars c. Qed.
Lemma ws_not_br : forall c, re_ws c = true -> is_bracket c = false.
Proof. intros c. allchars c. Qed.

Definition head_ok (r : bytes) : bool := match r with [] => true | x :: _ => nws x end.
Definition stuff_ok (r : bytes) : bool := match r with [] => true | x :: _ => negb (opc x) end.

(* ---- span_ws / strip_prefix *)
Lemma span_ws_gap : forall g r, forallb re_ws g = true -> head_ok r = true ->
  span_ws (g ++ r) = (List.length g, r).
Proof.
  induction g as [| x g IH]; intros r Hg Hr.
  - simpl. destruct r as [| y r]; [reflexivity |]. simpl in Hr. unfold nws in Hr.
    apply negb_true_iff in Hr. simpl. rewrite Hr. reflexivity.
  - simpl in Hg. apply andb_true_iff in Hg. destruct Hg as [Hx Hg].
    simpl. rewrite Hx. rewrite IH by assumption. reflexivity.
Qed.

Lemma span_ws_nws : forall x s, re_ws x = false -> span_ws (x :: s) = (0, x :: s).
Proof. intros x s H. simpl. rewrite H. reflexivity. Qed.

Lemma strip_prefix_app : forall w r, strip_prefix w (w ++ r) = Some r.
Proof. induction w as [| x w IH]; intros r; [reflexivity |]. simpl. rewrite Ascii.eqb_refl. apply IH. Qed.

(* boundary lemma: an operator word that is a prefix of (token ++ stuff), where stuff does not go on
   with an operator-word byte, is a proper prefix of the token (or the token itself) *)
Lemma strip_boundary : forall W t stuff s2,
  forallb opc W = true -> stuff_ok stuff = true -> W <> t ->
  strip_prefix W (t ++ stuff) = Some s2 -> exists x s2', s2 = x :: s2' /\ In x t.
Proof.
  induction W as [| a W IH]; intros t stuff s2 HW Hs Hne H.
  - simpl in H. inversion H; subst. destruct t as [| x t]; [contradiction |].
    exists x, (t ++ stuff). split; [reflexivity | left; reflexivity].
  - simpl in HW. apply andb_true_iff in HW. destruct HW as [Ha HW].
    destruct t as [| b t].
    + simpl in H. destruct stuff as [| y stuff]; [discriminate |].
      destruct (Ascii.eqb a y) eqn:E; [| discriminate].
      apply Ascii.eqb_eq in E. subst y. simpl in Hs. rewrite Ha in Hs. discriminate.
    + simpl in H. destruct (Ascii.eqb a b) eqn:E; [| discriminate].
      apply Ascii.eqb_eq in E. subst b.
      assert (Hne' : W <> t) by (intros E; apply Hne; rewrite E; reflexivity).
      destruct (IH t stuff s2 HW Hs Hne' H) as [x [s2' [E1 E2]]].
      exists x, s2'. split; [exact E1 | right; exact E2].
Qed.

(* ---- the rewriting function *)
Fixpoint nohits (m : matcher) (u v : bytes) : bool :=
  match u with
  | [] => true
  | _ :: u' => negb (hit m (u ++ v)) && nohits m u' v
  end.

Lemma no_match_app : forall m u v, nohits m u v = true -> no_match m v = true -> no_match m (u ++ v) = true.
Proof.
  intros m. induction u as [| c u IH]; intros v H Hv; [exact Hv |].
  cbn [nohits] in H. apply andb_true_iff in H. destruct H as [H1 H2].
  change ((c :: u) ++ v) with (c :: (u ++ v)) in *. cbn [no_match]. rewrite H1. simpl. apply IH; assumption.
Qed.

Lemma rw_app_nohits : forall m u v, nohits m u v = true -> rw m (u ++ v) 0 = u ++ rw m v 0.
Proof.
  intros m. induction u as [| c u IH]; intros v H; [reflexivity |].
  cbn [nohits] in H. apply andb_true_iff in H. destruct H as [H1 H2].
  apply negb_true_iff in H1. unfold hit in H1.
  change ((c :: u) ++ v) with (c :: (u ++ v)) in *. cbn [rw].
  destruct (m (c :: u ++ v)) as [[[| n] out] |]; try discriminate; rewrite IH by exact H2; reflexivity.
Qed.

Lemma nohits_app : forall m x y v, nohits m x (y ++ v) = true -> nohits m y v = true ->
  nohits m (x ++ y) v = true.
Proof.
  intros m. induction x as [| c x IH]; intros y v H1 H2; [exact H2 |].
  cbn [nohits] in H1. apply andb_true_iff in H1. destruct H1 as [Ha Hb].
  change ((c :: x) ++ y) with (c :: (x ++ y)). cbn [nohits].
  change ((c :: x ++ y) ++ v) with (c :: (x ++ y) ++ v). rewrite <- app_assoc.
  change (c :: x ++ y ++ v) with ((c :: x) ++ y ++ v). rewrite Ha. simpl. apply IH; assumption.
Qed.

Lemma rw_skip : forall m u v, rw m (u ++ v) (List.length u) = rw m v 0.
Proof. intros m. induction u as [| c u IH]; intros v; [reflexivity |]. simpl. apply IH. Qed.

Lemma rw_hit : forall m x v out, x <> [] -> m (x ++ v) = Some (List.length x, out) ->
  rw m (x ++ v) 0 = out ++ rw m v 0.
Proof.
  intros m x v out Hx H. destruct x as [| c x]; [contradiction |].
  change ((c :: x) ++ v) with (c :: (x ++ v)) in *. simpl List.length in H. cbn [rw]. rewrite H.
  rewrite rw_skip. reflexivity.
Qed.

(* ---- matchers that begin with \s+ *)
Record wsm (m : matcher) : Prop := {
  wsm_nws : forall x s, re_ws x = false -> m (x :: s) = None;
  wsm_gap : forall g r, g <> [] -> forallb re_ws g = true -> head_ok r = true ->
            hit m (g ++ r) = hit m (" " :: r) }.

Lemma wsm_word : forall w rep, wsm (m_word w rep).
Proof.
  intros w rep. split.
  - intros x s H. unfold m_word. rewrite span_ws_nws by exact H. reflexivity.
  - intros g r Hg Hws Hr. unfold hit, m_word.
    rewrite span_ws_gap by assumption.
    change (" " :: r) with ([" "] ++ r). rewrite span_ws_gap by (assumption || reflexivity).
    destruct g as [| x g]; [contradiction |]. simpl List.length. simpl Nat.eqb.
    destruct (strip_prefix w r) as [s2 |]; [| reflexivity].
    destruct (span_ws s2) as [n2 s3]. destruct (Nat.eqb n2 0); reflexivity.
Qed.

Lemma wsm_notp : forall rep, wsm (m_notp rep).
Proof.
  intros rep. split.
  - intros x s H. unfold m_notp. rewrite span_ws_nws by exact H. reflexivity.
  - intros g r Hg Hws Hr. unfold hit, m_notp.
    rewrite span_ws_gap by assumption.
    change (" " :: r) with ([" "] ++ r). rewrite span_ws_gap by (assumption || reflexivity).
    destruct g as [| x g]; [contradiction |]. simpl List.length. simpl Nat.eqb.
    destruct (strip_prefix (B "not") r) as [[| c s2] |]; try reflexivity.
    destruct (is_bracket c); reflexivity.
Qed.

Lemma wsm_pre : forall w rep, wsm (m_pre w rep).
Proof.
  intros w rep. split.
  - intros x s H. unfold m_pre. rewrite span_ws_nws by exact H. reflexivity.
  - intros g r Hg Hws Hr. unfold hit, m_pre.
    rewrite span_ws_gap by assumption.
    change (" " :: r) with ([" "] ++ r). rewrite span_ws_gap by (assumption || reflexivity).
    destruct g as [| x g]; [contradiction |]. simpl List.length. simpl Nat.eqb.
    destruct (strip_prefix w r) as [s2 |]; [| reflexivity].
    destruct (span_ws s2) as [n2 s3]. destruct (Nat.eqb n2 0); [reflexivity |].
    destruct (strip_prefix (B "not") s3) as [[| c s4] |]; try reflexivity.
    destruct (re_ws c || is_bracket c); reflexivity.
Qed.

Lemma nohits_nws : forall m c v, wsm m -> forallb nws c = true -> nohits m c v = true.
Proof.
  intros m c v Hm. induction c as [| x c IH]; intros H; [reflexivity |].
  simpl in H. apply andb_true_iff in H. destruct H as [Hx Hc].
  cbn [nohits]. rewrite IH by exact Hc. rewrite andb_true_r.
  unfold hit. change ((x :: c) ++ v) with (x :: (c ++ v)).
  rewrite (wsm_nws m Hm) by (apply negb_true_iff; exact Hx). reflexivity.
Qed.

Lemma nohits_gap : forall m g r, wsm m -> forallb re_ws g = true -> head_ok r = true ->
  (g = [] \/ hit m (" " :: r) = false) -> nohits m g r = true.
Proof.
  intros m g r Hm. induction g as [| x g IH]; intros Hg Hr H; [reflexivity |].
  destruct H as [H | H]; [discriminate |].
  assert (Hg' := Hg). simpl in Hg'. apply andb_true_iff in Hg'. destruct Hg' as [Hx Hgg].
  cbn [nohits]. rewrite (wsm_gap m Hm) by (assumption || discriminate). rewrite H. simpl.
  apply IH; [exact Hgg | exact Hr | right; exact H].
Qed.

(* ---- texts as pieces: a chunk without white space followed by a (possibly empty) gap *)
Definition piece := (bytes * bytes)%type.
Fixpoint flat (l : list piece) : bytes :=
  match l with [] => [] | (c, g) :: r => c ++ g ++ flat r end.

Lemma flat_app : forall l1 l2, flat (l1 ++ l2) = flat l1 ++ flat l2.
Proof.
  induction l1 as [| [c g] l1 IH]; intros l2; [reflexivity |].
  simpl. rewrite IH. rewrite <- !app_assoc. reflexivity.
Qed.

Definition nullb (l : bytes) : bool := match l with [] => true | _ => false end.

Fixpoint pieces_ok (l : list piece) (v : bytes) : bool :=
  match l with
  | [] => true
  | (c, g) :: r => negb (nullb c) && forallb nws c && forallb re_ws g
                   && (nullb g || head_ok (flat r ++ v)) && pieces_ok r v
  end.

(* after every non-empty gap the matcher does not match (tested behind a single blank) *)
Fixpoint gaps_ok (m : matcher) (l : list piece) (v : bytes) : bool :=
  match l with
  | [] => true
  | (c, g) :: r => (nullb g || negb (hit m (" " :: flat r ++ v))) && gaps_ok m r v
  end.

Lemma flat_nohits : forall m l v, wsm m -> pieces_ok l v = true -> gaps_ok m l v = true ->
  nohits m (flat l) v = true.
Proof.
  intros m l v Hm. induction l as [| [c g] r IH]; intros Hp Hg; [reflexivity |].
  cbn [pieces_ok] in Hp. cbn [gaps_ok] in Hg.
  repeat (apply andb_true_iff in Hp; destruct Hp as [Hp ?]).
  apply andb_true_iff in Hg. destruct Hg as [Hg1 Hg2].
  cbn [flat]. apply nohits_app.
  - apply nohits_nws; assumption.
  - apply nohits_app; [| apply IH; assumption].
    destruct g as [| x g]; [reflexivity |].
    simpl in H0. simpl in Hg1. apply negb_true_iff in Hg1.
    apply nohits_gap; [exact Hm | assumption | exact H0 | right; exact Hg1].
Qed.

Lemma flat_no_match : forall m l, wsm m -> pieces_ok l [] = true -> gaps_ok m l [] = true ->
  no_match m (flat l) = true.
Proof.
  intros m l Hm Hp Hg. rewrite <- (app_nil_r (flat l)).
  apply no_match_app; [apply flat_nohits; assumption | reflexivity].
Qed.

Lemma gaps_ok_app : forall m l1 l2 v,
  gaps_ok m (l1 ++ l2) v = gaps_ok m l1 (flat l2 ++ v) && gaps_ok m l2 v.
Proof.
  intros m. induction l1 as [| [c g] l1 IH]; intros l2 v; [reflexivity |].
  cbn [app gaps_ok]. rewrite IH. rewrite flat_app, <- app_assoc. rewrite andb_assoc. reflexivity.
Qed.

Lemma pieces_ok_app : forall l1 l2 v,
  pieces_ok (l1 ++ l2) v = pieces_ok l1 (flat l2 ++ v) && pieces_ok l2 v.
Proof.
  induction l1 as [| [c g] l1 IH]; intros l2 v; [reflexivity |].
  cbn [app pieces_ok]. rewrite IH. rewrite flat_app, <- app_assoc. rewrite !andb_assoc. reflexivity.
Qed.
