(* C10 proofs, part 1: tokenizer / canonical form, parser totality. *)
From Coq Require Import List Ascii String Bool Arith NArith Lia.
From GoProbe.Base Require Import CorrLib.
From GoProbe.C10 Require Import Model.
Import ListNotations.
Open Scope char_scope.

(* ------------------------------------------------------------------ well-formed tokens *)
Definition wordc (c : ascii) : bool := negb (starts_delim c).

Definition delim_tok (t : bytes) : bool :=
  match t with
  | [c] => is_single c || is_pair c
  | [c; d] => is_pair c && Ascii.eqb d "="
  | _ => false
  end.

Definition wf_tok (t : bytes) : bool :=
  match t with [] => false | _ => forallb wordc t || delim_tok t end.

Lemma inb_cases : forall c l, inb c l = true -> In c l.
Proof.
  intros c l H. unfold inb in H. apply existsb_exists in H. destruct H as [x [Hin Heq]].
  apply Ascii.eqb_eq in Heq. subst. exact Hin.
Qed.

Lemma single_cases : forall c, is_single c = true ->
  is_tws c = false /\ is_pair c = false.
Proof.
  intros c H. apply inb_cases in H. simpl in H.
  repeat (destruct H as [H | H]; [subst; split; reflexivity |]). contradiction.
Qed.

Lemma pair_cases : forall c, is_pair c = true ->
  is_tws c = false /\ is_single c = false.
Proof.
  intros c H. apply inb_cases in H. simpl in H.
  repeat (destruct H as [H | H]; [subst; split; reflexivity |]). contradiction.
Qed.

Lemma wordc_cases : forall c, wordc c = true ->
  is_tws c = false /\ is_single c = false /\ is_pair c = false.
Proof.
  intros c H. unfold wordc, starts_delim in H. apply negb_true_iff in H.
  apply orb_false_iff in H. destruct H as [H H3]. apply orb_false_iff in H. tauto.
Qed.

Lemma flush_nil : forall k, flush [] k = k.
Proof. reflexivity. Qed.

Lemma flush_cons : forall a acc k, flush (a :: acc) k = rev (a :: acc) :: k.
Proof. reflexivity. Qed.

(* a run of word bytes is collected into the accumulator *)
Lemma tok_word_app : forall w s acc, forallb wordc w = true ->
  tok (w ++ s) acc = tok s (rev w ++ acc).
Proof.
  induction w as [| c w IH]; intros s acc H; [reflexivity |].
  simpl in H. apply andb_true_iff in H. destruct H as [Hc Hw].
  destruct (wordc_cases c Hc) as [H1 [H2 H3]].
  simpl. rewrite H1, H2, H3. rewrite IH by exact Hw.
  rewrite <- app_assoc. reflexivity.
Qed.

Lemma rev_nonnil : forall (A : Type) (l : list A), l <> [] -> rev l <> [].
Proof.
  intros A l H E. apply H. rewrite <- (rev_involutive l), E. reflexivity.
Qed.

Lemma flush_nonnil : forall acc k, acc <> [] -> flush acc k = rev acc :: k.
Proof. intros [| a acc] k H; [contradiction | reflexivity]. Qed.

(* a well-formed token followed by a blank is read back as that token *)
Lemma tok_token_sp : forall t r, wf_tok t = true -> tok (t ++ " " :: r) [] = t :: tok r [].
Proof.
  intros t r H. unfold wf_tok in H. destruct t as [| c t]; [discriminate |].
  apply orb_true_iff in H. destruct H as [H | H].
  - set (w := c :: t) in *. assert (Hw : w <> []) by discriminate. clearbody w.
    rewrite tok_word_app by exact H. rewrite app_nil_r.
    simpl tok. rewrite flush_nonnil by (apply rev_nonnil; exact Hw).
    rewrite rev_involutive. reflexivity.
  - unfold delim_tok in H. destruct t as [| d t].
    + apply orb_true_iff in H. destruct H as [H | H].
      * destruct (single_cases c H) as [H1 H2]. simpl. rewrite H1, H. reflexivity.
      * destruct (pair_cases c H) as [H1 H2]. simpl. rewrite H1, H2, H. reflexivity.
    + destruct t; [| discriminate]. apply andb_true_iff in H. destruct H as [H Hd].
      apply Ascii.eqb_eq in Hd. subst d.
      destruct (pair_cases c H) as [H1 H2]. simpl. rewrite H1, H2, H. reflexivity.
Qed.

Lemma tok_token_end : forall t, wf_tok t = true -> tok t [] = [t].
Proof.
  intros t H. unfold wf_tok in H. destruct t as [| c t]; [discriminate |].
  apply orb_true_iff in H. destruct H as [H | H].
  - set (w := c :: t) in *. assert (Hw : w <> []) by discriminate. clearbody w.
    rewrite <- (app_nil_r w) at 1. rewrite tok_word_app by exact H. rewrite app_nil_r.
    simpl tok. rewrite flush_nonnil by (apply rev_nonnil; exact Hw).
    rewrite rev_involutive. reflexivity.
  - unfold delim_tok in H. destruct t as [| d t].
    + apply orb_true_iff in H. destruct H as [H | H].
      * destruct (single_cases c H) as [H1 H2]. simpl. rewrite H1, H. reflexivity.
      * destruct (pair_cases c H) as [H1 H2]. simpl. rewrite H1, H2, H. reflexivity.
    + destruct t; [| discriminate]. apply andb_true_iff in H. destruct H as [H Hd].
      apply Ascii.eqb_eq in Hd. subst d.
      destruct (pair_cases c H) as [H1 H2]. simpl. rewrite H1, H2, H. reflexivity.
Qed.

Lemma tokenize_join : forall ts, forallb wf_tok ts = true -> tokenize (join ts) = ts.
Proof.
  unfold tokenize. induction ts as [| t ts IH]; intros H; [reflexivity |].
  simpl in H. apply andb_true_iff in H. destruct H as [Ht Hts].
  destruct ts as [| t2 ts].
  - simpl. apply tok_token_end. exact Ht.
  - change (join (t :: t2 :: ts)) with (t ++ " " :: join (t2 :: ts)).
    rewrite tok_token_sp by exact Ht. rewrite IH by exact Hts. reflexivity.
Qed.

(* every token the tokenizer emits is well formed *)
Lemma wf_flush : forall acc k, forallb wordc acc = true -> forallb wf_tok k = true ->
  forallb wf_tok (flush acc k) = true.
Proof.
  intros [| a acc] k Ha Hk; [exact Hk |].
  rewrite flush_cons.
  assert (Hr : forallb wordc (rev (a :: acc)) = true).
  { apply forallb_forall. intros x Hx. apply in_rev in Hx.
    rewrite forallb_forall in Ha. apply Ha. exact Hx. }
  assert (Hw : rev (a :: acc) <> []) by (apply rev_nonnil; discriminate).
  remember (rev (a :: acc)) as w eqn:E. clear E.
  cbn [forallb]. rewrite Hk, andb_true_r.
  unfold wf_tok. destruct w; [contradiction |]. rewrite Hr. reflexivity.
Qed.

Lemma tok_wf_len : forall n s acc, List.length s <= n -> forallb wordc acc = true ->
  forallb wf_tok (tok s acc) = true.
Proof.
  induction n as [| n IH]; intros s acc Hn Hacc.
  - destruct s; [| simpl in Hn; lia]. simpl. apply wf_flush; [exact Hacc | reflexivity].
  - destruct s as [| c r]; [simpl; apply wf_flush; [exact Hacc | reflexivity] |].
    simpl in Hn. assert (Hr : List.length r <= n) by lia.
    simpl tok. destruct (is_tws c) eqn:E1.
    { apply wf_flush; [exact Hacc |]. apply IH; [exact Hr | reflexivity]. }
    destruct (is_single c) eqn:E2.
    { apply wf_flush; [exact Hacc |]. cbn [forallb].
      rewrite IH by (exact Hr || reflexivity). unfold wf_tok, delim_tok. rewrite E2.
      rewrite orb_true_r. reflexivity. }
    destruct (is_pair c) eqn:E3.
    { destruct r as [| d r'].
      - apply wf_flush; [exact Hacc |]. simpl. unfold wf_tok, delim_tok. rewrite E3.
        rewrite !orb_true_r. reflexivity.
      - destruct (Ascii.eqb d "=") eqn:Ed.
        + apply wf_flush; [exact Hacc |]. cbn [forallb].
          rewrite IH by (simpl in Hr; try lia; reflexivity).
          unfold wf_tok, delim_tok. rewrite E3, Ed. rewrite orb_true_r. reflexivity.
        + apply wf_flush; [exact Hacc |]. cbn [forallb].
          rewrite IH by (exact Hr || reflexivity).
          unfold wf_tok, delim_tok. rewrite E3. rewrite !orb_true_r. reflexivity. }
    apply IH; [exact Hr |]. simpl. rewrite Hacc, andb_true_r.
    unfold wordc, starts_delim. rewrite E1, E2, E3. reflexivity.
Qed.

Lemma tokenize_wf : forall s, forallb wf_tok (tokenize s) = true.
Proof. intros s. unfold tokenize. apply (tok_wf_len (List.length s)); [lia | reflexivity]. Qed.

Lemma canonical_stable : forall s, tokenize (join (tokenize s)) = tokenize s.
Proof. intros s. apply tokenize_join, tokenize_wf. Qed.

Lemma take_ok_wf : forall l, forallb wf_tok l = true -> forallb wf_tok (fst (take_ok l)) = true.
Proof.
  induction l as [| t l IH]; intros H; [reflexivity |].
  simpl in H. apply andb_true_iff in H. destruct H as [Ht Hl].
  simpl. destruct (too_long t); [reflexivity |].
  specialize (IH Hl). destruct (take_ok l) as [a ok]. simpl in *. rewrite Ht, IH. reflexivity.
Qed.

Lemma take_ok_fix : forall l, snd (take_ok l) = true -> fst (take_ok l) = l.
Proof.
  induction l as [| t l IH]; intros H; [reflexivity |].
  simpl in *. destruct (too_long t); [discriminate |].
  destruct (take_ok l) as [a ok]. simpl in *. rewrite IH by exact H. reflexivity.
Qed.

Lemma take_ok_idem : forall l, take_ok (fst (take_ok l)) = (fst (take_ok l), true).
Proof.
  induction l as [| t l IH]; [reflexivity |].
  simpl. destruct (too_long t) eqn:E; [reflexivity |].
  destruct (take_ok l) as [a ok]. simpl in *. rewrite E, IH. reflexivity.
Qed.

(* the canonical string (also the one built from the tokens in front of an over-long token)
   tokenizes, without error, to the very tokens it was built from *)
Lemma canonical_stable_go : forall s,
  tokenize_go (join (fst (tokenize_go s))) = (fst (tokenize_go s), true).
Proof.
  intros s. unfold tokenize_go.
  rewrite tokenize_join by (apply take_ok_wf, tokenize_wf).
  apply take_ok_idem.
Qed.

(* ------------------------------------------------------------------ parser: no index out of
   range, positions stay inside the token list, the iteration bound is never exhausted *)
Definition good {A} (ts : list bytes) (pos : nat) (r : pres A) : Prop :=
  match r with
  | POk _ p => pos <= p <= List.length ts
  | PErr p => p <= List.length ts
  | PPanic => False
  | PFuel => False
  end.

Lemma accept_spec : forall ts pos t, pos <= List.length ts ->
  (accept ts pos t = Ok false) \/ (accept ts pos t = Ok true /\ pos < List.length ts).
Proof.
  intros ts pos t Hp. unfold accept, eof, tok_at.
  destruct (Nat.leb (List.length ts) pos) eqn:E; [left; reflexivity |].
  apply Nat.leb_gt in E. destruct (nth_error ts pos) eqn:En.
  - destruct (beq l t); [right; split; [reflexivity | exact E] | left; reflexivity].
  - apply nth_error_None in En. lia.
Qed.

Lemma good_oneof : forall ts pos l, pos <= List.length ts -> good ts pos (p_oneof ts pos l).
Proof.
  intros ts pos l Hp. unfold p_oneof, eof, tok_at.
  destruct (Nat.leb (List.length ts) pos) eqn:E; [simpl; lia |].
  apply Nat.leb_gt in E. destruct (nth_error ts pos) eqn:En.
  - destruct (existsb (beq l0) l); simpl; lia.
  - apply nth_error_None in En. lia.
Qed.

Lemma good_value : forall ts pos, pos <= List.length ts -> good ts pos (p_value ts pos).
Proof.
  intros ts pos Hp. unfold p_value, eof, tok_at.
  destruct (Nat.leb (List.length ts) pos) eqn:E; [simpl; lia |].
  apply Nat.leb_gt in E. destruct (nth_error ts pos) eqn:En.
  - simpl; lia.
  - apply nth_error_None in En. lia.
Qed.

Lemma good_cond : forall ts pos, pos <= List.length ts -> good ts pos (p_cond ts pos).
Proof.
  intros ts pos Hp. unfold p_cond.
  pose proof (good_oneof ts pos attributes Hp) as H1.
  destruct (p_oneof ts pos attributes) as [a p1 | p | |]; simpl in H1; try exact H1.
  pose proof (good_oneof ts p1 comparators (proj2 H1)) as H2.
  destruct (p_oneof ts p1 comparators) as [c p2 | p | |]; simpl in H2; try exact H2.
  pose proof (good_value ts p2 (proj2 H2)) as H3.
  destruct (p_value ts p2) as [v p3 | p | |]; simpl in H3; try exact H3.
  simpl. lia.
Qed.

Definition good_fun (ts : list bytes) (f : nat -> pres tree) : Prop :=
  forall p, p <= List.length ts -> good ts p (f p).

Lemma good_loop : forall ts item sep, good_fun ts item ->
  forall n pos, pos <= List.length ts -> List.length ts - pos <= n ->
  good ts pos (p_loop ts item sep n pos).
Proof.
  intros ts item sep Hitem. induction n as [| n IH]; intros pos Hp Hn.
  - simpl. destruct (accept_spec ts pos sep Hp) as [E | [E Hlt]]; rewrite E; simpl; lia.
  - simpl. destruct (accept_spec ts pos sep Hp) as [E | [E Hlt]]; rewrite E; [simpl; lia |].
    pose proof (Hitem (S pos) Hlt) as H1.
    destruct (item (S pos)) as [t p1 | p | |]; simpl in H1; try exact H1.
    assert (H2 : good ts p1 (p_loop ts item sep n p1)) by (apply IH; lia).
    destruct (p_loop ts item sep n p1) as [l p2 | p | |]; simpl in H2 |- *; try exact H2. lia.
Qed.

Lemma good_list : forall ts item sep and, good_fun ts item -> good_fun ts (p_list ts item sep and).
Proof.
  intros ts item sep and Hitem pos Hp. unfold p_list.
  pose proof (Hitem pos Hp) as H1.
  destruct (item pos) as [t p1 | p | |]; simpl in H1; try exact H1.
  assert (H2 : good ts p1 (p_loop ts item sep (List.length ts) p1))
    by (apply good_loop; [exact Hitem | lia | lia]).
  destruct (p_loop ts item sep (List.length ts) p1) as [l p2 | p | |]; simpl in H2 |- *; try exact H2.
  lia.
Qed.

Definition good_inner (ts : list bytes) (inner : option (nat -> pres tree)) : Prop :=
  match inner with Some f => good_fun ts f | None => True end.

Lemma good_prim : forall ts inner, good_inner ts inner -> good_fun ts (p_prim ts inner).
Proof.
  intros ts inner Hin pos Hp. unfold p_prim.
  destruct (accept_spec ts pos (B "(") Hp) as [E | [E Hlt]]; rewrite E; [apply good_cond; exact Hp |].
  destruct inner as [f |]; [| simpl; lia].
  pose proof (Hin (S pos) Hlt) as H1.
  destruct (f (S pos)) as [t p1 | p | |]; simpl in H1; try exact H1.
  destruct (accept_spec ts p1 (B ")") (proj2 H1)) as [E2 | [E2 Hlt2]]; rewrite E2; simpl; lia.
Qed.

Lemma good_neg : forall ts inner, good_inner ts inner -> good_fun ts (p_neg ts inner).
Proof.
  intros ts inner Hin pos Hp. unfold p_neg.
  destruct (accept_spec ts pos (B "!") Hp) as [E | [E Hlt]]; rewrite E; [apply good_prim; assumption |].
  pose proof (good_prim ts inner Hin (S pos) Hlt) as H1.
  destruct (p_prim ts inner (S pos)) as [t p1 | p | |]; simpl in H1 |- *; try exact H1. lia.
Qed.

Lemma good_disj : forall ts depth, good_fun ts (p_disj ts depth).
Proof.
  intros ts. induction depth as [| d IH]; intros pos Hp; simpl p_disj.
  - apply good_list; [| exact Hp]. apply good_list. apply good_neg. exact I.
  - apply good_list; [| exact Hp]. apply good_list. apply good_neg. exact IH.
Qed.

Lemma parse_cst_total : forall ts,
  parse_cst ts = Empty \/ (exists t, parse_cst ts = Accepted t) \/
  (exists p, p <= List.length ts /\ parse_cst ts = Rejected p).
Proof.
  intros ts. unfold parse_cst. destruct ts as [| t0 ts']; [left; reflexivity |].
  set (ts := t0 :: ts'). right.
  pose proof (good_disj ts max_depth 0 (Nat.le_0_l _)) as H.
  destruct (p_disj ts max_depth 0) as [t p | p | |]; unfold good in H; try contradiction.
  - destruct (eof ts p); [left; eexists; reflexivity |].
    right. exists p. split; [lia |].
    replace (Nat.ltb (List.length ts) p) with false by (symmetry; apply Nat.ltb_ge; lia). reflexivity.
  - right. exists p. split; [lia |].
    replace (Nat.ltb (List.length ts) p) with false by (symmetry; apply Nat.ltb_ge; lia). reflexivity.
Qed.

Lemma parse_total : forall ts,
  parse ts = Empty \/ (exists t, parse ts = Accepted t) \/ (exists p, p <= List.length ts /\ parse ts = Rejected p).
Proof.
  intros ts. unfold parse.
  destruct (parse_cst_total ts) as [E | [[t E] | [p [Hp E]]]]; rewrite E.
  - left; reflexivity.
  - right; left; eexists; reflexivity.
  - right; right; exists p; split; [exact Hp | reflexivity].
Qed.

Lemma parse_no_crash : forall ts, parse ts <> Crashed /\ parse ts <> OutOfFuel.
Proof.
  intros ts. destruct (parse_total ts) as [E | [[t E] | [p [_ E]]]]; rewrite E; split; discriminate.
Qed.

Lemma prepare_total : forall order s,
  fst (prepare order s) <> Crashed /\ fst (prepare order s) <> OutOfFuel.
Proof.
  intros order s. unfold prepare. destruct (tokenize_go (sanitize order s)) as [ts ok].
  destruct ok; simpl; [apply parse_no_crash | split; discriminate].
Qed.

(* re-preparing the canonical string: same tokens, hence the same verdict and the same tree *)
Lemma reparse_same : forall s,
  snd (tokenize_go s) = true ->
  parse (fst (tokenize_go (join (fst (tokenize_go s))))) = parse (fst (tokenize_go s)).
Proof. intros s _. rewrite canonical_stable_go. reflexivity. Qed.
