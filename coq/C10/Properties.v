(* C10 property theorems. Nothing but statements closed by `exact`, Print Assumptions, examples. *)
From Coq Require Import List Ascii String Bool Arith NArith.
From GoProbe.Base Require Import CorrLib.
From Coq Require Import Permutation.
From GoProbe.C10 Require Import Model ProofsTok ProofsSan ProofsSpell1 ProofsSpell6 ProofsSpell7 ProofsDepth.
Import ListNotations.

(* For every text and every iteration order of the conversion map, preparing the condition ends in
   "accepted", "empty", "rejected at a token position" or "tokenizer error": never in an index out
   of range, and the iteration bounds of the model are never exhausted. *)
Theorem c10_total : forall order s,
  fst (prepare order s) <> Crashed /\ fst (prepare order s) <> OutOfFuel.
Proof. exact prepare_total. Qed.
Print Assumptions c10_total.

(* The same for the parser on ANY token list (whatever a sanitizer produced, ASCII or not); the
   error position lies inside the token list, so rendering the error cannot fail either. *)
Theorem c10_parse_total : forall ts,
  parse ts = Empty \/ (exists t, parse ts = Accepted t) \/
  (exists p, p <= List.length ts /\ parse ts = Rejected p).
Proof. exact parse_total. Qed.
Print Assumptions c10_parse_total.

(* Nesting bound. `parse_cst` is the parser keeping one `TPar` node per parenthesised group (Go drops
   them: parse = strip after parse_cst). If a token list is accepted, it is exactly the rendering
   (`unparse`) of a syntax tree whose parentheses are nested at most 512 deep -- `par_depth` takes the
   maximum over the operands of & and |, so conditions standing beside a group do not enlarge the bound.
   The recursion of the parser is on the remaining depth, hence at most 513 nested calls of p_disj. *)
Theorem c10_depth_bound : forall ts c, parse_cst ts = Accepted c ->
  unparse c = ts /\ par_depth c <= 512 /\ parse ts = Accepted (strip c).
Proof. exact depth_bound_tokens. Qed.
Print Assumptions c10_depth_bound.

(* Tokens joined by single blanks tokenize to themselves: for all byte strings. *)
Theorem c10_canonical_stable : forall s, tokenize (join (tokenize s)) = tokenize s.
Proof. exact canonical_stable. Qed.
Print Assumptions c10_canonical_stable.

(* Hence the canonical string stored in the statement (built from the tokens Tokenize returned,
   also when it stopped at an over-long token) is tokenized without error to exactly those tokens:
   parsing it gives the same verdict and the same tree as the original text. *)
Theorem c10_canonical_meaning : forall order s,
  tokenize_go (canon order s) = (fst (tokenize_go (sanitize order s)), true).
Proof. intros order s. rewrite canon_eq. exact (canonical_stable_go (sanitize order s)). Qed.
Print Assumptions c10_canonical_meaning.

(* Canonicalising again changes nothing and gives the same verdict/tree, under any order of the map,
   provided the canonical string is `quiet`: lower case and no operator pattern of the sanitizer
   matches anywhere in it (decidable; false e.g. for "sip = l & dport = 80", where the value "l"
   surrounded by blanks is taken for the operator "<" the second time). *)
Theorem c10_idempotent : forall order order' s,
  quiet (canon order s) = true ->
  canon order' (canon order s) = canon order s /\
  fst (prepare order' (canon order s)) = parse (fst (tokenize_go (sanitize order s))).
Proof. exact canon_idempotent. Qed.
Print Assumptions c10_idempotent.

(* On quiet texts the sanitizer is the identity for every order: canonical symbol forms keep their
   meaning when they are sanitized. *)
Theorem c10_sanitize_quiet_identity : forall order s, quiet s = true -> sanitize order s = s.
Proof. exact sanitize_quiet. Qed.
Print Assumptions c10_sanitize_quiet_identity.

(* Tree level: the canonical string is tokenized without error and parses to the same verdict and the
   same tree as the original (sanitized) text; if the sanitizer leaves it alone, preparing it again
   gives the same verdict/tree as preparing the original text. *)
Theorem c10_canonical_tree : forall order s,
  snd (tokenize_go (canon order s)) = true /\
  parse (fst (tokenize_go (canon order s))) = parse (fst (tokenize_go (sanitize order s))).
Proof. exact canonical_tree. Qed.
Print Assumptions c10_canonical_tree.

Theorem c10_canonical_tree_prepare : forall order order' s,
  snd (tokenize_go (sanitize order s)) = true -> sanitize order' (canon order s) = canon order s ->
  fst (prepare order' (canon order s)) = fst (prepare order s).
Proof. exact canonical_tree_prepare. Qed.
Print Assumptions c10_canonical_tree_prepare.

(* The token-level side condition the check uses (no token is an operator word; no token contains
   * + { } [ ], form feed, upper case or non-ASCII bytes) implies `quiet`; hence idempotence for it. *)
Theorem c10_plain_quiet : forall ts,
  forallb wf_tok ts = true -> plain_toks ts = true -> quiet (join ts) = true.
Proof. exact ProofsSpell3.plain_quiet. Qed.
Print Assumptions c10_plain_quiet.

Theorem c10_idempotent_plain : forall order order' s,
  plain_toks (fst (tokenize_go (sanitize order s))) = true ->
  canon order' (canon order s) = canon order s /\
  fst (prepare order' (canon order s)) = parse (fst (tokenize_go (sanitize order s))).
Proof. exact idempotent_plain. Qed.
Print Assumptions c10_idempotent_plain.

(* ONE word operator between canonical neighbours, EVERY order of the rule groups.
   w/o: any of the 27 binary word spellings of the table (and or eq -eq equals neq -neq ne -ne le -le leq
   -leq ge -ge geq -geq g -g gt -gt greater l -l lt -lt less; `table_words_eq`). Neighbours: non-empty
   token lists in canonical form (tokens joined by single blanks) whose tokens are not operator words
   and contain none of * + { } [ ] \f, upper case, non-ASCII; the byte before / behind the operator
   is not & | = (else the symbol form itself would read && || ==). White space: any non-empty run of
   blank \t \n \f \r on either side. Upper-case input is covered by the hypothesis on `lower s`.
   The sanitized text IS the symbol form; the symbol form is a fixed point of the sanitizer. *)
Theorem c10_spellings_partial : forall order s w o ta tb ws1 ws2,
  Permutation order all_groups -> word_spelling w o ->
  neighbour ta -> neighbour tb -> blanks ws1 -> blanks ws2 ->
  amp_bar_eq (last (join ta) " "%char) = false -> amp_bar_eq (hd " "%char (join tb)) = false ->
  lower s = join ta ++ ws1 ++ w ++ ws2 ++ join tb ->
  sanitize order s = join ta ++ o ++ join tb /\
  tokenize (sanitize order s) = tokenize (sanitize order (join ta ++ o ++ join tb)).
Proof. exact spellings_word. Qed.
Print Assumptions c10_spellings_partial.

(* ANY NUMBER of occurrences of one word spelling in one condition: seg1 <ws>w<ws> seg2 <ws>w<ws> ... segn with
   canonical neighbours as segments and arbitrary non-empty white space around every occurrence (chainW,
   ProofsSpell7.v). The pass of that word's own rule (ReplaceAllString of \s+w\s+) rewrites all of them at once
   into the symbol chain seg1 o seg2 o ... o segn (chainY) - by induction over the list of segments with the
   compositional step rw_word_step (arbitrary tail). This is the own-rule half of the whole-tree statement
   c10_spellings; that the OTHER rules stay quiet on a text with several operator chunks (a many-chunk version of
   mid_quiet_rule) and mixed different words are still open, see prop.json not_discharged. *)
Theorem c10_spellings_chain_own_rule : forall w o ta l,
  word_spelling w o -> neighbour ta -> Forall link_ok l ->
  apply_rule (RWord w o) (join ta ++ chainW w l) = join ta ++ chainY o l.
Proof. exact ProofsSpell7.c10_spellings_chain_own_rule. Qed.
Print Assumptions c10_spellings_chain_own_rule.

(* the unary word operator "not" between such neighbours (so not directly behind a word operator,
   and not at the very start of the text) *)
Theorem c10_spellings_partial_not : forall order s ta tb ws1 ws2,
  Permutation order all_groups ->
  neighbour ta -> neighbour tb -> blanks ws1 -> blanks ws2 ->
  amp_bar_eq (last (join ta) " "%char) = false -> amp_bar_eq (hd " "%char (join tb)) = false ->
  lower s = join ta ++ ws1 ++ B "not" ++ ws2 ++ join tb ->
  sanitize order s = join ta ++ B "!" ++ join tb /\
  tokenize (sanitize order s) = tokenize (sanitize order (join ta ++ B "!" ++ join tb)).
Proof. exact spellings_not. Qed.
Print Assumptions c10_spellings_partial_not.

(* NOT DISCHARGED (full statement; see prop.json not_discharged and NOTES.md):
   c10_spellings : forall order t sp ws, Permutation order all_groups -> valid_spelling sp -> valid_ws ws ->
     tokenize (sanitize order (render sp ws t)) = tokenize (render symbols tight t).
   What the two partial theorems do not reach: several word operators in one text (the induction over
   the rendered tree), "not" at the start of the text / directly behind and|or (the up-front rules of
   the fix) / directly followed by ( [ {, neighbours written with [ ] { } * + && || == ===.
   Those are covered by spellings_pairs_test (exhaustive evaluation, ProofsSan.v) and by the
   correspondence run (grammar generated trees, random spellings / white space / orders, the real
   sanitizer 24 times each). *)

(* non-vacuity *)
Example c10_example_prepare :
  prepare all_groups (B "dport eq 80 AND not proto = TCP") =
  (Accepted (TAnd (Leaf (B "dport") (B "=") (B "80")) (TNot (Leaf (B "proto") (B "=") (B "tcp")))),
   B "dport = 80 & ! proto = tcp").
Proof. vm_compute. reflexivity. Qed.

Example c10_example_quiet :
  quiet (canon all_groups (B "dport eq 80 AND not proto = TCP")) = true /\
  quiet (canon all_groups (B "sip=l&dport=80")) = false /\
  canon (rev all_groups) (canon all_groups (B "sip=l&dport=80")) <> canon all_groups (B "sip=l&dport=80").
Proof. split; [vm_compute; reflexivity | split; [vm_compute; reflexivity | vm_compute; discriminate]]. Qed.

Example c10_example_stable :
  tokenize (B "dport<=80&!(sip=1.2.3.4)") = map B ["dport"; "<="; "80"; "&"; "!"; "("; "sip"; "="; "1.2.3.4"; ")"]%string
  /\ join (tokenize (B "dport<=80&!(sip=1.2.3.4)")) = B "dport <= 80 & ! ( sip = 1.2.3.4 )".
Proof. split; vm_compute; reflexivity. Qed.

Example c10_example_rejected :
  fst (prepare all_groups (B "dport = 80 &")) = Rejected 4 /\ parse [] = Empty /\
  (exists p, fst (prepare all_groups (List.concat (List.repeat (B "(") 600))) = Rejected p).
Proof. split; [vm_compute; reflexivity | split; [reflexivity | eexists; vm_compute; reflexivity]]. Qed.

Example c10_example_spelling :
  let ta := map B ["dport"; "="; "80"]%string in let tb := map B ["("; "proto"; "!="; "tcp"; ")"]%string in
  neighbour ta /\ neighbour tb /\ word_spelling (B "and") (B "&") /\ word_spelling (B "-geq") (B ">=") /\
  blanks (B " ") /\ blanks [" "; "009"; "010"]%char /\
  amp_bar_eq (last (join ta) " "%char) = false /\ amp_bar_eq (hd " "%char (join tb)) = false /\
  Permutation (rev all_groups) all_groups /\
  sanitize (rev all_groups) (B "dport = 80 AND ( proto != tcp )") = B "dport = 80&( proto != tcp )".
Proof.
  cbv zeta. repeat split; try discriminate; try (vm_compute; reflexivity); try (vm_compute; tauto).
  apply Permutation_sym, Permutation_rev.
Qed.

Example c10_example_plain :
  plain_toks (fst (tokenize_go (sanitize all_groups (B "dport eq 80 AND not proto = TCP")))) = true /\
  plain_toks (fst (tokenize_go (sanitize all_groups (B "sip=l&dport=80")))) = false.
Proof. split; vm_compute; reflexivity. Qed.

Example c10_example_depth :
  let nest := fun n d => List.concat (repeat [B "dport"; B "="; B "80"; B "&"] n) ++ repeat (B "(") d
                         ++ [B "dport"; B "="; B "81"] ++ repeat (B ")") d in
  (exists c, parse_cst (nest 3 512) = Accepted c /\ par_depth c = 512) /\
  parse (nest 3 513) = Rejected (3 * 4 + 513) /\ parse (nest 0 513) = Rejected 513.
Proof. cbv zeta. split; [eexists; split; vm_compute; reflexivity | split; vm_compute; reflexivity]. Qed.
