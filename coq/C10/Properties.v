(* C10 property theorems. Nothing but statements closed by `exact`, Print Assumptions, examples. *)
From Coq Require Import List Ascii String Bool Arith NArith.
From GoProbe.Base Require Import CorrLib.
From GoProbe.C10 Require Import Model ProofsTok ProofsSan.
Import ListNotations.

(* For every text and every iteration order of the conversion map, preparing the condition ends in
   "accepted", "empty", "rejected at a token position" or "tokenizer error": never in an index out
   of range, and the iteration bounds of the model are never exhausted. *)
Theorem c10_total : forall order s,
  fst (prepare order s) <> Crashed /\ fst (prepare order s) <> OutOfFuel.
Proof. exact prepare_total. Qed.
Print Assumptions c10_total.

(* The same for the parser on ANY token list (whatever a sanitizer produced, ASCII or not); the
   error position lies inside the token list, so rendering the error cannot fail either. *)
Theorem c10_parse_total : forall ts,
  parse ts = Empty \/ (exists t, parse ts = Accepted t) \/
  (exists p, p <= List.length ts /\ parse ts = Rejected p).
Proof. exact parse_total. Qed.
Print Assumptions c10_parse_total.

(* Tokens joined by single blanks tokenize to themselves: for all byte strings. *)
Theorem c10_canonical_stable : forall s, tokenize (join (tokenize s)) = tokenize s.
Proof. exact canonical_stable. Qed.
Print Assumptions c10_canonical_stable.

(* Hence the canonical string stored in the statement (built from the tokens Tokenize returned,
   also when it stopped at an over-long token) is tokenized without error to exactly those tokens:
   parsing it gives the same verdict and the same tree as the original text. *)
Theorem c10_canonical_meaning : forall order s,
  tokenize_go (canon order s) = (fst (tokenize_go (sanitize order s)), true).
Proof. intros order s. rewrite canon_eq. exact (canonical_stable_go (sanitize order s)). Qed.
Print Assumptions c10_canonical_meaning.

(* Canonicalising again changes nothing and gives the same verdict/tree, under any order of the map,
   provided the canonical string is `quiet`: lower case and no operator pattern of the sanitizer
   matches anywhere in it (decidable; false e.g. for "sip = l & dport = 80", where the value "l"
   surrounded by blanks is taken for the operator "<" the second time). *)
Theorem c10_idempotent : forall order order' s,
  quiet (canon order s) = true ->
  canon order' (canon order s) = canon order s /\
  fst (prepare order' (canon order s)) = parse (fst (tokenize_go (sanitize order s))).
Proof. exact canon_idempotent. Qed.
Print Assumptions c10_idempotent.

(* On quiet texts the sanitizer is the identity for every order: canonical symbol forms keep their
   meaning when they are sanitized. *)
Theorem c10_sanitize_quiet_identity : forall order s, quiet s = true -> sanitize order s = s.
Proof. exact sanitize_quiet. Qed.
Print Assumptions c10_sanitize_quiet_identity.

(* NOT DISCHARGED (full statement; see prop.json not_discharged and NOTES.md):
   c10_spellings : forall order t sp ws, Permutation order all_groups -> valid_spelling sp -> valid_ws ws ->
     tokenize (sanitize order (render sp ws t)) = tokenize (render symbols tight t).
   Covered by: spellings_pairs_test (exhaustive evaluation, ProofsSan.v: every documented spelling,
   alone and followed by every form of "not", 24 orders) and by the correspondence run (grammar
   generated trees, random spellings / white space / orders, the real sanitizer 24 times each). *)

(* non-vacuity *)
Example c10_example_prepare :
  prepare all_groups (B "dport eq 80 AND not proto = TCP") =
  (Accepted (TAnd (Leaf (B "dport") (B "=") (B "80")) (TNot (Leaf (B "proto") (B "=") (B "tcp")))),
   B "dport = 80 & ! proto = tcp").
Proof. vm_compute. reflexivity. Qed.

Example c10_example_quiet :
  quiet (canon all_groups (B "dport eq 80 AND not proto = TCP")) = true /\
  quiet (canon all_groups (B "sip=l&dport=80")) = false /\
  canon (rev all_groups) (canon all_groups (B "sip=l&dport=80")) <> canon all_groups (B "sip=l&dport=80").
Proof. split; [vm_compute; reflexivity | split; [vm_compute; reflexivity | vm_compute; discriminate]]. Qed.

Example c10_example_stable :
  tokenize (B "dport<=80&!(sip=1.2.3.4)") = map B ["dport"; "<="; "80"; "&"; "!"; "("; "sip"; "="; "1.2.3.4"; ")"]%string
  /\ join (tokenize (B "dport<=80&!(sip=1.2.3.4)")) = B "dport <= 80 & ! ( sip = 1.2.3.4 )".
Proof. split; vm_compute; reflexivity. Qed.

Example c10_example_rejected :
  fst (prepare all_groups (B "dport = 80 &")) = Rejected 4 /\ parse [] = Empty /\
  (exists p, fst (prepare all_groups (List.concat (List.repeat (B "(") 600))) = Rejected p).
Proof. split; [vm_compute; reflexivity | split; [reflexivity | eexists; vm_compute; reflexivity]]. Qed.
