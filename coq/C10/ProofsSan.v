(* C10 proofs, part 2: the sanitizer is the identity on quiet texts; idempotence of the canonical
   form; exhaustive evaluation of operator pairs (a test, labelled as such). *)
From Coq Require Import List Ascii String Bool Arith NArith Lia.
From GoProbe.Base Require Import CorrLib.
From GoProbe.C10 Require Import Model ProofsTok.
Import ListNotations.

Lemma beq_eq : forall a b, beq a b = true -> a = b.
Proof.
  induction a as [| x a IH]; intros [| y b] H; try discriminate; [reflexivity |].
  simpl in H. apply andb_true_iff in H. destruct H as [H1 H2].
  apply Ascii.eqb_eq in H1. subst. f_equal. apply IH. exact H2.
Qed.

Lemma rw_no_match : forall m s, no_match m s = true -> rw m s 0 = s.
Proof.
  intros m. induction s as [| c r IH]; intros H; [reflexivity |].
  cbn [no_match] in H. apply andb_true_iff in H. destruct H as [H1 H2].
  apply negb_true_iff in H1. unfold hit in H1. cbn [rw].
  destruct (m (c :: r)) as [[[| n] out] |]; try discriminate; rewrite IH by exact H2; reflexivity.
Qed.

Lemma rw_first_no_match : forall m0 m s, hit m0 s = false -> no_match m (tl s) = true ->
  rw_first m0 m s = s.
Proof.
  intros m0 m [| c r] H1 H2; [reflexivity |]. unfold rw_first. unfold hit in H1. simpl tl in H2.
  destruct (m0 (c :: r)) as [[[| n] out] |]; try discriminate; rewrite rw_no_match by exact H2; reflexivity.
Qed.

Lemma apply_rule_quiet : forall r s, quiet_rule r s = true -> apply_rule r s = s.
Proof.
  intros [p rep | w rep | | | w rep] s H; unfold quiet_rule in H; unfold apply_rule.
  - apply rw_no_match. exact H.
  - apply rw_no_match. exact H.
  - apply andb_true_iff in H. destruct H as [H1 H2]. apply negb_true_iff in H1.
    apply rw_first_no_match; assumption.
  - apply andb_true_iff in H. destruct H as [H1 H2]. apply negb_true_iff in H1.
    apply rw_first_no_match; assumption.
  - apply rw_no_match. exact H.
Qed.

Lemma apply_rules_quiet : forall rs s, forallb (fun r => quiet_rule r s) rs = true -> apply_rules rs s = s.
Proof.
  unfold apply_rules. induction rs as [| r rs IH]; intros s H; [reflexivity |].
  cbn [forallb] in H. apply andb_true_iff in H. destruct H as [H1 H2].
  cbn [fold_left]. rewrite apply_rule_quiet by exact H1. apply IH. exact H2.
Qed.

Lemma group_in_all : forall g, In g all_groups.
Proof. intros []; simpl; tauto. Qed.

Lemma forallb_app_l : forall (A : Type) (f : A -> bool) l1 l2, forallb f (l1 ++ l2) = true -> forallb f l1 = true.
Proof. intros A f l1 l2 H. rewrite forallb_app in H. apply andb_true_iff in H. tauto. Qed.
Lemma forallb_app_r : forall (A : Type) (f : A -> bool) l1 l2, forallb f (l1 ++ l2) = true -> forallb f l2 = true.
Proof. intros A f l1 l2 H. rewrite forallb_app in H. apply andb_true_iff in H. tauto. Qed.

Lemma quiet_group : forall s g, forallb (fun r => quiet_rule r s) all_rules = true ->
  forallb (fun r => quiet_rule r s) (group_rules g) = true.
Proof.
  intros s g H. unfold all_rules in H. apply forallb_app_r in H.
  apply forallb_forall. intros r Hr. rewrite forallb_forall in H. apply H.
  apply in_flat_map. exists g. split; [apply group_in_all | exact Hr].
Qed.

(* on a quiet text the sanitizer changes nothing, whatever the order (and multiplicity) of the groups *)
Lemma sanitize_quiet : forall order s, quiet s = true -> sanitize order s = s.
Proof.
  intros order s H. unfold quiet in H. apply andb_true_iff in H. destruct H as [Hl Hr].
  apply beq_eq in Hl. unfold sanitize. rewrite Hl.
  rewrite apply_rules_quiet by (unfold all_rules in Hr; apply forallb_app_l in Hr; exact Hr).
  induction order as [| g order IH]; [reflexivity |].
  cbn [fold_left]. rewrite apply_rules_quiet by (apply quiet_group; exact Hr). exact IH.
Qed.

Lemma canon_eq : forall order s, canon order s = join (fst (tokenize_go (sanitize order s))).
Proof.
  intros order s. unfold canon, prepare. destruct (tokenize_go (sanitize order s)) as [ts ok]. reflexivity.
Qed.

Lemma prepare_eq : forall order s, fst (prepare order s) =
  if snd (tokenize_go (sanitize order s)) then parse (fst (tokenize_go (sanitize order s))) else TokErr.
Proof.
  intros order s. unfold prepare. destruct (tokenize_go (sanitize order s)) as [ts ok]. reflexivity.
Qed.

(* canonicalising the canonical string again (under any other order) changes nothing, and it is
   accepted / rejected exactly as its tokens were *)
Lemma canon_idempotent : forall order order' s,
  quiet (canon order s) = true ->
  canon order' (canon order s) = canon order s /\
  fst (prepare order' (canon order s)) = parse (fst (tokenize_go (sanitize order s))).
Proof.
  intros order order' s Hq. split.
  - rewrite (canon_eq order' (canon order s)). rewrite sanitize_quiet by exact Hq.
    rewrite (canon_eq order s). rewrite canonical_stable_go. reflexivity.
  - rewrite prepare_eq. rewrite sanitize_quiet by exact Hq.
    rewrite (canon_eq order s). rewrite canonical_stable_go. reflexivity.
Qed.

(* ------------------------------------------------------------------ TEST (exhaustive evaluation,
   not a theorem about all texts): every documented spelling of every binary operator, alone and
   followed by every form of "not", under 24 orders of the groups (all rotations of the listed
   order and of its reverse), tokenizes to the tokens of the symbol form. *)
Definition rotations {A} (l : list A) : list (list A) :=
  map (fun n => skipn n l ++ firstn n l) (seq 0 (List.length l)).
Definition test_orders : list (list group) := rotations all_groups ++ rotations (rev all_groups).

Definition spellings : list (string * list string) :=
  [("=", ["eq"; "-eq"; "equals"; "=="; "==="; "="]); ("!=", ["neq"; "-neq"; "ne"; "-ne"; "!="]);
   ("<=", ["le"; "-le"; "leq"; "-leq"; "<="]); (">=", ["ge"; "-ge"; "geq"; "-geq"; ">="]);
   ("<", ["less"; "l"; "-l"; "lt"; "-lt"; "<"]); (">", ["greater"; "g"; "-g"; "gt"; "-gt"; ">"])]%string.
Definition logical : list (string * list string) :=
  [("&", ["and"; "&&"; "*"; "&"]); ("|", ["or"; "||"; "+"; "|"])]%string.
Definition nots : list (string * string * string) :=   (* spelled, symbol, closing *)
  [("not ", "!", ""); ("not(", "!(", ")"); ("not (", "!(", ")"); ("not{", "!(", "}"); ("not [", "!(", "]");
   ("!", "!", ""); ("! (", "!(", ")"); ("", "", "")]%string.

Definition same_tokens (spelled sym : string) : bool :=
  forallb (fun o => if list_eq_dec (list_eq_dec ascii_dec)
                         (tokenize (sanitize o (B spelled))) (tokenize (sanitize o (B sym)))
                    then true else false) test_orders.

Definition spellings_test : bool :=
  forallb (fun p => forallb (fun w => same_tokens ("dport " ++ w ++ " 80") ("dport" ++ fst p ++ "80")) (snd p)) spellings
  && forallb (fun p => forallb (fun w => forallb (fun n =>
       let '(nsp, nsym, cl) := n in
       same_tokens ("dport = 80 " ++ w ++ " " ++ nsp ++ "proto = tcp" ++ cl)
                   ("dport=80" ++ fst p ++ nsym ++ "proto=tcp" ++ (if String.eqb cl "" then "" else ")")))
       nots) (snd p)) logical.

Example spellings_pairs_test : spellings_test = true.
Proof. vm_compute. reflexivity. Qed.
