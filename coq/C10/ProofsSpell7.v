(* C10, extension: several occurrences of ONE word spelling in a text; the pass of that word's own rule. *)
From Coq Require Import List Ascii String Bool Arith NArith Lia Permutation.
From GoProbe.Base Require Import CorrLib.
From GoProbe.C10 Require Import Model ProofsTok ProofsSan ProofsSpell1 ProofsSpell2 ProofsSpell3 ProofsSpell4 ProofsSpell5 ProofsSpell6.
Import ListNotations.
Open Scope char_scope.

(* rw_word_mid with an arbitrary tail v behind the operator: the rewriting is compositional at the gap *)
Lemma rw_word_step : forall w o ta v ws1 ws2,
  ta <> [] -> wrule (RWord w o) = true -> chunk_ok w = true ->
  forallb chunk_ok ta = true -> forallb (tok_ok (RWord w o)) ta = true ->
  ws1 <> [] -> ws2 <> [] -> forallb re_ws ws1 = true -> forallb re_ws ws2 = true ->
  head_ok v = true ->
  rw (m_word w o) (join ta ++ (ws1 ++ w ++ ws2) ++ v) 0 = join ta ++ o ++ rw (m_word w o) v 0.
Proof.
  intros w o ta v ws1 ws2 Ha HW Hcw Hcha Htoka Hn1 Hn2 Hw1 Hw2 Hhb.
  unfold chunk_ok in Hcw. apply andb_true_iff in Hcw. destruct Hcw as [Hc1 Hc2].
  assert (Hwne : w <> []) by (destruct w; [discriminate | discriminate]).
  rewrite rw_app_nohits.
  2:{ rewrite <- (app_nil_r (join ta)). rewrite <- flat_pj by assumption.
      apply flat_nohits; [apply wsm_word | |].
      - apply pieces_pj; [exact Hcha | reflexivity | left; reflexivity].
      - apply (gaps_pj (RWord w o)); [reflexivity | exact HW | exact Htoka | | left; reflexivity].
        simpl app. rewrite <- app_assoc. apply ws_head_stuff; assumption. }
  f_equal.
  rewrite (rw_hit _ (ws1 ++ w ++ ws2) v o).
  - reflexivity.
  - destruct ws1; [contradiction | discriminate].
  - unfold m_word. rewrite <- !app_assoc.
    rewrite span_ws_gap; [| exact Hw1 | apply head_ok_tok; [exact Hwne | exact Hc2]].
    destruct ws1 as [| y1 ws1']; [contradiction |]. simpl Nat.eqb. cbv iota.
    rewrite strip_prefix_app. rewrite span_ws_gap by (exact Hw2 || exact Hhb).
    destruct ws2 as [| y2 ws2']; [contradiction |]. simpl Nat.eqb. cbv iota.
    rewrite !app_length. rewrite Nat.add_assoc. reflexivity.
Qed.

(* a chain: segments (canonical neighbours) each preceded by  ws1 w ws2  (spelled) resp. o (symbol) *)
Definition link := (bytes * bytes * list bytes)%type.
Fixpoint chainW (w : bytes) (l : list link) : bytes :=
  match l with [] => [] | (g1, g2, tb) :: l' => (g1 ++ w ++ g2) ++ join tb ++ chainW w l' end.
Fixpoint chainY (o : bytes) (l : list link) : bytes :=
  match l with [] => [] | (_, _, tb) :: l' => o ++ join tb ++ chainY o l' end.
Definition link_ok (k : link) : Prop :=
  let '(g1, g2, tb) := k in blanks g1 /\ blanks g2 /\ neighbour tb.

Lemma head_ok_join_app : forall tb v, tb <> [] -> forallb inert tb = true -> head_ok (join tb ++ v) = true.
Proof.
  intros tb v Hb Hib. destruct tb as [| t0 t']; [contradiction |].
  pose proof (flat_pj_head t0 t' [] v) as H. rewrite flat_pj in H by discriminate.
  rewrite app_nil_r in H. rewrite H.
  simpl in Hib. apply andb_true_iff in Hib. destruct Hib as [Hi _].
  apply inert_chunk in Hi. unfold chunk_ok in Hi. apply andb_true_iff in Hi. destruct Hi as [H1 H2].
  apply head_ok_tok; [destruct t0; [discriminate | discriminate] | exact H2].
Qed.

(* ANY number of occurrences of one word spelling w, each with its own white space, between canonical
   neighbours: the pass of w's rule (ReplaceAllString of \s+w\s+) yields exactly the symbol chain. *)
Theorem c10_spellings_chain_own_rule : forall w o ta l,
  word_spelling w o -> neighbour ta -> Forall link_ok l ->
  apply_rule (RWord w o) (join ta ++ chainW w l) = join ta ++ chainY o l.
Proof.
  intros w o ta l Hrule. revert ta. unfold apply_rule.
  pose proof (rule_fact_in _ Hrule) as Hf.
  destruct (rule_fact_ws (RWord w o) eq_refl Hf) as [HW _].
  destruct (wfacts w o Hrule) as [Hcw _].
  induction l as [| [[g1 g2] tb] l IH]; intros ta [Ha [Hwa Hpa]] Hl.
  - simpl. rewrite app_nil_r. apply rw_no_match.
    pose proof (inert_quiet ta (plain_inert ta Hwa Hpa)) as Hq. unfold quiet in Hq.
    apply andb_true_iff in Hq. destruct Hq as [_ Hq]. rewrite forallb_forall in Hq. apply (Hq _ Hrule).
  - inversion Hl as [| k l' Hk Hl']. subst. destruct Hk as [[Hn1 Hw1] [[Hn2 Hw2] Hnb]].
    pose proof (plain_inert ta Hwa Hpa) as Hia.
    cbn [chainW chainY].
    rewrite rw_word_step; try assumption.
    + rewrite (IH tb Hnb Hl'). reflexivity.
    + apply (forallb_impl _ inert); [apply inert_chunk | exact Hia].
    + apply (forallb_impl _ inert); [intros x; apply inert_tok_ok; [reflexivity | exact Hf] | exact Hia].
    + destruct Hnb as [Hb [Hwb Hpb]]. apply head_ok_join_app; [exact Hb | apply plain_inert; assumption].
Qed.
Print Assumptions c10_spellings_chain_own_rule.
Print Assumptions rw_word_step.
