(* C10 proofs, part 3d: a text  join ta ++ g1 ++ c ++ g2 ++ join tb  (inert tokens around a middle
   chunk) and the rules that leave it alone. *)
From Coq Require Import List Ascii String Bool Arith NArith Lia.
From GoProbe.Base Require Import CorrLib.
From GoProbe.C10 Require Import Model ProofsTok ProofsSan ProofsSpell1 ProofsSpell2 ProofsSpell3.
Import ListNotations.
Open Scope char_scope.

Definition mid (ta : list bytes) (g1 c g2 : bytes) (tb : list bytes) : list piece :=
  pj ta g1 ++ (c, g2) :: pj tb [].

Lemma flat_mid : forall ta g1 c g2 tb, ta <> [] -> tb <> [] ->
  flat (mid ta g1 c g2 tb) = join ta ++ g1 ++ c ++ g2 ++ join tb.
Proof.
  intros ta g1 c g2 tb Ha Hb. unfold mid. rewrite flat_app. cbn [flat].
  rewrite !flat_pj by assumption. rewrite app_nil_r, <- app_assoc. reflexivity.
Qed.

Lemma last_forallb : forall (P : ascii -> bool) x d, forallb P x = true -> P d = true -> P (last x d) = true.
Proof.
  intros P. induction x as [| c x IH]; intros d Hx Hd; [exact Hd |].
  simpl in Hx. apply andb_true_iff in Hx. destruct Hx as [Hc Hx].
  destruct x as [| c' x]; [exact Hc |]. change (last (c :: c' :: x) d) with (last (c' :: x) d).
  apply IH; assumption.
Qed.

Definition clean (c : ascii) : bool := negb (sp1 c) && negb (dch c).

Lemma ws_clean : forall c, re_ws c = true -> clean c = true.
Proof. intros c. allchars c. Qed.

Lemma hd_join : forall t ts, hd " " (join (t :: ts)) = hd " " (t ++ [" "]).
Proof. intros [| x t] [| t2 ts]; reflexivity. Qed.

Section Mid.
  Variables (ta tb : list bytes) (g1 c g2 : bytes).
  Hypothesis Ha : ta <> [].
  Hypothesis Hb : tb <> [].
  Hypothesis Hia : forallb inert ta = true.
  Hypothesis Hib : forallb inert tb = true.
  Hypothesis Hg1 : forallb re_ws g1 = true.
  Hypothesis Hg2 : forallb re_ws g2 = true.
  Hypothesis Hc : chunk_ok c = true.
  Hypothesis Hsc : stuff_ok (g1 ++ c) = true.
  Hypothesis Hlit : lit_free (g1 ++ c ++ g2) = true.
  Hypothesis Hla : dch (last (join ta) " ") = false.
  Hypothesis Hhb : dch (hd " " (join tb)) = false.

  Lemma mid_lit_free : lit_free (flat (mid ta g1 c g2 tb)) = true.
  Proof.
    rewrite flat_mid by assumption.
    replace (join ta ++ g1 ++ c ++ g2 ++ join tb) with (join ta ++ (g1 ++ c ++ g2) ++ join tb)
      by (rewrite <- !app_assoc; reflexivity).
    apply lit_free_app; [| | left; exact Hla].
    - apply lit_free_join. apply (forallb_impl _ inert); [apply inert_lit | exact Hia].
    - apply lit_free_app; [exact Hlit | | right; exact Hhb].
      apply lit_free_join. apply (forallb_impl _ inert); [apply inert_lit | exact Hib].
  Qed.

  Lemma stuff_ok_app : forall x y, x <> [] -> stuff_ok x = true -> stuff_ok (x ++ y) = true.
  Proof. intros [| a x] y H1 H2; [contradiction | exact H2]. Qed.

  Lemma mid_ws_rule : forall r, is_lit r = false -> rule_fact r = true ->
    (g1 = [] \/ hit (am r) (" " :: c ++ g2 ++ join tb) = false) ->
    quiet_rule r (flat (mid ta g1 c g2 tb)) = true.
  Proof.
    intros r Hl Hf Hmid.
    destruct (rule_fact_ws r Hl Hf) as [HW _].
    destruct ta as [| ta0 ta'] eqn:Eta; [contradiction |]. rewrite <- Eta in *.
    destruct tb as [| tb0 tb'] eqn:Etb; [contradiction |]. rewrite <- Etb in *.
    assert (Htoka : forallb (tok_ok r) ta = true)
      by (apply (forallb_impl _ inert); [intros x; apply inert_tok_ok; assumption | exact Hia]).
    assert (Htokb : forallb (tok_ok r) tb = true)
      by (apply (forallb_impl _ inert); [intros x; apply inert_tok_ok; assumption | exact Hib]).
    assert (Hcha : forallb chunk_ok ta = true)
      by (apply (forallb_impl _ inert); [apply inert_chunk | exact Hia]).
    assert (Hchb : forallb chunk_ok tb = true)
      by (apply (forallb_impl _ inert); [apply inert_chunk | exact Hib]).
    assert (Hc' := Hc). unfold chunk_ok in Hc'. apply andb_true_iff in Hc'. destruct Hc' as [Hc1 Hc2].
    assert (Hcne : c <> []) by (destruct c; [discriminate | discriminate]).
    assert (Htb0 : tok_ok r tb0 = true /\ chunk_ok tb0 = true).
    { rewrite Etb in Htokb, Hchb. simpl in Htokb, Hchb.
      apply andb_true_iff in Htokb. apply andb_true_iff in Hchb. tauto. }
    destruct Htb0 as [Htb0 Hcb0].
    assert (Hflatb : flat (pj tb []) ++ [] = tb0 ++ tail_stuff tb' [] [])
      by (rewrite Etb; apply flat_pj_head).
    assert (Hhead_b : head_ok (flat (pj tb []) ++ []) = true).
    { rewrite Hflatb. unfold chunk_ok in Hcb0. apply andb_true_iff in Hcb0. destruct Hcb0 as [H1 H2].
      apply head_ok_tok; [destruct tb0; [discriminate | discriminate] | exact H2]. }
    assert (Hrest : flat ((c, g2) :: pj tb []) ++ [] = c ++ g2 ++ join tb).
    { cbn [flat]. rewrite flat_pj by assumption. rewrite !app_nil_r. reflexivity. }
    apply (ws_rule_quiet r (mid ta g1 c g2 tb) ta0 (tail_stuff ta' g1 (flat ((c, g2) :: pj tb []) ++ []))); try assumption.
    - (* pieces *)
      unfold mid. rewrite pieces_ok_app. apply andb_true_iff. split.
      + apply pieces_pj; [exact Hcha | exact Hg1 |]. right. rewrite Hrest.
        apply head_ok_tok; assumption.
      + cbn [pieces_ok]. rewrite Hc1, Hc2, Hg2. cbn [negb andb]. rewrite Hhead_b, orb_true_r. cbn [andb].
        apply pieces_pj; [exact Hchb | reflexivity | left; reflexivity].
    - (* gaps *)
      unfold mid. rewrite gaps_ok_app. apply andb_true_iff. split.
      + apply gaps_pj; try assumption.
        * rewrite Hrest. rewrite app_assoc. apply stuff_ok_app; [| exact Hsc].
          destruct g1; [simpl; exact Hcne | discriminate].
        * rewrite Hrest. exact Hmid.
      + cbn [gaps_ok]. apply andb_true_iff. split.
        * destruct g2 as [| y g2']; [reflexivity |]. cbn [nullb orb]. rewrite Hflatb.
          rewrite after_gap; [reflexivity | assumption | assumption | exact Htb0 | apply tail_stuff_ok; reflexivity].
        * apply gaps_pj; try assumption; [reflexivity | left; reflexivity].
    - (* the start of the text *)
      unfold mid. rewrite flat_app. rewrite Eta.
      rewrite <- (app_nil_r (flat ((c, g2) :: pj tb []))) at 1. apply flat_pj_head.
    - rewrite Eta in Htoka. simpl in Htoka. apply andb_true_iff in Htoka. tauto.
    - apply tail_stuff_ok. rewrite Hrest. rewrite app_assoc. apply stuff_ok_app; [| exact Hsc].
      destruct g1; [simpl; exact Hcne | discriminate].
  Qed.

  (* every rule of the table, given the test behind the first gap *)
  Lemma mid_quiet_rule : forall r, In r all_rules ->
    (is_lit r = false -> g1 = [] \/ hit (am r) (" " :: c ++ g2 ++ join tb) = false) ->
    quiet_rule r (flat (mid ta g1 c g2 tb)) = true.
  Proof.
    intros r Hr Hmid. pose proof (rule_fact_in r Hr) as Hf.
    destruct (is_lit r) eqn:Hl.
    - destruct r as [p rep | | | |]; try discriminate. unfold quiet_rule.
      apply lit_free_no_match; [exact Hf | apply mid_lit_free].
    - apply mid_ws_rule; auto.
  Qed.
End Mid.
