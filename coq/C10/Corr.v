(* C10 correspondence: case type, corr (model = observed), holds (observed meets the spec).
   Executable definitions only. *)
From Coq Require Import List Ascii String Bool Arith NArith.
From GoProbe.Base Require Import CorrLib.
From GoProbe.C10 Require Import Model.
Import ListNotations.

(* byte strings that are not printable ASCII are written X [..codes..] by the harness *)
Definition X (l : list N) : string := string_of_list_ascii (map ascii_of_N l).

(* parse trees and parse results as printed by the harness *)
Inductive stree := L (a c v : string) | Nt (t : stree) | An (l r : stree) | Or' (l r : stree).
Fixpoint to_tree (t : stree) : tree :=
  match t with
  | L a c v => Leaf (B a) (B c) (B v)
  | Nt t => TNot (to_tree t)
  | An l r => TAnd (to_tree l) (to_tree r)
  | Or' l r => TOr (to_tree l) (to_tree r)
  end.
Inductive obs := OAcc (t : stree) | OEmpty | ORej (pos : nat) | OPanic.

Fixpoint tree_eqb (a b : tree) : bool :=
  match a, b with
  | Leaf a1 c1 v1, Leaf a2 c2 v2 => beq a1 a2 && beq c1 c2 && beq v1 v2
  | TNot x, TNot y => tree_eqb x y
  | TAnd l1 r1, TAnd l2 r2 => tree_eqb l1 l2 && tree_eqb r1 r2
  | TOr l1 r1, TOr l2 r2 => tree_eqb l1 l2 && tree_eqb r1 r2
  | _, _ => false
  end.

Definition outcome_obs_eqb (m : outcome) (o : obs) : bool :=
  match m, o with
  | Accepted t, OAcc s => tree_eqb t (to_tree s)
  | Empty, OEmpty => true
  | Rejected p, ORej q => Nat.eqb p q
  | Crashed, OPanic => true
  | _, _ => false
  end.

Fixpoint stree_eqb (a b : stree) : bool :=
  match a, b with
  | L a1 c1 v1, L a2 c2 v2 => String.eqb a1 a2 && String.eqb c1 c2 && String.eqb v1 v2
  | Nt x, Nt y => stree_eqb x y
  | An l1 r1, An l2 r2 => stree_eqb l1 l2 && stree_eqb r1 r2
  | Or' l1 r1, Or' l2 r2 => stree_eqb l1 l2 && stree_eqb r1 r2
  | _, _ => false
  end.
Definition obs_eqb (a b : obs) : bool :=
  match a, b with
  | OAcc s, OAcc t => stree_eqb s t
  | OEmpty, OEmpty => true
  | ORej p, ORej q => Nat.eqb p q
  | OPanic, OPanic => true
  | _, _ => false
  end.

Fixpoint lbeq (a b : list bytes) : bool :=
  match a, b with
  | [], [] => true
  | x :: a', y :: b' => beq x y && lbeq a' b'
  | _, _ => false
  end.
Fixpoint lseq (a b : list string) : bool :=
  match a, b with
  | [], [] => true
  | x :: a', y :: b' => String.eqb x y && lseq a' b'
  | _, _ => false
  end.

Definition ascii_only (s : string) : bool :=
  forallb (fun c => (N_of_ascii c <? 128)%N) (B s).

(* strings.Join(tokens, " ") on strings (specification side) *)
Fixpoint sjoin (l : list string) : string :=
  match l with
  | [] => ""
  | [t] => t
  | t :: r => t ++ " " ++ sjoin r
  end%string.

(* the side condition of idempotence, on the observed tokens: no token is an operator word, none
   contains a byte that the sanitizer rewrites or treats as white space, all are lower-case ASCII *)
Definition plain_tokens (ts : list string) : bool := plain_toks (map B ts).

Definition big_text (pieces : list (string * N)) : bytes :=
  flat_map (fun p => List.concat (List.repeat (B (fst p)) (N.to_nat (snd p)))) pieces.

(* specification side: the deepest point of the bracket count of a text (the generated long inputs
   never use a bracket as a value, so this is their nesting depth) *)
Fixpoint text_nest (s : bytes) (cur best : N) : N :=
  match s with
  | [] => best
  | c :: r =>
    if inb c ["("; "["; "{"]%char then text_nest r (cur + 1)%N (N.max best (cur + 1))%N
    else if inb c [")"; "]"; "}"]%char then text_nest r (N.pred cur) best
    else text_nest r cur best
  end.

Inductive case :=
| CText (gen : bool)                     (* grammar-generated condition rendered with random spellings *)
        (input : string)
        (order : list group)             (* order handed to the explicit-order sanitizer hook *)
        (san : string)                   (* its output *)
        (toks : list string) (tok_ok : bool)   (* conditions.Tokenize san *)
        (pr : obs)                       (* parseConditional toks *)
        (canon : string)                 (* strings.Join(toks, " ") *)
        (ctoks : list string)            (* conditions.Tokenize canon *)
        (cpr : obs)                      (* parseConditional ctoks *)
        (prep_panic prep_rej : bool)     (* Args.Prepare: panicked / reported an invalid condition *)
        (c1 : string)                    (* Statement.Condition after Args.Prepare on input *)
        (c1toks : list string)           (* conditions.Tokenize c1 *)
        (c2 : string)                    (* Statement.Condition after Args.Prepare on c1 *)
        (insens : bool)                  (* 64 different explicit orders all gave the output san *)
        (runs : list (list string))      (* distinct token lists over 24 runs of SanitizeUserInput *)
        (sym : list string) (sympr : obs)      (* gen: tokens and parse of the symbol rendering *)
| CBig (raw : bool)                      (* the text is handed to Tokenize as it is (no sanitizer) *)
       (pieces : list (string * N))      (* long inputs: pieces with repeat counts *)
       (ntoks : N) (tok_ok : bool)
       (cls : nat) (pos : nat)           (* parse: 0 accepted 1 empty 2 rejected at pos 3 panic *)
       (canon_len : N) (prep_panic prep_rej : bool).

Definition outcome_class (o : outcome) : nat * nat :=
  match o with
  | Accepted _ => (0, 0) | Empty => (1, 0) | Rejected p => (2, p) | Crashed => (3, 0)
  | TokErr => (4, 0) | OutOfFuel => (5, 0)
  end.

Definition rejected (o : outcome) : bool :=
  match o with Rejected _ | TokErr => true | _ => false end.

(* does the model still describe the code? *)
Definition corr (c : case) : bool :=
  match c with
  | CText gen input order san toks tok_ok pr canon ctoks cpr ppanic prej c1 c1toks c2 insens runs sym sympr =>
    let bt := map B toks in
    (if ascii_only input then beq (sanitize order (B input)) (B san) else true)
    && lbeq (fst (tokenize_go (B san))) bt && Bool.eqb (snd (tokenize_go (B san))) tok_ok
    && outcome_obs_eqb (parse bt) pr
    && beq (join bt) (B canon)
    && lbeq (tokenize (B canon)) (map B ctoks)
    && outcome_obs_eqb (parse (map B ctoks)) cpr
    && lbeq (tokenize (B c1)) (map B c1toks)
    && (if rejected (parse (tokenize (B c1))) then prej else true)
    (* test of the link between the two forms of the side condition of idempotence *)
    && (if plain_tokens c1toks then quiet (B c1) else true)
    && (if ascii_only input && insens
        then forallb (fun r => lbeq (tokenize (sanitize order (B input))) (map B r)) runs
             && beq (Model.canon order (B input)) (B c1)
        else true)
  | CBig raw pieces ntoks tok_ok cls pos canon_len ppanic prej =>
    let s := big_text pieces in
    let '(ts, ok) := tokenize_go (if raw then s else sanitize all_groups s) in
    let o := if ok then parse ts else TokErr in
    let cn := join ts in
    N.eqb (N.of_nat (List.length ts)) ntoks && Bool.eqb ok tok_ok
    && (if ok then Nat.eqb (fst (outcome_class o)) cls && Nat.eqb (snd (outcome_class o)) pos else true)
    && N.eqb (N.of_nat (List.length cn)) canon_len
    && (if rejected o then prej else true)
  end.

Definition is_acc (o : obs) : bool := match o with OAcc _ => true | _ => false end.
Definition is_opanic (o : obs) : bool := match o with OPanic => true | _ => false end.

(* does the observed behaviour satisfy the property? (specification only, no model) *)
Definition holds (c : case) : bool :=
  match c with
  | CText gen input order san toks tok_ok pr canon ctoks cpr ppanic prej c1 c1toks c2 insens runs sym sympr =>
    (* robust: no crash anywhere *)
    negb ppanic && negb (is_opanic pr) && negb (is_opanic cpr)
    (* the canonical string keeps its meaning: same tokens, same tree *)
    && lseq ctoks toks && obs_eqb cpr pr
    (* the stored condition is the canonical form of its own tokens ... *)
    && String.eqb (sjoin c1toks) c1
    (* ... and canonicalising it again changes nothing (given the stated side condition) *)
    && (if plain_tokens c1toks then String.eqb c2 c1 else true)
    (* every documented spelling is accepted and means the same as its symbol, whatever the map order *)
    && (if gen
        then is_acc pr && obs_eqb pr sympr && lseq toks sym && negb prej
             && negb (Nat.eqb (List.length runs) 0) && forallb (fun r => lseq r sym) runs
             && lseq c1toks sym
        else true)
  | CBig raw pieces ntoks tok_ok cls pos canon_len ppanic prej =>
    negb ppanic && negb (Nat.eqb cls 3) && (if tok_ok then true else prej)
    (* accepted (by the parser, or by the whole preparation) => nested at most 512 deep, whatever stands beside the groups *)
    && (if Nat.eqb cls 0 || negb prej then (text_nest (big_text pieces) 0 0 <=? 512)%N else true)
  end.
