(* C10 proofs, part 3e: one word operator between canonical neighbours, every order of the groups. *)
From Coq Require Import List Ascii String Bool Arith NArith Lia Permutation.
From GoProbe.Base Require Import CorrLib.
From GoProbe.C10 Require Import Model ProofsTok ProofsSan ProofsSpell1 ProofsSpell2 ProofsSpell3 ProofsSpell4.
Import ListNotations.
Open Scope char_scope.

Definition rule_is_word (w : bytes) (r : rule) : bool :=
  match r with RWord w' _ => beq w' w | _ => false end.

Definition word_fact (r : rule) : bool :=
  match r with
  | RWord w o => chunk_ok w && chunk_ok o && stuff_ok o && forallb clean w && lit_free o
                 && forallb lowc w && forallb lowc o && negb (beq w (B "not")) && forallb nbr w
  | _ => true
  end.
Lemma word_facts : forallb word_fact all_rules = true.
Proof. vm_compute. reflexivity. Qed.

Definition uniq_pair (r r' : rule) : bool :=
  match r, r' with RWord w o, RWord w' o' => implb (beq w' w) (beq o' o) | _, _ => true end.
Lemma uniq_facts : forallb (fun r => forallb (uniq_pair r) all_rules) all_rules = true.
Proof. vm_compute. reflexivity. Qed.

Lemma beq_sym_false : forall a b, beq a b = false -> beq b a = false.
Proof.
  intros a b H. destruct (beq b a) eqn:E; [| reflexivity].
  apply beq_eq in E. subst. rewrite beq_refl in H. discriminate.
Qed.

Lemma ws_head_stuff : forall g r, g <> [] -> forallb re_ws g = true -> stuff_ok (g ++ r) = true.
Proof.
  intros [| x g] r H1 H2; [contradiction |]. simpl in *. apply andb_true_iff in H2. destruct H2 as [H2 _].
  rewrite (ws_not_opc x H2). reflexivity.
Qed.

(* the rewriting of  join ta ++ ws1 ++ w ++ ws2 ++ join tb  by \s+w\s+ *)
Lemma rw_word_mid : forall w o ta tb ws1 ws2,
  ta <> [] -> wrule (RWord w o) = true -> chunk_ok w = true ->
  forallb chunk_ok ta = true -> forallb (tok_ok (RWord w o)) ta = true ->
  ws1 <> [] -> ws2 <> [] -> forallb re_ws ws1 = true -> forallb re_ws ws2 = true ->
  head_ok (join tb) = true -> no_match (m_word w o) (join tb) = true ->
  rw (m_word w o) (join ta ++ (ws1 ++ w ++ ws2) ++ join tb) 0 = join ta ++ o ++ join tb.
Proof.
  intros w o ta tb ws1 ws2 Ha HW Hcw Hcha Htoka Hn1 Hn2 Hw1 Hw2 Hhb Hnm.
  unfold chunk_ok in Hcw. apply andb_true_iff in Hcw. destruct Hcw as [Hc1 Hc2].
  assert (Hwne : w <> []) by (destruct w; [discriminate | discriminate]).
  rewrite rw_app_nohits.
  2:{ rewrite <- (app_nil_r (join ta)). rewrite <- flat_pj by assumption.
      apply flat_nohits; [apply wsm_word | |].
      - apply pieces_pj; [exact Hcha | reflexivity | left; reflexivity].
      - apply (gaps_pj (RWord w o)); [reflexivity | exact HW | exact Htoka | | left; reflexivity].
        simpl app. rewrite <- app_assoc. apply ws_head_stuff; assumption. }
  f_equal.
  rewrite (rw_hit _ (ws1 ++ w ++ ws2) (join tb) o).
  - f_equal. apply rw_no_match. exact Hnm.
  - destruct ws1; [contradiction | discriminate].
  - unfold m_word. rewrite <- !app_assoc.
    rewrite span_ws_gap; [| exact Hw1 | apply head_ok_tok; [exact Hwne | exact Hc2]].
    destruct ws1 as [| y1 ws1']; [contradiction |]. simpl Nat.eqb. cbv iota.
    rewrite strip_prefix_app. rewrite span_ws_gap by (exact Hw2 || exact Hhb).
    destruct ws2 as [| y2 ws2']; [contradiction |]. simpl Nat.eqb. cbv iota.
    rewrite !app_length. rewrite Nat.add_assoc. reflexivity.
Qed.

Section OneWord.
  Variables (w o : bytes) (ta tb : list bytes) (ws1 ws2 : bytes).
  Hypothesis Hrule : In (RWord w o) all_rules.
  Hypothesis Ha : ta <> [].
  Hypothesis Hb : tb <> [].
  Hypothesis Hia : forallb inert ta = true.
  Hypothesis Hib : forallb inert tb = true.
  Hypothesis Hn1 : ws1 <> [].
  Hypothesis Hn2 : ws2 <> [].
  Hypothesis Hw1 : forallb re_ws ws1 = true.
  Hypothesis Hw2 : forallb re_ws ws2 = true.
  Hypothesis Hla : dch (last (join ta) " ") = false.
  Hypothesis Hhb : dch (hd " " (join tb)) = false.

  Definition SW : bytes := flat (mid ta ws1 w ws2 tb).
  Definition SY : bytes := flat (mid ta [] o [] tb).

  Lemma wfacts : chunk_ok w = true /\ chunk_ok o = true /\ stuff_ok o = true /\ forallb clean w = true /\
    lit_free o = true /\ forallb lowc w = true /\ forallb lowc o = true /\ beq w (B "not") = false /\
    forallb nbr w = true.
  Proof.
    pose proof word_facts as F. rewrite forallb_forall in F. specialize (F _ Hrule). unfold word_fact in F.
    apply andb_true_iff in F; destruct F as [F H9]. apply andb_true_iff in F; destruct F as [F H8].
    apply andb_true_iff in F; destruct F as [F H7]. apply andb_true_iff in F; destruct F as [F H6].
    apply andb_true_iff in F; destruct F as [F H5]. apply andb_true_iff in F; destruct F as [F H4].
    apply andb_true_iff in F; destruct F as [F H3]. apply andb_true_iff in F; destruct F as [H1 H2].
    apply negb_true_iff in H8. tauto.
  Qed.

  Lemma w_ne : w <> [].
  Proof. destruct wfacts as [H _]. destruct w; [discriminate | discriminate]. Qed.

  Lemma head_ok_tb : head_ok (join tb) = true.
  Proof.
    destruct tb as [| t0 t'] eqn:E; [contradiction |].
    pose proof (flat_pj_head t0 t' [] []) as H. rewrite flat_pj in H by discriminate.
    rewrite !app_nil_r in H. rewrite H.
    simpl in Hib. apply andb_true_iff in Hib. destruct Hib as [Hi _].
    apply inert_chunk in Hi. unfold chunk_ok in Hi. apply andb_true_iff in Hi. destruct Hi as [H1 H2].
    apply head_ok_tok; [destruct t0; [discriminate | discriminate] | exact H2].
  Qed.

  (* \s+w(\s+not...) behind a gap, at the word w itself: the next token is not "not" *)
  Lemma pre_same : forall rep, hit (m_pre w rep) (" " :: w ++ ws2 ++ join tb) = false.
  Proof.
    intros rep. destruct wfacts as [Hcw _].
    unfold chunk_ok in Hcw. apply andb_true_iff in Hcw. destruct Hcw as [Hc1 Hc2].
    unfold hit, m_pre. rewrite span_blank by (apply w_ne || exact Hc2). simpl Nat.eqb. cbv iota.
    rewrite strip_prefix_app. rewrite span_ws_gap by (exact Hw2 || apply head_ok_tb).
    destruct ws2 as [| y ws2']; [contradiction |]. simpl Nat.eqb. cbv iota.
    destruct tb as [| t0 t'] eqn:E; [contradiction |].
    pose proof (flat_pj_head t0 t' [] []) as H. rewrite flat_pj in H by discriminate.
    rewrite !app_nil_r in H. rewrite H.
    simpl in Hib. apply andb_true_iff in Hib. destruct Hib as [Hi _].
    assert (Htok : tok_ok RNot t0 = true) by (apply inert_tok_ok; [reflexivity | reflexivity | exact Hi]).
    destruct (strip_prefix (B "not") (t0 ++ tail_stuff t' [] [])) as [s4 |] eqn:Es; [| reflexivity].
    destruct (strip_tok RNot t0 _ s4 eq_refl Htok (tail_stuff_ok t' [] [] eq_refl) Es) as [x [s' [E2 [Hx1 Hx2]]]].
    subst s4. rewrite Hx1, Hx2. reflexivity.
  Qed.

  (* rules other than w's leave the spelled text alone *)
  Lemma other_rule_SW : forall r, In r all_rules -> rule_is_word w r = false -> quiet_rule r SW = true.
  Proof.
    intros r Hr Hnw. destruct wfacts as [Hcw [_ [_ [Hclean [_ [_ [_ [Hnot Hnbr]]]]]]]].
    assert (Hcw' := Hcw). unfold chunk_ok in Hcw'. apply andb_true_iff in Hcw'. destruct Hcw' as [Hc1 Hc2].
    unfold SW. apply mid_quiet_rule; try assumption.
    - apply ws_head_stuff; assumption.
    - apply lit_free_chars. change (forallb clean (ws1 ++ w ++ ws2) = true). rewrite !forallb_app. rewrite Hclean.
      rewrite (forallb_impl _ re_ws clean ws1 ws_clean Hw1), (forallb_impl _ re_ws clean ws2 ws_clean Hw2). reflexivity.
    - intros Hl. right. pose proof (rule_fact_in r Hr) as Hf.
      destruct (rule_fact_ws r Hl Hf) as [HW _].
      assert (Hgen : beq w (rule_word r) = false -> hit (am r) (" " :: w ++ ws2 ++ join tb) = false).
      { intros Hne. apply after_gap; [exact Hl | exact HW | | apply ws_head_stuff; assumption].
        unfold tok_ok. rewrite Hc1, Hc2, Hne, Hnbr. rewrite orb_true_r. reflexivity. }
      destruct r as [p rep | W rep | | | W rep]; try discriminate.
      + apply Hgen. simpl. simpl in Hnw. apply beq_sym_false. exact Hnw.
      + apply Hgen. exact Hnot.
      + apply Hgen. exact Hnot.
      + destruct (beq w W) eqn:E; [| apply Hgen; exact E].
        apply beq_eq in E. subst W. apply pre_same.
  Qed.

  (* the symbol form is left alone by every rule *)
  Lemma any_rule_SY : forall r, In r all_rules -> quiet_rule r SY = true.
  Proof.
    intros r Hr. destruct wfacts as [_ [Hco [Hso [_ [Hlo _]]]]].
    unfold SY. apply mid_quiet_rule; try assumption; try reflexivity.
    - rewrite app_nil_r. exact Hlo.
    - intros _. left. reflexivity.
  Qed.

  Lemma SW_eq : SW = join ta ++ (ws1 ++ w ++ ws2) ++ join tb.
  Proof. unfold SW. rewrite flat_mid by assumption. rewrite <- !app_assoc. reflexivity. Qed.
  Lemma SY_eq : SY = join ta ++ o ++ join tb.
  Proof. unfold SY. rewrite flat_mid by assumption. reflexivity. Qed.

  (* w's own rule turns the spelled text into the symbol form *)
  Lemma own_rule : apply_rule (RWord w o) SW = SY.
  Proof.
    destruct wfacts as [Hcw _].
    pose proof (rule_fact_in _ Hrule) as Hf.
    destruct (rule_fact_ws (RWord w o) eq_refl Hf) as [HW _].
    rewrite SW_eq, SY_eq. unfold apply_rule.
    apply rw_word_mid; try assumption.
    - apply (forallb_impl _ inert); [apply inert_chunk | exact Hia].
    - apply (forallb_impl _ inert); [intros x; apply inert_tok_ok; [reflexivity | exact Hf] | exact Hia].
    - apply head_ok_tb.
    - pose proof (inert_quiet tb Hib) as Hq. unfold quiet in Hq. apply andb_true_iff in Hq.
      destruct Hq as [_ Hq]. rewrite forallb_forall in Hq. apply (Hq _ Hrule).
  Qed.


  Lemma rules_SY : forall rs, (forall r, In r rs -> In r all_rules) -> apply_rules rs SY = SY.
  Proof.
    intros rs H. apply apply_rules_quiet. apply forallb_forall. intros r Hr. apply any_rule_SY. auto.
  Qed.

  Lemma is_word_own : forall r, In r all_rules -> rule_is_word w r = true -> r = RWord w o.
  Proof.
    intros r Hr Hw. destruct r as [| w' o' | | |]; try discriminate. simpl in Hw.
    apply beq_eq in Hw. subst w'.
    pose proof uniq_facts as F. rewrite forallb_forall in F. specialize (F _ Hrule).
    rewrite forallb_forall in F. specialize (F _ Hr). simpl in F. rewrite beq_refl in F. simpl in F.
    apply beq_eq in F. subst. reflexivity.
  Qed.

  Lemma rules_SW : forall rs, (forall r, In r rs -> In r all_rules) ->
    apply_rules rs SW = if existsb (rule_is_word w) rs then SY else SW.
  Proof.
    unfold apply_rules. induction rs as [| r rs IH]; intros H; [reflexivity |].
    cbn [fold_left existsb].
    assert (Hr : In r all_rules) by (apply H; left; reflexivity).
    assert (H' : forall r, In r rs -> In r all_rules) by (intros x Hx; apply H; right; exact Hx).
    destruct (rule_is_word w r) eqn:E.
    - rewrite (is_word_own r Hr E). rewrite own_rule. simpl. apply (rules_SY rs H').
    - rewrite apply_rule_quiet by (apply other_rule_SW; assumption). simpl. apply IH. exact H'.
  Qed.

  Lemma group_rules_in : forall g r, In r (group_rules g) -> In r all_rules.
  Proof.
    intros g r H. unfold all_rules. apply in_or_app. right. apply in_flat_map.
    exists g. split; [apply group_in_all | exact H].
  Qed.

  Definition group_has (g : group) : bool := existsb (rule_is_word w) (group_rules g).

  Lemma groups_SY : forall order, fold_left (fun acc g => apply_rules (group_rules g) acc) order SY = SY.
  Proof.
    induction order as [| g order IH]; [reflexivity |]. cbn [fold_left].
    rewrite rules_SY by (apply group_rules_in). exact IH.
  Qed.

  Lemma groups_SW : forall order,
    fold_left (fun acc g => apply_rules (group_rules g) acc) order SW =
    if existsb group_has order then SY else SW.
  Proof.
    induction order as [| g order IH]; [reflexivity |]. cbn [fold_left existsb].
    rewrite rules_SW by (apply group_rules_in). fold (group_has g).
    destruct (group_has g); simpl; [apply groups_SY | exact IH].
  Qed.

  Lemma own_group : exists g, In (RWord w o) (group_rules g).
  Proof.
    unfold all_rules in Hrule. apply in_app_or in Hrule. destruct Hrule as [H | H].
    - simpl in H. destruct H as [H | [H | H]]; try discriminate; contradiction.
    - apply in_flat_map in H. destruct H as [g [_ Hg]]. exists g. exact Hg.
  Qed.

  Lemma SW_low : forallb lowc SW = true /\ forallb lowc SY = true.
  Proof.
    destruct wfacts as [_ [_ [_ [_ [_ [Hlw [Hlo _]]]]]]].
    assert (HA : forallb lowc (join ta) = true)
      by (apply join_forallb; [reflexivity | apply (forallb_impl _ inert); [apply inert_low | exact Hia]]).
    assert (HB : forallb lowc (join tb) = true)
      by (apply join_forallb; [reflexivity | apply (forallb_impl _ inert); [apply inert_low | exact Hib]]).
    assert (Hws : forall g, forallb re_ws g = true -> forallb lowc g = true).
    { intros g Hg. apply (forallb_impl _ re_ws); [| exact Hg]. intros c. allchars c. }
    split.
    - rewrite SW_eq. rewrite !forallb_app. rewrite HA, HB, Hlw, (Hws _ Hw1), (Hws _ Hw2). reflexivity.
    - rewrite SY_eq. rewrite !forallb_app. rewrite HA, HB, Hlo. reflexivity.
  Qed.

  (* the result: whatever the order of the groups, as long as w's group is among them *)
  Lemma one_word : forall order s, (forall g, In g all_groups -> In g order) ->
    lower s = SW -> sanitize order s = SY /\ sanitize order SY = SY.
  Proof.
    intros order s Hperm Hs. destruct SW_low as [HlW HlY].
    assert (Hpre : forall r, In r prepass -> In r all_rules)
      by (intros r Hr; unfold all_rules; apply in_or_app; left; exact Hr).
    split.
    - unfold sanitize. rewrite Hs. rewrite rules_SW by exact Hpre.
      change (existsb (rule_is_word w) prepass) with false. cbv iota.
      rewrite groups_SW.
      destruct own_group as [g Hg].
      assert (Hex : existsb group_has order = true).
      { apply existsb_exists. exists g. split; [apply Hperm; apply group_in_all |].
        unfold group_has. apply existsb_exists. exists (RWord w o). split; [exact Hg |].
        simpl. apply beq_refl. }
      rewrite Hex. reflexivity.
    - unfold sanitize. rewrite (lower_fix _ HlY). rewrite rules_SY by exact Hpre. apply groups_SY.
  Qed.
End OneWord.

(* ------------------------------------------------------------------ the unary word operator "not"
   between canonical neighbours (the left one must not end in a word operator) *)
Definition is_not_rule (r : rule) : bool := match r with RNot => true | _ => false end.

Definition not_fact (r : rule) : bool :=
  match r with RWord W _ | RPre W _ => negb (beq (B "not") W) | _ => true end.
Lemma not_facts : forallb not_fact all_rules = true.
Proof. vm_compute. reflexivity. Qed.

Lemma rw_first_as_rw : forall m0 m s, hit m0 s = false -> hit m s = false -> rw_first m0 m s = rw m s 0.
Proof.
  intros m0 m [| c r] H0 H1; [reflexivity |]. unfold rw_first. cbn [rw]. unfold hit in *.
  destruct (m0 (c :: r)) as [[[| n] out] |]; try discriminate;
  destruct (m (c :: r)) as [[[| n'] out'] |]; try discriminate; reflexivity.
Qed.

Section NotWord.
  Variables (ta tb : list bytes) (ws1 ws2 : bytes).
  Hypothesis Ha : ta <> [].
  Hypothesis Hb : tb <> [].
  Hypothesis Hia : forallb inert ta = true.
  Hypothesis Hib : forallb inert tb = true.
  Hypothesis Hn1 : ws1 <> [].
  Hypothesis Hn2 : ws2 <> [].
  Hypothesis Hw1 : forallb re_ws ws1 = true.
  Hypothesis Hw2 : forallb re_ws ws2 = true.
  Hypothesis Hla : dch (last (join ta) " ") = false.
  Hypothesis Hhb : dch (hd " " (join tb)) = false.

  Definition SWn : bytes := flat (mid ta ws1 (B "not") ws2 tb).
  Definition SYn : bytes := flat (mid ta [] (B "!") [] tb).

  Lemma notp_at_not : forall rep, hit (m_notp rep) (" " :: B "not" ++ ws2 ++ join tb) = false.
  Proof.
    intros rep. unfold hit, m_notp. rewrite span_blank by (discriminate || reflexivity).
    simpl Nat.eqb. cbv iota. rewrite strip_prefix_app.
    destruct ws2 as [| y ws2']; [contradiction |]. simpl in Hw2. apply andb_true_iff in Hw2.
    destruct Hw2 as [Hy _]. change ((y :: ws2') ++ join tb) with (y :: (ws2' ++ join tb)). cbv iota beta. rewrite (ws_not_br y Hy). reflexivity.
  Qed.

  Lemma other_rule_SWn : forall r, In r all_rules -> is_not_rule r = false -> quiet_rule r SWn = true.
  Proof.
    intros r Hr Hnn. unfold SWn. apply mid_quiet_rule; try assumption; try reflexivity.
    - apply ws_head_stuff; assumption.
    - apply lit_free_chars. change (forallb clean (ws1 ++ B "not" ++ ws2) = true). rewrite !forallb_app.
      rewrite (forallb_impl _ re_ws clean ws1 ws_clean Hw1), (forallb_impl _ re_ws clean ws2 ws_clean Hw2). reflexivity.
    - intros Hl. right. pose proof (rule_fact_in r Hr) as Hf.
      destruct (rule_fact_ws r Hl Hf) as [HW _].
      pose proof not_facts as NF. rewrite forallb_forall in NF. specialize (NF r Hr).
      assert (Hgen : beq (B "not") (rule_word r) = false -> hit (am r) (" " :: B "not" ++ ws2 ++ join tb) = false).
      { intros Hne. apply after_gap; [exact Hl | exact HW | | apply ws_head_stuff; assumption].
        unfold tok_ok. rewrite Hne. reflexivity. }
      destruct r as [p rep | W rep | | | W rep]; try discriminate.
      + apply Hgen. simpl in NF |- *. apply negb_true_iff. exact NF.
      + apply notp_at_not.
      + apply Hgen. simpl in NF |- *. apply negb_true_iff. exact NF.
  Qed.

  Lemma any_rule_SYn : forall r, In r all_rules -> quiet_rule r SYn = true.
  Proof.
    intros r Hr. unfold SYn. apply mid_quiet_rule; try assumption; try reflexivity.
    intros _. left. reflexivity.
  Qed.

  Lemma SWn_eq : SWn = join ta ++ (ws1 ++ B "not" ++ ws2) ++ join tb.
  Proof. unfold SWn. rewrite flat_mid by assumption. rewrite <- !app_assoc. reflexivity. Qed.
  Lemma SYn_eq : SYn = join ta ++ B "!" ++ join tb.
  Proof. unfold SYn. rewrite flat_mid by assumption. reflexivity. Qed.

  Lemma RNot_in : In RNot all_rules.
  Proof. vm_compute. tauto. Qed.

  Lemma own_rule_n : apply_rule RNot SWn = SYn.
  Proof.
    assert (Htok : forallb (tok_ok RNot) ta = true)
      by (apply (forallb_impl _ inert); [intros x; apply inert_tok_ok; reflexivity | exact Hia]).
    assert (Hch : forallb chunk_ok ta = true)
      by (apply (forallb_impl _ inert); [apply inert_chunk | exact Hia]).
    unfold apply_rule. rewrite rw_first_as_rw.
    - rewrite SWn_eq, SYn_eq. apply rw_word_mid; try assumption; try reflexivity.
      + apply head_ok_tb; assumption.
      + pose proof (inert_quiet tb Hib) as Hq. unfold quiet in Hq. apply andb_true_iff in Hq.
        destruct Hq as [_ Hq]. rewrite forallb_forall in Hq. specialize (Hq _ RNot_in).
        unfold quiet_rule in Hq. apply andb_true_iff in Hq. destruct Hq as [_ Hq].
        assert (Hh : head_ok (join tb) = true) by (apply head_ok_tb; assumption).
        destruct (join tb) as [| x r]; [reflexivity |]. simpl tl in Hq. cbn [no_match]. rewrite Hq, andb_true_r.
        unfold hit. simpl in Hh. rewrite (wsm_nws _ (wsm_word _ _)) by (apply negb_true_iff; exact Hh). reflexivity.
    - (* the ^ alternative does not match at the start *)
      destruct ta as [| t0 t'] eqn:E; [contradiction |].
      unfold SWn, mid. rewrite flat_app. rewrite ?E.
      rewrite <- (app_nil_r (flat ((B "not", ws2) :: pj tb []))).
      rewrite flat_pj_head.
      simpl in Htok. apply andb_true_iff in Htok. destruct Htok as [Ht0 _].
      apply (at_start RNot t0 _ (or_introl eq_refl) Ht0).
      apply tail_stuff_ok. rewrite app_nil_r. cbn [flat]. rewrite app_assoc.
      apply stuff_ok_app; [destruct ws1; [contradiction | discriminate] |].
      apply ws_head_stuff; assumption.
    - destruct ta as [| t0 t'] eqn:E; [contradiction |].
      unfold SWn, mid. rewrite flat_app. rewrite ?E.
      rewrite <- (app_nil_r (flat ((B "not", ws2) :: pj tb []))). rewrite flat_pj_head.
      simpl in Hch. apply andb_true_iff in Hch. destruct Hch as [Hc0 _].
      unfold chunk_ok in Hc0. apply andb_true_iff in Hc0. destruct Hc0 as [H1 H2].
      destruct t0 as [| x t0]; [discriminate |]. simpl in H2. apply andb_true_iff in H2. destruct H2 as [Hx _].
      unfold hit. simpl app. rewrite (wsm_nws _ (wsm_word _ _)) by (apply negb_true_iff; exact Hx). reflexivity.
  Qed.

  Lemma rules_SYn : forall rs, (forall r, In r rs -> In r all_rules) -> apply_rules rs SYn = SYn.
  Proof.
    intros rs H. apply apply_rules_quiet. apply forallb_forall. intros r Hr. apply any_rule_SYn. auto.
  Qed.

  Lemma rules_SWn : forall rs, (forall r, In r rs -> In r all_rules) ->
    apply_rules rs SWn = if existsb is_not_rule rs then SYn else SWn.
  Proof.
    unfold apply_rules. induction rs as [| r rs IH]; intros H; [reflexivity |].
    cbn [fold_left existsb].
    assert (Hr : In r all_rules) by (apply H; left; reflexivity).
    assert (H' : forall r, In r rs -> In r all_rules) by (intros x Hx; apply H; right; exact Hx).
    destruct (is_not_rule r) eqn:E.
    - destruct r; try discriminate. rewrite own_rule_n. simpl. apply (rules_SYn rs H').
    - rewrite apply_rule_quiet by (apply other_rule_SWn; assumption). simpl. apply IH. exact H'.
  Qed.

  Lemma groups_SYn : forall order, fold_left (fun acc g => apply_rules (group_rules g) acc) order SYn = SYn.
  Proof.
    induction order as [| g order IH]; [reflexivity |]. cbn [fold_left].
    rewrite rules_SYn by (intros r; apply group_rules_in). exact IH.
  Qed.

  Lemma groups_SWn : forall order,
    fold_left (fun acc g => apply_rules (group_rules g) acc) order SWn =
    if existsb (fun g => existsb is_not_rule (group_rules g)) order then SYn else SWn.
  Proof.
    induction order as [| g order IH]; [reflexivity |]. cbn [fold_left existsb].
    rewrite rules_SWn by (intros r; apply group_rules_in).
    destruct (existsb is_not_rule (group_rules g)); simpl; [apply groups_SYn | exact IH].
  Qed.

  Lemma one_not : forall order s, (forall g, In g all_groups -> In g order) ->
    lower s = SWn -> sanitize order s = SYn /\ sanitize order SYn = SYn.
  Proof.
    intros order s Hperm Hs.
    assert (Hws : forall g, forallb re_ws g = true -> forallb lowc g = true).
    { intros g Hg. apply (forallb_impl _ re_ws); [| exact Hg]. intros c. allchars c. }
    assert (HA : forallb lowc (join ta) = true)
      by (apply join_forallb; [reflexivity | apply (forallb_impl _ inert); [apply inert_low | exact Hia]]).
    assert (HB : forallb lowc (join tb) = true)
      by (apply join_forallb; [reflexivity | apply (forallb_impl _ inert); [apply inert_low | exact Hib]]).
    assert (HlY : forallb lowc SYn = true)
      by (rewrite SYn_eq; rewrite !forallb_app; rewrite HA, HB; reflexivity).
    assert (Hpre : forall r, In r prepass -> In r all_rules)
      by (intros r Hr; unfold all_rules; apply in_or_app; left; exact Hr).
    split.
    - unfold sanitize. rewrite Hs. rewrite rules_SWn by exact Hpre.
      change (existsb is_not_rule prepass) with false. cbv iota.
      rewrite groups_SWn.
      assert (Hex : existsb (fun g => existsb is_not_rule (group_rules g)) order = true).
      { apply existsb_exists. exists GNot. split; [apply Hperm; apply group_in_all | reflexivity]. }
      rewrite Hex. reflexivity.
    - unfold sanitize. rewrite (lower_fix _ HlY). rewrite rules_SYn by exact Hpre. apply groups_SYn.
  Qed.
End NotWord.
