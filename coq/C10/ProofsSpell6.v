(* C10 proofs, part 3f: the statements of the spelling theorems in terms of the model only. *)
From Coq Require Import List Ascii String Bool Arith NArith Lia Permutation.
From GoProbe.Base Require Import CorrLib.
From GoProbe.C10 Require Import Model ProofsTok ProofsSan ProofsSpell1 ProofsSpell2 ProofsSpell3 ProofsSpell4 ProofsSpell5.
Import ListNotations.
Open Scope char_scope.

(* a neighbour: a non-empty list of tokens as the tokenizer produces them, none of which is an operator
   word or contains a byte the sanitizer reacts to; it stands in the text in canonical form (join) *)
Definition neighbour (ts : list bytes) : Prop :=
  ts <> [] /\ forallb wf_tok ts = true /\ plain_toks ts = true.
(* white space as the sanitizer sees it: blank, \t \n \f \r *)
Definition blanks (g : bytes) : Prop := g <> [] /\ forallb re_ws g = true.
(* w is a word spelling of the operator symbol o in the conversion table *)
Definition word_spelling (w o : bytes) : Prop := In (RWord w o) all_rules.
(* is the byte one of & | = *)
Definition amp_bar_eq (c : ascii) : bool := inb c ["&"; "|"; "="].

Lemma perm_all : forall order, Permutation order all_groups -> forall g, In g all_groups -> In g order.
Proof. intros order H g Hg. apply (Permutation_in g (Permutation_sym H)). exact Hg. Qed.

Lemma spellings_word : forall order s w o ta tb ws1 ws2,
  Permutation order all_groups -> word_spelling w o ->
  neighbour ta -> neighbour tb -> blanks ws1 -> blanks ws2 ->
  amp_bar_eq (last (join ta) " ") = false -> amp_bar_eq (hd " " (join tb)) = false ->
  lower s = join ta ++ ws1 ++ w ++ ws2 ++ join tb ->
  sanitize order s = join ta ++ o ++ join tb /\
  tokenize (sanitize order s) = tokenize (sanitize order (join ta ++ o ++ join tb)).
Proof.
  intros order s w o ta tb ws1 ws2 Hp Hw [Ha [Hwa Hpa]] [Hb [Hwb Hpb]] [Hn1 Hw1] [Hn2 Hw2] Hla Hhb Hs.
  pose proof (one_word w o ta tb ws1 ws2 Hw Ha Hb (plain_inert ta Hwa Hpa) (plain_inert tb Hwb Hpb)
                Hn1 Hn2 Hw1 Hw2 Hla Hhb order s (perm_all order Hp)) as H.
  rewrite SW_eq, SY_eq in H by assumption. rewrite <- !app_assoc in H.
  destruct (H Hs) as [H1 H2]. split; [exact H1 |]. rewrite H1, H2. reflexivity.
Qed.

Lemma spellings_not : forall order s ta tb ws1 ws2,
  Permutation order all_groups ->
  neighbour ta -> neighbour tb -> blanks ws1 -> blanks ws2 ->
  amp_bar_eq (last (join ta) " ") = false -> amp_bar_eq (hd " " (join tb)) = false ->
  lower s = join ta ++ ws1 ++ B "not" ++ ws2 ++ join tb ->
  sanitize order s = join ta ++ B "!" ++ join tb /\
  tokenize (sanitize order s) = tokenize (sanitize order (join ta ++ B "!" ++ join tb)).
Proof.
  intros order s ta tb ws1 ws2 Hp [Ha [Hwa Hpa]] [Hb [Hwb Hpb]] [Hn1 Hw1] [Hn2 Hw2] Hla Hhb Hs.
  pose proof (one_not ta tb ws1 ws2 Ha Hb (plain_inert ta Hwa Hpa) (plain_inert tb Hwb Hpb)
                Hn1 Hn2 Hw1 Hw2 Hla Hhb order s (perm_all order Hp)) as H.
  rewrite SWn_eq, SYn_eq in H by assumption. rewrite <- !app_assoc in H.
  destruct (H Hs) as [H1 H2]. split; [exact H1 |]. rewrite H1, H2. reflexivity.
Qed.

(* the word spellings of the table are exactly the documented ones (help text of goQuery) *)
Definition table_words : list (string * string) :=
  flat_map (fun r => match r with
                     | RWord w o => [(string_of_list_ascii w, string_of_list_ascii o)]
                     | _ => [] end) all_rules.
Lemma table_words_eq : table_words =
  [("and", "&"); ("or", "|"); ("eq", "="); ("-eq", "="); ("equals", "=");
   ("neq", "!="); ("-neq", "!="); ("ne", "!="); ("-ne", "!=");
   ("le", "<="); ("-le", "<="); ("leq", "<="); ("-leq", "<=");
   ("ge", ">="); ("-ge", ">="); ("geq", ">="); ("-geq", ">=");
   ("g", ">"); ("-g", ">"); ("gt", ">"); ("-gt", ">"); ("greater", ">");
   ("l", "<"); ("-l", "<"); ("lt", "<"); ("-lt", "<"); ("less", "<")]%string.
Proof. vm_compute. reflexivity. Qed.

(* tree level: the canonical string parses to the same verdict and tree as the original text *)
Lemma canonical_tree : forall order s,
  snd (tokenize_go (canon order s)) = true /\
  parse (fst (tokenize_go (canon order s))) = parse (fst (tokenize_go (sanitize order s))).
Proof.
  intros order s. rewrite canon_eq. rewrite canonical_stable_go. split; reflexivity.
Qed.

Lemma canonical_tree_prepare : forall order order' s,
  snd (tokenize_go (sanitize order s)) = true -> sanitize order' (canon order s) = canon order s ->
  fst (prepare order' (canon order s)) = fst (prepare order s).
Proof.
  intros order order' s Hok Hq. rewrite !prepare_eq. rewrite Hq. rewrite Hok.
  destruct (canonical_tree order s) as [H1 H2]. rewrite H1, H2. reflexivity.
Qed.

(* idempotence under the token-level side condition that the check uses *)
Lemma idempotent_plain : forall order order' s,
  plain_toks (fst (tokenize_go (sanitize order s))) = true ->
  canon order' (canon order s) = canon order s /\
  fst (prepare order' (canon order s)) = parse (fst (tokenize_go (sanitize order s))).
Proof. intros order order' s H. apply canon_idempotent. apply plain_quiet_canon. exact H. Qed.
