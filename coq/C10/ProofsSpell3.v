(* C10 proofs, part 3c: facts about the rule table, tokens are inert pieces, plain tokens => quiet. *)
From Coq Require Import List Ascii String Bool Arith NArith Lia.
From GoProbe.Base Require Import CorrLib.
From GoProbe.C10 Require Import Model ProofsTok ProofsSan ProofsSpell1 ProofsSpell2.
Import ListNotations.
Open Scope char_scope.

(* ---- the rule table *)
Definition rule_fact (r : rule) : bool :=
  match r with
  | RLit p _ => lit_ok p
  | _ => wrule r && existsb (beq (rule_word r)) op_word_list
  end.

Lemma all_rules_facts : forallb rule_fact all_rules = true.
Proof. vm_compute. reflexivity. Qed.

Lemma rule_fact_in : forall r, In r all_rules -> rule_fact r = true.
Proof. intros r H. pose proof all_rules_facts as F. rewrite forallb_forall in F. apply F. exact H. Qed.

Lemma rule_fact_ws : forall r, is_lit r = false -> rule_fact r = true ->
  wrule r = true /\ In (rule_word r) op_word_list.
Proof.
  intros r Hl H. destruct r; try discriminate; unfold rule_fact in H;
    apply andb_true_iff in H; destruct H as [H1 H2]; (split; [exact H1 |]);
    apply existsb_exists in H2; destruct H2 as [x [Hin Hx]]; apply beq_eq in Hx; rewrite Hx; exact Hin.
Qed.

(* ---- inert tokens *)
Definition lowc (c : ascii) : bool := Ascii.eqb (lower_char c) c.

Definition inert (t : bytes) : bool :=
  chunk_ok t && negb (existsb (beq t) op_word_list) && (negb (opc (hd " " t)) || forallb nbr t)
  && lit_free t && forallb lowc t.

Lemma not_in_list : forall t L w, existsb (beq t) L = false -> In w L -> beq t w = false.
Proof.
  intros t L w H Hin. destruct (beq t w) eqn:E; [| reflexivity].
  assert (existsb (beq t) L = true) by (apply existsb_exists; exists w; tauto). congruence.
Qed.

Lemma inert_parts : forall t, inert t = true ->
  chunk_ok t = true /\ existsb (beq t) op_word_list = false /\
  (negb (opc (hd " " t)) || forallb nbr t = true) /\ lit_free t = true /\ forallb lowc t = true.
Proof.
  intros t H. unfold inert in H.
  apply andb_true_iff in H. destruct H as [H H5]. apply andb_true_iff in H. destruct H as [H H4].
  apply andb_true_iff in H. destruct H as [H H3]. apply andb_true_iff in H. destruct H as [H1 H2].
  apply negb_true_iff in H2. tauto.
Qed.

Lemma inert_tok_ok : forall r t, is_lit r = false -> rule_fact r = true -> inert t = true -> tok_ok r t = true.
Proof.
  intros r t Hl Hf Hi. destruct (rule_fact_ws r Hl Hf) as [_ Hin].
  destruct (inert_parts t Hi) as [H1 [H2 [H3 _]]].
  unfold chunk_ok in H1. apply andb_true_iff in H1. destruct H1 as [Ha Hb].
  unfold tok_ok. rewrite Ha, Hb, H3. simpl. rewrite andb_true_r.
  rewrite (not_in_list t _ _ H2 Hin). reflexivity.
Qed.

Lemma inert_chunk : forall t, inert t = true -> chunk_ok t = true.
Proof. intros t H. apply inert_parts in H. tauto. Qed.
Lemma inert_lit : forall t, inert t = true -> lit_free t = true.
Proof. intros t H. apply inert_parts in H. tauto. Qed.
Lemma inert_low : forall t, inert t = true -> forallb lowc t = true.
Proof. intros t H. apply inert_parts in H. tauto. Qed.

Lemma word_char : forall c, wordc c = true -> plain_byte c = true ->
  nws c && nbr c && (negb (sp1 c) && negb (dch c)) && lowc c = true.
Proof. intros c. allchars c. Qed.

Lemma delim_char : forall c, is_single c || is_pair c = true ->
  nws c && negb (opc c) && negb (sp1 c) && lowc c = true.
Proof. intros c. allchars c. Qed.

Lemma pair_char : forall c, is_pair c = true -> dch c = false.
Proof. intros c. allchars c. Qed.

Lemma wf_plain_inert : forall t, wf_tok t = true ->
  negb (existsb (beq t) op_word_list) && forallb plain_byte t = true -> inert t = true.
Proof.
  intros t Hw Hp. apply andb_true_iff in Hp. destruct Hp as [Hop Hpl].
  unfold wf_tok in Hw. destruct t as [| c t]; [discriminate |].
  set (w := c :: t) in *. assert (Hnn : nullb w = false) by reflexivity.
  apply orb_true_iff in Hw. destruct Hw as [Hw | Hw].
  - assert (HA : forall x, In x w -> nws x && nbr x && (negb (sp1 x) && negb (dch x)) && lowc x = true).
    { intros x Hx. rewrite forallb_forall in Hw, Hpl. apply word_char; auto. }
    clearbody w. unfold inert, chunk_ok. rewrite Hnn, Hop. simpl negb.
    assert (H1 : forallb nws w = true).
    { apply forallb_forall. intros x Hx. specialize (HA x Hx).
      repeat (apply andb_true_iff in HA; destruct HA as [HA ?]). assumption. }
    assert (H2 : forallb nbr w = true).
    { apply forallb_forall. intros x Hx. specialize (HA x Hx).
      repeat (apply andb_true_iff in HA; destruct HA as [HA ?]). assumption. }
    assert (H3 : lit_free w = true).
    { apply lit_free_chars. apply forallb_forall. intros x Hx. specialize (HA x Hx).
      repeat (apply andb_true_iff in HA; destruct HA as [HA ?]). assumption. }
    assert (H4 : forallb lowc w = true).
    { apply forallb_forall. intros x Hx. specialize (HA x Hx).
      repeat (apply andb_true_iff in HA; destruct HA as [HA ?]). assumption. }
    rewrite H1, H2, H3, H4. rewrite orb_true_r. reflexivity.
  - subst w. unfold delim_tok in Hw. destruct t as [| d t].
    + pose proof (delim_char c Hw) as HC.
      repeat (apply andb_true_iff in HC; destruct HC as [HC ?]).
      unfold inert, chunk_ok. rewrite Hop. simpl. rewrite HC, H0, H1, H. reflexivity.
    + destruct t; [| discriminate]. apply andb_true_iff in Hw. destruct Hw as [Hc Hd].
      apply Ascii.eqb_eq in Hd. subst d.
      assert (HC : is_single c || is_pair c = true) by (rewrite Hc; apply orb_true_r).
      apply delim_char in HC. repeat (apply andb_true_iff in HC; destruct HC as [HC ?]).
      unfold inert, chunk_ok. rewrite Hop. simpl. rewrite HC, H0, H1, H, (pair_char c Hc). reflexivity.
Qed.

Lemma plain_inert : forall ts, forallb wf_tok ts = true -> plain_toks ts = true -> forallb inert ts = true.
Proof.
  intros ts Hw Hp. apply forallb_forall. intros t Ht.
  rewrite forallb_forall in Hw. unfold plain_toks in Hp. rewrite forallb_forall in Hp.
  apply wf_plain_inert; auto.
Qed.

(* ---- texts of inert tokens *)
Lemma lower_fix : forall s, forallb lowc s = true -> lower s = s.
Proof.
  induction s as [| c s IH]; intros H; [reflexivity |].
  simpl in H. apply andb_true_iff in H. destruct H as [Hc Hs].
  unfold lowc in Hc. apply Ascii.eqb_eq in Hc. unfold lower in *. cbn [map]. rewrite Hc, IH by exact Hs.
  reflexivity.
Qed.

Lemma join_forallb : forall P ts, P " " = true -> forallb (forallb P) ts = true -> forallb P (join ts) = true.
Proof.
  intros P ts Hsp. induction ts as [| t ts IH]; intros H; [reflexivity |].
  simpl in H. apply andb_true_iff in H. destruct H as [Ht Hts].
  destruct ts as [| t2 ts]; [exact Ht |].
  change (join (t :: t2 :: ts)) with (t ++ " " :: join (t2 :: ts)).
  rewrite forallb_app. rewrite Ht. simpl. rewrite Hsp. simpl. apply IH. exact Hts.
Qed.

Lemma lit_free_blank : forall s, lit_free (" " :: s) = lit_free s.
Proof. intros [| d s]; reflexivity. Qed.

Lemma lit_free_join : forall ts, forallb lit_free ts = true -> lit_free (join ts) = true.
Proof.
  induction ts as [| t ts IH]; intros H; [reflexivity |].
  simpl in H. apply andb_true_iff in H. destruct H as [Ht Hts].
  destruct ts as [| t2 ts]; [exact Ht |].
  change (join (t :: t2 :: ts)) with (t ++ " " :: join (t2 :: ts)).
  apply lit_free_app; [exact Ht | rewrite lit_free_blank; apply IH; exact Hts | right; reflexivity].
Qed.

Lemma forallb_impl : forall (A : Type) (P Q : A -> bool) l, (forall x, P x = true -> Q x = true) ->
  forallb P l = true -> forallb Q l = true.
Proof.
  intros A P Q l H Hl. apply forallb_forall. intros x Hx. rewrite forallb_forall in Hl. auto.
Qed.

(* a text of inert tokens joined by single blanks is quiet *)
Lemma inert_quiet : forall ts, forallb inert ts = true -> quiet (join ts) = true.
Proof.
  intros ts Hi. destruct ts as [| t0 ts0]; [vm_compute; reflexivity |].
  set (ts := t0 :: ts0) in *.
  unfold quiet. apply andb_true_iff. split.
  - rewrite lower_fix; [apply beq_refl |].
    apply join_forallb; [reflexivity |]. apply (forallb_impl _ inert); [apply inert_low | exact Hi].
  - apply forallb_forall. intros r Hr. pose proof (rule_fact_in r Hr) as Hf.
    destruct (is_lit r) eqn:Hl.
    + destruct r as [p rep | | | |]; try discriminate. unfold quiet_rule.
      apply lit_free_no_match; [exact Hf |]. apply lit_free_join.
      apply (forallb_impl _ inert); [apply inert_lit | exact Hi].
    + destruct (rule_fact_ws r Hl Hf) as [HW _].
      assert (Hflat : flat (pj ts []) = join ts) by (rewrite flat_pj by discriminate; apply app_nil_r).
      rewrite <- Hflat.
      assert (Htok : forallb (tok_ok r) ts = true)
        by (apply (forallb_impl _ inert); [intros x; apply inert_tok_ok; assumption | exact Hi]).
      apply (ws_rule_quiet r (pj ts []) t0 (tail_stuff ts0 [] [])); try assumption.
      * apply pieces_pj; [| reflexivity | left; reflexivity].
        apply (forallb_impl _ inert); [apply inert_chunk | exact Hi].
      * apply gaps_pj; try assumption; [reflexivity | left; reflexivity].
      * rewrite <- (app_nil_r (flat (pj ts []))). apply flat_pj_head.
      * simpl in Htok. apply andb_true_iff in Htok. tauto.
      * apply tail_stuff_ok. reflexivity.
Qed.

(* what `holds` uses as the side condition of idempotence implies the side condition of c10_idempotent *)
Lemma plain_quiet : forall ts, forallb wf_tok ts = true -> plain_toks ts = true -> quiet (join ts) = true.
Proof. intros ts Hw Hp. apply inert_quiet. apply plain_inert; assumption. Qed.

Lemma plain_quiet_canon : forall order s,
  plain_toks (fst (tokenize_go (sanitize order s))) = true -> quiet (canon order s) = true.
Proof.
  intros order s H. rewrite canon_eq. apply plain_quiet; [| exact H].
  unfold tokenize_go. apply take_ok_wf. apply tokenize_wf.
Qed.
