(* C10 model: condition text -> sanitize -> tokenize -> parse -> canonical string.
   Anchors: pkg/goDB/conditions/tokenize.go (SanitizeUserInput, Tokenize and its split functions),
            pkg/goDB/conditions/node/parse.go (parseConditional), pkg/query/args.go (prepConditionArg).
   Executable definitions only. Text is a list of bytes (`ascii`); the model of the lower-casing
   step is ASCII only (Go's bytes.ToLower is Unicode aware: non-ASCII input is outside the model
   of `sanitize`; tokenizer and parser are modelled for every byte string). *)
From Coq Require Import List Ascii String Bool Arith NArith.
From GoProbe.Base Require Import CorrLib.
Import ListNotations.
Open Scope char_scope.

Notation bytes := (list ascii).
Definition B (s : string) : bytes := list_ascii_of_string s.

Fixpoint beq (a b : bytes) : bool :=
  match a, b with
  | [], [] => true
  | x :: a', y :: b' => Ascii.eqb x y && beq a' b'
  | _, _ => false
  end.

Definition inb (c : ascii) (l : bytes) : bool := existsb (Ascii.eqb c) l.

(* ------------------------------------------------------------------ tokenizer (tokenize.go)
   startsDelimiter: ! = < > | & ( ) and the four white space bytes. The bufio.Scanner hands the
   split functions a window of the text; asking for more data at the end of the window makes the
   result equal to that on the whole text, which is what is modelled. *)
Definition is_tws (c : ascii) : bool := inb c [" "; "010"; "013"; "009"].
Definition is_single (c : ascii) : bool := inb c ["="; "|"; "&"; "("; ")"].
Definition is_pair (c : ascii) : bool := inb c ["!"; "<"; ">"].
Definition starts_delim (c : ascii) : bool := is_tws c || is_single c || is_pair c.

(* the word collected so far (reversed) is emitted when a delimiter or the end is reached *)
Definition flush (acc : bytes) (k : list bytes) : list bytes :=
  match acc with [] => k | _ => rev acc :: k end.

Fixpoint tok (s acc : bytes) {struct s} : list bytes :=
  match s with
  | [] => flush acc []
  | c :: r =>
    if is_tws c then flush acc (tok r [])                      (* token " " is dropped by Tokenize *)
    else if is_single c then flush acc ([c] :: tok r [])
    else if is_pair c then
      match r with                                            (* look ahead one byte: endsDelimiter *)
      | d :: r' => if Ascii.eqb d "=" then flush acc ([c; d] :: tok r' [])
                   else flush acc ([c] :: tok r [])
      | [] => flush acc [[c]]                                 (* atEOF *)
      end
    else tok r (c :: acc)
  end.

Definition tokenize (s : bytes) : list bytes := tok s [].

(* bufio.Scanner: a token that does not fit into 64 KiB ends the scan with ErrTooLong; Tokenize
   returns the tokens found so far together with the error *)
Definition max_token : N := 65536.
Definition too_long (t : bytes) : bool := (max_token <=? N.of_nat (List.length t))%N.
Fixpoint take_ok (l : list bytes) : list bytes * bool :=
  match l with
  | [] => ([], true)
  | t :: r => if too_long t then ([], false) else let (a, ok) := take_ok r in (t :: a, ok)
  end.
Definition tokenize_go (s : bytes) : list bytes * bool := take_ok (tokenize s).

(* strings.Join(tokens, " ") *)
Fixpoint join (l : list bytes) : bytes :=
  match l with
  | [] => []
  | [t] => t
  | t :: r => t ++ " " :: join r
  end.

(* ------------------------------------------------------------------ parser (parse.go) *)
Inductive tree :=
| Leaf (attr cmp val : bytes)
| TNot (t : tree)
| TAnd (l r : tree)
| TOr (l r : tree)
| TPar (t : tree).               (* a parenthesised group: only in the concrete syntax tree of the model;
                                    the Go AST drops it (see strip) *)

Inductive pres (A : Type) :=
| POk (a : A) (pos : nat)        (* success, new position *)
| PErr (pos : nat)               (* p.die at this position *)
| PPanic                         (* index out of range *)
| PFuel.                         (* iteration bound of the model exhausted: never the case *)
Arguments POk {A}. Arguments PErr {A}. Arguments PPanic {A}. Arguments PFuel {A}.

(* p.tokens[p.pos]: explicit index *)
Definition tok_at (ts : list bytes) (pos : nat) : res bytes :=
  match nth_error ts pos with Some t => Ok t | None => Panic end.
Definition eof (ts : list bytes) (pos : nat) : bool := Nat.leb (List.length ts) pos.
(* accept: !p.eof() && p.tokens[p.pos] == token *)
Definition accept (ts : list bytes) (pos : nat) (t : bytes) : res bool :=
  if eof ts pos then Ok false
  else match tok_at ts pos with Ok x => Ok (beq x t) | _ => Panic end.

Definition attributes : list bytes :=
  map B ["dip"; "sip"; "dnet"; "snet"; "dport"; "proto"; "dir";
         "dst"; "src"; "host"; "net"; "port"; "protocol"; "ipproto"; "direction"]%string.
Definition comparators : list bytes := map B ["="; "!="; "<="; ">="; "<"; ">"]%string.

(* accept one token out of a list (attribute(), comparator()) else die *)
Definition p_oneof (ts : list bytes) (pos : nat) (l : list bytes) : pres bytes :=
  if eof ts pos then PErr pos
  else match tok_at ts pos with
       | Ok x => if existsb (beq x) l then POk x (S pos) else PErr pos
       | _ => PPanic
       end.

(* value(): advance() *)
Definition p_value (ts : list bytes) (pos : nat) : pres bytes :=
  if eof ts pos then PErr pos
  else match tok_at ts pos with Ok x => POk x (S pos) | _ => PPanic end.

Definition p_cond (ts : list bytes) (pos : nat) : pres tree :=
  match p_oneof ts pos attributes with
  | POk a p1 =>
    match p_oneof ts p1 comparators with
    | POk c p2 =>
      match p_value ts p2 with
      | POk v p3 => POk (Leaf a c v) p3
      | PErr p => PErr p | PPanic => PPanic | PFuel => PFuel
      end
    | PErr p => PErr p | PPanic => PPanic | PFuel => PFuel
    end
  | PErr p => PErr p | PPanic => PPanic | PFuel => PFuel
  end.

(* listToTree: right-hanging; the list is never empty (first element carried separately) *)
Fixpoint list_to_tree (and : bool) (first : tree) (rest : list tree) : tree :=
  match rest with
  | [] => first
  | x :: r => if and then TAnd first (list_to_tree and x r) else TOr first (list_to_tree and x r)
  end.

(* `nodes := {item()}; for p.accept(sep) { nodes = append(nodes, item()) }`; n bounds the iterations *)
Fixpoint p_loop (ts : list bytes) (item : nat -> pres tree) (sep : bytes) (n : nat) (pos : nat)
  : pres (list tree) :=
  match accept ts pos sep with
  | Ok true =>
    match n with
    | O => PFuel
    | S n' =>
      match item (S pos) with
      | POk t p1 =>
        match p_loop ts item sep n' p1 with
        | POk l p2 => POk (t :: l) p2
        | e => e
        end
      | PErr p => PErr p | PPanic => PPanic | PFuel => PFuel
      end
    end
  | Ok false => POk [] pos
  | _ => PPanic
  end.

Definition p_list (ts : list bytes) (item : nat -> pres tree) (sep : bytes) (and : bool) (pos : nat)
  : pres tree :=
  match item pos with
  | POk t p1 =>
    match p_loop ts item sep (List.length ts) p1 with
    | POk l p2 => POk (list_to_tree and t l) p2
    | PErr p => PErr p | PPanic => PPanic | PFuel => PFuel
    end
  | e => e
  end.

(* maxParenthesesDepth = 512: `depth` parentheses may still be opened *)
Definition max_depth : nat := 512.

(* primitive(): `inner` is the parser for a parenthesised disjunction, None once 512 are open *)
Definition p_prim (ts : list bytes) (inner : option (nat -> pres tree)) (pos : nat) : pres tree :=
  match accept ts pos (B "(") with
  | Ok true =>
    match inner with
    | None => PErr (S pos)                                  (* nested too deeply *)
    | Some disj =>
      match disj (S pos) with
      | POk t p1 =>
        match accept ts p1 (B ")") with                     (* expect(")") *)
        | Ok true => POk (TPar t) (S p1)
        | Ok false => PErr p1
        | _ => PPanic
        end
      | e => e
      end
    end
  | Ok false => p_cond ts pos
  | _ => PPanic
  end.

(* negation() *)
Definition p_neg (ts : list bytes) (inner : option (nat -> pres tree)) (pos : nat) : pres tree :=
  match accept ts pos (B "!") with
  | Ok true => match p_prim ts inner (S pos) with POk t p => POk (TNot t) p | e => e end
  | Ok false => p_prim ts inner pos
  | _ => PPanic
  end.

(* disjunction() over conjunction() over negation(); `depth` parentheses may still be opened *)
Fixpoint p_disj (ts : list bytes) (depth : nat) (pos : nat) {struct depth} : pres tree :=
  let inner := match depth with O => None | S d => Some (p_disj ts d) end in
  p_list ts (p_list ts (p_neg ts inner) (B "&") true) (B "|") false pos.

Inductive outcome :=
| Accepted (t : tree)
| Empty                    (* errEmptyConditional: no condition *)
| Rejected (pos : nat)     (* ParseError at token pos *)
| TokErr                   (* tokenizer error (token too long) *)
| Crashed                  (* a Go panic *)
| OutOfFuel.

(* the AST as Go builds it: parentheses leave no node *)
Fixpoint strip (t : tree) : tree :=
  match t with
  | Leaf a c v => Leaf a c v
  | TNot x => TNot (strip x)
  | TAnd l r => TAnd (strip l) (strip r)
  | TOr l r => TOr (strip l) (strip r)
  | TPar x => strip x
  end.

(* maximal nesting of parentheses, and the token list a concrete syntax tree stands for *)
Fixpoint par_depth (t : tree) : nat :=
  match t with
  | Leaf _ _ _ => 0
  | TNot x => par_depth x
  | TAnd l r | TOr l r => Nat.max (par_depth l) (par_depth r)
  | TPar x => S (par_depth x)
  end.
Fixpoint unparse (t : tree) : list bytes :=
  match t with
  | Leaf a c v => [a; c; v]
  | TNot x => B "!" :: unparse x
  | TAnd l r => unparse l ++ B "&" :: unparse r
  | TOr l r => unparse l ++ B "|" :: unparse r
  | TPar x => B "(" :: unparse x ++ [B ")"]
  end.

(* parseConditional + rendering of the error as Args.Prepare does (Tokens[:Pos] slices);
   parse_cst keeps the parentheses, parse is what Go returns *)
Definition parse_cst (ts : list bytes) : outcome :=
  match ts with
  | [] => Empty
  | _ =>
    let fin := fun pos => if Nat.ltb (List.length ts) pos then Crashed else Rejected pos in
    match p_disj ts max_depth 0 with
    | POk t p => if eof ts p then Accepted t else fin p     (* input unexpectedly continues *)
    | PErr p => fin p
    | PPanic => Crashed
    | PFuel => OutOfFuel
    end
  end.

Definition parse (ts : list bytes) : outcome :=
  match parse_cst ts with Accepted t => Accepted (strip t) | o => o end.

(* ------------------------------------------------------------------ sanitizer (tokenize.go) *)
Definition lower_char (c : ascii) : ascii :=
  let n := N_of_ascii c in
  if ((65 <=? n) && (n <=? 90))%N then ascii_of_N (n + 32) else c.
Definition lower (s : bytes) : bytes := map lower_char s.

(* regexp \s = [\t\n\f\r ] *)
Definition re_ws (c : ascii) : bool := inb c [" "; "009"; "010"; "012"; "013"].
Definition is_bracket (c : ascii) : bool := inb c ["("; "["; "{"].

Fixpoint span_ws (s : bytes) : nat * bytes :=
  match s with
  | c :: r => if re_ws c then let (n, t) := span_ws r in (S n, t) else (0, s)
  | [] => (0, [])
  end.

Fixpoint strip_prefix (p s : bytes) : option bytes :=
  match p, s with
  | [], _ => Some s
  | x :: p', y :: s' => if Ascii.eqb x y then strip_prefix p' s' else None
  | _ :: _, [] => None
  end.

(* ReplaceAllString: leftmost match, replaced, scanning resumes behind it. A matcher looks at the
   text from the current position and returns (List.length of the match, replacement). *)
Definition matcher := bytes -> option (nat * bytes).

Fixpoint rw (m : matcher) (s : bytes) (skip : nat) : bytes :=
  match s with
  | [] => []
  | c :: r =>
    match skip with
    | S k => rw m r k
    | O => match m s with
           | Some (S n, out) => out ++ rw m r n
           | _ => c :: rw m r 0
           end
    end
  end.

(* the same with a different matcher at the start of the text (for patterns with ^) *)
Definition rw_first (m0 m : matcher) (s : bytes) : bytes :=
  match s with
  | [] => []
  | c :: r => match m0 s with
              | Some (S n, out) => out ++ rw m r n
              | _ => c :: rw m r 0
              end
  end.

(* literal pattern *)
Definition m_lit (pat rep : bytes) : matcher := fun s =>
  match strip_prefix pat s with Some _ => Some (List.length pat, rep) | None => None end.

(* \s+W\s+ *)
Definition m_word (w rep : bytes) : matcher := fun s =>
  let (n1, s1) := span_ws s in
  if Nat.eqb n1 0 then None else
  match strip_prefix w s1 with
  | Some s2 => let (n2, _) := span_ws s2 in
               if Nat.eqb n2 0 then None else Some (n1 + List.length w + n2, rep)
  | None => None
  end.

(* W\s+ at the start of the text (the ^ alternative) *)
Definition m_word_start (w rep : bytes) : matcher := fun s =>
  match strip_prefix w s with
  | Some s2 => let (n2, _) := span_ws s2 in
               if Nat.eqb n2 0 then m_word w rep s else Some (List.length w + n2, rep)
  | None => m_word w rep s
  end.

(* \s+not[\(\[\{] *)
Definition m_notp (rep : bytes) : matcher := fun s =>
  let (n1, s1) := span_ws s in
  if Nat.eqb n1 0 then None else
  match strip_prefix (B "not") s1 with
  | Some (c :: _) => if is_bracket c then Some (n1 + 4, rep) else None
  | _ => None
  end.
Definition m_notp_start (rep : bytes) : matcher := fun s =>
  match strip_prefix (B "not") s with
  | Some (c :: _) => if is_bracket c then Some (4, rep) else m_notp rep s
  | _ => m_notp rep s
  end.

(* \s+W(\s+not[\s\(\[\{]) replaced by rep ++ group 1 *)
Definition m_pre (w rep : bytes) : matcher := fun s =>
  let (n1, s1) := span_ws s in
  if Nat.eqb n1 0 then None else
  match strip_prefix w s1 with
  | Some s2 =>
    let (n2, s3) := span_ws s2 in
    if Nat.eqb n2 0 then None else
    match strip_prefix (B "not") s3 with
    | Some (c :: _) =>
      if re_ws c || is_bracket c
      then Some (n1 + List.length w + n2 + 4, rep ++ firstn n2 s2 ++ B "not" ++ [c])
      else None
    | _ => None
    end
  | None => None
  end.

Inductive rule :=
| RLit (pat rep : bytes)
| RWord (w rep : bytes)      (* \s+w\s+ *)
| RNot                        (* (^|\s+)not\s+ -> ! *)
| RNotP                       (* (^|\s+)not[\(\[\{] -> !( *)
| RPre (w rep : bytes).       (* \s+w(\s+not[\s\(\[\{]) -> rep$1 *)

Definition apply_rule (r : rule) (s : bytes) : bytes :=
  match r with
  | RLit p rep => rw (m_lit p rep) s 0
  | RWord w rep => rw (m_word w rep) s 0
  | RNot => rw_first (m_word_start (B "not") (B "!")) (m_word (B "not") (B "!")) s
  | RNotP => rw_first (m_notp_start (B "!(")) (m_notp (B "!(")) s
  | RPre w rep => rw (m_pre w rep) s 0
  end.

Definition apply_rules (rs : list rule) (s : bytes) : bytes :=
  fold_left (fun acc r => apply_rule r acc) rs s.

(* the keys of grammarConversionMap *)
Inductive group := GNot | GNotP | GAnd | GOr | GLp | GRp | GEq | GNe | GLe | GGe | GGt | GLt.

Definition all_groups : list group := [GNot; GNotP; GAnd; GOr; GLp; GRp; GEq; GNe; GLe; GGe; GGt; GLt].

Definition group_sym (g : group) : bytes :=
  B match g with
    | GNot => "!" | GNotP => "!(" | GAnd => "&" | GOr => "|" | GLp => "(" | GRp => ")"
    | GEq => "=" | GNe => "!=" | GLe => "<=" | GGe => ">=" | GGt => ">" | GLt => "<"
    end%string.

Open Scope string_scope.
Open Scope list_scope.
Definition words (g : group) (l : list string) : list rule := map (fun w => RWord (B w) (group_sym g)) l.
Definition lits (g : group) (l : list string) : list rule := map (fun w => RLit (B w) (group_sym g)) l.

Definition group_rules (g : group) : list rule :=
  match g with
  | GNot => [RNot]
  | GNotP => [RNotP]
  | GAnd => lits GAnd ["&&"] ++ words GAnd ["and"] ++ lits GAnd ["*"]
  | GOr => lits GOr ["||"] ++ words GOr ["or"] ++ lits GOr ["+"]
  | GLp => lits GLp ["{"; "["]
  | GRp => lits GRp ["}"; "]"]
  | GEq => words GEq ["eq"; "-eq"; "equals"] ++ lits GEq ["==="; "=="]
  | GNe => words GNe ["neq"; "-neq"; "ne"; "-ne"]
  | GLe => words GLe ["le"; "-le"; "leq"; "-leq"]
  | GGe => words GGe ["ge"; "-ge"; "geq"; "-geq"]
  | GGt => words GGt ["g"; "-g"; "gt"; "-gt"; "greater"]
  | GLt => words GLt ["l"; "-l"; "lt"; "-lt"; "less"]
  end.

(* grammarConversionBeforeNot: applied first, in this order *)
Definition prepass : list rule := [RPre (B "and") (B "&"); RPre (B "or") (B "|")].

(* SanitizeUserInput; `order` is the iteration order of the Go map *)
Definition sanitize (order : list group) (s : bytes) : bytes :=
  fold_left (fun acc g => apply_rules (group_rules g) acc) order (apply_rules prepass (lower s)).

(* ------------------------------------------------------------------ Args.Prepare (condition part) *)
(* outcome of the syntax check and the canonical condition string stored in the statement *)
Definition prepare (order : list group) (s : bytes) : outcome * bytes :=
  let san := sanitize order s in
  let (ts, ok) := tokenize_go san in
  (if ok then parse ts else TokErr, join ts).

Definition canon (order : list group) (s : bytes) : bytes := snd (prepare order s).

(* ------------------------------------------------------------------ side condition of idempotence:
   no pattern of the sanitizer matches anywhere in the text and the text is lower case. Decidable,
   independent of the order of the groups. *)
Definition hit (m : matcher) (s : bytes) : bool :=
  match m s with Some (S _, _) => true | _ => false end.

Fixpoint no_match (m : matcher) (s : bytes) : bool :=
  match s with
  | [] => true
  | _ :: r => negb (hit m s) && no_match m r
  end.

Definition quiet_rule (r : rule) (s : bytes) : bool :=
  match r with
  | RLit p rep => no_match (m_lit p rep) s
  | RWord w rep => no_match (m_word w rep) s
  | RNot => negb (hit (m_word_start (B "not") (B "!")) s) && no_match (m_word (B "not") (B "!")) (tl s)
  | RNotP => negb (hit (m_notp_start (B "!(")) s) && no_match (m_notp (B "!(")) (tl s)
  | RPre w rep => no_match (m_pre w rep) s
  end.

Definition all_rules : list rule := prepass ++ flat_map group_rules all_groups.

Definition quiet (s : bytes) : bool :=
  beq (lower s) s && forallb (fun r => quiet_rule r s) all_rules.

(* token-level form of the side condition (what the check uses): no token is an operator word, and
   no token contains a byte the sanitizer rewrites, treats as white space or would lower-case *)
Definition op_word_list : list bytes :=
  map B ["and"; "or"; "not"; "eq"; "-eq"; "equals"; "neq"; "-neq"; "ne"; "-ne"; "le"; "-le"; "leq"; "-leq";
         "ge"; "-ge"; "geq"; "-geq"; "g"; "-g"; "gt"; "-gt"; "greater"; "l"; "-l"; "lt"; "-lt"; "less"].
Definition plain_byte (c : ascii) : bool :=
  let n := N_of_ascii c in
  (n <? 128)%N && negb ((65 <=? n) && (n <=? 90))%N && negb (n =? 12)%N
  && negb (inb c ["*"; "+"; "{"; "}"; "["; "]"]%char).
Definition plain_toks (ts : list bytes) : bool :=
  forallb (fun t => negb (existsb (beq t) op_word_list) && forallb plain_byte t) ts.
