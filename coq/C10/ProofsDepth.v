(* C10 proofs, part 4: an accepted token list is nested at most 512 deep, whatever stands beside the
   groups; the concrete syntax tree of the model stands for exactly the token list. *)
From Coq Require Import List Ascii String Bool Arith NArith Lia.
From GoProbe.Base Require Import CorrLib.
From GoProbe.C10 Require Import Model ProofsTok ProofsSan.
Import ListNotations.
Open Scope string_scope.
Open Scope list_scope.

(* ---- nesting never exceeds the budget handed down *)
Definition dgood (d : nat) (r : pres tree) : Prop :=
  match r with POk t _ => par_depth t <= d | _ => True end.
Definition dgoodl (d : nat) (r : pres (list tree)) : Prop :=
  match r with POk l _ => Forall (fun t => par_depth t <= d) l | _ => True end.

Lemma depth_list_to_tree : forall d and l t, par_depth t <= d -> Forall (fun t => par_depth t <= d) l ->
  par_depth (list_to_tree and t l) <= d.
Proof.
  intros d and. induction l as [| x l IH]; intros t Ht Hl; [exact Ht |].
  inversion Hl; subst. simpl. specialize (IH x H1 H2).
  destruct and; simpl; apply Nat.max_lub; assumption.
Qed.

Lemma depth_loop : forall ts item sep d, (forall p, dgood d (item p)) ->
  forall n pos, dgoodl d (p_loop ts item sep n pos).
Proof.
  intros ts item sep d Hitem. induction n as [| n IH]; intros pos; simpl.
  - destruct (accept ts pos sep) as [[|] | |]; simpl; auto.
  - destruct (accept ts pos sep) as [[|] | |]; simpl; auto.
    pose proof (Hitem (S pos)) as H1. destruct (item (S pos)) as [t p1 | p | |]; simpl in *; auto.
    pose proof (IH p1) as H2. destruct (p_loop ts item sep n p1) as [l p2 | p | |]; simpl in *; auto.
Qed.

Lemma depth_list : forall ts item sep and d, (forall p, dgood d (item p)) ->
  forall p, dgood d (p_list ts item sep and p).
Proof.
  intros ts item sep and d Hitem pos. unfold p_list.
  pose proof (Hitem pos) as H1. destruct (item pos) as [t p1 | p | |]; simpl in *; auto.
  pose proof (depth_loop ts item sep d Hitem (List.length ts) p1) as H2.
  destruct (p_loop ts item sep (List.length ts) p1) as [l p2 | p | |]; simpl in *; auto.
  apply depth_list_to_tree; assumption.
Qed.

Lemma depth_cond : forall ts pos d, dgood d (p_cond ts pos).
Proof.
  intros ts pos d. unfold p_cond.
  destruct (p_oneof ts pos attributes) as [a p1 | | |]; simpl; auto.
  destruct (p_oneof ts p1 comparators) as [c p2 | | |]; simpl; auto.
  destruct (p_value ts p2) as [v p3 | | |]; simpl; auto. lia.
Qed.

Definition dinner (d : nat) (inner : option (nat -> pres tree)) : Prop :=
  match inner with
  | None => True
  | Some f => exists d', d = S d' /\ forall p, dgood d' (f p)
  end.

Lemma depth_prim : forall ts inner d, dinner d inner -> forall p, dgood d (p_prim ts inner p).
Proof.
  intros ts inner d Hin pos. unfold p_prim.
  destruct (accept ts pos (B "(")) as [[|] | |]; simpl; auto; [| apply depth_cond].
  destruct inner as [f |]; simpl; auto.
  destruct Hin as [d' [-> Hf]]. pose proof (Hf (S pos)) as H1.
  destruct (f (S pos)) as [t p1 | | |]; simpl in *; auto.
  destruct (accept ts p1 _) as [[|] | |]; simpl; auto. lia.
Qed.

Lemma depth_neg : forall ts inner d, dinner d inner -> forall p, dgood d (p_neg ts inner p).
Proof.
  intros ts inner d Hin pos. unfold p_neg.
  destruct (accept ts pos (B "!")) as [[|] | |]; simpl; auto; [| apply depth_prim; exact Hin].
  pose proof (depth_prim ts inner d Hin (S pos)) as H1.
  destruct (p_prim ts inner (S pos)) as [t p1 | | |]; simpl in *; auto.
Qed.

Lemma depth_disj : forall ts d p, dgood d (p_disj ts d p).
Proof.
  intros ts. induction d as [| d IH]; intros pos; simpl p_disj.
  - apply depth_list. apply depth_list. apply depth_neg. exact I.
  - apply depth_list. apply depth_list. apply depth_neg. exists d. split; [reflexivity | exact IH].
Qed.

Lemma depth_bound : forall ts c, parse_cst ts = Accepted c -> par_depth c <= max_depth.
Proof.
  intros ts c H. unfold parse_cst in H. destruct ts as [| t0 ts']; [discriminate |].
  pose proof (depth_disj (t0 :: ts') max_depth 0) as Hd.
  destruct (p_disj (t0 :: ts') max_depth 0) as [t p | p | |]; simpl in Hd.
  - destruct (eof (t0 :: ts') p).
    + inversion H; subst. exact Hd.
    + destruct (Nat.ltb (List.length (t0 :: ts')) p); discriminate.
  - destruct (Nat.ltb (List.length (t0 :: ts')) p); discriminate.
  - discriminate.
  - discriminate.
Qed.

(* ---- the concrete syntax tree stands for exactly the tokens consumed *)
Definition seg (ts : list bytes) (a b : nat) : list bytes := firstn (b - a) (skipn a ts).

Lemma seg_nil : forall ts a, seg ts a a = [].
Proof. intros ts a. unfold seg. rewrite Nat.sub_diag. reflexivity. Qed.

Lemma firstn_plus : forall (A : Type) a b (l : list A), firstn (a + b) l = firstn a l ++ firstn b (skipn a l).
Proof.
  intros A. induction a as [| a IH]; intros b l; [reflexivity |].
  destruct l as [| x l]; [simpl; rewrite firstn_nil; reflexivity |]. simpl. rewrite IH. reflexivity.
Qed.

Lemma skipn_plus : forall (A : Type) a b (l : list A), skipn b (skipn a l) = skipn (a + b) l.
Proof.
  intros A. induction a as [| a IH]; intros b l; [reflexivity |].
  destruct l as [| x l]; [simpl; rewrite skipn_nil; reflexivity |]. simpl. apply IH.
Qed.

Lemma seg_split : forall ts a b c, a <= b -> b <= c -> seg ts a c = seg ts a b ++ seg ts b c.
Proof.
  intros ts a b c H1 H2. unfold seg.
  replace (c - a) with ((b - a) + (c - b)) by lia.
  rewrite firstn_plus. f_equal. rewrite skipn_plus. replace (a + (b - a)) with b by lia. reflexivity.
Qed.

Lemma seg_one : forall ts a x, nth_error ts a = Some x -> seg ts a (S a) = [x].
Proof.
  intros ts a x H. unfold seg. replace (S a - a) with 1 by lia.
  revert ts H. induction a as [| a IH]; intros [| y ts] H; simpl in *; try discriminate.
  - inversion H; reflexivity.
  - apply IH. exact H.
Qed.

Lemma beq_eq' : forall a b, beq a b = true -> a = b.
Proof. exact beq_eq. Qed.

Lemma accept_true : forall ts pos t, accept ts pos t = Ok true -> nth_error ts pos = Some t.
Proof.
  intros ts pos t H. unfold accept, tok_at in H. destruct (eof ts pos); [discriminate |].
  destruct (nth_error ts pos) as [x |]; [| discriminate]. inversion H as [E].
  apply beq_eq in E. subst. reflexivity.
Qed.

Definition ugood (ts : list bytes) (pos : nat) (r : pres tree) : Prop :=
  match r with POk t p => pos <= p /\ seg ts pos p = unparse t | _ => True end.

Lemma u_oneof : forall ts pos l x p, p_oneof ts pos l = POk x p -> p = S pos /\ nth_error ts pos = Some x.
Proof.
  intros ts pos l x p H. unfold p_oneof, tok_at in H. destruct (eof ts pos); [discriminate |].
  destruct (nth_error ts pos) as [y |]; [| discriminate].
  destruct (existsb (beq y) l); inversion H; subst. tauto.
Qed.

Lemma u_value : forall ts pos x p, p_value ts pos = POk x p -> p = S pos /\ nth_error ts pos = Some x.
Proof.
  intros ts pos x p H. unfold p_value, tok_at in H. destruct (eof ts pos); [discriminate |].
  destruct (nth_error ts pos) as [y |]; inversion H; subst. tauto.
Qed.

Lemma u_cond : forall ts pos, ugood ts pos (p_cond ts pos).
Proof.
  intros ts pos. unfold p_cond.
  destruct (p_oneof ts pos attributes) as [a p1 | | |] eqn:E1; simpl; auto.
  destruct (p_oneof ts p1 comparators) as [c p2 | | |] eqn:E2; simpl; auto.
  destruct (p_value ts p2) as [v p3 | | |] eqn:E3; simpl; auto.
  apply u_oneof in E1. apply u_oneof in E2. apply u_value in E3.
  destruct E1 as [-> N1]. destruct E2 as [-> N2]. destruct E3 as [-> N3].
  split; [lia |].
  rewrite (seg_split ts pos (S pos) (S (S (S pos)))) by lia.
  rewrite (seg_split ts (S pos) (S (S pos)) (S (S (S pos)))) by lia.
  rewrite (seg_one _ _ _ N1), (seg_one _ _ _ N2), (seg_one _ _ _ N3). reflexivity.
Qed.

(* a list of items separated by sep *)
Fixpoint unparse_rest (sep : bytes) (l : list tree) : list bytes :=
  match l with [] => [] | t :: r => sep :: unparse t ++ unparse_rest sep r end.

Definition ugoodl (ts : list bytes) (sep : bytes) (pos : nat) (r : pres (list tree)) : Prop :=
  match r with POk l p => pos <= p /\ seg ts pos p = unparse_rest sep l | _ => True end.

Lemma u_loop : forall ts item sep, (forall p, ugood ts p (item p)) ->
  forall n pos, ugoodl ts sep pos (p_loop ts item sep n pos).
Proof.
  intros ts item sep Hitem. induction n as [| n IH]; intros pos; simpl.
  - destruct (accept ts pos sep) as [[|] | |]; simpl; auto. split; [lia | apply seg_nil].
  - destruct (accept ts pos sep) as [[|] | |] eqn:Ea; simpl; auto; [| split; [lia | apply seg_nil]].
    apply accept_true in Ea.
    pose proof (Hitem (S pos)) as H1. destruct (item (S pos)) as [t p1 | p | |]; simpl in *; auto.
    pose proof (IH p1) as H2. destruct (p_loop ts item sep n p1) as [l p2 | p | |]; simpl in *; auto.
    destruct H1 as [L1 S1]. destruct H2 as [L2 S2]. split; [lia |].
    rewrite (seg_split ts pos (S pos) p2) by lia. rewrite (seg_split ts (S pos) p1 p2) by lia.
    rewrite (seg_one _ _ _ Ea), S1, S2. reflexivity.
Qed.

Lemma unparse_list_to_tree : forall and t l,
  unparse (list_to_tree and t l) = unparse t ++ unparse_rest (B (if and then "&" else "|")) l.
Proof.
  intros and. intros t l. revert t. induction l as [| x l IH]; intros t; simpl; [rewrite app_nil_r; reflexivity |].
  destruct and; simpl; rewrite IH; reflexivity.
Qed.

Lemma u_list : forall ts item (and : bool), (forall p, ugood ts p (item p)) ->
  forall p, ugood ts p (p_list ts item (B (if and then "&" else "|")) and p).
Proof.
  intros ts item and Hitem pos. unfold p_list.
  pose proof (Hitem pos) as H1. destruct (item pos) as [t p1 | p | |]; simpl in *; auto.
  pose proof (u_loop ts item (B (if and then "&" else "|")) Hitem (List.length ts) p1) as H2.
  destruct (p_loop ts item (B (if and then "&" else "|")) (List.length ts) p1) as [l p2 | p | |]; simpl in *; auto.
  destruct H1 as [L1 S1]. destruct H2 as [L2 S2]. split; [lia |].
  rewrite (seg_split ts pos p1 p2) by lia. rewrite S1, S2. symmetry. apply unparse_list_to_tree.
Qed.

Definition uinner (ts : list bytes) (inner : option (nat -> pres tree)) : Prop :=
  match inner with None => True | Some f => forall p, ugood ts p (f p) end.

Lemma u_prim : forall ts inner, uinner ts inner -> forall p, ugood ts p (p_prim ts inner p).
Proof.
  intros ts inner Hin pos. unfold p_prim.
  destruct (accept ts pos (B "(")) as [[|] | |] eqn:Ea; simpl; auto; [| apply u_cond].
  destruct inner as [f |]; simpl; auto.
  pose proof (Hin (S pos)) as H1. destruct (f (S pos)) as [t p1 | | |]; simpl in *; auto.
  destruct (accept ts p1 _) as [[|] | |] eqn:Eb; simpl; auto.
  apply accept_true in Ea. apply accept_true in Eb. destruct H1 as [L1 S1]. split; [lia |].
  rewrite (seg_split ts pos (S pos) (S p1)) by lia. rewrite (seg_split ts (S pos) p1 (S p1)) by lia.
  rewrite (seg_one _ _ _ Ea), (seg_one _ _ _ Eb), S1. reflexivity.
Qed.

Lemma u_neg : forall ts inner, uinner ts inner -> forall p, ugood ts p (p_neg ts inner p).
Proof.
  intros ts inner Hin pos. unfold p_neg.
  destruct (accept ts pos (B "!")) as [[|] | |] eqn:Ea; simpl; auto; [| apply u_prim; exact Hin].
  pose proof (u_prim ts inner Hin (S pos)) as H1.
  destruct (p_prim ts inner (S pos)) as [t p1 | | |]; simpl in *; auto.
  apply accept_true in Ea. destruct H1 as [L1 S1]. split; [lia |].
  rewrite (seg_split ts pos (S pos) p1) by lia. rewrite (seg_one _ _ _ Ea), S1. reflexivity.
Qed.

Lemma u_disj : forall ts d p, ugood ts p (p_disj ts d p).
Proof.
  intros ts. induction d as [| d IH]; intros pos; simpl p_disj.
  - apply (u_list ts _ false). apply (u_list ts _ true). apply u_neg. exact I.
  - apply (u_list ts _ false). apply (u_list ts _ true). apply u_neg. exact IH.
Qed.

Lemma unparse_sound : forall ts c, parse_cst ts = Accepted c -> unparse c = ts.
Proof.
  intros ts c H. unfold parse_cst in H. destruct ts as [| t0 ts']; [discriminate |].
  set (ts := t0 :: ts') in *.
  pose proof (u_disj ts max_depth 0) as Hu. pose proof (good_disj ts max_depth 0 (Nat.le_0_l _)) as Hg.
  destruct (p_disj ts max_depth 0) as [t p | p | |]; unfold good in Hg; simpl in Hu.
  - destruct (eof ts p) eqn:Ee.
    + inversion H; subst. destruct Hu as [_ Hs]. rewrite <- Hs.
      unfold eof in Ee. apply Nat.leb_le in Ee. assert (p = List.length ts) by lia. subst p.
      unfold seg. rewrite Nat.sub_0_r. simpl skipn. apply firstn_all.
    + destruct (Nat.ltb (List.length ts) p); discriminate.
  - destruct (Nat.ltb (List.length ts) p); discriminate.
  - discriminate.
  - discriminate.
Qed.

(* nesting of the token list itself: the deepest point of the parenthesis count, counted over the
   tokens a concrete syntax tree stands for *)
Lemma depth_bound_tokens : forall ts c, parse_cst ts = Accepted c ->
  unparse c = ts /\ par_depth c <= 512 /\ parse ts = Accepted (strip c).
Proof.
  intros ts c H. split; [apply unparse_sound; exact H |]. split; [apply (depth_bound ts c H) |].
  unfold parse. rewrite H. reflexivity.
Qed.
