(* C15 proofs, part 1: machine arithmetic, map merging, pairwise commutation of the aggregation step. *)
From stdpp Require Import gmap strings sorting.
From Coq Require Import ZArith Lia.
From GoProbe.C15 Require Import Model.
Local Open Scope Z_scope.

(* ---------------------------------------------------------------- arithmetic *)
Lemma M64_pos : 0 < M64. Proof. reflexivity. Qed.

Lemma add64_comm a b : add64 a b = add64 b a.
Proof. unfold add64. by rewrite Z.add_comm. Qed.

Lemma add64_swap a b c : add64 (add64 a b) c = add64 (add64 a c) b.
Proof.
  unfold add64. rewrite !Zplus_mod_idemp_l. f_equal. lia.
Qed.

Lemma add64_mod_l a b : add64 (a mod M64) b = (a + b) mod M64.
Proof. unfold add64. by rewrite Zplus_mod_idemp_l. Qed.

Lemma cadd_comm a b : cadd a b = cadd b a.
Proof. unfold cadd. f_equal; apply add64_comm. Qed.

Lemma cadd_swap a b c : cadd (cadd a b) c = cadd (cadd a c) b.
Proof. unfold cadd; simpl. f_equal; apply add64_swap. Qed.

Lemma sadd_swap a b c : sadd (sadd a b) c = sadd (sadd a c) b.
Proof. unfold sadd; simpl. f_equal; apply add64_swap. Qed.

Lemma wrap_int_add_r a b : wrap_int (a + wrap_int b) = wrap_int (a + b).
Proof.
  unfold wrap_int. f_equal.
  replace (a + ((b + H63) mod M64 - H63) + H63) with (a + (b + H63) mod M64) by lia.
  rewrite Zplus_mod_idemp_r. f_equal. lia.
Qed.

Lemma wrap_int_add_l a b : wrap_int (wrap_int a + b) = wrap_int (a + b).
Proof. rewrite (Z.add_comm (wrap_int a)), wrap_int_add_r. f_equal. lia. Qed.

Lemma wrap_int_add_sub a b c : wrap_int (wrap_int a + b - c) = wrap_int (a + b - c).
Proof.
  replace (wrap_int a + b - c) with (wrap_int a + (b - c)) by lia.
  rewrite wrap_int_add_l. f_equal. lia.
Qed.

(* the "earliest non-zero First" / "latest Last" updates *)
Definition upd_first (a x : Z) : Z :=
  if negb (x =? ZERO_T) && ((a =? ZERO_T) || (x <? a)) then x else a.
Definition upd_last (a x : Z) : Z := if a <? x then x else a.

Lemma upd_first_spec a x :
  upd_first a x = if decide (x ≠ ZERO_T ∧ (a = ZERO_T ∨ x < a)) then x else a.
Proof.
  unfold upd_first.
  destruct (Z.eqb_spec x ZERO_T), (Z.eqb_spec a ZERO_T), (Z.ltb_spec x a); simpl; case_decide; lia.
Qed.
Lemma upd_first_swap a x y : upd_first (upd_first a x) y = upd_first (upd_first a y) x.
Proof. rewrite !upd_first_spec. repeat case_decide; lia. Qed.
Lemma upd_last_spec a x : upd_last a x = Z.max a x.
Proof. unfold upd_last. destruct (Z.ltb_spec a x); lia. Qed.
Lemma upd_last_swap a x y : upd_last (upd_last a x) y = upd_last (upd_last a y) x.
Proof. rewrite !upd_last_spec. lia. Qed.

(* ---------------------------------------------------------------- generic fold commutation *)
Section fold_comm.
  Context {A B : Type} (f : A → B → A).

  Lemma fold_left_comm_one (x : B) (l : list B) (a : A) :
    (∀ y a', y ∈ l → f (f a' x) y = f (f a' y) x) →
    fold_left f l (f a x) = f (fold_left f l a) x.
  Proof.
    revert a. induction l as [|y l IH]; intros a H; simpl; [done|].
    rewrite H by left. apply IH. intros z a' Hz. apply H. by right.
  Qed.

  Lemma fold_left_comm_fold (l1 l2 : list B) (a : A) :
    (∀ x y a', x ∈ l1 → y ∈ l2 → f (f a' x) y = f (f a' y) x) →
    fold_left f l2 (fold_left f l1 a) = fold_left f l1 (fold_left f l2 a).
  Proof.
    revert a. induction l1 as [|x l1 IH]; intros a H; simpl; [done|].
    rewrite IH by (intros; apply H; [by right|done]).
    f_equal. apply fold_left_comm_one. intros y a' Hy. apply H; [by left|done].
  Qed.
End fold_comm.

(* ---------------------------------------------------------------- RowsMap.MergeRow(s) *)
Lemma ins_row_comm m r1 r2 : ins_row (ins_row m r1) r2 = ins_row (ins_row m r2) r1.
Proof.
  destruct r1 as [k1 c1], r2 as [k2 c2]. unfold ins_row; simpl.
  destruct (decide (k1 = k2)) as [->|Hne].
  - rewrite !lookup_insert, !insert_insert. f_equal.
    destruct (m !! k2); [apply cadd_swap|apply cadd_comm].
  - rewrite !lookup_insert_ne by done. by apply insert_commute.
Qed.

Lemma merge_map_comm m l1 l2 : merge_map (merge_map m l1) l2 = merge_map (merge_map m l2) l1.
Proof. unfold merge_map. apply fold_left_comm_fold. intros. apply ins_row_comm. Qed.

Lemma merge_map_cons m r l : merge_map m (r :: l) = merge_map (ins_row m r) l.
Proof. done. Qed.

Lemma merge_map_app m l1 l2 : merge_map m (l1 ++ l2) = merge_map (merge_map m l1) l2.
Proof. unfold merge_map. apply fold_left_app. Qed.

(* rows that were merged + size of the map = rows seen + previous size *)
Lemma merged_count_size m l :
  Z.of_nat (size (merge_map m l)) + merged_count m l = Z.of_nat (size m) + zlen l.
Proof.
  revert m. induction l as [|r l IH]; intros m; unfold zlen in *; simpl length.
  - simpl. lia.
  - rewrite merge_map_cons. cbn [merged_count]. specialize (IH (ins_row m r)).
    assert (size (ins_row m r) = (match m !! r.1 with Some _ => id | None => S end) (size m)) as E
      by apply map_size_insert.
    rewrite E in IH. destruct (m !! r.1); simpl in IH; lia.
Qed.

Lemma merged_count_nonneg m l : 0 ≤ merged_count m l.
Proof.
  revert m. induction l as [|r l IH]; intros m; simpl; [lia|].
  specialize (IH (ins_row m r)). destruct (m !! r.1); lia.
Qed.

(* ---------------------------------------------------------------- maps.Copy *)
Lemma copy_statuses_insert m l h v :
  h ∉ l.*1 → copy_statuses (<[h := v]> m) l = <[h := v]> (copy_statuses m l).
Proof.
  intros Hh. unfold copy_statuses.
  apply (fold_left_comm_one (λ m kv, <[kv.1 := kv.2]> m) (h, v)).
  intros [k w] a' Hk; simpl. apply insert_commute. intros E. apply Hh.
  apply elem_of_list_fmap. exists (k, w). split; [simpl; congruence|done].
Qed.

Lemma copy_statuses_comm m l1 l2 :
  (∀ k, k ∈ l1.*1 → k ∈ l2.*1 → False) →
  copy_statuses (copy_statuses m l1) l2 = copy_statuses (copy_statuses m l2) l1.
Proof.
  intros Hd. unfold copy_statuses. apply fold_left_comm_fold.
  intros [k1 v1] [k2 v2] a' H1 H2; simpl. apply insert_commute. intros E.
  apply (Hd k2); apply elem_of_list_fmap;
    [exists (k1, v1); split; [simpl; congruence|done]|exists (k2, v2); split; [done|done]].
Qed.

(* ---------------------------------------------------------------- the hypotheses on the replies *)
(* the keys a reply writes into HostsStatuses *)
Definition status_keys (r : host_result) : list string :=
  match hr_err r with Some _ => [hr_host r] | None => (hr_statuses r).*1 end.
(* every host is reported by one reply only (each queried host answers once, under its own name) *)
Definition hosts_distinct (rs : list host_result) : Prop := NoDup (rs ≫= status_keys).
(* the hosts echo the query they were sent: all successful replies carry the same Query *)
Definition same_query (q : query) (rs : list host_result) : Prop :=
  Forall (λ r, hr_err r = None → hr_query r = q) rs.

Definition compat (x y : host_result) : Prop :=
  (∀ k, k ∈ status_keys x → k ∈ status_keys y → False) ∧
  (hr_err x = None → hr_err y = None → hr_query x = hr_query y).

(* ---------------------------------------------------------------- pairwise commutation *)
Lemma agg_step_core_eq_ok s r :
  hr_err r = None →
  agg_step_core s r =
    Agg (merge_map (a_rows s) (hr_rows r)) (copy_statuses (a_statuses s) (hr_statuses r))
        (a_ifaces s ∪ list_to_set (hr_ifaces r)) (hr_query r)
        (upd_first (a_first s) (hr_first r)) (upd_last (a_last s) (hr_last r))
        (cadd (a_totals s) (hr_totals r))
        (match hr_stats r with Some x => sadd (a_stats s) x | None => a_stats s end)
        (wrap_int (a_hits s + hr_hits r - merged_count (a_rows s) (hr_rows r))).
Proof.
  intros He. unfold agg_step_core. rewrite He. f_equal.
  rewrite wrap_int_add_r. f_equal. lia.
Qed.

Lemma agg_step_core_eq_err s r e :
  hr_err r = Some e →
  agg_step_core s r =
    Agg (a_rows s) (<[ hr_host r := ("error"%string, err_message e) ]> (a_statuses s)) (a_ifaces s) (a_query s)
        (a_first s) (a_last s) (a_totals s) (a_stats s) (a_hits s).
Proof. intros He. unfold agg_step_core. by rewrite He. Qed.

Lemma agg_step_core_comm s x y :
  compat x y → agg_step_core (agg_step_core s x) y = agg_step_core (agg_step_core s y) x.
Proof.
  intros [Hk Hq]. unfold status_keys in Hk.
  destruct (hr_err x) as [ex|] eqn:Hx, (hr_err y) as [ey|] eqn:Hy.
  - rewrite !(agg_step_core_eq_err _ x _ Hx), !(agg_step_core_eq_err _ y _ Hy). simpl. f_equal.
    apply insert_commute. intros E. apply (Hk (hr_host x)); [by left|rewrite E; by left].
  - rewrite !(agg_step_core_eq_err _ x _ Hx), !(agg_step_core_eq_ok _ y Hy). simpl. f_equal.
    apply copy_statuses_insert. intros Hin. apply (Hk (hr_host x)); [by left|done].
  - rewrite !(agg_step_core_eq_err _ y _ Hy), !(agg_step_core_eq_ok _ x Hx). simpl. f_equal.
    symmetry. apply copy_statuses_insert. intros Hin. apply (Hk (hr_host y)); [done|by left].
  - rewrite !agg_step_core_eq_ok by done. simpl. f_equal.
    + apply merge_map_comm.
    + by apply copy_statuses_comm.
    + set_solver.
    + symmetry. by apply Hq.
    + apply upd_first_swap.
    + apply upd_last_swap.
    + apply cadd_swap.
    + destruct (hr_stats x), (hr_stats y); try done. apply sadd_swap.
    + rewrite !wrap_int_add_sub. f_equal.
      pose proof (merged_count_size (a_rows s) (hr_rows x)) as E1.
      pose proof (merged_count_size (merge_map (a_rows s) (hr_rows x)) (hr_rows y)) as E2.
      pose proof (merged_count_size (a_rows s) (hr_rows y)) as E3.
      pose proof (merged_count_size (merge_map (a_rows s) (hr_rows y)) (hr_rows x)) as E4.
      rewrite (merge_map_comm (a_rows s) (hr_rows y) (hr_rows x)) in E4. lia.
Qed.

(* ---------------------------------------------------------------- lifting to permutations *)
Lemma hosts_distinct_cons x l : hosts_distinct (x :: l) →
  hosts_distinct l ∧ ∀ y, y ∈ l → ∀ k, k ∈ status_keys x → k ∈ status_keys y → False.
Proof.
  unfold hosts_distinct. rewrite bind_cons. intros H. apply NoDup_app in H as (_ & Hd & Hl).
  split; [done|]. intros y Hy k Hkx Hky. apply (Hd k Hkx).
  apply elem_of_list_bind. by exists y.
Qed.

Lemma hosts_distinct_perm l l' : l ≡ₚ l' → hosts_distinct l → hosts_distinct l'.
Proof. unfold hosts_distinct. by intros ->. Qed.

Lemma same_query_perm q l l' : l ≡ₚ l' → same_query q l → same_query q l'.
Proof. unfold same_query. by intros ->. Qed.

Lemma fold_agg_core_perm q rs rs' s :
  rs ≡ₚ rs' → hosts_distinct rs → same_query q rs →
  fold_left agg_step_core rs s = fold_left agg_step_core rs' s.
Proof.
  intros Hp. revert s. induction Hp as [|x l l' Hp IH|x y l|l l' l'' Hp1 IH1 Hp2 IH2]; intros s Hd Hq.
  - done.
  - simpl. apply IH; [by apply hosts_distinct_cons in Hd as [? _]|by inversion Hq].
  - simpl. f_equal. apply agg_step_core_comm.
    apply hosts_distinct_cons in Hd as [_ Hd]. inversion Hq as [|?? Qy Hq']; subst.
    inversion Hq' as [|?? Qx _]; subst. split.
    + intros k Hk1 Hk2. apply (Hd x ltac:(left) k Hk1 Hk2).
    + intros E1 E2. by rewrite Qy, Qx.
  - rewrite IH1 by done. apply IH2; [by eapply hosts_distinct_perm|by eapply same_query_perm].
Qed.

Lemma fold_agg_step_split rs s :
  fold_left agg_step rs s = (fold_left agg_step_core rs s.1, s.2).
Proof.
  revert s. induction rs as [|r rs IH]; intros [a o]; simpl; [done|].
  rewrite IH. done.
Qed.
