(* C15 correspondence: case type, corr (model = observed) and holds (observed meets the union/sum
   specification and is the same for every delivery order).  Executable only. *)
From stdpp Require Import gmap strings.
From Coq Require Import ZArith.
From GoProbe.C15 Require Import Model.
Local Open Scope Z_scope.

Global Instance counters_eq_dec : EqDecision counters. Proof. solve_decision. Defined.
Global Instance stats_eq_dec : EqDecision stats. Proof. solve_decision. Defined.

(* observable projection of the *results.Result returned by Run / RunStreaming *)
Record obs := Obs {
  ob_rows : list row;                       (* in result order *)
  ob_statuses : list (string * status);     (* HostsStatuses, sorted by host *)
  ob_ifaces : list string;                  (* Summary.Interfaces (End() sorts them) *)
  ob_query : query;
  ob_first : Z; ob_last : Z;                (* as instants *)
  ob_totals : counters;
  ob_stats : stats;
  ob_hits : Z; ob_displayed : Z;
  ob_status : status }.
Global Instance obs_eq_dec : EqDecision obs. Proof. solve_decision. Defined.

(* ---------------------------------------------------------------- canonical orders *)
Definition cmp_then (c d : comparison) : comparison := match c with Eq => d | _ => c end.
Definition key_cmp (a b : key) : comparison :=
  let '(i1, z1, f1, h1, d1, s1, t1, p1, q1) := a in let '(i2, z2, f2, h2, d2, s2, t2, p2, q2) := b in
  cmp_then (i1 ?= i2) (cmp_then (z1 ?= z2) (cmp_then (String.compare f1 f2) (cmp_then (String.compare h1 h2)
  (cmp_then (String.compare d1 d2) (cmp_then (s1 ?= s2) (cmp_then (t1 ?= t2) (cmp_then (p1 ?= p2) (q1 ?= q2)))))))).
Definition is_lt (c : comparison) : bool := match c with Lt => true | _ => false end.

Fixpoint insert_gen {A} (lt : A -> A -> bool) (x : A) (l : list A) : list A :=
  match l with [] => [x] | y :: t => if lt x y then x :: y :: t else y :: insert_gen lt x t end.
Definition sort_gen {A} (lt : A -> A -> bool) (l : list A) : list A := foldr (insert_gen lt) [] l.

Definition canon_rows (l : list row) : list row := sort_gen (fun a b => is_lt (key_cmp a.1 b.1)) l.
Definition sort_statuses (l : list (string * status)) := sort_gen (fun a b => str_ltb a.1 b.1) l.
Definition sort_strings (l : list string) := sort_gen str_ltb l.

(* [tied]: two distinct keys of the case are not ordered by Row.Less: the same instant in two different
   *time.Location's with otherwise identical labels and attributes (distinct map keys, equal for the
   comparator).  The order of such rows in the Go result depends on the map iteration order, so rows are
   then compared as a set (and the generator never lets the limit cut them). *)
Definition norm (tied : bool) (o : obs) : obs :=
  Obs (if tied then canon_rows (ob_rows o) else ob_rows o) (ob_statuses o) (ob_ifaces o) (ob_query o)
      (ob_first o) (ob_last o) (ob_totals o) (ob_stats o) (ob_hits o) (ob_displayed o) (ob_status o).

Definition obs_of (s : acc) : obs :=
  Obs (o_rows s.2) (sort_statuses (map_to_list (a_statuses s.1))) (sort_strings (elements (a_ifaces s.1)))
      (a_query s.1) (a_first s.1) (a_last s.1) (a_totals s.1) (a_stats s.1) (a_hits s.1)
      (o_displayed s.2) (o_status s.2).

(* ---------------------------------------------------------------- the specification (union / sums) *)
Definition zsum (l : list Z) : Z := foldr Z.add 0 l.
Definition csum (l : list counters) : counters :=
  C (zsum (c_br <$> l) mod M64) (zsum (c_bs <$> l) mod M64) (zsum (c_pr <$> l) mod M64) (zsum (c_ps <$> l) mod M64).
Definition ssum (l : list stats) : stats :=
  St (zsum (s_loaded <$> l) mod M64) (zsum (s_decomp <$> l) mod M64) (zsum (s_blocks <$> l) mod M64)
     (zsum (s_corrupt <$> l) mod M64) (zsum (s_dirs <$> l) mod M64) (zsum (s_workloads <$> l) mod M64).

Definition oks (rs : list host_result) : list host_result := filter (fun r => hr_err r = None) rs.
Definition all_rows (rs : list host_result) : list row := oks rs ≫= hr_rows.
Definition key_counters (k : key) (l : list row) : list counters := snd <$> filter (fun r => r.1 = k) l.
(* rows = union of the hosts' rows, counters of equal keys summed *)
Definition union_rows (l : list row) : list row :=
  (fun k => (k, csum (key_counters k l))) <$> remove_dups (l.*1).

Definition spec_statuses (rs : list host_result) : list (string * status) :=
  rs ≫= (fun r => match hr_err r with
                  | Some e => [(hr_host r, ("error"%string, err_message e))]
                  | None => hr_statuses r end).

Definition spec_first (rs : list host_result) : Z :=
  match filter (fun f => f ≠ ZERO_T) (hr_first <$> oks rs) with
  | [] => ZERO_T
  | f :: t => foldr Z.min f t
  end.
Definition spec_last (rs : list host_result) : Z := foldr Z.max ZERO_T (hr_last <$> oks rs).

(* time binning (statements with the time label and a resolution above 5m): the rows are re-grouped by
   (bin end, labels, attributes) with summed counters, sorted by time, and the hit count is their number *)
Definition spec_binned (st : stmt) (u : list row) : option (list row) :=
  if (st_bin st =? 0) || (zlen u =? 0) then None
  else Some (sort_rows (row_less ST_TIME) (union_rows ((fun r : row => (bin_key (st_bin st) r.1, r.2)) <$> u))).

Definition spec_obs (st : stmt) (rs : list host_result) : obs :=
  let u := union_rows (all_rows rs) in
  let sorted := match spec_binned st u with Some b => b | None => sort_rows (row_less st) u end in
  let rows := if st_num st <? zlen sorted then ztake (st_num st) sorted else sorted in
  Obs rows
      (sort_statuses (spec_statuses rs))
      (sort_strings (remove_dups (oks rs ≫= hr_ifaces)))
      (match oks rs with r :: _ => hr_query r | [] => ([], ""%string) end)
      (spec_first rs) (spec_last rs)
      (csum (hr_totals <$> oks rs))
      (ssum (omap hr_stats (oks rs)))
      (match spec_binned st u with
       | Some b => zlen b
       (* hit count: every row that was merged into an existing one is deducted *)
       | None => wrap_int (zsum (hr_hits <$> oks rs) - (zlen (all_rows rs) - zlen u)) end)
      (zlen rows)
      (if zlen rows =? 0 then ST_MISSING else ST_OK).

(* ---------------------------------------------------------------- cases *)
(* one distinct observed outcome and one delivery order that produced it *)
Record variant := V {
  v_order : list Z;                      (* indices into the host list, in delivery order *)
  v_batch : obs;                         (* QueryRunner.Run *)
  v_stream : option obs;                 (* QueryRunner.RunStreaming, returned result; None: same as v_batch *)
  v_partials : list (Z * Z * string) }.  (* per partial result sent: displayed, hits.total, status code *)

Record case := Case {
  c_st : stmt;
  c_tied : bool;
  c_rs : list host_result;
  c_norders : Z;                         (* number of delivery orders that were run *)
  c_variants : list variant }.           (* the distinct outcomes among them (at most 3 are listed) *)

Definition stream_of (v : variant) : obs := default (v_batch v) (v_stream v).

Definition permute (order : list Z) (rs : list host_result) : list host_result :=
  omap (fun i => rs !! Z.to_nat i) order.

Definition partial_obs (s : acc) : Z * Z * string := (o_displayed s.2, a_hits s.1, (o_status s.2).1).

(* does the model still describe the code?  (model run in the delivered order = observed outcome) *)
Definition corr (c : case) : bool :=
  negb (bool_decide (c_variants c = [])) &&
  forallb (fun v =>
    let rs := permute (v_order v) (c_rs c) in
    bool_decide (length rs = length (c_rs c)) &&
    bool_decide (norm (c_tied c) (obs_of (run_batch (c_st c) rs)) = norm (c_tied c) (v_batch v)) &&
    bool_decide (norm (c_tied c) (obs_of (run_stream (c_st c) rs)) = norm (c_tied c) (stream_of v)) &&
    bool_decide (partial_obs <$> partials (c_st c) acc0 rs = v_partials v))
  (c_variants c).

(* does the observed behaviour satisfy the property?  One outcome for all delivery orders, streaming =
   batch, and the outcome is the union/sum specification computed from the input alone. *)
Definition holds (c : case) : bool :=
  match c_variants c with
  | [v] =>
    bool_decide (norm (c_tied c) (v_batch v) = norm (c_tied c) (stream_of v)) &&
    bool_decide (norm (c_tied c) (v_batch v) = norm (c_tied c) (spec_obs (c_st c) (c_rs c)))
  | _ => false
  end.
