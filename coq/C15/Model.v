(* C15 model: aggregation of per-host results of a distributed query.
   Anchors: cmd/global-query/pkg/distributed/query.go (aggregateResults, aggregateSingleResult,
   finalizeResult), pkg/results/result.go (RowsMap.MergeRows/MergeRow, Result.End, HostsStatuses.SetErr),
   pkg/types/workload/stats.go (Stats.Add), pkg/types/keyval.go (Counters.Add), pkg/results/sort.go (By).
   Executable definitions only.  Go maps are modelled by std++ [gmap]/[gset] (canonical, extensional:
   two maps with the same bindings are equal), which is exactly what is observable of a Go map once its
   iteration order is sorted away. *)
From stdpp Require Import gmap strings.
From Coq Require Import ZArith.
Local Open Scope Z_scope.

(* ---------------------------------------------------------------- machine integers *)
Definition M64 : Z := 18446744073709551616.           (* 2^64 *)
Definition H63 : Z := 9223372036854775808.            (* 2^63 *)
Definition add64 (a b : Z) : Z := (a + b) mod M64.    (* uint64 + *)
Definition wrap_int (x : Z) : Z := (x + H63) mod M64 - H63.   (* Go int (64 bit) wrap-around *)

(* types.Counters, Add *)
Record counters := C { c_br : Z; c_bs : Z; c_pr : Z; c_ps : Z }.
Definition cadd (a b : counters) : counters :=
  C (add64 (c_br a) (c_br b)) (add64 (c_bs a) (c_bs b)) (add64 (c_pr a) (c_pr b)) (add64 (c_ps a) (c_ps b)).
Definition c0 : counters := C 0 0 0 0.

(* workload.Stats, Add (after fix e9e24c1: every field is added exactly once) *)
Record stats := St { s_loaded : Z; s_decomp : Z; s_blocks : Z; s_corrupt : Z; s_dirs : Z; s_workloads : Z }.
Definition sadd (a b : stats) : stats :=
  St (add64 (s_loaded a) (s_loaded b)) (add64 (s_decomp a) (s_decomp b)) (add64 (s_blocks a) (s_blocks b))
     (add64 (s_corrupt a) (s_corrupt b)) (add64 (s_dirs a) (s_dirs b)) (add64 (s_workloads a) (s_workloads b)).
Definition s0 : stats := St 0 0 0 0 0 0.

(* ---------------------------------------------------------------- rows
   results.MergeableAttributes{Labels, Attributes} used as a Go map key.  A time.Time inside a map key
   is compared with ==, i.e. instant AND *Location pointer: [k_inst] is the instant (unix seconds),
   [k_zone] the identity of the location (0 = UTC/nil).  netip.Addr is an integer code whose order is
   netip.Addr.Compare (validated by the harness). *)
Definition key : Type := Z * Z * string * string * string * Z * Z * Z * Z.
(*                      inst zone iface   host     hostid   sip dip proto dport *)
Definition row : Type := key * counters.
Definition status : Type := string * string.              (* code, message *)
Definition query : Type := list string * string.          (* attributes, condition *)

Definition ZERO_T : Z := -62135596800.                    (* time.Time{}.Unix() *)

(* one *results.Result received from the Querier *)
Record host_result := HR {
  hr_host : string;
  hr_err : option (string * option string);   (* Some (msg, Some inner): err wraps inner; None: no error *)
  hr_statuses : list (string * status);       (* res.HostsStatuses *)
  hr_rows : list row;
  hr_ifaces : list string;
  hr_query : query;
  hr_first : Z; hr_last : Z;
  hr_totals : counters;
  hr_stats : option stats;                    (* *workload.Stats, may be nil *)
  hr_hits : Z }.

(* RowsMap.MergeRow *)
Definition ins_row (m : gmap key counters) (r : row) : gmap key counters :=
  <[ r.1 := match m !! r.1 with Some old => cadd old r.2 | None => r.2 end ]> m.
(* RowsMap.MergeRows: the map ... *)
Definition merge_map (m : gmap key counters) (l : list row) : gmap key counters := fold_left ins_row l m.
(* ... and the number of rows that hit an existing key *)
Fixpoint merged_count (m : gmap key counters) (l : list row) : Z :=
  match l with
  | [] => 0
  | r :: t => (match m !! r.1 with Some _ => 1 | None => 0 end) + merged_count (ins_row m r) t
  end.

(* the part of finalResult (+ rowMap, ifaceMap) that aggregateSingleResult reads and writes *)
Record agg := Agg {
  a_rows : gmap key counters;
  a_statuses : gmap string status;
  a_ifaces : gset string;          (* ifaceMap; Summary.Interfaces is its key list *)
  a_query : query;
  a_first : Z; a_last : Z;
  a_totals : counters;
  a_stats : stats;
  a_hits : Z }.
(* the part of finalResult that finalizeResult / End write *)
Record out := Out { o_rows : list row; o_displayed : Z; o_status : status }.
Definition acc : Type := agg * out.

Definition ST_OK : status := ("ok", "")%string.
Definition ST_MISSING : status :=
  ("missing data", "no data available for the specified interface(s) / time range (maybe goProbe was not running)")%string.
Definition ST_EMPTY : status := ("empty", "query returned no results")%string.

(* results.New() + Start() *)
Definition agg0 : agg := Agg ∅ ∅ ∅ ([], "")%string ZERO_T ZERO_T c0 s0 0.
Definition out0 : out := Out [] 0 ST_OK.
Definition acc0 : acc := (agg0, out0).

Definition err_message (e : string * option string) : string :=
  match e.2 with Some inner => inner | None => e.1 end.     (* errors.Unwrap, else the error itself *)

Definition copy_statuses (m : gmap string status) (l : list (string * status)) : gmap string status :=
  fold_left (fun m kv => <[ kv.1 := kv.2 ]> m) l m.          (* maps.Copy *)

(* aggregateSingleResult up to (not including) the streaming part *)
Definition agg_step_core (s : agg) (r : host_result) : agg :=
  match hr_err r with
  | Some e =>
    Agg (a_rows s) (<[ hr_host r := ("error"%string, err_message e) ]> (a_statuses s)) (a_ifaces s) (a_query s)
        (a_first s) (a_last s) (a_totals s) (a_stats s) (a_hits s)
  | None =>
    let merged := merged_count (a_rows s) (hr_rows r) in
    Agg (merge_map (a_rows s) (hr_rows r))
        (copy_statuses (a_statuses s) (hr_statuses r))
        (a_ifaces s ∪ list_to_set (hr_ifaces r))
        (hr_query r)
        (* after fix 5af26e7: earliest non-zero First, latest Last *)
        (if negb (hr_first r =? ZERO_T) && ((a_first s =? ZERO_T) || (hr_first r <? a_first s))
         then hr_first r else a_first s)
        (if a_last s <? hr_last r then hr_last r else a_last s)
        (cadd (a_totals s) (hr_totals r))
        (match hr_stats r with Some x => sadd (a_stats s) x | None => a_stats s end)
        (wrap_int (a_hits s + wrap_int (hr_hits r - merged)))
  end.

Definition agg_step (s : acc) (r : host_result) : acc := (agg_step_core s.1 r, s.2).

(* ---------------------------------------------------------------- sorting: results.By *)
Record stmt := Stmt { st_sort : Z;     (* 1 packets, 2 bytes, 3 time *)
                      st_dir : Z;      (* 1 sum, 2 in, 3 out, 4 both *)
                      st_asc : bool;
                      st_num : Z;      (* NumResults, >= 1 after Prepare *)
                      st_bin : Z }.    (* TimeBinSize in seconds if the time label is selected and the size is
                                          not the default 5m (Statement.PostProcess then runs BinTime); else 0 *)

Definition str_ltb (a b : string) : bool := match String.compare a b with Lt => true | _ => false end.

Definition attrs_eqb (a b : key) : bool :=
  let '(_, _, _, _, _, s1, d1, p1, q1) := a in let '(_, _, _, _, _, s2, d2, p2, q2) := b in
  (s1 =? s2) && (d1 =? d2) && (p1 =? p2) && (q1 =? q2).
(* Attributes.Less *)
Definition attrs_less (a b : key) : bool :=
  let '(_, _, _, _, _, s1, d1, p1, q1) := a in let '(_, _, _, _, _, s2, d2, p2, q2) := b in
  if negb (s1 =? s2) then s1 <? s2 else if negb (d1 =? d2) then d1 <? d2
  else if negb (p1 =? p2) then p1 <? p2 else q1 <? q2.
(* Labels.Less (after C14's fixes): instants compared with Equal/Before (the location is ignored), then
   Hostname, then HostID, then Iface *)
Definition labels_less (a b : key) : bool :=
  let '(i1, z1, f1, h1, d1, _, _, _, _) := a in let '(i2, z2, f2, h2, d2, _, _, _, _) := b in
  if negb (i1 =? i2) then i1 <? i2
  else if negb (String.eqb h1 h2) then str_ltb h1 h2
  else if negb (String.eqb d1 d2) then str_ltb d1 d2 else str_ltb f1 f2.
(* Row.Less *)
Definition key_less (a b : key) : bool := if attrs_eqb a b then labels_less a b else attrs_less a b.

Definition metric (st : stmt) (c : counters) : Z :=
  if st_sort st =? 1 then
    (if st_dir st =? 2 then c_pr c else if st_dir st =? 3 then c_ps c else add64 (c_ps c) (c_pr c))
  else (if st_dir st =? 2 then c_br c else if st_dir st =? 3 then c_bs c else add64 (c_bs c) (c_br c)).

(* results.By(stmt.SortBy, stmt.Direction, stmt.SortAscending) *)
Definition row_less (st : stmt) (a b : row) : bool :=
  let tie := if st_asc st then key_less a.1 b.1 else key_less b.1 a.1 in
  if st_sort st =? 3 then
    let i1 := a.1.1.1.1.1.1.1.1.1 in let i2 := b.1.1.1.1.1.1.1.1.1 in
    if i1 =? i2 then tie else if st_asc st then i1 <? i2 else i2 <? i1
  else
    let m1 := metric st a.2 in let m2 := metric st b.2 in
    if m1 =? m2 then tie else if st_asc st then m1 <? m2 else m2 <? m1.

Fixpoint insert_by (lt : row -> row -> bool) (x : row) (l : list row) : list row :=
  match l with
  | [] => [x]
  | y :: t => if lt x y then x :: y :: t else y :: insert_by lt x t
  end.
Definition sort_rows (lt : row -> row -> bool) (l : list row) : list row := foldr (insert_by lt) [] l.

Definition zlen {A} (l : list A) : Z := Z.of_nat (length l).
Definition ztake {A} (n : Z) (l : list A) : list A := take (Z.to_nat n) l.

(* ---------------------------------------------------------------- time binning: TimeBinner.BinTime *)
Definition LOCAL_ZONE : Z := 1.        (* time.Unix(..) carries time.Local: index 1 of the harness location pool *)
(* results.BinTimestamp, Go's truncating % *)
Definition bin_ts (bs ts : Z) : Z :=
  if bs <=? 0 then ts else let r := Z.rem ts bs in if r =? 0 then ts else ts - r + bs.
Definition bin_key (bs : Z) (k : key) : key :=
  let '(i, z, f, h, d, s, t, p, q) := k in
  if i =? ZERO_T then k else (bin_ts bs i, LOCAL_ZONE, f, h, d, s, t, p, q).      (* !Timestamp.IsZero() *)
Definition ST_TIME : stmt := Stmt 3 1 true 0 0.                                 (* By(SortTime, DirectionSum, true) *)
Definition bin_rows (bs : Z) (rows : list row) : list row :=
  sort_rows (row_less ST_TIME) (map_to_list (merge_map ∅ ((fun r : row => (bin_key bs r.1, r.2)) <$> rows))).

Definition sorted_rows (st : stmt) (m : gmap key counters) : list row :=
  sort_rows (row_less st) (map_to_list m).
(* the rows BinTime leaves in res.Rows, if it runs (it then also sets Hits.Total := len(res.Rows)) *)
Definition binned (st : stmt) (m : gmap key counters) : option (list row) :=
  if bool_decide (size m = 0%nat) then None
  else if negb (st_bin st =? 0) && negb (zlen (sorted_rows st m) =? 0)
       then Some (bin_rows (st_bin st) (sorted_rows st m)) else None.

(* finalizeResult(ctx, res, stmt, rowMap, limitUpperBound) followed by the deferred res.End().
   Summary.DataAvailable is never assigned by the aggregation, so End() takes the "missing data" branch. *)
Definition present (st : stmt) (ub : Z) (m : gmap key counters) : list row :=
  let rows := match binned st m with Some b => b | None => sorted_rows st m end in
  let rows := if negb (st_num st =? 0) && (st_num st <? zlen rows) then ztake (st_num st) rows else rows in
  let limit := Z.min (st_num st) ub in
  if limit <? zlen rows then ztake limit rows else rows.

Definition fin_out (st : stmt) (ub : Z) (m : gmap key counters) (o : out) : out :=
  let o1 := Out (o_rows o) (o_displayed o) ST_OK in            (* fix 809d64e: status derived afresh *)
  let o2 :=
    if bool_decide (size m = 0%nat) then o1
    else let rows := present st ub m in Out rows (zlen rows) (o_status o1) in
  (* End() *)
  Out (o_rows o2) (zlen (o_rows o2)) (if negb (zlen (o_rows o2) =? 0) then o_status o2 else ST_MISSING).

(* Summary.Hits.Total after finalizeResult: overwritten by BinTime when it runs *)
Definition fin_hits (st : stmt) (m : gmap key counters) (h : Z) : Z :=
  match binned st m with Some b => zlen b | None => h end.

Definition with_hits (a : agg) (h : Z) : agg :=
  Agg (a_rows a) (a_statuses a) (a_ifaces a) (a_query a) (a_first a) (a_last a) (a_totals a) (a_stats a) h.

Definition finalize (st : stmt) (ub : Z) (s : acc) : acc :=
  (with_hits s.1 (fin_hits st (a_rows s.1) (a_hits s.1)), fin_out st ub (a_rows s.1) s.2).

Definition MAX_STREAM : Z := 100.     (* maxLimitStreaming *)

(* aggregateSingleResult with send != nil: the error branch returns before the partial finalization *)
Definition stream_step (st : stmt) (s : acc) (r : host_result) : acc :=
  match hr_err r with
  | Some _ => agg_step s r
  | None => finalize st MAX_STREAM (agg_step s r)
  end.

(* aggregateResults: Run (send = nil) and RunStreaming; the deferred finalizeResult uses stmt.NumResults *)
Definition aggregate (rs : list host_result) : acc := fold_left agg_step rs acc0.
Definition run_batch (st : stmt) (rs : list host_result) : acc :=
  finalize st (st_num st) (aggregate rs).
Definition run_stream (st : stmt) (rs : list host_result) : acc :=
  finalize st (st_num st) (fold_left (stream_step st) rs acc0).
(* the partial results handed to the SSE sender, oldest first *)
Fixpoint partials (st : stmt) (s : acc) (rs : list host_result) : list acc :=
  match rs with
  | [] => []
  | r :: t => let s' := stream_step st s r in
              match hr_err r with Some _ => partials st s' t | None => s' :: partials st s' t end
  end.

(* ---------------------------------------------------------------- the querier layer (apiclient.Query)
   Every host of the resolved list yields exactly one reply under its own name: the decoded result of a
   configured host that answers, an error reply if its request fails, and also an error reply
   (distributed.NewErrorRunner) if the host has no endpoint configuration. *)
Inductive endpoint := Alive (res : host_result) | Down (msg : string) | Unconfigured.
Definition ERR_UNCONFIGURED : string := "couldn't find endpoint configuration for host".
Definition err_reply (h msg : string) : host_result :=
  HR h (Some (msg, None)) [] [] [] ([], "")%string ZERO_T ZERO_T c0 None 0.
Definition querier_reply (h : string) (e : endpoint) : host_result :=
  match e with Alive res => res | Down msg => err_reply h msg | Unconfigured => err_reply h ERR_UNCONFIGURED end.
Definition querier_replies (l : list (string * endpoint)) : list host_result :=
  (fun he => querier_reply he.1 he.2) <$> l.
