(* C15 proofs, part 3: the aggregate is the union / the sums of the replies (the specification that
   Corr.holds evaluates on every observed result). *)
From stdpp Require Import gmap strings sorting.
From Coq Require Import ZArith Lia.
From GoProbe.C15 Require Import Model Corr Proofs1 Proofs2.
Local Open Scope Z_scope.

(* ---------------------------------------------------------------- lists of replies *)
Lemma oks_cons_ok r rs : hr_err r = None → oks (r :: rs) = r :: oks rs.
Proof. intros H. unfold oks. by rewrite filter_cons_True. Qed.
Lemma oks_cons_err r rs e : hr_err r = Some e → oks (r :: rs) = oks rs.
Proof. intros H. unfold oks. rewrite filter_cons_False; [done|]. by rewrite H. Qed.
Lemma all_rows_cons_ok r rs : hr_err r = None → all_rows (r :: rs) = hr_rows r ++ all_rows rs.
Proof. intros H. unfold all_rows. by rewrite oks_cons_ok. Qed.
Lemma all_rows_cons_err r rs e : hr_err r = Some e → all_rows (r :: rs) = all_rows rs.
Proof. intros H. unfold all_rows. by erewrite oks_cons_err. Qed.

Lemma zlen_app {A} (l1 l2 : list A) : zlen (l1 ++ l2) = zlen l1 + zlen l2.
Proof. unfold zlen. rewrite app_length. lia. Qed.

(* ---------------------------------------------------------------- rows *)
Lemma fold_rows rs s :
  a_rows (fold_left agg_step_core rs s) = merge_map (a_rows s) (all_rows rs).
Proof.
  revert s. induction rs as [|r rs IH]; intros s; [done|]. simpl. rewrite IH.
  destruct (hr_err r) as [e|] eqn:He.
  - rewrite (agg_step_core_eq_err _ _ _ He), (all_rows_cons_err _ _ _ He). done.
  - rewrite (agg_step_core_eq_ok _ _ He), (all_rows_cons_ok _ _ He), merge_map_app. done.
Qed.

(* what successive MergeRow calls leave under one key *)
Definition acc_key (o : option counters) (cs : list counters) : option counters :=
  fold_left (λ o c, Some (match o with Some x => cadd x c | None => c end)) cs o.

Lemma lookup_merge_map m l k : merge_map m l !! k = acc_key (m !! k) (key_counters k l).
Proof.
  revert m. induction l as [|r l IH]; intros m; [done|].
  rewrite merge_map_cons, IH. unfold key_counters. unfold ins_row.
  destruct (decide (r.1 = k)) as [<-|Hne].
  - rewrite filter_cons_True by done. rewrite lookup_insert. done.
  - rewrite filter_cons_False by done. by rewrite lookup_insert_ne.
Qed.

Definition cwf (c : counters) : Prop :=
  (0 ≤ c_br c < M64) ∧ (0 ≤ c_bs c < M64) ∧ (0 ≤ c_pr c < M64) ∧ (0 ≤ c_ps c < M64).

Lemma add64_range a b : 0 ≤ add64 a b < M64.
Proof. unfold add64. apply Z.mod_pos_bound. reflexivity. Qed.

Lemma cadd_wf a b : cwf (cadd a b).
Proof. unfold cwf, cadd; simpl. repeat split; apply add64_range. Qed.

Lemma fold_add64 l a : 0 ≤ a < M64 → fold_left add64 l a = (a + zsum l) mod M64.
Proof.
  revert a. induction l as [|x l IH]; intros a Ha; simpl.
  - rewrite Z.add_0_r. symmetry. by apply Z.mod_small.
  - rewrite IH by apply add64_range. unfold add64. rewrite Zplus_mod_idemp_l. f_equal. lia.
Qed.

Lemma fold_cadd cs a : cwf a →
  fold_left cadd cs a = C ((c_br a + zsum (c_br <$> cs)) mod M64) ((c_bs a + zsum (c_bs <$> cs)) mod M64)
                          ((c_pr a + zsum (c_pr <$> cs)) mod M64) ((c_ps a + zsum (c_ps <$> cs)) mod M64).
Proof.
  revert a. induction cs as [|c cs IH]; intros a (H1 & H2 & H3 & H4); simpl.
  - rewrite !Z.add_0_r, !Z.mod_small by done. by destruct a.
  - rewrite IH by apply cadd_wf. simpl. unfold add64. rewrite !Zplus_mod_idemp_l.
    f_equal; (rewrite <-Z.add_assoc; reflexivity).
Qed.

Lemma acc_key_some a cs : acc_key (Some a) cs = Some (fold_left cadd cs a).
Proof. revert a. induction cs as [|c cs IH]; intros a; simpl; [done|]. apply IH. Qed.

Lemma acc_key_none cs : Forall cwf cs →
  acc_key None cs = match cs with [] => None | _ => Some (csum cs) end.
Proof.
  destruct cs as [|c cs]; [done|]. intros H. inversion H as [|?? Hc _]; subst. simpl.
  rewrite acc_key_some, fold_cadd by done. done.
Qed.

(* ---------------------------------------------------------------- totals, stats *)
Lemma fold_totals rs s :
  a_totals (fold_left agg_step_core rs s) = fold_left cadd (hr_totals <$> oks rs) (a_totals s).
Proof.
  revert s. induction rs as [|r rs IH]; intros s; [done|]. simpl. rewrite IH.
  destruct (hr_err r) as [e|] eqn:He.
  - rewrite (agg_step_core_eq_err _ _ _ He), (oks_cons_err _ _ _ He). done.
  - rewrite (agg_step_core_eq_ok _ _ He), (oks_cons_ok _ _ He). done.
Qed.

Lemma fold_cadd_c0 l : fold_left cadd l c0 = csum l.
Proof. rewrite fold_cadd; [done|]. unfold cwf; simpl. unfold M64. lia. Qed.

Definition swf (s : stats) : Prop :=
  (0 ≤ s_loaded s < M64) ∧ (0 ≤ s_decomp s < M64) ∧ (0 ≤ s_blocks s < M64) ∧
  (0 ≤ s_corrupt s < M64) ∧ (0 ≤ s_dirs s < M64) ∧ (0 ≤ s_workloads s < M64).

Lemma sadd_wf a b : swf (sadd a b).
Proof. unfold swf, sadd; simpl. repeat split; apply add64_range. Qed.

Lemma fold_sadd ss a : swf a →
  fold_left sadd ss a =
    St ((s_loaded a + zsum (s_loaded <$> ss)) mod M64) ((s_decomp a + zsum (s_decomp <$> ss)) mod M64)
       ((s_blocks a + zsum (s_blocks <$> ss)) mod M64) ((s_corrupt a + zsum (s_corrupt <$> ss)) mod M64)
       ((s_dirs a + zsum (s_dirs <$> ss)) mod M64) ((s_workloads a + zsum (s_workloads <$> ss)) mod M64).
Proof.
  revert a. induction ss as [|c ss IH]; intros a (H1 & H2 & H3 & H4 & H5 & H6); simpl.
  - rewrite !Z.add_0_r, !Z.mod_small by done. by destruct a.
  - rewrite IH by apply sadd_wf. simpl. unfold add64. rewrite !Zplus_mod_idemp_l.
    f_equal; (rewrite <-Z.add_assoc; reflexivity).
Qed.

Lemma fold_stats rs s :
  a_stats (fold_left agg_step_core rs s) = fold_left sadd (omap hr_stats (oks rs)) (a_stats s).
Proof.
  revert s. induction rs as [|r rs IH]; intros s; [done|]. simpl. rewrite IH.
  destruct (hr_err r) as [e|] eqn:He.
  - rewrite (agg_step_core_eq_err _ _ _ He), (oks_cons_err _ _ _ He). done.
  - rewrite (agg_step_core_eq_ok _ _ He), (oks_cons_ok _ _ He). simpl.
    destruct (hr_stats r); done.
Qed.

Lemma fold_sadd_s0 l : fold_left sadd l s0 = ssum l.
Proof. rewrite fold_sadd; [done|]. unfold swf; simpl. unfold M64. lia. Qed.

(* ---------------------------------------------------------------- hits *)
Lemma wrap_int_idem x : wrap_int (wrap_int x) = wrap_int x.
Proof. pose proof (wrap_int_add_r 0 x) as H. by rewrite !Z.add_0_l in H. Qed.

Lemma fold_hits_wrapped rs s :
  wrap_int (a_hits s) = a_hits s →
  wrap_int (a_hits (fold_left agg_step_core rs s)) = a_hits (fold_left agg_step_core rs s).
Proof.
  revert s. induction rs as [|r rs IH]; intros s Hs; [done|]. simpl. apply IH.
  destruct (hr_err r) as [e|] eqn:He.
  - by rewrite (agg_step_core_eq_err _ _ _ He).
  - rewrite (agg_step_core_eq_ok _ _ He). simpl. apply wrap_int_idem.
Qed.

Lemma fold_hits rs s :
  wrap_int (a_hits (fold_left agg_step_core rs s)) =
  wrap_int (a_hits s + zsum (hr_hits <$> oks rs)
            - (zlen (all_rows rs)
               - (Z.of_nat (size (a_rows (fold_left agg_step_core rs s))) - Z.of_nat (size (a_rows s))))).
Proof.
  revert s. induction rs as [|r rs IH]; intros s.
  - simpl. f_equal. unfold zlen. simpl. lia.
  - simpl fold_left. rewrite IH. destruct (hr_err r) as [e|] eqn:He.
    + rewrite (agg_step_core_eq_err _ _ _ He), (oks_cons_err _ _ _ He), (all_rows_cons_err _ _ _ He). done.
    + rewrite (oks_cons_ok _ _ He), (all_rows_cons_ok _ _ He), zlen_app.
      set (F := size (a_rows (fold_left agg_step_core rs (agg_step_core s r)))).
      rewrite (agg_step_core_eq_ok _ _ He). simpl.
      pose proof (merged_count_size (a_rows s) (hr_rows r)) as E.
      set (X := a_hits s + hr_hits r - merged_count (a_rows s) (hr_rows r)).
      replace (wrap_int X + zsum (hr_hits <$> oks rs) -
               (zlen (all_rows rs) - (Z.of_nat F - Z.of_nat (size (merge_map (a_rows s) (hr_rows r))))))
        with (wrap_int X + (zsum (hr_hits <$> oks rs) -
               (zlen (all_rows rs) - (Z.of_nat F - Z.of_nat (size (merge_map (a_rows s) (hr_rows r)))))))
        by lia.
      rewrite wrap_int_add_l. f_equal. unfold X.
      change (list_fmap host_result Z hr_hits (oks rs)) with (hr_hits <$> oks rs). lia.
Qed.

(* ---------------------------------------------------------------- hosts statuses *)
Definition sts_of (r : host_result) : list (string * status) :=
  match hr_err r with
  | Some e => [(hr_host r, ("error"%string, err_message e))]
  | None => hr_statuses r
  end.

Lemma copy_statuses_app m l1 l2 : copy_statuses m (l1 ++ l2) = copy_statuses (copy_statuses m l1) l2.
Proof. unfold copy_statuses. apply fold_left_app. Qed.

Lemma fold_statuses rs s :
  a_statuses (fold_left agg_step_core rs s) = copy_statuses (a_statuses s) (rs ≫= sts_of).
Proof.
  revert s. induction rs as [|r rs IH]; intros s; [done|]. simpl fold_left. rewrite IH.
  rewrite bind_cons, copy_statuses_app. f_equal. unfold sts_of.
  destruct (hr_err r) as [e|] eqn:He.
  - by rewrite (agg_step_core_eq_err _ _ _ He).
  - by rewrite (agg_step_core_eq_ok _ _ He).
Qed.

Lemma sts_of_keys rs : (rs ≫= sts_of).*1 = rs ≫= status_keys.
Proof.
  induction rs as [|r rs IH]; [done|]. rewrite !bind_cons, fmap_app, IH. f_equal.
  unfold sts_of, status_keys. by destruct (hr_err r).
Qed.

Lemma copy_lookup_notin m l k : k ∉ l.*1 → copy_statuses m l !! k = m !! k.
Proof.
  revert m. induction l as [|[k' v'] l IH]; intros m Hk; [done|].
  change (copy_statuses m ((k', v') :: l)) with (copy_statuses (<[k' := v']> m) l).
  rewrite fmap_cons, not_elem_of_cons in Hk. destruct Hk as [Hne Hk].
  rewrite IH by done. by rewrite lookup_insert_ne.
Qed.

Lemma copy_lookup_in m l k v : NoDup l.*1 → (k, v) ∈ l → copy_statuses m l !! k = Some v.
Proof.
  revert m. induction l as [|[k' v'] l IH]; intros m Hnd Hin; [by apply elem_of_nil in Hin|].
  change (copy_statuses m ((k', v') :: l)) with (copy_statuses (<[k' := v']> m) l).
  rewrite fmap_cons in Hnd. apply NoDup_cons in Hnd as [Hk' Hnd].
  apply elem_of_cons in Hin as [E|Hin].
  - inversion E; subst. rewrite copy_lookup_notin by done. by rewrite lookup_insert.
  - by apply IH.
Qed.

(* ---------------------------------------------------------------- interfaces, first, last *)
Lemma fold_ifaces rs s :
  a_ifaces (fold_left agg_step_core rs s) = a_ifaces s ∪ list_to_set (oks rs ≫= hr_ifaces).
Proof.
  revert s. induction rs as [|r rs IH]; intros s.
  - simpl. set_solver.
  - simpl fold_left. rewrite IH. destruct (hr_err r) as [e|] eqn:He.
    + by rewrite (agg_step_core_eq_err _ _ _ He), (oks_cons_err _ _ _ He).
    + rewrite (agg_step_core_eq_ok _ _ He), (oks_cons_ok _ _ He). cbn [a_ifaces].
      rewrite bind_cons, list_to_set_app_L. set_solver.
Qed.

Lemma fold_first rs s :
  a_first (fold_left agg_step_core rs s) = fold_left upd_first (hr_first <$> oks rs) (a_first s).
Proof.
  revert s. induction rs as [|r rs IH]; intros s; [done|]. simpl fold_left. rewrite IH.
  destruct (hr_err r) as [e|] eqn:He.
  - by rewrite (agg_step_core_eq_err _ _ _ He), (oks_cons_err _ _ _ He).
  - by rewrite (agg_step_core_eq_ok _ _ He), (oks_cons_ok _ _ He).
Qed.

Lemma fold_last rs s :
  a_last (fold_left agg_step_core rs s) = fold_left upd_last (hr_last <$> oks rs) (a_last s).
Proof.
  revert s. induction rs as [|r rs IH]; intros s; [done|]. simpl fold_left. rewrite IH.
  destruct (hr_err r) as [e|] eqn:He.
  - by rewrite (agg_step_core_eq_err _ _ _ He), (oks_cons_err _ _ _ He).
  - by rewrite (agg_step_core_eq_ok _ _ He), (oks_cons_ok _ _ He).
Qed.

Lemma fold_upd_last l a : fold_left upd_last l a = foldr Z.max a l.
Proof.
  revert a. induction l as [|x l IH]; intros a; [done|]. simpl. rewrite IH, upd_last_spec.
  clear IH. induction l as [|y l IH]; simpl; lia.
Qed.

Lemma foldr_min_swap a x l : foldr Z.min (Z.min a x) l = Z.min x (foldr Z.min a l).
Proof. induction l as [|y l IH]; simpl; lia. Qed.

Lemma fold_upd_first_nz l a : a ≠ ZERO_T →
  fold_left upd_first l a = foldr Z.min a (filter (λ f, f ≠ ZERO_T) l).
Proof.
  revert a. induction l as [|x l IH]; intros a Ha; [done|]. simpl.
  rewrite upd_first_spec. destruct (decide (x = ZERO_T)) as [->|Hx].
  - rewrite filter_cons_False by (intros H; by apply H). rewrite decide_False by tauto. by apply IH.
  - rewrite filter_cons_True by done. simpl. case_decide as Hd.
    + rewrite IH by done. rewrite <-foldr_min_swap. f_equal. lia.
    + rewrite IH by done. rewrite <-foldr_min_swap. f_equal. lia.
Qed.

Lemma fold_upd_first_z l :
  fold_left upd_first l ZERO_T =
  match filter (λ f, f ≠ ZERO_T) l with [] => ZERO_T | f :: t => foldr Z.min f t end.
Proof.
  induction l as [|x l IH]; [done|]. simpl. rewrite upd_first_spec.
  destruct (decide (x = ZERO_T)) as [->|Hx].
  - rewrite filter_cons_False by (intros H; by apply H). rewrite decide_False by tauto. done.
  - rewrite filter_cons_True by done. rewrite decide_True by tauto. by apply fold_upd_first_nz.
Qed.

(* ---------------------------------------------------------------- the union / sum theorem *)
Definition rows_wf (rs : list host_result) : Prop := Forall (λ r : row, cwf r.2) (all_rows rs).

Lemma key_counters_wf k l : Forall (λ r : row, cwf r.2) l → Forall cwf (key_counters k l).
Proof.
  intros H. unfold key_counters. apply Forall_fmap. apply Forall_forall. intros r Hr.
  apply elem_of_list_filter in Hr as [_ Hr]. rewrite Forall_forall in H. by apply H.
Qed.

Lemma aggregate_agg rs : (aggregate rs).1 = fold_left agg_step_core rs agg0.
Proof. unfold aggregate. by rewrite fold_agg_step_split. Qed.

(* without time binning the finalization leaves the aggregate as it is *)
Lemma run_batch_agg_nobin st rs : st_bin st = 0 → (run_batch st rs).1 = (aggregate rs).1.
Proof.
  intros H. unfold run_batch, finalize, fin_hits. simpl. rewrite binned_none by (by right).
  apply with_hits_id.
Qed.

Lemma union_sum rs :
  hosts_distinct rs → rows_wf rs →
  let A := (aggregate rs).1 in
  (* rows: the union of the hosts' rows, counters of equal keys summed (mod 2^64) *)
  (∀ k, a_rows A !! k = match key_counters k (all_rows rs) with [] => None | cs => Some (csum cs) end) ∧
  (* totals and statistics: sums over the successful replies *)
  a_totals A = csum (hr_totals <$> oks rs) ∧
  a_stats A = ssum (omap hr_stats (oks rs)) ∧
  (* hit count: sum of the hosts' totals minus the rows merged into existing ones *)
  a_hits A = wrap_int (zsum (hr_hits <$> oks rs) - (zlen (all_rows rs) - Z.of_nat (size (a_rows A)))) ∧
  (* every failed host is present with its error; every reported host status is kept; nothing else *)
  (∀ r e, r ∈ rs → hr_err r = Some e →
     a_statuses A !! hr_host r = Some ("error"%string, err_message e)) ∧
  (∀ r h s, r ∈ rs → hr_err r = None → (h, s) ∈ hr_statuses r → a_statuses A !! h = Some s) ∧
  (∀ h, is_Some (a_statuses A !! h) → h ∈ rs ≫= status_keys) ∧
  (* interfaces: union; covered time range: earliest non-zero First, latest Last *)
  (∀ i, i ∈ a_ifaces A ↔ i ∈ oks rs ≫= hr_ifaces) ∧
  a_first A = spec_first rs ∧ a_last A = spec_last rs.
Proof.
  intros Hd Hwf A. subst A. rewrite aggregate_agg.
  assert (NoDup (rs ≫= sts_of).*1) as Hnd by (by rewrite sts_of_keys).
  repeat split.
  - intros k. rewrite fold_rows, lookup_merge_map. simpl. rewrite lookup_empty.
    rewrite (acc_key_none _ (key_counters_wf k _ Hwf)). by destruct (key_counters k (all_rows rs)).
  - rewrite fold_totals. apply fold_cadd_c0.
  - rewrite fold_stats. apply fold_sadd_s0.
  - rewrite <-fold_hits_wrapped by done. rewrite fold_hits. simpl. rewrite map_size_empty.
    f_equal. lia.
  - intros r e Hr He. rewrite fold_statuses. apply copy_lookup_in; [done|].
    apply elem_of_list_bind. exists r. split; [|done]. unfold sts_of. rewrite He. by left.
  - intros r h s Hr He Hin. rewrite fold_statuses. apply copy_lookup_in; [done|].
    apply elem_of_list_bind. exists r. split; [|done]. unfold sts_of. by rewrite He.
  - intros h [v Hv]. rewrite fold_statuses in Hv.
    destruct (decide (h ∈ (rs ≫= sts_of).*1)) as [Hin|Hnin].
    + by rewrite sts_of_keys in Hin.
    + rewrite copy_lookup_notin in Hv by done. simpl in Hv. by rewrite lookup_empty in Hv.
  - rewrite fold_ifaces. simpl. set_solver.
  - rewrite fold_ifaces. simpl. set_solver.
  - rewrite fold_first. simpl. unfold spec_first. apply fold_upd_first_z.
  - rewrite fold_last. simpl. unfold spec_last. apply fold_upd_last.
Qed.

(* ---------------------------------------------------------------- querier layer: no host is dropped *)
Lemma querier_failed_reported l :
  hosts_distinct (querier_replies l) → rows_wf (querier_replies l) →
  let A := (aggregate (querier_replies l)).1 in
  (∀ h, (h, Unconfigured) ∈ l → a_statuses A !! h = Some ("error"%string, ERR_UNCONFIGURED)) ∧
  (∀ h msg, (h, Down msg) ∈ l → a_statuses A !! h = Some ("error"%string, msg)).
Proof.
  intros Hd Hwf A. destruct (union_sum _ Hd Hwf) as (_ & _ & _ & _ & H5 & _). split.
  - intros h Hin. apply (H5 (querier_reply h Unconfigured) (ERR_UNCONFIGURED, None)); [|done].
    apply elem_of_list_fmap. by exists (h, Unconfigured).
  - intros h msg Hin. apply (H5 (querier_reply h (Down msg)) (msg, None)); [|done].
    apply elem_of_list_fmap. by exists (h, Down msg).
Qed.
