(* C15 proofs, part 2: order independence of the finalized result; streaming = batch. *)
From stdpp Require Import gmap strings sorting.
From Coq Require Import ZArith Lia.
From GoProbe.C15 Require Import Model Proofs1.
Local Open Scope Z_scope.

(* ---------------------------------------------------------------- order independence *)
Lemma fold_agg_step_perm q rs rs' :
  rs ≡ₚ rs' → hosts_distinct rs → same_query q rs →
  fold_left agg_step rs acc0 = fold_left agg_step rs' acc0.
Proof.
  intros Hp Hd Hq. rewrite !fold_agg_step_split. f_equal. by eapply fold_agg_core_perm.
Qed.

Lemma run_batch_perm st q rs rs' :
  rs ≡ₚ rs' → hosts_distinct rs → same_query q rs → run_batch st rs = run_batch st rs'.
Proof. intros. unfold run_batch, aggregate. f_equal. by eapply fold_agg_step_perm. Qed.

(* ---------------------------------------------------------------- streaming = batch *)
Lemma size_ins_row m r : (size m ≤ size (ins_row m r))%nat.
Proof.
  assert (size (ins_row m r) = (match m !! r.1 with Some _ => id | None => S end) (size m)) as E
    by apply map_size_insert.
  rewrite E. destruct (m !! r.1); simpl; lia.
Qed.

Lemma size_merge_map m l : (size m ≤ size (merge_map m l))%nat.
Proof.
  revert m. induction l as [|r l IH]; intros m; [done|].
  rewrite merge_map_cons. etrans; [apply size_ins_row|apply IH].
Qed.

(* finalizeResult reads of the previous output only res.Rows, and only while the row map is empty *)
Lemma fin_out_irrel st ub m o o' :
  (size m = 0%nat → o_rows o = o_rows o') → fin_out st ub m o = fin_out st ub m o'.
Proof.
  intros H. unfold fin_out. case_bool_decide as Hs; [|done].
  simpl. by rewrite (H Hs).
Qed.

Lemma insert_by_length lt x l : length (insert_by lt x l) = S (length l).
Proof. induction l as [|y l IH]; simpl; [done|]. destruct (lt x y); simpl; by rewrite ?IH. Qed.
Lemma sort_rows_length lt l : length (sort_rows lt l) = length l.
Proof. induction l as [|x l IH]; simpl; [done|]. by rewrite insert_by_length, IH. Qed.
Lemma sorted_rows_len st m : zlen (sorted_rows st m) = Z.of_nat (size m).
Proof. unfold zlen, sorted_rows. by rewrite sort_rows_length. Qed.

(* BinTime does not run: Hits.Total is left alone *)
Lemma binned_none st m : size m = 0%nat ∨ st_bin st = 0 → binned st m = None.
Proof.
  intros [H|H]; unfold binned.
  - by rewrite bool_decide_eq_true_2.
  - case_bool_decide; [done|]. by rewrite H.
Qed.
(* BinTime runs: Hits.Total is overwritten with a value that does not depend on its previous value *)
Lemma binned_some st m : size m ≠ 0%nat → st_bin st ≠ 0 → is_Some (binned st m).
Proof.
  intros H1 H2. unfold binned. rewrite bool_decide_eq_false_2 by done.
  rewrite sorted_rows_len.
  destruct (Z.eqb_spec (st_bin st) 0); [done|]. destruct (Z.eqb_spec (Z.of_nat (size m)) 0); [lia|].
  simpl. by eexists.
Qed.

(* the aggregate without the hit count *)
Definition erase (a : agg) : agg := with_hits a 0.
Lemma erase_step a r : erase (agg_step_core a r) = erase (agg_step_core (erase a) r).
Proof. unfold erase, with_hits, agg_step_core. by destruct (hr_err r). Qed.
Lemma erase_with_hits a h : erase (with_hits a h) = erase a.
Proof. done. Qed.
Lemma erase_rows a b : erase a = erase b → a_rows a = a_rows b.
Proof. intros H. by apply (f_equal a_rows) in H. Qed.
Lemma erase_hits_eq a b : erase a = erase b → a_hits a = a_hits b → a = b.
Proof. destruct a, b. unfold erase, with_hits. simpl. intros [=] ?. by subst. Qed.
Lemma with_hits_id a : with_hits a (a_hits a) = a.
Proof. by destruct a. Qed.
Lemma erase_step_congr a b r : erase a = erase b → erase (agg_step_core a r) = erase (agg_step_core b r).
Proof. intros H. by rewrite erase_step, H, <-erase_step. Qed.

Lemma step_rows_size a r : (size (a_rows a) ≤ size (a_rows (agg_step_core a r)))%nat.
Proof.
  unfold agg_step_core. destruct (hr_err r); simpl; [done|]. apply size_merge_map.
Qed.

(* streaming state vs. the plain aggregate of the same replies: equal up to the hit count; the hit count is
   equal as long as BinTime has not run; the output rows stay nil as long as the row map is empty *)
Definition sinv (st : stmt) (s : acc) (A : agg) : Prop :=
  erase s.1 = erase A ∧
  (size (a_rows A) = 0%nat ∨ st_bin st = 0 → a_hits s.1 = a_hits A) ∧
  (size (a_rows A) = 0%nat → o_rows s.2 = []).

Lemma sinv_step st s A r : sinv st s A → sinv st (stream_step st s r) (agg_step_core A r).
Proof.
  intros (E & Hh & Ho). pose proof (step_rows_size A r) as Hmono.
  assert (size (a_rows (agg_step_core A r)) = 0%nat ∨ st_bin st = 0 → s.1 = A) as Heq.
  { intros [H|H]; apply erase_hits_eq; try done; apply Hh; [left; lia|by right]. }
  unfold stream_step. destruct (hr_err r) as [e|] eqn:He.
  - unfold agg_step; simpl. split; [by apply erase_step_congr|]. split.
    + intros P. by rewrite (Heq P).
    + intros P. apply Ho. lia.
  - unfold finalize, agg_step. split; [exact (erase_step_congr _ _ r E)|]. simpl. split.
    + intros P. rewrite (Heq P). unfold fin_hits. by rewrite binned_none.
    + intros P. rewrite (erase_rows _ _ (erase_step_congr _ _ r E)).
      unfold fin_out. rewrite bool_decide_eq_true_2 by done. simpl. apply Ho. lia.
Qed.

Lemma fold_stream_step st rs s A :
  sinv st s A → sinv st (fold_left (stream_step st) rs s) (fold_left agg_step_core rs A).
Proof.
  revert s A. induction rs as [|r rs IH]; intros s A H; simpl; [done|].
  by apply IH, sinv_step.
Qed.

Lemma run_stream_eq_batch st rs : run_stream st rs = run_batch st rs.
Proof.
  unfold run_stream, run_batch, aggregate.
  destruct (fold_stream_step st rs acc0 agg0) as (E & Hh & Ho).
  { split; [done|]. split; done. }
  rewrite fold_agg_step_split. simpl.
  set (S := fold_left (stream_step st) rs acc0) in *.
  set (A := fold_left agg_step_core rs agg0) in *.
  pose proof (erase_rows _ _ E) as R.
  unfold finalize. simpl. rewrite R. f_equal.
  - destruct (decide (size (a_rows A) = 0%nat ∨ st_bin st = 0)) as [P|P].
    + by rewrite (erase_hits_eq _ _ E (Hh P)).
    + destruct (binned_some st (a_rows A)) as [b Hb]; [tauto..|].
      unfold fin_hits. rewrite Hb.
      transitivity (with_hits (erase S.1) (zlen b)); [done|]. by rewrite E.
  - apply fin_out_irrel. intros Hs. by rewrite (Ho Hs).
Qed.

(* every partial result handed to the sender is the finalization (limit 100) of the aggregate so far,
   hence order-independent as well *)
Lemma run_stream_perm st q rs rs' :
  rs ≡ₚ rs' → hosts_distinct rs → same_query q rs → run_stream st rs = run_stream st rs'.
Proof. intros. rewrite !run_stream_eq_batch. by eapply run_batch_perm. Qed.
