(* C15 proofs, part 2: order independence of the finalized result; streaming = batch. *)
From stdpp Require Import gmap strings sorting.
From Coq Require Import ZArith Lia.
From GoProbe.C15 Require Import Model Proofs1.
Local Open Scope Z_scope.

(* ---------------------------------------------------------------- order independence *)
Lemma fold_agg_step_perm q rs rs' :
  rs ≡ₚ rs' → hosts_distinct rs → same_query q rs →
  fold_left agg_step rs acc0 = fold_left agg_step rs' acc0.
Proof.
  intros Hp Hd Hq. rewrite !fold_agg_step_split. f_equal. by eapply fold_agg_core_perm.
Qed.

Lemma run_batch_perm st q rs rs' :
  rs ≡ₚ rs' → hosts_distinct rs → same_query q rs → run_batch st rs = run_batch st rs'.
Proof. intros. unfold run_batch. f_equal. by eapply fold_agg_step_perm. Qed.

(* ---------------------------------------------------------------- streaming = batch *)
Lemma size_ins_row m r : (size m ≤ size (ins_row m r))%nat.
Proof.
  assert (size (ins_row m r) = (match m !! r.1 with Some _ => id | None => S end) (size m)) as E
    by apply map_size_insert.
  rewrite E. destruct (m !! r.1); simpl; lia.
Qed.

Lemma size_merge_map m l : (size m ≤ size (merge_map m l))%nat.
Proof.
  revert m. induction l as [|r l IH]; intros m; [done|].
  rewrite merge_map_cons. etrans; [apply size_ins_row|apply IH].
Qed.

(* finalizeResult reads of the previous output only res.Rows, and only while the row map is empty *)
Lemma fin_out_irrel st ub a o o' :
  (size (a_rows a) = 0%nat → o_rows o = o_rows o') → fin_out st ub a o = fin_out st ub a o'.
Proof.
  intros H. unfold fin_out. case_bool_decide as Hs; [|done].
  simpl. by rewrite (H Hs).
Qed.

(* the output rows stay nil as long as the row map is empty *)
Definition out_inv (s : acc) : Prop := size (a_rows s.1) = 0%nat → o_rows s.2 = [].

Lemma out_inv_finalize st ub s : out_inv s → out_inv (finalize st ub s).
Proof.
  unfold out_inv, finalize, fin_out; simpl. intros H Hs.
  rewrite bool_decide_eq_true_2 by done. simpl. by apply H.
Qed.

Lemma out_inv_agg_step s r : out_inv s → out_inv (agg_step s r).
Proof.
  unfold out_inv, agg_step; simpl. intros H Hs. apply H.
  unfold agg_step_core in Hs. destruct (hr_err r); simpl in Hs; [done|].
  pose proof (size_merge_map (a_rows s.1) (hr_rows r)). lia.
Qed.

Lemma stream_step_fst st s r : (stream_step st s r).1 = agg_step_core s.1 r.
Proof. unfold stream_step. by destruct (hr_err r). Qed.

Lemma out_inv_stream_step st s r : out_inv s → out_inv (stream_step st s r).
Proof.
  intros H. unfold stream_step. destruct (hr_err r).
  - by apply out_inv_agg_step.
  - by apply out_inv_finalize, out_inv_agg_step.
Qed.

Lemma fold_stream_step st rs s :
  out_inv s →
  (fold_left (stream_step st) rs s).1 = fold_left agg_step_core rs s.1 ∧
  out_inv (fold_left (stream_step st) rs s).
Proof.
  revert s. induction rs as [|r rs IH]; intros s Hs; simpl; [done|].
  destruct (IH (stream_step st s r)) as [E I]; [by apply out_inv_stream_step|].
  by rewrite E, stream_step_fst.
Qed.

Lemma run_stream_eq_batch st rs : run_stream st rs = run_batch st rs.
Proof.
  unfold run_stream, run_batch.
  destruct (fold_stream_step st rs acc0) as [E I]; [done|].
  rewrite fold_agg_step_split. unfold finalize. rewrite E. simpl. f_equal.
  apply fin_out_irrel. intros Hs. rewrite I; [done|]. by rewrite E.
Qed.

(* every partial result handed to the sender is the finalization (limit 100) of the aggregate so far,
   hence order-independent as well *)
Lemma run_stream_perm st q rs rs' :
  rs ≡ₚ rs' → hosts_distinct rs → same_query q rs → run_stream st rs = run_stream st rs'.
Proof. intros. rewrite !run_stream_eq_batch. by eapply run_batch_perm. Qed.
