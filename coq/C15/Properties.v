(* C15: distributed results do not depend on the host reply order.  Statements only. *)
From stdpp Require Import gmap strings.
From Coq Require Import ZArith.
From GoProbe.C15 Require Import Model Corr Proofs1 Proofs2 Proofs3.
Local Open Scope Z_scope.

(* For every list of per-host replies and every order of delivery the finalized result of Run and of
   RunStreaming is the same value: rows (sorted, limited), hosts statuses, interfaces, query, first/last,
   totals, stats, hit count, displayed count and status.
   Hypotheses: every host is reported by one reply only ([hosts_distinct]: the keys the replies write into
   HostsStatuses are pairwise different); the hosts echo the query they were sent ([same_query]). *)
Theorem c15_order_independent : forall st q rs rs',
  Permutation rs rs' -> hosts_distinct rs -> same_query q rs ->
  run_batch st rs = run_batch st rs' /\ run_stream st rs = run_stream st rs'.
Proof. intros; split; [by eapply run_batch_perm|by eapply run_stream_perm]. Qed.
Print Assumptions c15_order_independent.

(* The aggregate that is finalized (run_batch st rs = finalize st (st_num st) (aggregate rs)) is the union /
   the sums of the replies, whatever the order.  Without time binning the finalization leaves it as it is;
   with time binning BinTime replaces the hit count by the number of binned rows (see Model.fin_hits). *)
Theorem c15_union_sum : forall rs,
  hosts_distinct rs -> rows_wf rs ->
  let A := (aggregate rs).1 in
  (* rows: the union of the hosts' rows, counters of equal keys summed (mod 2^64) *)
  (forall k, a_rows A !! k = match key_counters k (all_rows rs) with [] => None | cs => Some (csum cs) end) /\
  (* totals and statistics: sums over the successful replies *)
  a_totals A = csum (hr_totals <$> oks rs) /\
  a_stats A = ssum (omap hr_stats (oks rs)) /\
  (* hit count: sum of the hosts' totals minus the rows merged into existing ones *)
  a_hits A = wrap_int (zsum (hr_hits <$> oks rs) - (zlen (all_rows rs) - Z.of_nat (size (a_rows A)))) /\
  (* every failed host is present with its error; every reported host status is kept; nothing else *)
  (forall r e, r ∈ rs -> hr_err r = Some e ->
     a_statuses A !! hr_host r = Some ("error"%string, err_message e)) /\
  (forall r h s, r ∈ rs -> hr_err r = None -> (h, s) ∈ hr_statuses r -> a_statuses A !! h = Some s) /\
  (forall h, is_Some (a_statuses A !! h) -> h ∈ rs ≫= status_keys) /\
  (* interfaces: union; covered time range: earliest non-zero First, latest Last *)
  (forall i, i ∈ a_ifaces A <-> i ∈ oks rs ≫= hr_ifaces) /\
  a_first A = spec_first rs /\ a_last A = spec_last rs.
Proof. exact union_sum. Qed.
Print Assumptions c15_union_sum.

Theorem c15_finalize_keeps_aggregate : forall st rs, st_bin st = 0 -> (run_batch st rs).1 = (aggregate rs).1.
Proof. exact run_batch_agg_nobin. Qed.
Print Assumptions c15_finalize_keeps_aggregate.

(* The result returned by a streaming query (a partial finalization with limit 100 after every
   successful reply) equals the result of the same query without streaming -- no hypothesis at all. *)
Theorem c15_streaming_equals_batch : forall st rs, run_stream st rs = run_batch st rs.
Proof. exact run_stream_eq_batch. Qed.
Print Assumptions c15_streaming_equals_batch.

(* The querier layer hands the aggregation one reply per host of the resolved list: hosts without endpoint
   configuration and hosts whose request fails are present in HostsStatuses with their error. *)
Theorem c15_failed_hosts_reported : forall l,
  hosts_distinct (querier_replies l) -> rows_wf (querier_replies l) ->
  let A := (aggregate (querier_replies l)).1 in
  (forall h, (h, Unconfigured) ∈ l -> a_statuses A !! h = Some ("error"%string, ERR_UNCONFIGURED)) /\
  (forall h msg, (h, Down msg) ∈ l -> a_statuses A !! h = Some ("error"%string, msg)).
Proof. exact querier_failed_reported. Qed.
Print Assumptions c15_failed_hosts_reported.

(* ---------------------------------------------------------------- non-vacuity *)
Definition ex_q : query := (["sip"; "dip"], "")%string.
Definition ex_k1 : key := (ZERO_T, 0, "eth0", "a", "", 1, 3, 6, 443)%string.
Definition ex_k2 : key := (1700000000, 2, "eth0", "a", "", 1, 3, 6, 443)%string.
Definition ex_a : host_result :=     (* no rows, covers [100,200] *)
  HR "h0" None [("h0", ("empty", ""))]%string [] ["eth0"]%string ex_q 100 200 c0 None 0.
Definition ex_b : host_result :=     (* two rows, covers [50,400] *)
  HR "h1" None [("h1", ("ok", ""))]%string [(ex_k1, C 10 0 1 0); (ex_k2, C (M64 - 1) 0 1 0)] ["eth1"]%string ex_q
     50 400 (C 9 0 2 0) (Some (St 5 6 3 0 1 2)) 2.
Definition ex_c : host_result :=     (* overlaps with ex_b *)
  HR "h2" None [("h2", ("ok", ""))]%string [(ex_k2, C 2 0 1 0)] ["eth0"]%string ex_q 60 300 (C 2 0 1 0)
     (Some (St 1 1 1 1 1 1)) 1.
Definition ex_e : host_result :=     (* failed host, wrapped error *)
  HR "h3" (Some ("failed to run: EOF", Some "EOF"))%string [] [] [] ([], "")%string 0 0 c0 None 0.
Definition ex_rs := [ex_a; ex_e; ex_b; ex_c].
Definition ex_st := Stmt 2 1 false 1000 0.
Definition ex_st_bin := Stmt 3 1 true 1000 600.
Definition ex_k3 : key := (1700000300, 4, "eth0", "a", "", 1, 3, 6, 443)%string.
Definition ex_d : host_result :=     (* a row in the same 10-minute bin as ex_k2 *)
  HR "h4" None [("h4", ("ok", ""))]%string [(ex_k3, C 4 0 1 0)] [] ex_q 60 300 c0 None 1.

Lemma ex_hyps : hosts_distinct ex_rs /\ same_query ex_q ex_rs /\ rows_wf ex_rs.
Proof.
  split; [|split].
  - unfold hosts_distinct.
    assert (bool_decide (NoDup (ex_rs ≫= status_keys))) as H by (vm_compute; exact I).
    exact (bool_decide_unpack _ H).
  - unfold same_query, ex_rs. repeat constructor; done.
  - unfold rows_wf. apply Forall_forall. intros r Hr. vm_compute in Hr.
    repeat (apply elem_of_cons in Hr as [->|Hr]); [..|by apply elem_of_nil in Hr];
      unfold cwf; simpl; unfold M64; lia.
Qed.

(* the hypotheses of c15_order_independent hold for a non-trivial reply list, the reversed delivery is a
   different list, and the common result has the merged row, the union time range and the error host *)
Example c15_order_independent_nonvacuous :
  hosts_distinct ex_rs /\ same_query ex_q ex_rs /\ Permutation ex_rs (reverse ex_rs) /\ ex_rs <> reverse ex_rs /\
  run_batch ex_st ex_rs = run_batch ex_st (reverse ex_rs) /\
  o_rows (run_batch ex_st ex_rs).2 = [(ex_k1, C 10 0 1 0); (ex_k2, C 1 0 2 0)] /\
  a_first (run_batch ex_st ex_rs).1 = 50 /\ a_last (run_batch ex_st ex_rs).1 = 400 /\
  a_statuses (run_batch ex_st ex_rs).1 !! "h3"%string = Some ("error", "EOF")%string.
Proof.
  destruct ex_hyps as (H1 & H2 & _).
  assert (Permutation ex_rs (reverse ex_rs)) as HP by (symmetry; apply reverse_Permutation).
  split; [exact H1|]. split; [exact H2|]. split; [exact HP|].
  split; [intros H; apply (f_equal (fmap hr_host)) in H; vm_compute in H; discriminate H|].
  split; [exact (proj1 (c15_order_independent ex_st ex_q ex_rs (reverse ex_rs) HP H1 H2))|].
  vm_compute. repeat split; reflexivity.
Qed.

Example c15_union_sum_nonvacuous :
  hosts_distinct ex_rs /\ rows_wf ex_rs /\
  key_counters ex_k2 (all_rows ex_rs) = [C (M64 - 1) 0 1 0; C 2 0 1 0] /\
  a_rows (aggregate ex_rs).1 !! ex_k2 = Some (C 1 0 2 0) /\
  a_hits (aggregate ex_rs).1 = 2 /\ zsum (hr_hits <$> oks ex_rs) = 3.
Proof.
  destruct ex_hyps as (H1 & _ & H3). split; [exact H1|]. split; [exact H3|]. vm_compute. repeat split; reflexivity.
Qed.

(* an early reply without rows: the streamed result still ends with status ok and all rows *)
Example c15_streaming_equals_batch_nonvacuous :
  (partial_obs <$> partials ex_st acc0 ex_rs) = [(0, 0, "missing data"); (2, 2, "ok"); (2, 2, "ok")]%string /\
  o_status (run_stream ex_st ex_rs).2 = ST_OK /\ o_displayed (run_stream ex_st ex_rs).2 = 2 /\
  (* with a 10-minute resolution two of the three rows fold into one bin; BinTime sets the hit count to 2 *)
  a_hits (run_stream ex_st_bin (ex_rs ++ [ex_d])).1 = 2 /\ a_hits (aggregate (ex_rs ++ [ex_d])).1 = 3 /\
  zlen (o_rows (run_stream ex_st_bin (ex_rs ++ [ex_d])).2) = 2.
Proof. vm_compute. repeat split; reflexivity. Qed.

Definition ex_l : list (string * endpoint) :=
  [("ghost", Unconfigured); ("h1", Alive ex_b); ("down", Down "connection refused")]%string.
Example c15_failed_hosts_reported_nonvacuous :
  hosts_distinct (querier_replies ex_l) /\ rows_wf (querier_replies ex_l) /\
  a_statuses (aggregate (querier_replies ex_l)).1 !! "ghost"%string = Some ("error"%string, ERR_UNCONFIGURED) /\
  size (a_rows (aggregate (querier_replies ex_l)).1) = 2%nat.
Proof.
  split; [|split].
  - unfold hosts_distinct.
    assert (bool_decide (NoDup (querier_replies ex_l ≫= status_keys))) as H by (vm_compute; exact I).
    exact (bool_decide_unpack _ H).
  - unfold rows_wf. apply Forall_forall. intros r Hr. vm_compute in Hr.
    repeat (apply elem_of_cons in Hr as [->|Hr]); [..|by apply elem_of_nil in Hr];
      unfold cwf; simpl; unfold M64; lia.
  - vm_compute. split; reflexivity.
Qed.
