(* C25 proofs, part 10: the literal prefix search (bisection + two scans) never returns a merge backup. *)
From Coq Require Import List ZArith String Ascii Bool Lia.
From GoProbe.Base Require Import CorrLib.
From GoProbe.C25 Require Import Model.
Import ListNotations.
Open Scope Z_scope.

Lemma scan_left_sound : forall arr pfx n i low x, scan_left arr pfx n i low = Some x ->
  is_backup x = false /\ has_prefix pfx x = true.
Proof.
  induction n; simpl; intros; [discriminate|].
  destruct (low <=? i); [|discriminate].
  destruct (has_prefix pfx (nthz arr i)) eqn:P; [|discriminate].
  destruct (is_backup (nthz arr i)) eqn:B; simpl in H.
  - eapply IHn; eauto.
  - inversion H; subst. auto.
Qed.
Lemma scan_right_sound : forall arr pfx n i high x, scan_right arr pfx n i high = Some x ->
  is_backup x = false /\ has_prefix pfx x = true.
Proof.
  induction n; simpl; intros; [discriminate|].
  destruct (i <=? high); [|discriminate].
  destruct (has_prefix pfx (nthz arr i)) eqn:P; [|discriminate].
  destruct (is_backup (nthz arr i)) eqn:B; simpl in H.
  - eapply IHn; eauto.
  - inversion H; subst. auto.
Qed.
Lemma bsearch_sound : forall fuel arr pfx low high x, bsearch fuel arr pfx low high = Some x ->
  is_backup x = false /\ has_prefix pfx x = true.
Proof.
  induction fuel; simpl; intros; [discriminate|].
  destruct (high <? low); [discriminate|].
  destruct (has_prefix pfx (nthz arr ((low + high) / 2))) eqn:P.
  - destruct (is_backup (nthz arr ((low + high) / 2))) eqn:B; simpl in H.
    + destruct (scan_left arr pfx (List.length arr) ((low + high) / 2 - 1) low) eqn:SL.
      * inversion H; subst. eapply scan_left_sound; eauto.
      * eapply scan_right_sound; eauto.
    + inversion H; subst. auto.
  - destruct (String.ltb (nthz arr ((low + high) / 2)) pfx); eapply IHfuel; eauto.
Qed.

(* whatever directory a DirWriter opens or a DirReader recovers to, it is not a merge backup *)
Theorem prefix_search_sound : forall nm s i ts x, prefix_search nm s i ts = Some x ->
  is_backup x = false /\ has_prefix (n_tsname nm ts) x = true.
Proof. unfold prefix_search. intros. eapply bsearch_sound; eauto. Qed.

From GoProbe.C25 Require Import Proofs1 Proofs2 Proofs3 Proofs4 Proofs5 Proofs6.

Theorem leftovers_invisible'' : forall nm dst src o k, is_stage (n_stage nm) = true ->
  let s := crash_state nm dst src o k in
  ~ In (n_stage nm) (interfaces s)
  /\ (forall n, In n (interfaces s) -> is_stage n = false)
  /\ (forall i ds t n c, walk s i = Ok ds -> In (t, n, c) ds -> is_backup n = false)
  /\ (forall i ds d, list_days s i = Ok ds -> In d ds -> is_backup (snd (fst d)) = false)
  /\ (forall nm' i ts dn, In dn (prefix_matches nm' s i ts) -> is_backup dn = false)
  /\ (forall nm' i ts x, prefix_search nm' s i ts = Some x -> is_backup x = false /\ has_prefix (n_tsname nm' ts) x = true)
  /\ (forall o', plans o' (strip_leftovers s) src = plans o' s src)
  /\ (forall a y m dn, exists dnb, backup_path nm [a; y; m; dn] = [a; y; m; dnb] /\ is_backup dnb = true
                                   /\ leftover (backup_path nm [a; y; m; dn], NDir Empty) = true)
  /\ (forall r n, leftover (n_stage nm :: r, n) = true).
Proof.
  intros nm dst src o k ST s.
  destruct (leftovers_invisible' nm dst src o k ST) as [A [B [C [D [E [F [G H]]]]]]].
  split; [exact A|]. split; [exact B|]. split; [exact C|]. split; [exact D|]. split; [exact E|].
  split; [intros; eapply prefix_search_sound; eauto|]. split; [exact F|]. split; [exact G|exact H].
Qed.
