(* C25 proofs, part 3: every crash prefix shows every day old or new (except the rename window). *)
From Coq Require Import List ZArith String Ascii Bool Lia.
From GoProbe.Base Require Import CorrLib.
From GoProbe.C25 Require Import Model Proofs1 Proofs2.
Import ListNotations.
Open Scope Z_scope.

Lemma apply_all_app : forall a b s, apply_all s (a ++ b) = apply_all (apply_all s a) b.
Proof. intros. unfold apply_all. apply fold_left_app. Qed.

Definition mid_ok (i : string) (ts : Z) (mid : list fsop) : Prop :=
  mid = [] \/ (exists x, mid = [x]) \/ (exists ro x, mid = [ro; x] /\ rename_out_of i ts ro = true).

Definition sandwiched (i : string) (ts : Z) (ops : list fsop) : Prop :=
  exists A mid B, ops = A ++ mid ++ B /\ Forall (quiet i ts) A /\ Forall (quiet i ts) B /\ mid_ok i ts mid.

Lemma sandwich_view : forall i ts ops s k, sandwiched i ts ops -> window_at ops i ts k = false ->
  day_view (apply_all s (firstn k ops)) i ts = day_view s i ts
  \/ day_view (apply_all s (firstn k ops)) i ts = day_view (apply_all s ops) i ts.
Proof.
  intros i ts ops s k [A [mid [B [E [QA [QB M]]]]]] W. subst ops.
  destruct (Nat.le_gt_cases k (List.length A)) as [L|G].
  - left. rewrite firstn_app. replace (k - List.length A)%nat with 0%nat by lia. simpl. rewrite app_nil_r.
    apply quiet_view. apply Forall_firstn. auto.
  - destruct (Nat.le_gt_cases (List.length A + List.length mid) k) as [L2|G2].
    + right. rewrite firstn_app. rewrite (firstn_all2 A) by lia.
      rewrite firstn_app. rewrite (firstn_all2 mid) by lia.
      rewrite !apply_all_app. rewrite quiet_view by (apply Forall_firstn; auto).
      rewrite (quiet_view i ts B) by auto. reflexivity.
    + exfalso. destruct M as [M|[[x M]|[ro [x [M R]]]]]; subst mid; simpl in G2; try lia.
      assert (k = S (List.length A)) by lia. subst k. simpl in W.
      rewrite nth_error_app2 in W by lia. rewrite Nat.sub_diag in W. simpl in W. congruence.
Qed.

Lemma quiet_sandwiched : forall i ts ops, Forall (quiet i ts) ops -> sandwiched i ts ops.
Proof. intros. exists ops, [], []. rewrite app_nil_r. repeat split; auto. left. auto. Qed.

Lemma sandwiched_wrap : forall i ts P ops Q, Forall (quiet i ts) P -> Forall (quiet i ts) Q ->
  sandwiched i ts ops -> sandwiched i ts (P ++ ops ++ Q).
Proof.
  intros i ts P ops Q HP HQ [A [mid [B [E [QA [QB M]]]]]]. subst ops.
  exists (P ++ A), mid, (B ++ Q). rewrite <- !app_assoc. repeat split; auto; apply Forall_app; auto.
Qed.

Definition key_is (i : string) (ts : Z) (pl : dplan) : bool := String.eqb (p_iface pl) i && (p_ts pl =? ts).
Definition key (pl : dplan) : string * Z := (p_iface pl, p_ts pl).

Lemma key_is_false : forall i ts pl, key_is i ts pl = false -> p_iface pl <> i \/ p_ts pl <> ts.
Proof.
  unfold key_is. intros. apply andb_false_iff in H. destruct H.
  - left. apply String.eqb_neq. auto.
  - right. apply Z.eqb_neq. auto.
Qed.
Lemma key_is_true : forall i ts pl, key_is i ts pl = true -> key pl = (i, ts).
Proof.
  unfold key_is, key. intros. apply andb_true_iff in H. destruct H.
  apply String.eqb_eq in H. apply Z.eqb_eq in H0. congruence.
Qed.

Lemma day_ops_quiet : forall nm ow s pl i ts, names_ok nm -> plan_ok pl -> is_stage i = false ->
  key_is i ts pl = false -> Forall (quiet i ts) (day_ops nm ow s pl).
Proof.
  intros. destruct (day_ops_shape nm ow s pl i ts H H0 H1) as [A [mid [B [E [QA [QB [QM _]]]]]]].
  rewrite E. apply Forall_app; split; auto. apply Forall_app; split; auto. apply QM. apply key_is_false; auto.
Qed.

Lemma body_quiet : forall nm ow i ts pls s, names_ok nm -> Forall plan_ok pls -> is_stage i = false ->
  (forall pl, In pl pls -> key_is i ts pl = false) -> Forall (quiet i ts) (body_ops nm ow s pls).
Proof.
  induction pls; simpl; intros; auto. inversion H0; subst.
  apply Forall_app; split.
  - apply day_ops_quiet; auto.
  - apply IHpls; auto.
Qed.

Lemma body_sandwiched : forall nm ow i ts pls s, names_ok nm -> Forall plan_ok pls -> is_stage i = false ->
  NoDup (map key pls) -> sandwiched i ts (body_ops nm ow s pls).
Proof.
  induction pls; simpl; intros s NO PO IS ND.
  - apply quiet_sandwiched. constructor.
  - inversion PO; subst. inversion ND; subst.
    destruct (key_is i ts a) eqn:K.
    + (* this is the day: all later plans have another key *)
      destruct (day_ops_shape nm ow s a i ts NO H1 IS) as [A [mid [B [E [QA [QB [_ M]]]]]]].
      rewrite E. exists A, mid, (B ++ body_ops nm ow (apply_all s (A ++ mid ++ B)) pls).
      rewrite <- !app_assoc. repeat split; auto.
      * apply Forall_app; split; auto. apply body_quiet; auto.
        intros pl IN. destruct (key_is i ts pl) eqn:K2; auto. exfalso. apply H3.
        apply key_is_true in K. apply key_is_true in K2. rewrite K, <- K2. apply in_map. auto.
      * apply key_is_true in K. inversion K; subst. destruct M as [M|[M|M]]; [left|right;left|right;right]; auto.
    + replace (day_ops nm ow s a ++ body_ops nm ow (apply_all s (day_ops nm ow s a)) pls)
        with (day_ops nm ow s a ++ body_ops nm ow (apply_all s (day_ops nm ow s a)) pls ++ []) by (rewrite app_nil_r; auto).
      apply sandwiched_wrap; auto.
      apply day_ops_quiet; auto.
Qed.

Lemma under_other : forall st i p, String.eqb st i = false -> under st p = true -> under i p = false.
Proof.
  destruct p as [|a p]; simpl; intros H H0; [discriminate|]. apply String.eqb_eq in H0. subst a. exact H.
Qed.

Lemma cleanup_quiet : forall nm s i ts, String.eqb (n_stage nm) i = false -> Forall (quiet i ts) (cleanup_ops nm s).
Proof.
  intros. unfold cleanup_ops. apply Forall_forall. intros o IN. apply in_map_iff in IN.
  destruct IN as [p [E IN]]. subst o. apply in_rev in IN. apply filter_In in IN. destruct IN as [_ U].
  simpl. left. eapply under_other; eauto.
Qed.

(* the plans a merge works through are well formed: each refers to the destination day of its own
   interface and timestamp, and no day is planned twice *)
Definition plans_wf (o : opts) (dst src : fs) : Prop :=
  match select_ifaces (src_ifaces src) (o_ifaces o) with
  | Some sel => let pls := fst (plan_ifaces o dst src sel) in Forall plan_ok pls /\ NoDup (map key pls)
  | None => True
  end.

Lemma merge_sandwiched : forall nm dst src o i ts, names_ok nm -> is_stage i = false -> plans_wf o dst src ->
  sandwiched i ts (merge_ops nm dst src o).
Proof.
  intros nm dst src o i ts NO IS WF. unfold merge_ops, plans_wf in *.
  pose proof (stage_neq nm i (proj1 NO) IS) as SN.
  destruct (select_ifaces (src_ifaces src) (o_ifaces o)) as [[|i0 sel]|].
  - apply quiet_sandwiched. constructor.
  - destruct WF as [PO ND].
    change (Mkdir [n_stage nm] :: ?b ++ ?c) with ([Mkdir [n_stage nm]] ++ b ++ c).
    apply sandwiched_wrap.
    + constructor; [|constructor]. simpl. left. auto.
    + apply cleanup_quiet. auto.
    + destruct (o_dryrun o).
      * apply quiet_sandwiched. constructor.
      * apply body_sandwiched; auto.
  - apply quiet_sandwiched. constructor.
Qed.

Theorem old_or_new_partial : forall nm dst src o i ts k,
  names_ok nm -> is_stage i = false -> plans_wf o dst src ->
  window_at (merge_ops nm dst src o) i ts k = false ->
  day_view (crash_state nm dst src o k) i ts = day_view dst i ts
  \/ day_view (crash_state nm dst src o k) i ts = day_view (final_state nm dst src o) i ts.
Proof.
  intros. unfold crash_state, final_state. apply sandwich_view; auto. apply merge_sandwiched; auto.
Qed.
