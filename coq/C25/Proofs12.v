(* C25 proofs, part 12: the literal prefix search returns a name of the listing; with a unique candidate it finds it. *)
From Coq Require Import List ZArith String Ascii Bool Lia.
From GoProbe.Base Require Import CorrLib.
From GoProbe.C25 Require Import Model Proofs10 Proofs11.
Import ListNotations.
Open Scope Z_scope.

Lemma nthz_In : forall arr i, 0 <= i -> i < Z.of_nat (List.length arr) -> In (nthz arr i) arr.
Proof. intros arr i H0 H1. unfold nthz. apply nth_In. lia. Qed.

Lemma scan_left_In : forall arr pfx n i low x, 0 <= low -> i < Z.of_nat (List.length arr) ->
  scan_left arr pfx n i low = Some x -> In x arr.
Proof.
  induction n as [|n IH]; simpl; intros i low x H0 Hi H; [discriminate|].
  destruct (low <=? i) eqn:LI; [|discriminate]. apply Z.leb_le in LI.
  destruct (has_prefix pfx (nthz arr i)); [|discriminate].
  destruct (is_backup (nthz arr i)); simpl in H.
  - apply IH with (i := i - 1) (low := low); auto; lia.
  - inversion H; subst. apply nthz_In; lia.
Qed.

Lemma scan_right_In : forall arr pfx n i high x, 0 <= i -> high < Z.of_nat (List.length arr) ->
  scan_right arr pfx n i high = Some x -> In x arr.
Proof.
  induction n as [|n IH]; simpl; intros i high x H0 Hh H; [discriminate|].
  destruct (i <=? high) eqn:LI; [|discriminate]. apply Z.leb_le in LI.
  destruct (has_prefix pfx (nthz arr i)); [|discriminate].
  destruct (is_backup (nthz arr i)); simpl in H.
  - apply IH with (i := i + 1) (high := high); auto; lia.
  - inversion H; subst. apply nthz_In; lia.
Qed.

Theorem bsearch_In : forall fuel arr pfx low high x, 0 <= low -> high < Z.of_nat (List.length arr) ->
  bsearch fuel arr pfx low high = Some x -> In x arr.
Proof.
  induction fuel as [|f IH]; simpl; intros arr pfx low high x H0 Hh H; [discriminate|].
  destruct (high <? low) eqn:HL; [discriminate|]. apply Z.ltb_ge in HL.
  assert (M : low <= (low + high) / 2 /\ (low + high) / 2 <= high).
  { split; [apply Z.div_le_lower_bound; lia | apply Z.div_le_upper_bound; lia]. }
  set (mid := (low + high) / 2) in *. destruct M as [M1 M2].
  destruct (has_prefix pfx (nthz arr mid)).
  - destruct (is_backup (nthz arr mid)); simpl in H.
    + destruct (scan_left arr pfx (List.length arr) (mid - 1) low) eqn:SL.
      * inversion H; subst. eapply scan_left_In with (i := mid - 1) (low := low); eauto; lia.
      * eapply scan_right_In with (i := mid + 1) (high := high); eauto; lia.
    + inversion H; subst. apply nthz_In; lia.
  - destruct (String.ltb (nthz arr mid) pfx).
    + eapply IH with (low := mid + 1) (high := high); eauto; lia.
    + eapply IH with (low := low) (high := mid - 1); eauto; lia.
Qed.

Theorem prefix_search_In : forall nm s i ts x, prefix_search nm s i ts = Some x -> In x (month_names nm s i ts).
Proof. unfold prefix_search. intros nm s i ts x H. eapply bsearch_In; eauto; lia. Qed.

Theorem prefix_search_finds : forall nm s i ts d,
  In d (month_names nm s i ts) -> has_prefix (n_tsname nm ts) d = true -> is_backup d = false ->
  (forall e, In e (month_names nm s i ts) -> has_prefix (n_tsname nm ts) e = true -> is_backup e = false -> e = d) ->
  prefix_search nm s i ts = Some d.
Proof.
  intros nm s i ts d I P B U.
  destruct (prefix_search_complete nm s i ts d I P B) as [x [Hx [Bx Px]]].
  rewrite Hx. f_equal. apply U; auto. apply prefix_search_In. exact Hx.
Qed.

Print Assumptions bsearch_In.
Print Assumptions prefix_search_finds.

(* the statement used by Properties.v: existence, membership and - when the day directory is the only non-backup
   entry with the prefix - identity of the result *)
Theorem prefix_search_complete_full : forall nm s i ts d,
  In d (month_names nm s i ts) -> has_prefix (n_tsname nm ts) d = true -> is_backup d = false ->
  (exists x, prefix_search nm s i ts = Some x /\ In x (month_names nm s i ts)
             /\ is_backup x = false /\ has_prefix (n_tsname nm ts) x = true)
  /\ ((forall e, In e (month_names nm s i ts) -> has_prefix (n_tsname nm ts) e = true -> is_backup e = false -> e = d)
      -> prefix_search nm s i ts = Some d).
Proof.
  intros nm s i ts d H1 H2 H3. split.
  - destruct (prefix_search_complete nm s i ts d H1 H2 H3) as [x [A [B C]]].
    exists x. split; [exact A|]. split; [eapply prefix_search_In; exact A|]. split; assumption.
  - intro U. eapply prefix_search_finds; eauto.
Qed.
