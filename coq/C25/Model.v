(* C25 model: the file-system protocol of goDB.MergeDatabases (pkg/goDB/merge.go) and the readers that
   decide what is an interface / a day (info.GetInterfaces, DBWorkManager.walkDB, listInterfaceDays),
   as they are AFTER the two C25 fix commits (stage directories are skipped by GetInterfaces and by the
   source listing, backup directories are skipped by walkDB and listInterfaceDays).
   Executable definitions only. *)
From Coq Require Import List ZArith String Ascii Bool.
From GoProbe.Base Require Import CorrLib.
Import ListNotations.
Open Scope Z_scope.

(* ------------------------------------------------------------------ strings *)

Fixpoint has_prefix (p s : string) : bool :=
  match p, s with
  | EmptyString, _ => true
  | String a p', String b s' => Ascii.eqb a b && has_prefix p' s'
  | String _ _, EmptyString => false
  end.

(* strings.Contains *)
Fixpoint contains (m s : string) : bool :=
  has_prefix m s || match s with EmptyString => false | String _ t => contains m t end.

(* strings.Split(name, "_")[0] *)
Fixpoint before_us (s : string) : string :=
  match s with
  | EmptyString => EmptyString
  | String c t => if Ascii.eqb c "_"%char then EmptyString else String c (before_us t)
  end.

Definition digit (c : ascii) : option Z :=
  let n := Z.of_nat (nat_of_ascii c) in
  if (48 <=? n) && (n <=? 57) then Some (n - 48) else None.

Fixpoint parse_digits (s : string) (acc : Z) : option Z :=
  match s with
  | EmptyString => Some acc
  | String c t => match digit c with Some d => parse_digits t (acc * 10 + d) | None => None end
  end.

(* strconv.ParseInt(s, 10, 64) / strconv.Atoi on a 64-bit platform: optional sign, at least one digit,
   digits only, range of int64 *)
Definition parse_int64 (s : string) : option Z :=
  match s with
  | EmptyString => None
  | String c t =>
    let '(neg, body) := if Ascii.eqb c "-"%char then (true, t)
                        else if Ascii.eqb c "+"%char then (false, t) else (false, s) in
    match body with
    | EmptyString => None
    | _ => match parse_digits body 0 with
           | Some v => let v' := if neg then - v else v in
                       if (- 9223372036854775808 <=? v') && (v' <=? 9223372036854775807) then Some v' else None
           | None => None
           end
    end
  end.

Definition numeric (s : string) : bool := match parse_int64 s with Some _ => true | None => false end.

(* gpfile.ExtractTimestampMetadataSuffix: the day timestamp of a day directory name *)
Definition parse_day (dn : string) : option Z := parse_int64 (before_us dn).

Definition stage_pfx : string := ".gpdb-merge-stage-".
Definition backup_infix : string := ".gpdb-merge-backup-".
(* gpfile.IsMergeStageDir / gpfile.IsMergeBackupDir (fix commits) *)
Definition is_stage (n : string) : bool := has_prefix stage_pfx n.
Definition is_backup (n : string) : bool := contains backup_infix n.

(* ------------------------------------------------------------------ file system *)

Definition path := list string.
Definition blocks := list (Z * Z).               (* (block timestamp, content id) in stored order *)
(* what a directory holds besides sub-directories: nothing, a readable set of day files, or day files
   that are partially written / partially removed *)
Inductive content := Empty | Partial | Data (bl : blocks).
Inductive node := NFile | NDir (c : content).
Definition fs := list (path * node).

Fixpoint path_eqb (p q : path) : bool :=
  match p, q with
  | [], [] => true
  | a :: p', b :: q' => String.eqb a b && path_eqb p' q'
  | _, _ => false
  end.

(* strip p k = Some r  iff  k = p ++ r *)
Fixpoint strip (p k : path) : option path :=
  match p, k with
  | [], _ => Some k
  | a :: p', b :: k' => if String.eqb a b then strip p' k' else None
  | _ :: _, [] => None
  end.

Inductive fsop :=
| Mkdir (p : path)                  (* mkdirat *)
| Fill (p : path) (c : content)     (* file-level calls inside directory p, collapsed *)
| Rename (p q : path)               (* renameat of a directory *)
| Rmdir (p : path).                 (* unlinkat(AT_REMOVEDIR) *)

Definition is_fill (o : fsop) : bool := match o with Fill _ _ => true | _ => false end.

Definition rename_entry (p q : path) (e : path * node) : path * node :=
  match strip p (fst e) with Some r => (q ++ r, snd e) | None => e end.
Definition fill_entry (p : path) (c : content) (e : path * node) : path * node :=
  if path_eqb (fst e) p then (fst e, NDir c) else e.

Definition apply (s : fs) (o : fsop) : fs :=
  match o with
  | Mkdir p => s ++ [(p, NDir Empty)]
  | Fill p c => map (fill_entry p c) s
  | Rename p q => map (rename_entry p q) s
  | Rmdir p => filter (fun e => negb (path_eqb (fst e) p)) s
  end.
Definition apply_all (s : fs) (ops : list fsop) : fs := fold_left apply ops s.

Definition has_path (s : fs) (p : path) : bool := existsb (fun e => path_eqb (fst e) p) s.

(* ------------------------------------------------------------------ readers *)

Fixpoint filter_map {A B} (f : A -> option B) (l : list A) : list B :=
  match l with [] => [] | a :: t => match f a with Some b => b :: filter_map f t | None => filter_map f t end end.

(* info.GetInterfaces (unsorted; the order is the directory order) *)
Definition iface_entry (e : path * node) : option string :=
  match e with ([n], NDir _) => if is_stage n then None else Some n | _ => None end.
Definition interfaces (s : fs) : list string := filter_map iface_entry s.

(* a day directory of interface i as both walks see it: <i>/<numeric>/<numeric>/<name>, not a backup *)
Definition day_entry (i : string) (e : path * node) : option (path * string * content) :=
  match e with
  | ([i'; y; m; dn], NDir c) =>
    if String.eqb i' i && numeric y && numeric m && negb (is_backup dn) then Some (fst e, dn, c) else None
  | _ => None
  end.
Definition day_dirs (s : fs) (i : string) : list (path * string * content) := filter_map (day_entry i) s.

Definition unparsable (d : path * string * content) : bool :=
  match parse_day (snd (fst d)) with None => true | Some _ => false end.

(* walkDB fails on a directory whose name is not a number at year or month level, or not a timestamp at day level *)
Definition walk_bad (i : string) (e : path * node) : bool :=
  match e with
  | ([i'; y], NDir _) => String.eqb i' i && negb (numeric y)
  | ([i'; y; m], NDir _) => String.eqb i' i && numeric y && negb (numeric m)
  | _ => match day_entry i e with Some d => unparsable d | None => false end
  end.
Definition walk_err (s : fs) (i : string) : bool := existsb (walk_bad i) s.

Definition ts_of (d : path * string * content) : Z := match parse_day (snd (fst d)) with Some t => t | None => 0 end.

(* the days a query over all times visits in interface i *)
Definition walk (s : fs) (i : string) : res (list (Z * string * content)) :=
  if walk_err s i then Err else Ok (map (fun d => (ts_of d, snd (fst d), snd d)) (day_dirs s i)).

(* what a query sees of day ts of interface i: the day directories it reads for it *)
Definition day_view (s : fs) (i : string) (ts : Z) : res (list (string * content)) :=
  if walk_err s i then Err
  else Ok (map (fun d => (snd (fst d), snd d)) (filter (fun d => ts_of d =? ts) (day_dirs s i))).

(* listInterfaceDays: skips non-numeric years/months, fails on an unparsable day name or a duplicate timestamp *)
Fixpoint has_dup (l : list Z) : bool :=
  match l with [] => false | a :: t => existsb (Z.eqb a) t || has_dup t end.
Definition list_days (s : fs) (i : string) : res (list (path * string * content)) :=
  let ds := day_dirs s i in
  if existsb unparsable ds then Err
  else if has_dup (map ts_of ds) then Err else Ok ds.

(* ------------------------------------------------------------------ sorting *)


Fixpoint insert_by {A} (le : A -> A -> bool) (a : A) (l : list A) : list A :=
  match l with [] => [a] | b :: t => if le a b then a :: l else b :: insert_by le a t end.
Definition sort_by {A} (le : A -> A -> bool) (l : list A) : list A := fold_right (insert_by le) [] l.

Fixpoint dedup_str (l : list string) : list string :=
  match l with [] => [] | a :: t => if existsb (String.eqb a) t then dedup_str t else a :: dedup_str t end.
Fixpoint dedup_z (l : list Z) : list Z :=
  match l with [] => [] | a :: t => if existsb (Z.eqb a) t then dedup_z t else a :: dedup_z t end.

(* ------------------------------------------------------------------ the merge *)

Record opts := mkOpts { o_ifaces : list string; o_overwrite : bool; o_dryrun : bool; o_tol : Z }.

(* names the model does not compute itself *)
Record names := mkNames {
  n_ym : Z -> string * string;                  (* year / zero-padded month directory of a day timestamp *)
  n_tsname : Z -> string;                       (* FormatInt(DirTimestamp ts): the name DirWriter creates *)
  n_rname : string -> Z -> blocks -> string;    (* the final name of a rebuilt day (suffix encodes counters) *)
  n_stage : string;                             (* os.MkdirTemp(dst, ".gpdb-merge-stage-*") *)
  n_ns : string                                 (* time.Now().UnixNano() of a commit *)
}.

(* gpfile.binarySearchPrefix as fixed (used by genWritePathForTimestamp of the DirWriter and by recoverDirPath
   of the DirReader): the entries of the month directory whose name starts with the day timestamp and is
   not a merge backup; the search returns one of them, or nothing *)
Definition prefix_entry (i y m pfx : string) (e : path * node) : option string :=
  match e with
  | ([i'; y'; m'; dn], _) =>
    if String.eqb i' i && String.eqb y' y && String.eqb m' m && has_prefix pfx dn && negb (is_backup dn)
    then Some dn else None
  | _ => None
  end.
Definition prefix_matches (nm : names) (s : fs) (i : string) (ts : Z) : list string :=
  filter_map (prefix_entry i (fst (n_ym nm ts)) (snd (n_ym nm ts)) (n_tsname nm ts)) s.

(* gpfile.binarySearchPrefix, literally: bisection over the sorted entry names of the month directory; when it
   lands on a merge backup, a scan to the left (down to low) and then to the right (up to high) over the
   adjacent names with the prefix looks for the day directory *)
Definition nthz (arr : list string) (i : Z) : string := nth (Z.to_nat i) arr EmptyString.
Fixpoint scan_left (arr : list string) (pfx : string) (n : nat) (i low : Z) : option string :=
  match n with
  | O => None
  | S n' => if low <=? i then
              let e := nthz arr i in
              if has_prefix pfx e then (if negb (is_backup e) then Some e else scan_left arr pfx n' (i - 1) low)
              else None
            else None
  end.
Fixpoint scan_right (arr : list string) (pfx : string) (n : nat) (i high : Z) : option string :=
  match n with
  | O => None
  | S n' => if i <=? high then
              let e := nthz arr i in
              if has_prefix pfx e then (if negb (is_backup e) then Some e else scan_right arr pfx n' (i + 1) high)
              else None
            else None
  end.
Fixpoint bsearch (fuel : nat) (arr : list string) (pfx : string) (low high : Z) : option string :=
  match fuel with
  | O => None
  | S f =>
    if high <? low then None else
    let mid := (low + high) / 2 in
    let e := nthz arr mid in
    if has_prefix pfx e then
      if negb (is_backup e) then Some e
      else match scan_left arr pfx (List.length arr) (mid - 1) low with
           | Some x => Some x
           | None => scan_right arr pfx (List.length arr) (mid + 1) high
           end
    else if String.ltb e pfx then bsearch f arr pfx (mid + 1) high else bsearch f arr pfx low (mid - 1)
  end.
Definition month_entry (i y m : string) (e : path * node) : option string :=
  match e with
  | ([i'; y'; m'; dn], _) => if String.eqb i' i && String.eqb y' y && String.eqb m' m then Some dn else None
  | _ => None
  end.
(* os.ReadDir of the month directory: names in byte order *)
Definition month_names (nm : names) (s : fs) (i : string) (ts : Z) : list string :=
  sort_by String.leb (filter_map (month_entry i (fst (n_ym nm ts)) (snd (n_ym nm ts))) s).
Definition prefix_search (nm : names) (s : fs) (i : string) (ts : Z) : option string :=
  let arr := month_names nm s i ts in
  bsearch (S (List.length arr)) arr (n_tsname nm ts) 0 (Z.of_nat (List.length arr) - 1).
(* the directory name a DirWriter opens (genWritePathForTimestamp) / a DirReader recovers to (recoverDirPath) *)
Definition write_target (nm : names) (s : fs) (i : string) (ts : Z) : string :=
  match prefix_search nm s i ts with Some n => n | None => n_tsname nm ts end.
Definition recover_target (nm : names) (s : fs) (i : string) (ts : Z) : string :=
  match prefix_search nm s i ts with Some n => n | None => EmptyString end.

Definition tolerance (o : opts) : Z := if o_tol o <=? 0 then 300 else o_tol o.
Definition dir_ts (ts : Z) : Z := Z.quot ts 86400 * 86400.

Fixpoint last2 (bl : blocks) : option (Z * option Z) :=    (* (last, second last) timestamps *)
  match bl with
  | [] => None
  | [a] => Some (fst a, None)
  | a :: ((_ :: _) as t) => match last2 t with
                            | Some (l, Some sl) => Some (l, Some sl)
                            | Some (l, None) => Some (l, Some (fst a))
                            | None => None
                            end
  end.

(* isDayComplete *)
Definition complete (tol ts : Z) (bl : blocks) : bool :=
  match bl, last2 bl with
  | b0 :: _, Some (l, sl) =>
    let dur := match sl with Some x => l - x | None => 300 end in
    (fst b0 <=? dir_ts ts + tol) && (dir_ts ts + 86400 - 1 - tol <=? l + dur)
  | _, _ => false
  end.

(* a Go map filled in list order: the last entry of a timestamp wins *)
Definition lookup_last (t : Z) (bl : blocks) : option Z :=
  match find (fun b => fst b =? t) (rev bl) with Some b => Some (snd b) | None => None end.

(* mergeSnapshots *)
Definition merge_blocks (ow : bool) (sb db : blocks) : blocks :=
  let tss := sort_by Z.leb (dedup_z (map fst sb ++ map fst db)) in
  filter_map (fun t =>
    match lookup_last t sb, lookup_last t db with
    | Some x, Some y => Some (t, if ow then x else y)
    | Some x, None => Some (t, x)
    | None, Some y => Some (t, y)
    | None, None => None
    end) tss.

Inductive action := ASkip | ACopy | ARebuild.

Record dplan := mkPlan {
  p_iface : string; p_ts : Z; p_act : action;
  p_srcname : string; p_srcbl : blocks;
  p_exist : option (path * blocks)       (* the destination's day directory for this timestamp *)
}.

(* planDayMerge *)
Definition plan_action (ow srcC hasDst dstC : bool) : action :=
  if negb hasDst then (if srcC then ACopy else ARebuild)
  else if srcC && dstC then (if ow then ACopy else ASkip)
  else if ow && srcC then ACopy else ARebuild.

Definition find_day (ts : Z) (ds : list (path * string * content)) : option (path * string * content) :=
  find (fun d => ts_of d =? ts) ds.

(* the days of one interface, in timestamp order; (plans, aborted) *)
Fixpoint plan_days (o : opts) (i : string) (dd : list (path * string * content))
         (sd : list (path * string * content)) : list dplan * bool :=
  match sd with
  | [] => ([], false)
  | d :: rest =>
    match snd d with
    | Data sbl =>
      let ts := ts_of d in
      let srcC := complete (tolerance o) ts sbl in
      match find_day ts dd with
      | None =>
        let pl := mkPlan i ts (plan_action (o_overwrite o) srcC false false) (snd (fst d)) sbl None in
        let '(r, ab) := plan_days o i dd rest in (pl :: r, ab)
      | Some e =>
        match snd e with
        | Data dbl =>
          let dstC := complete (tolerance o) ts dbl in
          let pl := mkPlan i ts (plan_action (o_overwrite o) srcC true dstC) (snd (fst d)) sbl
                           (Some (fst (fst e), dbl)) in
          let '(r, ab) := plan_days o i dd rest in (pl :: r, ab)
        | _ => ([], true)      (* isDayComplete(dst) cannot open the day *)
        end
      end
    | _ => ([], true)          (* isDayComplete(src) cannot open the day *)
    end
  end.

Definition le_day (a b : path * string * content) : bool := ts_of a <=? ts_of b.

Fixpoint plan_ifaces (o : opts) (dst src : fs) (is : list string) : list dplan * bool :=
  match is with
  | [] => ([], false)
  | i :: rest =>
    match list_days src i with
    | Err | Panic => ([], true)
    | Ok [] => plan_ifaces o dst src rest
    | Ok sd =>
      match list_days dst i with
      | Ok dd =>
        let '(pl, ab) := plan_days o i dd (sort_by le_day sd) in
        if ab then (pl, true) else let '(r, ab') := plan_ifaces o dst src rest in (pl ++ r, ab')
      | _ => ([], true)
      end
    end
  end.

(* listSourceInterfaces + selectInterfaces; None = "requested interface not found" *)
Definition src_ifaces (src : fs) : list string := sort_by String.leb (interfaces src).
Definition select_ifaces (avail req : list string) : option (list string) :=
  match req with
  | [] => Some avail
  | _ =>
    let req' := filter (fun r => negb (String.eqb r "")) req in
    if forallb (fun r => existsb (String.eqb r) avail) req'
    then Some (sort_by String.leb (dedup_str req')) else None
  end.

Fixpoint prefixes_from (acc p : path) : list path :=
  match p with [] => [] | a :: t => (acc ++ [a]) :: prefixes_from (acc ++ [a]) t end.
(* os.MkdirAll: one mkdir per missing ancestor *)
Definition mkdirall (s : fs) (p : path) : list fsop :=
  map Mkdir (filter (fun q => negb (has_path s q)) (prefixes_from [] p)).

Definition new_blocks (ow : bool) (pl : dplan) : blocks :=
  match p_act pl with
  | ARebuild => merge_blocks ow (p_srcbl pl) (match p_exist pl with Some (_, dbl) => dbl | None => [] end)
  | _ => p_srcbl pl
  end.
Definition new_name (nm : names) (ow : bool) (pl : dplan) : string :=
  match p_act pl with
  | ARebuild => n_rname nm (p_iface pl) (p_ts pl) (new_blocks ow pl)
  | _ => p_srcname pl
  end.

Definition backup_path (nm : names) (p : path) : path :=
  match rev p with
  | [] => p
  | dn :: r => rev r ++ [(dn ++ backup_infix ++ n_ns nm)%string]
  end.

(* stageCopyDay / rebuildDayToStage followed by commitStagedDay *)
Definition day_ops (nm : names) (ow : bool) (s : fs) (pl : dplan) : list fsop :=
  match p_act pl with
  | ASkip => []
  | act =>
    let i := p_iface pl in
    let '(y, m) := n_ym nm (p_ts pl) in
    let smonth := [n_stage nm; i; y; m] in
    let newn := new_name nm ow pl in
    let newc := Data (new_blocks ow pl) in
    let staging :=
      match act with
      | ARebuild =>
        let sd0 := smonth ++ [n_tsname nm (p_ts pl)] in
        mkdirall s sd0 ++ [Fill sd0 Partial; Fill sd0 newc; Rename sd0 (smonth ++ [newn])]
      | _ =>
        let sd := smonth ++ [newn] in
        mkdirall s sd ++ [Fill sd Partial; Fill sd newc]
      end in
    staging ++ mkdirall s [i; y; m]
    ++ match p_exist pl with
       | Some (ep, _) => [Rename ep (backup_path nm ep)]
       | None => []
       end
    ++ [Rename (smonth ++ [newn]) [i; y; m; newn]]
    ++ match p_exist pl with
       | Some (ep, _) => let bk := backup_path nm ep in [Fill bk Partial; Fill bk Empty; Rmdir bk]
       | None => []
       end
  end.

Fixpoint body_ops (nm : names) (ow : bool) (s : fs) (pls : list dplan) : list fsop :=
  match pls with
  | [] => []
  | pl :: r => let ops := day_ops nm ow s pl in ops ++ body_ops nm ow (apply_all s ops) r
  end.

Definition under (n : string) (p : path) : bool := match p with a :: _ => String.eqb a n | [] => false end.
(* deferred os.RemoveAll(stageRoot): children before parents *)
Definition cleanup_ops (nm : names) (s : fs) : list fsop :=
  map Rmdir (rev (filter (under (n_stage nm)) (map fst s))).

Definition plans (o : opts) (dst src : fs) : option (list dplan * bool) :=
  match select_ifaces (src_ifaces src) (o_ifaces o) with
  | None => None
  | Some sel => Some (plan_ifaces o dst src sel)
  end.

(* true iff MergeDatabases returns an error *)
Definition merge_fails (o : opts) (dst src : fs) : bool :=
  match plans o dst src with None => true | Some (_, ab) => ab end.

Definition merge_ops (nm : names) (dst src : fs) (o : opts) : list fsop :=
  match select_ifaces (src_ifaces src) (o_ifaces o) with
  | None | Some [] => []
  | Some sel =>
    let s1 := apply dst (Mkdir [n_stage nm]) in
    let b := if o_dryrun o then [] else body_ops nm (o_overwrite o) s1 (fst (plan_ifaces o dst src sel)) in
    Mkdir [n_stage nm] :: b ++ cleanup_ops nm (apply_all s1 b)
  end.

Definition crash_state (nm : names) (dst src : fs) (o : opts) (k : nat) : fs :=
  apply_all dst (firstn k (merge_ops nm dst src o)).
Definition final_state (nm : names) (dst src : fs) (o : opts) : fs :=
  apply_all dst (merge_ops nm dst src o).
