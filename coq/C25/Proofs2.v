(* C25 proofs, part 2: the shape of the merge's operation list and crash prefixes. *)
From Coq Require Import List ZArith String Ascii Bool Lia.
From GoProbe.Base Require Import CorrLib.
From GoProbe.C25 Require Import Model Proofs1.
Import ListNotations.
Open Scope Z_scope.

Definition names_ok (nm : names) : Prop :=
  is_stage (n_stage nm) = true
  /\ (forall ts, numeric (fst (n_ym nm ts)) = true /\ numeric (snd (n_ym nm ts)) = true)
  /\ (forall i ts bl, parse_day (n_rname nm i ts bl) = Some ts).

Definition plan_ok (pl : dplan) : Prop :=
  match p_exist pl with
  | Some (ep, _) => exists y m dn0, ep = [p_iface pl; y; m; dn0] /\ parse_day dn0 = Some (p_ts pl)
  | None => True
  end
  /\ (p_act pl <> ARebuild -> parse_day (p_srcname pl) = Some (p_ts pl)).

(* the operation that moves the existing directory of day ts of interface i aside *)
Definition rename_out_of (i : string) (ts : Z) (o : fsop) : bool :=
  match o with
  | Rename [i0; _; _; dn0] [_; _; _; dnb] =>
    String.eqb i0 i && is_backup dnb && match parse_day dn0 with Some t => t =? ts | None => false end
  | _ => false
  end.

(* the crash point between the two renames of day (i, ts) *)
Definition window_at (ops : list fsop) (i : string) (ts : Z) (k : nat) : bool :=
  match k with
  | O => false
  | S k' => match nth_error ops k' with Some o => rename_out_of i ts o | None => false end
  end.

Ltac fa tac := repeat (apply Forall_cons; [tac|]); apply Forall_nil.

Lemma stage_neq : forall nm i, is_stage (n_stage nm) = true -> is_stage i = false -> String.eqb (n_stage nm) i = false.
Proof. intros. apply String.eqb_neq. intro. subst. congruence. Qed.

Lemma quiet_mkdirall_stage : forall i ts s st a b c d, String.eqb st i = false ->
  Forall (quiet i ts) (mkdirall s [st; a; b; c; d]).
Proof.
  intros. unfold mkdirall. apply Forall_map. apply Forall_filter'. simpl.
  repeat (apply Forall_cons; [left; simpl; auto|]). apply Forall_nil.
Qed.

Lemma quiet_mkdirall_month : forall i ts s a y m, numeric y = true -> numeric m = true ->
  Forall (quiet i ts) (mkdirall s [a; y; m]).
Proof.
  intros. unfold mkdirall. apply Forall_map. apply Forall_filter'. simpl.
  repeat (apply Forall_cons; [right; simpl; auto|]). apply Forall_nil.
Qed.

Lemma new_name_parse : forall nm ow pl, names_ok nm -> plan_ok pl -> parse_day (new_name nm ow pl) = Some (p_ts pl).
Proof.
  intros nm ow pl [_ [_ N]] [_ C]. unfold new_name. destruct (p_act pl) eqn:A.
  - apply C. congruence.
  - apply C. congruence.
  - apply N.
Qed.

(* the operations of one day: quiet prefix, the one or two renames that publish it, quiet suffix *)
Lemma day_ops_shape : forall nm ow s pl i ts, names_ok nm -> plan_ok pl -> is_stage i = false ->
  exists A mid B, day_ops nm ow s pl = A ++ mid ++ B
    /\ Forall (quiet i ts) A /\ Forall (quiet i ts) B
    /\ ((p_iface pl <> i \/ p_ts pl <> ts) -> Forall (quiet i ts) mid)
    /\ (mid = [] \/ (exists x, mid = [x]) \/ (exists ro x, mid = [ro; x] /\ rename_out_of (p_iface pl) (p_ts pl) ro = true)).
Proof.
  intros nm ow s pl i ts NO PO IS.
  pose proof (new_name_parse nm ow pl NO PO) as NP.
  destruct NO as [ST [YM RN]]. destruct PO as [PE PC].
  pose proof (stage_neq nm i ST IS) as SN.
  unfold day_ops.
  destruct (p_act pl) eqn:ACT.
  - exists [], [], []. simpl. repeat split; auto.
  - (* copy *)
    destruct (n_ym nm (p_ts pl)) as [y m] eqn:YME.
    destruct (YM (p_ts pl)) as [NY NM]. rewrite YME in NY, NM. simpl in NY, NM.
    set (newn := new_name nm ow pl) in *.
    destruct (p_exist pl) as [[ep dbl]|] eqn:EX.
    + destruct PE as [y0 [m0 [dn0 [EP PD]]]]. subst ep.
      exists ((mkdirall s ([n_stage nm; p_iface pl; y; m] ++ [newn])
               ++ [Fill ([n_stage nm; p_iface pl; y; m] ++ [newn]) Partial;
                   Fill ([n_stage nm; p_iface pl; y; m] ++ [newn]) (Data (new_blocks ow pl))])
              ++ mkdirall s [p_iface pl; y; m]),
             [Rename [p_iface pl; y0; m0; dn0] (backup_path nm [p_iface pl; y0; m0; dn0]);
              Rename ([n_stage nm; p_iface pl; y; m] ++ [newn]) [p_iface pl; y; m; newn]],
             [Fill (backup_path nm [p_iface pl; y0; m0; dn0]) Partial;
              Fill (backup_path nm [p_iface pl; y0; m0; dn0]) Empty;
              Rmdir (backup_path nm [p_iface pl; y0; m0; dn0])].
      split; [simpl; rewrite <- !app_assoc; reflexivity|].
      split; [|split; [|split]].
      * apply Forall_app; split; [apply Forall_app; split|].
        -- apply quiet_mkdirall_stage; auto.
        -- fa ltac:(simpl; left; auto).
        -- apply quiet_mkdirall_month; auto.
      * simpl. fa ltac:(simpl; right; do 4 eexists; split; [reflexivity | apply is_backup_backup_name]).
      * intros D. apply Forall_cons; [|apply Forall_cons; [|apply Forall_nil]].
        -- simpl. right. left. do 6 eexists. repeat split; eauto. apply is_backup_backup_name.
        -- simpl. right. right. do 5 eexists. repeat split; eauto. discriminate.
      * right. right. do 2 eexists. split; eauto. cbn [rename_out_of backup_path rev app].
        rewrite String.eqb_refl, is_backup_backup_name, PD, Z.eqb_refl. reflexivity.
    + exists ((mkdirall s ([n_stage nm; p_iface pl; y; m] ++ [newn])
               ++ [Fill ([n_stage nm; p_iface pl; y; m] ++ [newn]) Partial;
                   Fill ([n_stage nm; p_iface pl; y; m] ++ [newn]) (Data (new_blocks ow pl))])
              ++ mkdirall s [p_iface pl; y; m]),
             [Rename ([n_stage nm; p_iface pl; y; m] ++ [newn]) [p_iface pl; y; m; newn]], [].
      split; [simpl; rewrite <- !app_assoc; reflexivity|].
      split; [|split; [|split]].
      * apply Forall_app; split; [apply Forall_app; split|].
        -- apply quiet_mkdirall_stage; auto.
        -- fa ltac:(simpl; left; auto).
        -- apply quiet_mkdirall_month; auto.
      * constructor.
      * intros D. apply Forall_cons; [|apply Forall_nil]. simpl. right. right. do 5 eexists. repeat split; eauto. discriminate.
      * right. left. eauto.
  - (* rebuild *)
    destruct (n_ym nm (p_ts pl)) as [y m] eqn:YME.
    destruct (YM (p_ts pl)) as [NY NM]. rewrite YME in NY, NM. simpl in NY, NM.
    set (newn := new_name nm ow pl) in *.
    set (sd0 := [n_stage nm; p_iface pl; y; m] ++ [n_tsname nm (p_ts pl)]).
    destruct (p_exist pl) as [[ep dbl]|] eqn:EX.
    + destruct PE as [y0 [m0 [dn0 [EP PD]]]]. subst ep.
      exists ((mkdirall s sd0 ++ [Fill sd0 Partial; Fill sd0 (Data (new_blocks ow pl));
                                   Rename sd0 ([n_stage nm; p_iface pl; y; m] ++ [newn])])
              ++ mkdirall s [p_iface pl; y; m]),
             [Rename [p_iface pl; y0; m0; dn0] (backup_path nm [p_iface pl; y0; m0; dn0]);
              Rename ([n_stage nm; p_iface pl; y; m] ++ [newn]) [p_iface pl; y; m; newn]],
             [Fill (backup_path nm [p_iface pl; y0; m0; dn0]) Partial;
              Fill (backup_path nm [p_iface pl; y0; m0; dn0]) Empty;
              Rmdir (backup_path nm [p_iface pl; y0; m0; dn0])].
      split; [simpl; rewrite <- !app_assoc; reflexivity|].
      split; [|split; [|split]].
      * apply Forall_app; split; [apply Forall_app; split|].
        -- apply quiet_mkdirall_stage; auto.
        -- apply Forall_cons; [simpl; left; auto|apply Forall_cons; [simpl; left; auto|apply Forall_cons; [|apply Forall_nil]]].
           simpl. left. repeat split; auto; discriminate.
        -- apply quiet_mkdirall_month; auto.
      * simpl. fa ltac:(simpl; right; do 4 eexists; split; [reflexivity | apply is_backup_backup_name]).
      * intros D. apply Forall_cons; [|apply Forall_cons; [|apply Forall_nil]].
        -- simpl. right. left. do 6 eexists. repeat split; eauto. apply is_backup_backup_name.
        -- simpl. right. right. do 5 eexists. repeat split; eauto. discriminate.
      * right. right. do 2 eexists. split; eauto. cbn [rename_out_of backup_path rev app].
        rewrite String.eqb_refl, is_backup_backup_name, PD, Z.eqb_refl. reflexivity.
    + exists ((mkdirall s sd0 ++ [Fill sd0 Partial; Fill sd0 (Data (new_blocks ow pl));
                                   Rename sd0 ([n_stage nm; p_iface pl; y; m] ++ [newn])])
              ++ mkdirall s [p_iface pl; y; m]),
             [Rename ([n_stage nm; p_iface pl; y; m] ++ [newn]) [p_iface pl; y; m; newn]], [].
      split; [simpl; rewrite <- !app_assoc; reflexivity|].
      split; [|split; [|split]].
      * apply Forall_app; split; [apply Forall_app; split|].
        -- apply quiet_mkdirall_stage; auto.
        -- apply Forall_cons; [simpl; left; auto|apply Forall_cons; [simpl; left; auto|apply Forall_cons; [|apply Forall_nil]]].
           simpl. left. repeat split; auto; discriminate.
        -- apply quiet_mkdirall_month; auto.
      * constructor.
      * intros D. apply Forall_cons; [|apply Forall_nil]. simpl. right. right. do 5 eexists. repeat split; eauto. discriminate.
      * right. left. eauto.
Qed.
