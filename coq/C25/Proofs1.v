(* C25 proofs, part 1: strings, paths, and the effect of single operations on what the readers see. *)
From Coq Require Import List ZArith String Ascii Bool Lia.
From GoProbe.Base Require Import CorrLib.
From GoProbe.C25 Require Import Model.
Import ListNotations.
Open Scope Z_scope.

(* ------------------------------------------------------------------ strings *)

Lemma has_prefix_app : forall m b, has_prefix m (m ++ b) = true.
Proof. induction m; simpl; intros; auto. rewrite Ascii.eqb_refl. simpl. auto. Qed.

Lemma contains_app : forall a m b, contains m (a ++ m ++ b) = true.
Proof.
  induction a; intros; simpl.
  - destruct (m ++ b)%string eqn:E.
    + unfold contains. rewrite <- E. rewrite has_prefix_app. reflexivity.
    + simpl. rewrite <- E. rewrite has_prefix_app. reflexivity.
  - rewrite IHa. apply orb_true_r.
Qed.

Lemma is_backup_backup_name : forall dn ns, is_backup (dn ++ backup_infix ++ ns) = true.
Proof. intros. apply contains_app. Qed.

(* ------------------------------------------------------------------ paths *)

Lemma path_eqb_eq : forall p q, path_eqb p q = true <-> p = q.
Proof.
  induction p; destruct q; simpl; split; intros; try congruence; auto.
  - apply andb_true_iff in H. destruct H. apply String.eqb_eq in H. apply IHp in H0. subst. auto.
  - inversion H; subst. rewrite String.eqb_refl. simpl. apply IHp. auto.
Qed.

Lemma strip_spec : forall p k r, strip p k = Some r <-> k = p ++ r.
Proof.
  induction p; simpl; intros.
  - split; congruence.
  - destruct k; simpl.
    + split; congruence.
    + destruct (String.eqb a s) eqn:E.
      * apply String.eqb_eq in E. subst. rewrite IHp. split; intros; congruence.
      * apply String.eqb_neq in E. split; intros; try congruence.
Qed.

Lemma under_app : forall i p r, p <> [] -> under i (p ++ r) = under i p.
Proof. destruct p; simpl; intros; congruence. Qed.

(* ------------------------------------------------------------------ what one entry contributes to the readers *)

Definition contrib (i : string) (ts : Z) (e : path * node) : list (path * string * content) :=
  match day_entry i e with Some d => if ts_of d =? ts then [d] else [] | None => [] end.

Definition V (s : fs) (i : string) (ts : Z) := flat_map (contrib i ts) s.

Lemma V_filter : forall s i ts, filter (fun d => ts_of d =? ts) (day_dirs s i) = V s i ts.
Proof.
  unfold V, day_dirs. induction s; simpl; intros; auto.
  unfold contrib at 1. destruct (day_entry i a); simpl.
  - destruct (ts_of p =? ts); simpl; rewrite IHs; auto.
  - auto.
Qed.

Lemma day_view_V : forall s i ts,
  day_view s i ts = if walk_err s i then Err else Ok (map (fun d => (snd (fst d), snd d)) (V s i ts)).
Proof. intros. unfold day_view. rewrite V_filter. reflexivity. Qed.

Lemma not_under_silent : forall i k n, under i k = false ->
  day_entry i (k, n) = None /\ walk_bad i (k, n) = false.
Proof.
  intros. destruct k as [|a k]; simpl in *; auto.
  destruct k as [|y [|m [|dn [|x r]]]]; destruct n; simpl; rewrite ?H; simpl; auto.
Qed.

Lemma long_silent : forall i (k : path) n, (5 <= List.length k)%nat ->
  day_entry i (k, n) = None /\ walk_bad i (k, n) = false.
Proof.
  intros. destruct k as [|a [|y [|m [|dn [|x r]]]]]; simpl in H; try lia. simpl. destruct n; auto.
Qed.

Lemma backup_silent : forall i (k : path) n a y m dn, k = [a; y; m; dn] -> is_backup dn = true ->
  day_entry i (k, n) = None /\ walk_bad i (k, n) = false.
Proof.
  intros. subst k. simpl. destruct n; auto. rewrite H0. simpl. rewrite !andb_false_r. auto.
Qed.

Definition silent (i : string) (ts : Z) (e : path * node) : Prop :=
  contrib i ts e = [] /\ walk_bad i e = false.

Lemma silent_of : forall i ts e, day_entry i e = None -> walk_bad i e = false -> silent i ts e.
Proof. intros. split; auto. unfold contrib. rewrite H. auto. Qed.

(* a day directory of another day (or of another interface) with a parsable name *)
Lemma other_day_silent : forall i ts (k : path) i0 y m dn n ts0, k = [i0; y; m; dn] ->
  parse_day dn = Some ts0 -> (i0 <> i \/ ts0 <> ts) -> silent i ts (k, n).
Proof.
  intros i ts k i0 y m dn n ts0 K H H0. unfold silent, contrib.
  assert (W : walk_bad i (k, n) = match day_entry i (k, n) with Some d => unparsable d | None => false end).
  { subst k. unfold walk_bad. destruct n; auto. }
  rewrite W. clear W.
  destruct (day_entry i (k, n)) eqn:D.
  - subst k. simpl in D. destruct n; try discriminate.
    destruct (String.eqb i0 i && numeric y && numeric m && negb (is_backup dn)) eqn:G; try discriminate.
    inversion D; subst. unfold ts_of, unparsable. cbn [fst snd]. rewrite H.
    apply andb_true_iff in G. destruct G as [G _]. apply andb_true_iff in G. destruct G as [G _].
    apply andb_true_iff in G. destruct G as [G _]. apply String.eqb_eq in G.
    destruct H0; try congruence.
    destruct (ts0 =? ts) eqn:E; auto. apply Z.eqb_eq in E. congruence.
  - auto.
Qed.

(* ------------------------------------------------------------------ quiet operations *)

Lemma S_not_under : forall i ts (k : path) n, under i k = false -> silent i ts (k, n).
Proof. intros. destruct (not_under_silent i k n H). apply silent_of; auto. Qed.
Lemma S_long : forall i ts (k : path) n, (5 <= List.length k)%nat -> silent i ts (k, n).
Proof. intros. destruct (long_silent i k n H). apply silent_of; auto. Qed.
Lemma S_backup : forall i ts (k : path) n a y m dn, k = [a; y; m; dn] -> is_backup dn = true -> silent i ts (k, n).
Proof. intros. destruct (backup_silent i k n a y m dn H H0). apply silent_of; auto. Qed.
Lemma silent_both : forall i ts e1 e2, silent i ts e1 -> silent i ts e2 ->
  contrib i ts e1 = contrib i ts e2 /\ walk_bad i e1 = walk_bad i e2.
Proof. intros i ts e1 e2 [A B] [C D]. rewrite A, B, C, D. auto. Qed.

Definition quiet (i : string) (ts : Z) (o : fsop) : Prop :=
  match o with
  | Mkdir p => under i p = false \/
               match p with
               | [_] => True
               | [_; y] => numeric y = true
               | [_; y; m] => numeric y = true /\ numeric m = true
               | _ => False
               end
  | Fill p _ | Rmdir p => under i p = false \/ exists a y m dn, p = [a; y; m; dn] /\ is_backup dn = true
  | Rename p q =>
    (p <> [] /\ q <> [] /\ under i p = false /\ under i q = false)
    \/ (exists i0 y m dn0 dnb ts0, p = [i0; y; m; dn0] /\ q = [i0; y; m; dnb] /\ is_backup dnb = true
                                   /\ parse_day dn0 = Some ts0 /\ (i0 <> i \/ ts0 <> ts))
    \/ (exists i0 y m dn ts0, p <> [] /\ under i p = false /\ q = [i0; y; m; dn]
                              /\ parse_day dn = Some ts0 /\ (i0 <> i \/ ts0 <> ts))
  end.

Lemma V_map : forall f s i ts, (forall e, contrib i ts (f e) = contrib i ts e) -> V (map f s) i ts = V s i ts.
Proof. unfold V. induction s; simpl; intros; auto. rewrite H, IHs; auto. Qed.
Lemma werr_map : forall f s i, (forall e, walk_bad i (f e) = walk_bad i e) -> walk_err (map f s) i = walk_err s i.
Proof. unfold walk_err. induction s; simpl; intros; auto. rewrite H, IHs; auto. Qed.
Lemma V_filter_out : forall g s i ts, (forall e, g e = false -> contrib i ts e = []) -> V (filter g s) i ts = V s i ts.
Proof.
  unfold V. induction s; simpl; intros; auto. destruct (g a) eqn:G; simpl; rewrite IHs; auto.
  rewrite (H _ G). auto.
Qed.
Lemma werr_filter_out : forall g s i, (forall e, g e = false -> walk_bad i e = false) ->
  walk_err (filter g s) i = walk_err s i.
Proof.
  unfold walk_err. induction s; simpl; intros; auto. destruct (g a) eqn:G; simpl; rewrite IHs; auto.
  rewrite (H _ G). auto.
Qed.

Lemma silent_short : forall i ts (p : path),
  match p with
  | [_] => True
  | [_; y] => numeric y = true
  | [_; y; m] => numeric y = true /\ numeric m = true
  | _ => False
  end -> silent i ts (p, NDir Empty).
Proof.
  intros. destruct p as [|a [|y [|m [|? ?]]]]; try contradiction; unfold silent, contrib; simpl.
  - auto.
  - rewrite H. simpl. rewrite andb_false_r. auto.
  - destruct H as [H1 H2]. rewrite H1, H2. simpl. rewrite andb_false_r. auto.
Qed.

Lemma quiet_apply : forall i ts o s, quiet i ts o ->
  V (apply s o) i ts = V s i ts /\ walk_err (apply s o) i = walk_err s i.
Proof.
  intros i ts o s Q. destruct o as [p|p c|p q|p]; simpl in *.
  - (* Mkdir *)
    assert (S : silent i ts (p, NDir Empty)).
    { destruct Q as [Q|Q]; [apply S_not_under | apply silent_short]; auto. }
    destruct S as [S1 S2]. unfold V, walk_err. rewrite flat_map_app, existsb_app.
    cbn [flat_map existsb]. rewrite S1, S2. cbn [app]. rewrite app_nil_r, !orb_false_r. auto.
  - (* Fill *)
    assert (F : forall e, contrib i ts (fill_entry p c e) = contrib i ts e
                          /\ walk_bad i (fill_entry p c e) = walk_bad i e).
    { intros [k n]. unfold fill_entry. cbn [fst snd]. destruct (path_eqb k p) eqn:K; auto.
      apply path_eqb_eq in K. subst k.
      destruct Q as [Q|[a [y [m [dn [P B]]]]]].
      - apply silent_both; apply S_not_under; auto.
      - apply silent_both; eapply S_backup; eauto. }
    split; [apply V_map | apply werr_map]; intros; apply F.
  - (* Rename *)
    assert (F : forall e, contrib i ts (rename_entry p q e) = contrib i ts e
                          /\ walk_bad i (rename_entry p q e) = walk_bad i e).
    { intros [k n]. unfold rename_entry. cbn [fst snd]. destruct (strip p k) as [r|] eqn:K; auto.
      apply strip_spec in K. subst k.
      destruct Q as [[P0 [Q0 [UP UQ]]] | [[i0 [y [m [dn0 [dnb [ts0 [P [Qe [B [PD D]]]]]]]]]] | [i0 [y [m [dn [ts0 [P0 [UP [Qe [PD D]]]]]]]]]]].
      - apply silent_both; apply S_not_under; rewrite under_app; auto.
      - destruct r as [|x r].
        + rewrite !app_nil_r. apply silent_both.
          * eapply S_backup; eauto.
          * eapply other_day_silent; eauto.
        + apply silent_both; apply S_long; [rewrite Qe | rewrite P]; simpl; lia.
      - apply silent_both.
        + destruct r as [|x r].
          * rewrite app_nil_r. eapply other_day_silent; eauto.
          * apply S_long. rewrite Qe. simpl. lia.
        + apply S_not_under. rewrite under_app; auto. }
    split; [apply V_map | apply werr_map]; intros; apply F.
  - (* Rmdir *)
    assert (F : forall e, negb (path_eqb (fst e) p) = false -> silent i ts e).
    { intros [k n] K. cbn [fst] in K. apply negb_false_iff in K. apply path_eqb_eq in K. subst k.
      destruct Q as [Q|[a [y [m [dn [P B]]]]]].
      - apply S_not_under; auto.
      - eapply S_backup; eauto. }
    split; [apply V_filter_out | apply werr_filter_out]; intros e G; apply (F e G).
Qed.

Lemma quiet_all : forall i ts ops s, Forall (quiet i ts) ops ->
  V (apply_all s ops) i ts = V s i ts /\ walk_err (apply_all s ops) i = walk_err s i.
Proof.
  induction ops; simpl; intros; auto. inversion H; subst.
  destruct (IHops (apply s a) H3) as [A B]. destruct (quiet_apply i ts a s H2) as [C D].
  rewrite A, B, C, D. auto.
Qed.

Lemma quiet_view : forall i ts ops s, Forall (quiet i ts) ops -> day_view (apply_all s ops) i ts = day_view s i ts.
Proof. intros. rewrite !day_view_V. destruct (quiet_all i ts ops s H) as [A B]. rewrite A, B. auto. Qed.

Lemma Forall_firstn : forall {A} (P : A -> Prop) n l, Forall P l -> Forall P (firstn n l).
Proof. induction n; destruct l; simpl; intros; auto. inversion H; subst. constructor; auto. Qed.
Lemma Forall_filter' : forall {A} (P : A -> Prop) f l, Forall P l -> Forall P (filter f l).
Proof. induction l; simpl; intros; auto. inversion H; subst. destruct (f a); auto. Qed.
