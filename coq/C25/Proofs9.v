(* C25 proofs, part 9: the final state of a merge holds, for every planned day, exactly the merged directory. *)
From Coq Require Import List ZArith String Ascii Bool Lia Permutation.
From GoProbe.Base Require Import CorrLib.
From GoProbe.C25 Require Import Model Proofs1 Proofs2 Proofs3 Proofs4 Proofs5 Proofs6 Proofs7 Proofs8.
Import ListNotations.
Open Scope Z_scope.

Definition names_ok2 (nm : names) : Prop :=
  names_ok nm /\ forall i ts bl, is_backup (n_rname nm i ts bl) = false.
(* os.MkdirTemp returns a directory that did not exist *)
Definition stage_free (nm : names) (s : fs) : Prop := forall e, In e s -> under (n_stage nm) (fst e) = false.

Lemma filter_find_none : forall {A} (f : A -> bool) l, find f l = None -> filter f l = [].
Proof. induction l; simpl; intros; auto. destruct (f a); [discriminate|auto]. Qed.

Lemma filter_find_unique : forall (l : list (path * string * content)) t e,
  has_dup (map ts_of l) = false -> find (fun d => ts_of d =? t) l = Some e ->
  filter (fun d => ts_of d =? t) l = [e].
Proof.
  induction l as [|a r]; simpl; intros t e HD F; [discriminate|].
  apply orb_false_iff in HD. destruct HD as [H1 H2].
  destruct (ts_of a =? t) eqn:E.
  - inversion F; subst. f_equal. apply filter_find_none.
    destruct (find (fun d => ts_of d =? t) r) eqn:F2; auto. exfalso.
    apply find_some in F2. destruct F2 as [IN E2]. apply Z.eqb_eq in E, E2.
    assert (existsb (Z.eqb (ts_of e)) (map ts_of r) = true).
    { apply existsb_exists. exists (ts_of p). split; [apply in_map; auto|]. apply Z.eqb_eq. congruence. }
    congruence.
  - apply IHr; auto.
Qed.

Lemma plan_days_good : forall nm o s i dd sd, names_ok2 nm -> is_stage i = false ->
  dd = day_dirs s i -> has_dup (map ts_of dd) = false ->
  (forall d, In d sd -> is_backup (snd (fst d)) = false) ->
  Forall (fun pl => is_stage (p_iface pl) = false /\ is_backup (new_name nm (o_overwrite o) pl) = false /\ exist_ok s pl)
         (fst (plan_days o i dd sd)).
Proof.
  intros nm o s i dd sd [NO RB] IS DD HD. induction sd as [|d rest]; intros NBK; simpl; [constructor|].
  specialize (IHrest (fun x IN => NBK x (or_intror IN))).
  pose proof (NBK d (or_introl eq_refl)) as NBd.
  destruct (snd d) as [| |sbl] eqn:SD; simpl; try constructor.
  destruct (find_day (ts_of d) dd) as [e|] eqn:FD.
  - destruct (snd e) as [| |dbl] eqn:SE; simpl; try constructor.
    destruct (plan_days o i dd rest) as [r ab] eqn:R. simpl in *. constructor; auto.
    split; [auto|]. split.
    + unfold new_name. cbn [p_act p_srcname p_iface p_ts]. destruct (plan_action _ _ _ _); auto.
    + unfold exist_ok. simpl. unfold find_day in FD.
      rewrite <- V_filter, <- DD. rewrite (filter_find_unique dd (ts_of d) e HD FD).
      destruct e as [[p n] cnt]. simpl in *. subst cnt. eauto.
  - destruct (plan_days o i dd rest) as [r ab] eqn:R. simpl in *. constructor; auto.
    split; [auto|]. split.
    + unfold new_name. cbn [p_act p_srcname p_iface p_ts]. destruct (plan_action _ _ _ _); auto.
    + unfold exist_ok. simpl. rewrite <- V_filter, <- DD. apply filter_find_none. exact FD.
Qed.

Lemma Forall_and : forall {A} (P Q : A -> Prop) l, Forall P l -> Forall Q l -> Forall (fun x => P x /\ Q x) l.
Proof. induction l; intros; constructor; inversion H; inversion H0; subst; auto. Qed.

Local Opaque sort_by.
Lemma plan_ifaces_good : forall nm o dst src is, names_ok2 nm -> (forall i, In i is -> is_stage i = false) ->
  Forall (fun pl => is_stage (p_iface pl) = false /\ is_backup (new_name nm (o_overwrite o) pl) = false /\ exist_ok dst pl)
         (fst (plan_ifaces o dst src is)).
Proof.
  induction is as [|i rest]; intros NO NS; simpl; [constructor|].
  specialize (IHrest NO (fun x IN => NS x (or_intror IN))).
  destruct (list_days src i) as [sd| |] eqn:LS; simpl; try constructor.
  destruct sd as [|d0 sd']; [exact IHrest|].
  destruct (list_days dst i) as [dd| |] eqn:LD; simpl; try constructor.
  destruct (list_days_ok _ _ _ LD) as [DD [_ HD]].
  assert (NBK : forall d, In d (sort_by le_day (d0 :: sd')) -> is_backup (snd (fst d)) = false).
  { intros d IN. apply (Permutation_in _ (sort_by_perm le_day _)) in IN.
    apply (list_days_not_backup src i (d0 :: sd') d LS IN). }
  pose proof (plan_days_good nm o dst i dd (sort_by le_day (d0 :: sd')) NO (NS i (or_introl eq_refl)) DD HD NBK) as G.
  destruct (plan_days o i dd (sort_by le_day (d0 :: sd'))) as [pl ab]. simpl in *.
  destruct ab; simpl; auto.
  destruct (plan_ifaces o dst src rest) as [r ab']. simpl in *. apply Forall_app. auto.
Qed.
Local Transparent sort_by.

(* FINAL VIEW: after the merge, the day directories of a planned day that the walks see are exactly the
   one merged directory; the stage is shallow again *)
Theorem final_planned : forall nm dst src o sel pl, names_ok2 nm -> stage_free nm dst -> NoDup (interfaces src) ->
  o_dryrun o = false -> select_ifaces (src_ifaces src) (o_ifaces o) = Some sel ->
  In pl (fst (plan_ifaces o dst src sel)) -> p_act pl <> ASkip ->
  filter (fun d => ts_of d =? p_ts pl) (day_dirs (final_state nm dst src o) (p_iface pl))
  = [new_entry nm (o_overwrite o) pl].
Proof.
  intros nm dst src o sel pl NO2 SF ND DRY SEL IN ACT. rewrite V_filter.
  pose proof NO2 as [NO RB]. unfold final_state, merge_ops. rewrite SEL.
  destruct sel as [|i0 sel']; [simpl in IN; contradiction|]. rewrite DRY.
  set (pls := fst (plan_ifaces o dst src (i0 :: sel'))) in *.
  set (s1 := apply dst (Mkdir [n_stage nm])).
  assert (NS : forall i, In i (i0 :: sel') -> is_stage i = false) by (intros; eapply select_not_stage; eauto).
  destruct (plan_ifaces_ok o dst src (i0 :: sel')) as [PO [NDK _]].
  { apply (select_nodup (src_ifaces src) (o_ifaces o) (i0 :: sel')); [|exact SEL]. unfold src_ifaces.
    eapply Permutation_NoDup; [apply Permutation_sym; apply sort_by_perm|]. exact ND. }
  pose proof (plan_ifaces_good nm o dst src (i0 :: sel') NO2 NS) as G. fold pls in PO, NDK, G.
  assert (Q1 : forall i ts, is_stage i = false -> V s1 i ts = V dst i ts).
  { intros. unfold s1. apply (quiet_apply i ts (Mkdir [n_stage nm]) dst). simpl. left.
    apply stage_neq; auto. apply NO. }
  assert (SH1 : shallow (n_stage nm) s1).
  { unfold s1. simpl. intros e INe U. apply in_app_or in INe. destruct INe as [I|[I|[]]].
    - rewrite (SF e I) in U. discriminate.
    - subst e. simpl. lia. }
  assert (GF : Forall (plan_good nm (o_overwrite o) s1) pls).
  { apply Forall_forall. intros x INx. rewrite Forall_forall in PO, G. destruct (G x INx) as [G1 [G2 G3]].
    split; [apply PO; auto|]. split; auto. split; auto. unfold exist_ok in *. rewrite Q1; auto. }
  destruct (body_final nm (o_overwrite o) pls s1 NO SH1 NDK GF) as [BV _].
  change (Mkdir [n_stage nm] :: ?b ++ ?c) with ([Mkdir [n_stage nm]] ++ b ++ c).
  rewrite !apply_all_app. change (apply_all dst [Mkdir [n_stage nm]]) with s1.
  rewrite <- (BV pl IN ACT). apply quiet_all. apply cleanup_quiet.
  apply stage_neq; [apply NO|]. rewrite Forall_forall in G. destruct (G pl IN). auto.
Qed.

(* the plan the model builds for a day computes day_after of the destination day it found *)
Lemma plan_day_after : forall nm o i ts sname sbl (e : option (path * string * blocks)),
  let ow := o_overwrite o in
  let ex := match e with Some (p, _, dbl) => Some (p, dbl) | None => None end in
  let dstC := match e with Some (_, _, dbl) => complete (tolerance o) ts dbl | None => false end in
  let hasDst := match e with Some _ => true | None => false end in
  let pl := mkPlan i ts (plan_action ow (complete (tolerance o) ts sbl) hasDst dstC) sname sbl ex in
  match p_act pl with
  | ASkip => match e with Some (_, n, dbl) => Some (n, dbl) | None => None end
  | _ => Some (new_name nm ow pl, new_blocks ow pl)
  end
  = day_after o ts sname sbl (n_rname nm i ts) (match e with Some (_, n, dbl) => Some (n, dbl) | None => None end).
Proof.
  intros. subst pl ex dstC hasDst ow. destruct e as [[[p n] dbl]|]; unfold day_after, new_name, new_blocks, plan_action; cbn;
    destruct (complete (tolerance o) ts sbl), (o_overwrite o); cbn; try reflexivity;
    destruct (complete (tolerance o) ts dbl); reflexivity.
Qed.
