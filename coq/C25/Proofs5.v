(* C25 proofs, part 5: the plans the model works through are well formed (plans_wf discharged). *)
From Coq Require Import List ZArith String Ascii Bool Lia Permutation.
From GoProbe.Base Require Import CorrLib.
From GoProbe.C25 Require Import Model Proofs1 Proofs2 Proofs3.
Import ListNotations.
Open Scope Z_scope.

(* ---- sorting is a permutation *)
Lemma insert_by_perm : forall {A} (le : A -> A -> bool) a l, Permutation (insert_by le a l) (a :: l).
Proof.
  induction l; simpl; auto. destruct (le a a0); auto.
  eapply perm_trans; [apply perm_skip; apply IHl | apply perm_swap].
Qed.
Lemma sort_by_perm : forall {A} (le : A -> A -> bool) l, Permutation (sort_by le l) l.
Proof.
  unfold sort_by. induction l; simpl; auto.
  eapply perm_trans; [apply insert_by_perm | apply perm_skip; auto].
Qed.

Lemma has_dup_nodup : forall l, has_dup l = false -> NoDup l.
Proof.
  induction l; simpl; intros; constructor.
  - apply orb_false_iff in H. destruct H as [H _]. intro IN.
    assert (existsb (Z.eqb a) l = true). { apply existsb_exists. exists a. split; auto. apply Z.eqb_refl. }
    congruence.
  - apply IHl. apply orb_false_iff in H. tauto.
Qed.

Lemma dedup_str_in : forall l x, In x (dedup_str l) -> In x l.
Proof.
  induction l; simpl; intros; auto. destruct (existsb (String.eqb a) l); simpl in *; auto.
  destruct H; auto.
Qed.
Lemma dedup_str_nodup : forall l, NoDup (dedup_str l).
Proof.
  induction l; simpl; [constructor|]. destruct (existsb (String.eqb a) l) eqn:E; auto.
  constructor; auto. intro IN. apply dedup_str_in in IN.
  assert (existsb (String.eqb a) l = true). { apply existsb_exists. exists a. split; auto. apply String.eqb_refl. }
  congruence.
Qed.

Lemma nodup_app : forall {A} (a b : list A), NoDup a -> NoDup b -> (forall x, In x a -> ~ In x b) -> NoDup (a ++ b).
Proof.
  induction a; simpl; intros; auto. inversion H; subst. constructor.
  - intro IN. apply in_app_or in IN. destruct IN; auto. apply (H1 a); auto.
  - apply IHa; auto.
Qed.

(* ---- day listings *)
Lemma day_dirs_shape : forall s i d, In d (day_dirs s i) ->
  exists y m dn c, d = ([i; y; m; dn], dn, c).
Proof.
  unfold day_dirs. induction s as [|[k nd] s]; intros i d H; [contradiction|].
  destruct k as [|a [|y [|m [|dn [|? ?]]]]]; simpl in H; eauto.
  destruct nd; eauto.
  destruct (String.eqb a i && numeric y && numeric m && negb (is_backup dn)) eqn:E; eauto.
  destruct H; eauto. subst d. simpl.
  apply andb_true_iff in E. destruct E as [E _]. apply andb_true_iff in E. destruct E as [E _].
  apply andb_true_iff in E. destruct E as [E _]. apply String.eqb_eq in E. subst a. eauto.
Qed.

Lemma list_days_ok : forall s i ds, list_days s i = Ok ds ->
  ds = day_dirs s i /\ existsb unparsable ds = false /\ has_dup (map ts_of ds) = false.
Proof.
  unfold list_days. intros. destruct (existsb unparsable (day_dirs s i)) eqn:U; try discriminate.
  destruct (has_dup (map ts_of (day_dirs s i))) eqn:D; try discriminate. inversion H; subst. auto.
Qed.

Lemma parsable : forall d, unparsable d = false -> parse_day (snd (fst d)) = Some (ts_of d).
Proof. unfold unparsable, ts_of. intros. destruct (parse_day (snd (fst d))); congruence. Qed.

Lemma existsb_false_in : forall {A} (f : A -> bool) l x, existsb f l = false -> In x l -> f x = false.
Proof.
  intros. destruct (f x) eqn:E; auto.
  assert (existsb f l = true) by (apply existsb_exists; eauto). congruence.
Qed.

Lemma find_day_spec : forall ts dd e, find_day ts dd = Some e -> In e dd /\ ts_of e = ts.
Proof. unfold find_day. intros. apply find_some in H. destruct H. apply Z.eqb_eq in H0. auto. Qed.

(* what we know of a listed day *)
Definition good_day (i : string) (d : path * string * content) : Prop :=
  (exists y m dn, fst (fst d) = [i; y; m; dn] /\ snd (fst d) = dn) /\ parse_day (snd (fst d)) = Some (ts_of d).

Lemma list_days_good : forall s i ds d, list_days s i = Ok ds -> In d ds -> good_day i d.
Proof.
  intros. destruct (list_days_ok s i ds H) as [E [U _]]. split.
  - subst ds. destruct (day_dirs_shape s i d H0) as [y [m [dn [c D]]]]. subst d. simpl. eauto.
  - apply parsable. eapply existsb_false_in; eauto.
Qed.

Lemma plan_days_ok : forall o i dd sd,
  (forall d, In d sd -> good_day i d) -> (forall e, In e dd -> good_day i e) ->
  Forall plan_ok (fst (plan_days o i dd sd))
  /\ (forall pl, In pl (fst (plan_days o i dd sd)) -> p_iface pl = i /\ In (p_ts pl) (map ts_of sd)).
Proof.
  induction sd as [|d rest]; intros GS GD; simpl.
  - split; [constructor|intros ? []].
  - destruct (IHrest (fun x IN => GS x (or_intror IN)) GD) as [IH1 IH2].
    destruct (GS d (or_introl eq_refl)) as [_ PD].
    destruct (snd d) as [| |sbl] eqn:SD; simpl; try (split; [constructor|intros ? []]).
    destruct (find_day (ts_of d) dd) as [e|] eqn:FD.
    + destruct (find_day_spec _ _ _ FD) as [INe TSe].
      destruct (GD e INe) as [[y [m [dn [PE NE]]]] PDe].
      destruct (snd e) as [| |dbl] eqn:SE; simpl; try (split; [constructor|intros ? []]).
      destruct (plan_days o i dd rest) as [r ab] eqn:R. simpl in *. split.
      * constructor; auto. split; simpl.
        -- exists y, m, dn. rewrite PE. split; auto. rewrite <- NE, PDe, TSe. auto.
        -- intros _. auto.
      * intros pl [E|IN]; [subst pl; simpl; auto|]. destruct (IH2 pl IN). auto.
    + destruct (plan_days o i dd rest) as [r ab] eqn:R. simpl in *. split.
      * constructor; auto. split; simpl; auto.
      * intros pl [E|IN]; [subst pl; simpl; auto|]. destruct (IH2 pl IN). auto.
Qed.

Lemma plan_days_nodup : forall o i dd sd, NoDup (map ts_of sd) ->
  (forall d, In d sd -> good_day i d) -> (forall e, In e dd -> good_day i e) ->
  NoDup (map key (fst (plan_days o i dd sd))).
Proof.
  induction sd as [|d rest]; intros ND GS GD; simpl; [constructor|].
  inversion ND; subst.
  pose proof (IHrest H2 (fun x IN => GS x (or_intror IN)) GD) as IH.
  destruct (plan_days_ok o i dd rest (fun x IN => GS x (or_intror IN)) GD) as [_ K].
  destruct (snd d) as [| |sbl]; simpl; try constructor.
  assert (HD : forall pl0, p_ts pl0 = ts_of d ->
            NoDup (map key (pl0 :: fst (plan_days o i dd rest)))).
  { intros pl0 E. simpl. constructor; auto. intro IN. apply in_map_iff in IN.
    destruct IN as [pl [KE IN]]. destruct (K pl IN) as [_ T]. unfold key in KE. inversion KE.
    apply H1. rewrite <- E, <- H3. auto. }
  destruct (find_day (ts_of d) dd) as [e|].
  + destruct (snd e) as [| |dbl]; simpl; try constructor.
    destruct (plan_days o i dd rest) as [r ab]. simpl in *. apply (HD (mkPlan i (ts_of d) _ _ _ _)). auto.
  + destruct (plan_days o i dd rest) as [r ab]. simpl in *. apply (HD (mkPlan i (ts_of d) _ _ _ _)). auto.
Qed.

Local Opaque sort_by.
Lemma plan_ifaces_ok : forall o dst src is, NoDup is ->
  Forall plan_ok (fst (plan_ifaces o dst src is))
  /\ NoDup (map key (fst (plan_ifaces o dst src is)))
  /\ (forall pl, In pl (fst (plan_ifaces o dst src is)) -> In (p_iface pl) is).
Proof.
  induction is as [|i rest]; intros ND; simpl.
  - split; [constructor|split; [constructor|intros ? []]].
  - inversion ND; subst. destruct (IHrest H2) as [I1 [I2 I3]].
    destruct (list_days src i) as [sd| |] eqn:LS; simpl; try (split; [constructor|split; [constructor|intros ? []]]).
    destruct sd as [|d0 sd'].
    { split; [exact I1|]. split; [exact I2|]. intros. right. auto. }
    destruct (list_days dst i) as [dd| |] eqn:LD; simpl; try (split; [constructor|split; [constructor|intros ? []]]).
    set (sd := d0 :: sd') in *.
    assert (GS : forall d, In d (sort_by le_day sd) -> good_day i d).
    { intros d IN. apply (list_days_good src i sd d LS). eapply Permutation_in; [apply sort_by_perm | exact IN]. }
    assert (GD : forall e, In e dd -> good_day i e) by (intros e IN; apply (list_days_good dst i dd e LD IN)).
    assert (NS : NoDup (map ts_of (sort_by le_day sd))).
    { eapply Permutation_NoDup; [apply Permutation_map; apply Permutation_sym; apply sort_by_perm|].
      apply has_dup_nodup. destruct (list_days_ok _ _ _ LS) as [_ [_ D]]. auto. }
    destruct (plan_days_ok o i dd (sort_by le_day sd) GS GD) as [P1 P2].
    pose proof (plan_days_nodup o i dd (sort_by le_day sd) NS GS GD) as P3.
    destruct (plan_days o i dd (sort_by le_day sd)) as [pl ab] eqn:PDs. simpl in *.
    destruct ab; simpl.
    + split; [exact P1|]. split; [exact P3|]. intros p IN. left. destruct (P2 p IN) as [E _]. auto.
    + destruct (plan_ifaces o dst src rest) as [r ab'] eqn:PR. simpl in *. split; [|split].
      * apply Forall_app; auto.
      * rewrite map_app. apply nodup_app; auto.
        intros k IN1 IN2. apply in_map_iff in IN1. destruct IN1 as [p1 [K1 IN1]].
        apply in_map_iff in IN2. destruct IN2 as [p2 [K2 IN2]].
        destruct (P2 p1 IN1) as [E1 _]. pose proof (I3 p2 IN2) as E2.
        unfold key in *. subst k. injection K2 as EI ET. rewrite EI, E1 in E2. auto.
      * intros p IN. apply in_app_or in IN. destruct IN as [IN|IN].
        -- left. destruct (P2 p IN). auto.
        -- right. auto.
Qed.

Local Transparent sort_by.
Lemma select_nodup : forall avail req sel, NoDup avail -> select_ifaces avail req = Some sel -> NoDup sel.
Proof.
  unfold select_ifaces. intros. destruct req.
  - inversion H0; subst. auto.
  - destruct (forallb _ _); inversion H0; subst.
    eapply Permutation_NoDup; [apply Permutation_sym; apply sort_by_perm|]. apply dedup_str_nodup.
Qed.

(* the source root, like any directory, has no two entries of the same name *)
Theorem plans_wf_holds : forall o dst src, NoDup (interfaces src) -> plans_wf o dst src.
Proof.
  intros. unfold plans_wf. destruct (select_ifaces (src_ifaces src) (o_ifaces o)) as [sel|] eqn:S; auto.
  assert (NoDup sel).
  { apply (select_nodup (src_ifaces src) (o_ifaces o) sel); [|exact S]. unfold src_ifaces.
    eapply Permutation_NoDup; [apply Permutation_sym; apply sort_by_perm|]. exact H. }
  destruct (plan_ifaces_ok o dst src sel H0) as [A [B _]]. auto.
Qed.
