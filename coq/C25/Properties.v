(* C25 property theorems. Nothing but statements closed by `exact`, Print Assumptions and non-vacuity examples. *)
From Coq Require Import List ZArith String Bool.
From GoProbe.Base Require Import CorrLib.
From GoProbe.C25 Require Import Model Proofs1 Proofs2 Proofs3 Proofs4 Proofs5 Proofs6 Proofs7 Proofs8 Proofs9 Proofs10 Proofs11 Proofs12.
Import ListNotations.
Open Scope Z_scope.

(* FULL STATEMENT (not provable for the code as it is, see c25_old_or_new_refuted / finding C25-rename-window):
     forall nm dst src o i ts k, names_ok nm -> is_stage i = false -> NoDup (interfaces src) ->
       day_view (crash_state nm dst src o k) i ts = day_view dst i ts
       \/ day_view (crash_state nm dst src o k) i ts = day_view (final_state nm dst src o) i ts.
   Proved: the same for every crash prefix k except the one that ends with the rename that moves the existing
   directory of exactly this day (i, ts) aside (window_at = the kill lands between the two renames of
   commitStagedDay). For every destination / source file system, all options, all names; the only hypothesis
   on the databases is that the source root has no two directory entries of the same name. *)
Theorem c25_old_or_new_partial : forall nm dst src o i ts k,
  names_ok nm -> is_stage i = false -> NoDup (interfaces src) ->
  window_at (merge_ops nm dst src o) i ts k = false ->
  day_view (crash_state nm dst src o k) i ts = day_view dst i ts
  \/ day_view (crash_state nm dst src o k) i ts = day_view (final_state nm dst src o) i ts.
Proof. exact old_or_new_partial'. Qed.
Print Assumptions c25_old_or_new_partial.

(* the excluded crash point is a real violation: the day shows neither copy *)
Theorem c25_old_or_new_refuted :
  exists nm dst src o i ts k,
    is_stage (n_stage nm) = true /\ is_stage i = false /\ NoDup (interfaces src)
    /\ window_at (merge_ops nm dst src o) i ts k = true
    /\ day_view (crash_state nm dst src o k) i ts <> day_view dst i ts
    /\ day_view (crash_state nm dst src o k) i ts <> day_view (final_state nm dst src o) i ts.
Proof.
  exists ex_names, ex_dst, ex_src, ex_opts, "eth0"%string, 1704844800, 8%nat.
  destruct window_refutes as [A [B [C [D [E [F G]]]]]].
  split; [exact A|]. split; [exact B|]. split; [vm_compute; repeat constructor; intros []|]. split; [exact D|].
  split; rewrite G; [rewrite E | rewrite F]; discriminate.
Qed.
Print Assumptions c25_old_or_new_refuted.

(* stage and backup directories are never returned as interfaces or days by the interface listing, the
   query walk, the merge's own listing, or the prefix search by which a DirWriter picks the directory it
   appends to and a DirReader recovers a renamed directory - in every crash state; a later merge plans
   exactly as if they were not there; and the paths the merge creates for them are such leftovers *)
Theorem c25_leftovers_invisible : forall nm dst src o k, is_stage (n_stage nm) = true ->
  let s := crash_state nm dst src o k in
  ~ In (n_stage nm) (interfaces s)
  /\ (forall n, In n (interfaces s) -> is_stage n = false)
  /\ (forall i ds t n c, walk s i = Ok ds -> In (t, n, c) ds -> is_backup n = false)
  /\ (forall i ds d, list_days s i = Ok ds -> In d ds -> is_backup (snd (fst d)) = false)
  /\ (forall nm' i ts dn, In dn (prefix_matches nm' s i ts) -> is_backup dn = false)
  (* the literal bisection + scans of binarySearchPrefix (prefix_search) returns only non-backup names with the
     prefix (soundness); that it FINDS a day directory whenever one exists, wherever leftovers sort, is
     c25_prefix_search_complete below. *)
  /\ (forall nm' i ts x, prefix_search nm' s i ts = Some x -> is_backup x = false /\ has_prefix (n_tsname nm' ts) x = true)
  /\ (forall o', plans o' (strip_leftovers s) src = plans o' s src)
  /\ (forall a y m dn, exists dnb, backup_path nm [a; y; m; dn] = [a; y; m; dnb] /\ is_backup dnb = true
                                   /\ leftover (backup_path nm [a; y; m; dn], NDir Empty) = true)
  /\ (forall r n, leftover (n_stage nm :: r, n) = true).
Proof. exact leftovers_invisible''. Qed.
Print Assumptions c25_leftovers_invisible.

(* completeness of the literal prefix search (gpfile.binarySearchPrefix: bisection over the byte-ordered listing
   of the month directory, then a scan to the left and a scan to the right over adjacent names with the prefix
   when the bisection lands on a merge backup): in EVERY file-system state - hence in every crash state of a
   merge, whatever backups and stage leftovers exist and wherever they sort - if the month directory lists a
   non-backup entry carrying the day's prefix, the search returns a non-backup entry carrying the prefix; a
   DirWriter therefore appends to, and a DirReader recovers to, a real day directory and never misses it because
   of a leftover. Rests on: sort_by String.leb yields a sorted listing (sort_by_sorted), names with a common
   prefix are contiguous in byte order (prefix_between), and the bisection keeps every prefixed index inside
   [low, high] (bsearch_complete_gen). *)
Theorem c25_prefix_search_complete : forall nm s i ts d,
  In d (month_names nm s i ts) -> has_prefix (n_tsname nm ts) d = true -> is_backup d = false ->
  (exists x, prefix_search nm s i ts = Some x /\ In x (month_names nm s i ts)
             /\ is_backup x = false /\ has_prefix (n_tsname nm ts) x = true)
  (* and it is THE day directory when that is the only non-backup entry with the prefix (one directory per day) *)
  /\ ((forall e, In e (month_names nm s i ts) -> has_prefix (n_tsname nm ts) e = true -> is_backup e = false -> e = d)
      -> prefix_search nm s i ts = Some d).
Proof. exact prefix_search_complete_full. Qed.
Print Assumptions c25_prefix_search_complete.

(* non-vacuity: at crash point 9 of the example merge the month directory lists the backup BEFORE the day
   directory (the bisection lands on the backup, the scan to the right finds the day) *)
Example c25_prefix_search_example :
  let s := crash_state ex_names ex_dst ex_src ex_opts 9 in
  month_names ex_names s "eth0" 1704844800 = ["1704844800_a.gpdb-merge-backup-7"; "1704844800_b"]%string
  /\ has_prefix (n_tsname ex_names 1704844800) "1704844800_b" = true /\ is_backup "1704844800_b" = false
  /\ prefix_search ex_names s "eth0" 1704844800 = Some "1704844800_b"%string.
Proof. repeat split; vm_compute; reflexivity. Qed.

(* "never both, never neither" for the completed merge: for every plan the merge executes (every non-skipped
   day of every selected interface), the day directories of that day which the query walk and the merge listing
   see in the final state are EXACTLY ONE: the directory named new_name holding new_blocks (the source day for a
   copy, mergeSnapshots(source, destination day) for a rebuild). For all names, trees and options; the stage
   name is fresh (MkdirTemp) and the source root has no duplicate entry names. *)
Theorem c25_final_view : forall nm dst src o sel pl, names_ok2 nm -> stage_free nm dst -> NoDup (interfaces src) ->
  o_dryrun o = false -> select_ifaces (src_ifaces src) (o_ifaces o) = Some sel ->
  In pl (fst (plan_ifaces o dst src sel)) -> p_act pl <> ASkip ->
  filter (fun d => ts_of d =? p_ts pl) (day_dirs (final_state nm dst src o) (p_iface pl))
  = [([p_iface pl; fst (n_ym nm (p_ts pl)); snd (n_ym nm (p_ts pl)); new_name nm (o_overwrite o) pl],
      new_name nm (o_overwrite o) pl, Data (new_blocks (o_overwrite o) pl))].
Proof. exact final_planned. Qed.
Print Assumptions c25_final_view.

(* c25_later_merge, DAY LEVEL (partial): the step the merge performs on one day - isDayComplete of both sides,
   planDayMerge, copy or mergeSnapshots - as a function day_after of the destination day (None = absent) is a
   fixed point after one application, mergeSnapshots absorbs, and the plan record the model builds for a day
   computes exactly day_after of the day directory it found. So whichever of its two possible states
   (c25_old_or_new_partial) a day of a crashed tree is in - old d or merged day_after d - running the day's
   step again yields the merged day day_after d, which by c25_final_view is what the directory then holds. *)
Theorem c25_later_merge_day_partial :
  (forall o ts sname sbl rn d,
     day_after o ts sname sbl rn (day_after o ts sname sbl rn d) = day_after o ts sname sbl rn d)
  /\ (forall ow sb db, merge_blocks ow sb (merge_blocks ow sb db) = merge_blocks ow sb db)
  /\ (forall nm o i ts sname sbl (e : option (path * string * blocks)),
        let ow := o_overwrite o in
        let ex := match e with Some (p, _, dbl) => Some (p, dbl) | None => None end in
        let dstC := match e with Some (_, _, dbl) => complete (tolerance o) ts dbl | None => false end in
        let hasDst := match e with Some _ => true | None => false end in
        let pl := mkPlan i ts (plan_action ow (complete (tolerance o) ts sbl) hasDst dstC) sname sbl ex in
        match p_act pl with
        | ASkip => match e with Some (_, n, dbl) => Some (n, dbl) | None => None end
        | _ => Some (new_name nm ow pl, new_blocks ow pl)
        end
        = day_after o ts sname sbl (n_rname nm i ts)
                    (match e with Some (_, n, dbl) => Some (n, dbl) | None => None end)).
Proof. exact (conj day_after_fixed (conj merge_blocks_absorb plan_day_after)). Qed.
Print Assumptions c25_later_merge_day_partial.

(* FULL STATEMENT c25_later_merge, NOT proved as one theorem (checked at every crash point of every run): from
   every crash prefix k outside the window a later merge completes and
     day_view (final_state nm2 (crash_state nm dst src o k) src o) i ts = day_view (final_state nm dst src o) i ts.
   Proved parts: c25_old_or_new_partial (each day of the crashed tree is old or merged), c25_final_view (a merge
   from ANY tree with a fresh stage name leaves exactly the planned directory), c25_later_merge_day_partial (the
   day step is a fixed point and the plan computes it), c25_leftovers_invisible (planning ignores leftovers).
   Missing glue: that plan_days on the crashed tree finds, for every source day, the head of that day's view and
   does not abort (list-level re-planning lemma). Inside the window it does not hold: the later merge rebuilds the
   day from the source alone and the destination-only block (1704845100, 1) stays hidden in the backup. *)
Theorem c25_later_merge_window_refuted :
  exists nm nm2 dst src o i ts k,
    window_at (merge_ops nm dst src o) i ts k = true
    /\ merge_fails o (crash_state nm dst src o k) src = false
    /\ day_view (final_state nm2 (crash_state nm dst src o k) src o) i ts
       <> day_view (final_state nm dst src o) i ts.
Proof.
  exists ex_names, ex2_names2, ex2_dst, ex2_src, ex2_opts, "eth0"%string, 1704844800, 9%nat.
  destruct window_later_merge as [A [B [C D]]].
  split; [exact A|]. split; [exact B|]. rewrite C, D. discriminate.
Qed.
Print Assumptions c25_later_merge_window_refuted.

(* non-vacuity: the hypotheses of the partial theorem are met by a merge that replaces an existing day, at a
   crash point after the staged day was moved in while the backup still exists (k = 9), and the day then
   shows its merged data *)
Example c25_partial_example :
  is_stage "eth0" = false /\ NoDup (interfaces ex_src)
  /\ window_at (merge_ops ex_names ex_dst ex_src ex_opts) "eth0" 1704844800 9 = false
  /\ day_view (crash_state ex_names ex_dst ex_src ex_opts 9) "eth0" 1704844800
     = day_view (final_state ex_names ex_dst ex_src ex_opts) "eth0" 1704844800
  /\ has_path (crash_state ex_names ex_dst ex_src ex_opts 9)
       ["eth0"; "2024"; "01"; "1704844800_a.gpdb-merge-backup-7"]%string = true
  /\ interfaces (crash_state ex_names ex_dst ex_src ex_opts 9) = ["eth0"%string].
Proof.
  destruct window_refutes as [A [B [C _]]].
  split; [exact B|]. split; [vm_compute; repeat constructor; intros []|]. split; [vm_compute; reflexivity|]. split; [vm_compute; reflexivity|].
  split; vm_compute; reflexivity.
Qed.

(* non-vacuity of c25_final_view and of the day-level fixed point: the copy example's plan, and a rebuild *)
Example c25_final_view_example :
  filter (fun d => ts_of d =? 1704844800) (day_dirs (final_state ex_names ex_dst ex_src ex_opts) "eth0")
  = [(["eth0"; "2024"; "01"; "1704844800_b"]%string, "1704844800_b"%string, Data [(1704845100, 3); (1704931200, 4)])]
  /\ day_after ex2_opts 1704844800 "1704844800_b" [(1704845400, 3); (1704888000, 4)] (fun _ => "r"%string)
       (Some ("1704844800_a"%string, [(1704845100, 1); (1704845400, 2)]))
     = Some ("r"%string, [(1704845100, 1); (1704845400, 2); (1704888000, 4)]).
Proof. split; vm_compute; reflexivity. Qed.
