(* C25 property theorems. Nothing but statements closed by `exact`, Print Assumptions and non-vacuity examples. *)
From Coq Require Import List ZArith String Bool.
From GoProbe.Base Require Import CorrLib.
From GoProbe.C25 Require Import Model Proofs1 Proofs2 Proofs3 Proofs4.
Import ListNotations.
Open Scope Z_scope.

(* FULL STATEMENT (not provable for the code as it is, see c25_old_or_new_refuted / finding C25-rename-window):
     forall nm dst src o i ts k, names_ok nm -> is_stage i = false -> plans_wf o dst src ->
       day_view (crash_state nm dst src o k) i ts = day_view dst i ts
       \/ day_view (crash_state nm dst src o k) i ts = day_view (final_state nm dst src o) i ts.
   Proved: the same for every crash prefix k except the one that ends with the rename that moves the existing
   directory of exactly this day (i, ts) aside (window_at = the kill lands between the two renames of
   commitStagedDay). For every destination / source file system, all options, all names. *)
Theorem c25_old_or_new_partial : forall nm dst src o i ts k,
  names_ok nm -> is_stage i = false -> plans_wf o dst src ->
  window_at (merge_ops nm dst src o) i ts k = false ->
  day_view (crash_state nm dst src o k) i ts = day_view dst i ts
  \/ day_view (crash_state nm dst src o k) i ts = day_view (final_state nm dst src o) i ts.
Proof. exact old_or_new_partial. Qed.
Print Assumptions c25_old_or_new_partial.

(* the excluded crash point is a real violation: the day shows neither copy *)
Theorem c25_old_or_new_refuted :
  exists nm dst src o i ts k,
    is_stage (n_stage nm) = true /\ is_stage i = false /\ plans_wf o dst src
    /\ window_at (merge_ops nm dst src o) i ts k = true
    /\ day_view (crash_state nm dst src o k) i ts <> day_view dst i ts
    /\ day_view (crash_state nm dst src o k) i ts <> day_view (final_state nm dst src o) i ts.
Proof.
  exists ex_names, ex_dst, ex_src, ex_opts, "eth0"%string, 1704844800, 8%nat.
  destruct window_refutes as [A [B [C [D [E [F G]]]]]].
  split; [exact A|]. split; [exact B|]. split; [exact C|]. split; [exact D|].
  split; rewrite G; [rewrite E | rewrite F]; discriminate.
Qed.
Print Assumptions c25_old_or_new_refuted.

(* stage and backup directories are never returned as interfaces or days by the interface listing, the
   query walk or the merge's own listing - in every crash state (in fact in every file system) - and the
   names the merge gives them are exactly the names those readers skip *)
Theorem c25_leftovers_invisible : forall nm dst src o k, is_stage (n_stage nm) = true ->
  let s := crash_state nm dst src o k in
  ~ In (n_stage nm) (interfaces s)
  /\ (forall n, In n (interfaces s) -> is_stage n = false)
  /\ (forall i ds t n c, walk s i = Ok ds -> In (t, n, c) ds -> is_backup n = false)
  /\ (forall i ds d, list_days s i = Ok ds -> In d ds -> is_backup (snd (fst d)) = false)
  /\ (forall a y m dn, exists dnb, backup_path nm [a; y; m; dn] = [a; y; m; dnb] /\ is_backup dnb = true).
Proof. exact leftovers_invisible. Qed.
Print Assumptions c25_leftovers_invisible.

(* non-vacuity: the hypotheses of the partial theorem are met by a merge that replaces an existing day, at a
   crash point after the staged day was moved in while the backup still exists (k = 9), and the day then
   shows its merged data *)
Example c25_partial_example :
  is_stage "eth0" = false /\ plans_wf ex_opts ex_dst ex_src
  /\ window_at (merge_ops ex_names ex_dst ex_src ex_opts) "eth0" 1704844800 9 = false
  /\ day_view (crash_state ex_names ex_dst ex_src ex_opts 9) "eth0" 1704844800
     = day_view (final_state ex_names ex_dst ex_src ex_opts) "eth0" 1704844800
  /\ has_path (crash_state ex_names ex_dst ex_src ex_opts 9)
       ["eth0"; "2024"; "01"; "1704844800_a.gpdb-merge-backup-7"]%string = true
  /\ interfaces (crash_state ex_names ex_dst ex_src ex_opts 9) = ["eth0"%string].
Proof.
  destruct window_refutes as [A [B [C _]]].
  split; [exact B|]. split; [exact C|]. split; [vm_compute; reflexivity|]. split; [vm_compute; reflexivity|].
  split; vm_compute; reflexivity.
Qed.
