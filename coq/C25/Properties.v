(* C25 property theorems. Nothing but statements closed by `exact`, Print Assumptions and non-vacuity examples. *)
From Coq Require Import List ZArith String Bool.
From GoProbe.Base Require Import CorrLib.
From GoProbe.C25 Require Import Model Proofs1 Proofs2 Proofs3 Proofs4 Proofs5 Proofs6.
Import ListNotations.
Open Scope Z_scope.

(* FULL STATEMENT (not provable for the code as it is, see c25_old_or_new_refuted / finding C25-rename-window):
     forall nm dst src o i ts k, names_ok nm -> is_stage i = false -> NoDup (interfaces src) ->
       day_view (crash_state nm dst src o k) i ts = day_view dst i ts
       \/ day_view (crash_state nm dst src o k) i ts = day_view (final_state nm dst src o) i ts.
   Proved: the same for every crash prefix k except the one that ends with the rename that moves the existing
   directory of exactly this day (i, ts) aside (window_at = the kill lands between the two renames of
   commitStagedDay). For every destination / source file system, all options, all names; the only hypothesis
   on the databases is that the source root has no two directory entries of the same name. *)
Theorem c25_old_or_new_partial : forall nm dst src o i ts k,
  names_ok nm -> is_stage i = false -> NoDup (interfaces src) ->
  window_at (merge_ops nm dst src o) i ts k = false ->
  day_view (crash_state nm dst src o k) i ts = day_view dst i ts
  \/ day_view (crash_state nm dst src o k) i ts = day_view (final_state nm dst src o) i ts.
Proof. exact old_or_new_partial'. Qed.
Print Assumptions c25_old_or_new_partial.

(* the excluded crash point is a real violation: the day shows neither copy *)
Theorem c25_old_or_new_refuted :
  exists nm dst src o i ts k,
    is_stage (n_stage nm) = true /\ is_stage i = false /\ NoDup (interfaces src)
    /\ window_at (merge_ops nm dst src o) i ts k = true
    /\ day_view (crash_state nm dst src o k) i ts <> day_view dst i ts
    /\ day_view (crash_state nm dst src o k) i ts <> day_view (final_state nm dst src o) i ts.
Proof.
  exists ex_names, ex_dst, ex_src, ex_opts, "eth0"%string, 1704844800, 8%nat.
  destruct window_refutes as [A [B [C [D [E [F G]]]]]].
  split; [exact A|]. split; [exact B|]. split; [vm_compute; repeat constructor; intros []|]. split; [exact D|].
  split; rewrite G; [rewrite E | rewrite F]; discriminate.
Qed.
Print Assumptions c25_old_or_new_refuted.

(* stage and backup directories are never returned as interfaces or days by the interface listing, the
   query walk, the merge's own listing, or the prefix search by which a DirWriter picks the directory it
   appends to and a DirReader recovers a renamed directory - in every crash state; a later merge plans
   exactly as if they were not there; and the paths the merge creates for them are such leftovers *)
Theorem c25_leftovers_invisible : forall nm dst src o k, is_stage (n_stage nm) = true ->
  let s := crash_state nm dst src o k in
  ~ In (n_stage nm) (interfaces s)
  /\ (forall n, In n (interfaces s) -> is_stage n = false)
  /\ (forall i ds t n c, walk s i = Ok ds -> In (t, n, c) ds -> is_backup n = false)
  /\ (forall i ds d, list_days s i = Ok ds -> In d ds -> is_backup (snd (fst d)) = false)
  /\ (forall nm' i ts dn, In dn (prefix_matches nm' s i ts) -> is_backup dn = false)
  /\ (forall o', plans o' (strip_leftovers s) src = plans o' s src)
  /\ (forall a y m dn, exists dnb, backup_path nm [a; y; m; dn] = [a; y; m; dnb] /\ is_backup dnb = true
                                   /\ leftover (backup_path nm [a; y; m; dn], NDir Empty) = true)
  /\ (forall r n, leftover (n_stage nm :: r, n) = true).
Proof. exact leftovers_invisible'. Qed.
Print Assumptions c25_leftovers_invisible.

(* FULL STATEMENT, not proved (checked at every crash point of every run): from every crash prefix outside the
   window a later merge completes and day_view (final_state nm2 (crash_state nm dst src o k) src o) i ts
   = day_view (final_state nm dst src o) i ts. Inside the window it does not hold: the later merge rebuilds the
   day from the source alone and the destination-only block (1704845100, 1) stays hidden in the backup. *)
Theorem c25_later_merge_window_refuted :
  exists nm nm2 dst src o i ts k,
    window_at (merge_ops nm dst src o) i ts k = true
    /\ merge_fails o (crash_state nm dst src o k) src = false
    /\ day_view (final_state nm2 (crash_state nm dst src o k) src o) i ts
       <> day_view (final_state nm dst src o) i ts.
Proof.
  exists ex_names, ex2_names2, ex2_dst, ex2_src, ex2_opts, "eth0"%string, 1704844800, 9%nat.
  destruct window_later_merge as [A [B [C D]]].
  split; [exact A|]. split; [exact B|]. rewrite C, D. discriminate.
Qed.
Print Assumptions c25_later_merge_window_refuted.

(* non-vacuity: the hypotheses of the partial theorem are met by a merge that replaces an existing day, at a
   crash point after the staged day was moved in while the backup still exists (k = 9), and the day then
   shows its merged data *)
Example c25_partial_example :
  is_stage "eth0" = false /\ NoDup (interfaces ex_src)
  /\ window_at (merge_ops ex_names ex_dst ex_src ex_opts) "eth0" 1704844800 9 = false
  /\ day_view (crash_state ex_names ex_dst ex_src ex_opts 9) "eth0" 1704844800
     = day_view (final_state ex_names ex_dst ex_src ex_opts) "eth0" 1704844800
  /\ has_path (crash_state ex_names ex_dst ex_src ex_opts 9)
       ["eth0"; "2024"; "01"; "1704844800_a.gpdb-merge-backup-7"]%string = true
  /\ interfaces (crash_state ex_names ex_dst ex_src ex_opts 9) = ["eth0"%string].
Proof.
  destruct window_refutes as [A [B [C _]]].
  split; [exact B|]. split; [vm_compute; repeat constructor; intros []|]. split; [vm_compute; reflexivity|]. split; [vm_compute; reflexivity|].
  split; vm_compute; reflexivity.
Qed.
