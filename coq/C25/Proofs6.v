(* C25 proofs, part 6: a later merge plans as if the leftovers were not there; the prefix search of the
   writer / of the reader's recovery never returns a backup; what a later merge yields inside the window. *)
From Coq Require Import List ZArith String Ascii Bool Lia Permutation.
From GoProbe.Base Require Import CorrLib.
From GoProbe.C25 Require Import Model Proofs1 Proofs2 Proofs3 Proofs4 Proofs5.
Import ListNotations.
Open Scope Z_scope.

(* an entry that only an interrupted merge can have left behind: anything below a stage directory, and a
   backup of a day directory *)
Definition leftover (e : path * node) : bool :=
  match fst e with a :: _ => is_stage a | [] => false end
  || match fst e with [_; _; _; dn] => is_backup dn | _ => false end.
Definition strip_leftovers (s : fs) : fs := filter (fun e => negb (leftover e)) s.

Lemma leftover_no_day : forall i e, is_stage i = false -> leftover e = true -> day_entry i e = None.
Proof.
  intros i [k n] IS L. unfold leftover in L. simpl in L.
  destruct k as [|a [|y [|m [|dn [|x r]]]]]; simpl; auto. destruct n; auto.
  destruct (String.eqb a i) eqn:E; simpl; auto. apply String.eqb_eq in E. subst a.
  rewrite IS in L. simpl in L. rewrite L. simpl. rewrite !andb_false_r. auto.
Qed.

Lemma day_dirs_strip : forall s i, is_stage i = false -> day_dirs (strip_leftovers s) i = day_dirs s i.
Proof.
  unfold day_dirs, strip_leftovers. induction s as [|e s]; intros i IS; simpl; auto.
  destruct (leftover e) eqn:L; simpl.
  - rewrite (leftover_no_day i e IS L). auto.
  - rewrite IHs; auto.
Qed.

Lemma list_days_strip : forall s i, is_stage i = false -> list_days (strip_leftovers s) i = list_days s i.
Proof. intros. unfold list_days. rewrite day_dirs_strip; auto. Qed.

Lemma plan_ifaces_strip : forall o dst src is, (forall i, In i is -> is_stage i = false) ->
  plan_ifaces o (strip_leftovers dst) src is = plan_ifaces o dst src is.
Proof.
  induction is as [|i rest]; intros H; simpl; auto.
  rewrite list_days_strip by (apply H; left; auto).
  rewrite IHrest by (intros; apply H; right; auto). reflexivity.
Qed.

Lemma select_not_stage : forall src req sel x, select_ifaces (src_ifaces src) req = Some sel -> In x sel ->
  is_stage x = false.
Proof.
  unfold select_ifaces, src_ifaces. intros src req sel x S IN. destruct req.
  - inversion S; subst. apply (Permutation_in _ (sort_by_perm String.leb _)) in IN.
    eapply interfaces_not_stage; eauto.
  - destruct (forallb _ _) eqn:F; inversion S; subst. clear S.
    apply (Permutation_in _ (sort_by_perm String.leb _)) in IN. apply dedup_str_in in IN.
    rewrite forallb_forall in F. specialize (F x IN). apply existsb_exists in F.
    destruct F as [y [INy E]]. apply String.eqb_eq in E. subst y.
    apply (Permutation_in _ (sort_by_perm String.leb _)) in INy. eapply interfaces_not_stage; eauto.
Qed.

(* a later merge plans exactly as if the stage and backup directories were not there *)
Theorem later_plans_ignore_leftovers : forall o s src, plans o (strip_leftovers s) src = plans o s src.
Proof.
  intros. unfold plans. destruct (select_ifaces (src_ifaces src) (o_ifaces o)) as [sel|] eqn:S; auto.
  rewrite plan_ifaces_strip; auto. intros. eapply select_not_stage; eauto.
Qed.

(* ---- the prefix search *)
Lemma prefix_matches_not_backup : forall nm s i ts dn, In dn (prefix_matches nm s i ts) -> is_backup dn = false.
Proof.
  unfold prefix_matches. intros nm s i ts. generalize (fst (n_ym nm ts)) (snd (n_ym nm ts)) (n_tsname nm ts).
  intros y m pfx. induction s as [|[k n] s]; intros dn H; [contradiction|].
  destruct k as [|a [|b [|c [|d [|? ?]]]]]; simpl in H; auto.
  destruct (String.eqb a i && String.eqb b y && String.eqb c m && has_prefix pfx d && negb (is_backup d)) eqn:E; auto.
  destruct H; auto. subst d. apply andb_true_iff in E. destruct E as [_ E]. apply negb_true_iff in E. auto.
Qed.

(* ---- inside the window a later merge does not restore the destination-only data *)
Definition ex2_dst : fs :=
  [(["eth0"], NDir Empty); (["eth0"; "2024"], NDir Empty); (["eth0"; "2024"; "01"], NDir Empty);
   (["eth0"; "2024"; "01"; "1704844800_a"], NDir (Data [(1704845100, 1); (1704845400, 2)]))]%string.
Definition ex2_src : fs :=
  [(["eth0"], NDir Empty); (["eth0"; "2024"], NDir Empty); (["eth0"; "2024"; "01"], NDir Empty);
   (["eth0"; "2024"; "01"; "1704844800_b"], NDir (Data [(1704845400, 3); (1704888000, 4)]))]%string.
Definition ex2_opts : opts := mkOpts [] false false 150.
Definition ex2_names2 : names :=
  mkNames (fun _ => ("2024", "01")%string) (fun _ => "1704844800"%string)
          (fun _ _ _ => "1704844800_r"%string) ".gpdb-merge-stage-2" "8".

Lemma window_later_merge :
  let k := 9%nat in
  let s := crash_state ex_names ex2_dst ex2_src ex2_opts k in
  window_at (merge_ops ex_names ex2_dst ex2_src ex2_opts) "eth0" 1704844800 k = true
  /\ merge_fails ex2_opts s ex2_src = false
  /\ day_view (final_state ex_names ex2_dst ex2_src ex2_opts) "eth0" 1704844800
     = Ok [("1704844800_r"%string, Data [(1704845100, 1); (1704845400, 2); (1704888000, 4)])]
  /\ day_view (final_state ex2_names2 s ex2_src ex2_opts) "eth0" 1704844800
     = Ok [("1704844800_r"%string, Data [(1704845400, 3); (1704888000, 4)])].
Proof.
  cbv zeta. split; [vm_compute; reflexivity|]. split; [vm_compute; reflexivity|].
  split; vm_compute; reflexivity.
Qed.

(* ---- the statements used by Properties.v *)
Theorem old_or_new_partial' : forall nm dst src o i ts k,
  names_ok nm -> is_stage i = false -> NoDup (interfaces src) ->
  window_at (merge_ops nm dst src o) i ts k = false ->
  day_view (crash_state nm dst src o k) i ts = day_view dst i ts
  \/ day_view (crash_state nm dst src o k) i ts = day_view (final_state nm dst src o) i ts.
Proof. intros. apply old_or_new_partial; auto. apply plans_wf_holds; auto. Qed.

Theorem leftovers_invisible' : forall nm dst src o k, is_stage (n_stage nm) = true ->
  let s := crash_state nm dst src o k in
  ~ In (n_stage nm) (interfaces s)
  /\ (forall n, In n (interfaces s) -> is_stage n = false)
  /\ (forall i ds t n c, walk s i = Ok ds -> In (t, n, c) ds -> is_backup n = false)
  /\ (forall i ds d, list_days s i = Ok ds -> In d ds -> is_backup (snd (fst d)) = false)
  /\ (forall nm' i ts dn, In dn (prefix_matches nm' s i ts) -> is_backup dn = false)
  /\ (forall o', plans o' (strip_leftovers s) src = plans o' s src)
  /\ (forall a y m dn, exists dnb, backup_path nm [a; y; m; dn] = [a; y; m; dnb] /\ is_backup dnb = true
                                   /\ leftover (backup_path nm [a; y; m; dn], NDir Empty) = true)
  /\ (forall r n, leftover (n_stage nm :: r, n) = true).
Proof.
  intros nm dst src o k ST s.
  destruct (leftovers_invisible nm dst src o k ST) as [A [B [C [D E]]]].
  split; [exact A|]. split; [exact B|]. split; [exact C|]. split; [exact D|].
  split; [intros; eapply prefix_matches_not_backup; eauto|].
  split; [intros; apply later_plans_ignore_leftovers|].
  split.
  - intros. eexists. split; [reflexivity|]. split; [apply is_backup_backup_name|].
    unfold leftover. cbn [backup_path rev app fst]. rewrite is_backup_backup_name. apply orb_true_r.
  - intros. unfold leftover. cbn [fst]. rewrite ST. reflexivity.
Qed.
