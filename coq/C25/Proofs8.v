(* C25 proofs, part 8: what the destination holds for a planned day once the merge is through
   (the staged directory is the only thing below its path when it is moved in). *)
From Coq Require Import List ZArith String Ascii Bool Lia Permutation.
From GoProbe.Base Require Import CorrLib.
From GoProbe.C25 Require Import Model Proofs1 Proofs2 Proofs3 Proofs4 Proofs5.
Import ListNotations.
Open Scope Z_scope.

(* below the stage directory there are only the interface / year / month directories *)
Definition shallow (st : string) (s : fs) : Prop :=
  forall e, In e s -> under st (fst e) = true -> (List.length (fst e) <= 4)%nat.

Lemma strip_self : forall p, strip p p = Some [].
Proof. intros. apply strip_spec. rewrite app_nil_r. auto. Qed.

Lemma shallow_strip : forall st s p, shallow st s -> under st p = true -> (5 <= List.length p)%nat ->
  forall e, In e s -> strip p (fst e) = None.
Proof.
  intros st s p SH U L e IN. destruct (strip p (fst e)) eqn:S; auto. apply strip_spec in S.
  assert (P : p <> []) by (destruct p; simpl in L; [lia|discriminate]).
  assert (U2 : under st (fst e) = true) by (rewrite S, under_app; auto).
  specialize (SH e IN U2). rewrite S, app_length in SH. lia.
Qed.

Lemma strip_none_neq : forall p k, strip p k = None -> k <> p.
Proof. intros p k H E. subst. rewrite strip_self in H. discriminate. Qed.

Lemma strip_under_diff : forall st p k, under st p = false -> p <> [] -> under st k = true -> strip p k = None.
Proof.
  intros st [|a p] [|b k]; simpl; intros; try congruence.
  destruct (String.eqb a b) eqn:E; auto. apply String.eqb_eq in E. subst. congruence.
Qed.

Lemma apply_mkdirs : forall L s, apply_all s (map Mkdir L) = s ++ map (fun p => (p, NDir Empty)) L.
Proof.
  induction L; simpl; intros; [rewrite app_nil_r; auto|].
  unfold apply_all in *. simpl. rewrite IHL. rewrite <- app_assoc. reflexivity.
Qed.

Lemma map_id_in : forall {A} (f : A -> A) X, (forall e, In e X -> f e = e) -> map f X = X.
Proof. induction X; simpl; intros; auto. rewrite H, IHX; auto. Qed.

Lemma fill_other : forall X p c, (forall e, In e X -> fst e <> p) -> map (fill_entry p c) X = X.
Proof.
  intros. apply map_id_in. intros e IN. unfold fill_entry.
  destruct (path_eqb (fst e) p) eqn:E; auto. apply path_eqb_eq in E. destruct (H e IN E).
Qed.
Lemma fill_self : forall p c n, fill_entry p c (p, n) = (p, NDir c).
Proof. intros. unfold fill_entry. simpl. assert (path_eqb p p = true) by (apply path_eqb_eq; auto). rewrite H. auto. Qed.
Lemma rename_other : forall X p q, (forall e, In e X -> strip p (fst e) = None) -> map (rename_entry p q) X = X.
Proof. intros. apply map_id_in. intros e IN. unfold rename_entry. rewrite (H e IN). auto. Qed.
Lemma rename_self : forall p q n, rename_entry p q (p, n) = (q, n).
Proof. intros. unfold rename_entry. simpl. rewrite strip_self, app_nil_r. auto. Qed.

Lemma shallow_app : forall st a b, shallow st a -> shallow st b -> shallow st (a ++ b).
Proof. unfold shallow. intros. apply in_app_or in H1. destruct H1; eauto. Qed.
Lemma shallow_app_l : forall st a b, shallow st (a ++ b) -> shallow st a.
Proof. unfold shallow. intros. apply H; auto. apply in_or_app. auto. Qed.
Lemma shallow_app_r : forall st a b, shallow st (a ++ b) -> shallow st b.
Proof. unfold shallow. intros. apply H; auto. apply in_or_app. auto. Qed.
Lemma shallow_mid : forall st L x R, shallow st (L ++ R) -> (under st (fst x) = true -> (List.length (fst x) <= 4)%nat) ->
  shallow st (L ++ x :: R).
Proof.
  unfold shallow. intros. apply in_app_or in H1. destruct H1 as [I|[I|I]].
  - apply H; auto. apply in_or_app. auto.
  - subst. auto.
  - apply H; auto. apply in_or_app. auto.
Qed.
Lemma shallow_rename : forall st X p q, shallow st X -> under st q = false -> q <> [] ->
  shallow st (map (rename_entry p q) X).
Proof.
  unfold shallow. intros st X p q SH UQ Q e IN U. apply in_map_iff in IN. destruct IN as [e0 [E IN]]. subst e.
  unfold rename_entry in *. destruct (strip p (fst e0)) eqn:S; simpl in *.
  - rewrite under_app in U by auto. congruence.
  - auto.
Qed.
Lemma shallow_fill : forall st X p c, shallow st X -> shallow st (map (fill_entry p c) X).
Proof.
  unfold shallow. intros st X p c SH e IN U. apply in_map_iff in IN. destruct IN as [e0 [E IN]]. subst e.
  unfold fill_entry in *. destruct (path_eqb (fst e0) p); simpl in *; auto.
Qed.
Lemma shallow_filter : forall st X f, shallow st X -> shallow st (filter f X).
Proof. unfold shallow. intros. apply filter_In in H0. destruct H0. auto. Qed.

(* ---- the staged day directory *)
Definition Staged (st : string) (sp : path) (c : content) (s : fs) : Prop :=
  exists L R, s = L ++ (sp, NDir c) :: R /\ shallow st (L ++ R).

Lemma has_path_false : forall s p, (forall e, In e s -> fst e <> p) -> has_path s p = false.
Proof.
  unfold has_path. intros. destruct (existsb (fun e => path_eqb (fst e) p) s) eqn:E; auto.
  apply existsb_exists in E. destruct E as [e [IN PE]]. apply path_eqb_eq in PE. destruct (H e IN PE).
Qed.

(* MkdirAll of a fresh day directory below the stage, and the files written into it *)
Lemma stage_fill_gen : forall st (E : list path) s (sd : path) c, shallow st s ->
  (forall p, In p E -> (List.length p <= 4)%nat) -> under st sd = true -> (5 <= List.length sd)%nat ->
  apply_all s (map Mkdir E ++ [Mkdir sd; Fill sd Partial; Fill sd c])
  = (s ++ map (fun p : path => (p, NDir Empty)) E) ++ [(sd, NDir c)]
  /\ shallow st (s ++ map (fun p : path => (p, NDir Empty)) E).
Proof.
  intros st E s sd c SH EL U L.
  remember (s ++ map (fun p : path => (p, NDir Empty)) E) as X eqn:EX.
  assert (SX : shallow st X).
  { subst X. apply shallow_app; auto. intros e IN _. apply in_map_iff in IN. destruct IN as [p [Ep IN]]. subst e.
    simpl. apply EL. auto. }
  split; auto.
  assert (NX : forall e, In e X -> fst e <> sd).
  { intros. apply strip_none_neq. eapply shallow_strip; eauto. }
  assert (R1 : forall c1 c2, map (fill_entry sd c2) (X ++ [(sd, NDir c1)]) = X ++ [(sd, NDir c2)]).
  { intros. rewrite map_app, (fill_other X sd c2 NX). cbn [map]. rewrite fill_self. auto. }
  rewrite apply_all_app, apply_mkdirs, <- EX.
  unfold apply_all. cbn [fold_left apply]. rewrite !R1. reflexivity.
Qed.

Lemma stage_fill : forall st a b c0 d s c, shallow st s ->
  exists X, apply_all s (mkdirall s [st; a; b; c0; d] ++ [Fill [st; a; b; c0; d] Partial; Fill [st; a; b; c0; d] c])
            = X ++ [([st; a; b; c0; d], NDir c)] /\ shallow st X.
Proof.
  intros st a b c0 d s c SH. set (sd := [st; a; b; c0; d]).
  assert (U : under st sd = true) by (simpl; apply String.eqb_refl).
  assert (HP : has_path s sd = false).
  { apply has_path_false. intros e IN. apply strip_none_neq. eapply shallow_strip; eauto; simpl; lia. }
  assert (MK : exists E : list path, mkdirall s sd = map Mkdir E ++ [Mkdir sd]
                                     /\ forall p, In p E -> (List.length p <= 4)%nat).
  { exists (filter (fun q : path => negb (has_path s q)) [[st]; [st; a]; [st; a; b]; [st; a; b; c0]]). split.
    - unfold mkdirall. unfold sd at 1. simpl prefixes_from.
      change [[st]; [st; a]; [st; a; b]; [st; a; b; c0]; [st; a; b; c0; d]]
        with ([[st]; [st; a]; [st; a; b]; [st; a; b; c0]] ++ [sd]).
      rewrite filter_app, map_app. simpl (filter _ [sd]). rewrite HP. reflexivity.
    - intros p IN. apply filter_In in IN. destruct IN as [IN _]. simpl in IN.
      destruct IN as [I|[I|[I|[I|[]]]]]; subst p; simpl; lia. }
  destruct MK as [E [MK EL]]. rewrite MK, <- app_assoc. cbn [app].
  destruct (stage_fill_gen st E s sd c SH EL U) as [A B]. { simpl. lia. }
  eexists. split; [exact A | exact B].
Qed.

(* ---- operations that leave the staged directory where it is *)
Lemma staged_mkdirs : forall st sp c s Ps, Staged st sp c s -> (forall p, In p Ps -> under st p = false) ->
  Staged st sp c (apply_all s (map Mkdir Ps)).
Proof.
  intros st sp c s Ps [L [R [E SH]]] NP. subst s. rewrite apply_mkdirs.
  exists L, (R ++ map (fun p : path => (p, NDir Empty)) Ps). split.
  - rewrite <- app_assoc. reflexivity.
  - rewrite app_assoc. apply shallow_app; auto.
    intros e IN U. apply in_map_iff in IN. destruct IN as [p [Ep IN]]. subst e. simpl in U.
    rewrite (NP p IN) in U. discriminate.
Qed.

Lemma mkdirall_paths : forall s p q, In (Mkdir q) (mkdirall s p) -> In q (prefixes_from [] p).
Proof.
  unfold mkdirall. intros. apply in_map_iff in H. destruct H as [x [E IN]]. inversion E; subst.
  apply filter_In in IN. tauto.
Qed.

Lemma staged_mkmonth : forall st sp c s s0 a y m, Staged st sp c s -> String.eqb a st = false ->
  Staged st sp c (apply_all s (mkdirall s0 [a; y; m])).
Proof.
  intros. unfold mkdirall. apply staged_mkdirs; auto.
  intros p IN. apply filter_In in IN. destruct IN as [IN _]. simpl in IN.
  destruct IN as [I|[I|[I|[]]]]; subst p; simpl; auto.
Qed.

Lemma staged_rename_other : forall st sp c s p q, Staged st sp c s -> under st sp = true ->
  p <> [] -> under st p = false -> q <> [] -> under st q = false ->
  Staged st sp c (apply s (Rename p q)).
Proof.
  intros st sp c s p q [L [R [E SH]]] US P UP Q UQ. subst s. simpl.
  rewrite map_app. cbn [map].
  assert (M : rename_entry p q (sp, NDir c) = (sp, NDir c)).
  { unfold rename_entry. simpl. rewrite (strip_under_diff st p sp); auto. }
  rewrite M. exists (map (rename_entry p q) L), (map (rename_entry p q) R). split; auto.
  rewrite <- map_app. apply shallow_rename; auto.
Qed.

Lemma staged_rin : forall st sp c s q, Staged st sp c s -> under st sp = true -> (5 <= List.length sp)%nat ->
  exists L R, s = L ++ (sp, NDir c) :: R /\ apply s (Rename sp q) = L ++ (q, NDir c) :: R /\ shallow st (L ++ R).
Proof.
  intros st sp c s q [L [R [E SH]]] US LN. exists L, R. split; auto. split; auto. subst s. simpl.
  rewrite map_app. cbn [map]. rewrite rename_self.
  assert (N : forall e, In e (L ++ R) -> strip sp (fst e) = None) by (intros; eapply shallow_strip; eauto).
  rewrite (rename_other L), (rename_other R); auto; intros; apply N; apply in_or_app; auto.
Qed.

(* ---- views *)
Lemma V_mid : forall L x R i ts, V (L ++ x :: R) i ts = V L i ts ++ contrib i ts x ++ V R i ts.
Proof. intros. unfold V. rewrite flat_map_app. reflexivity. Qed.

Lemma contrib_path : forall i ts e d, In d (contrib i ts e) -> fst (fst d) = fst e.
Proof.
  intros i ts [k n] d. unfold contrib. destruct (day_entry i (k, n)) eqn:D; [|intros []].
  destruct (ts_of p =? ts); [|intros []]. intros [E|[]]. subst d.
  destruct k as [|a [|y [|m [|dn [|? ?]]]]]; simpl in D; try discriminate. destruct n; try discriminate.
  destruct (String.eqb a i && numeric y && numeric m && negb (is_backup dn)); inversion D. reflexivity.
Qed.

Definition contrib_but (p : path) (i : string) (ts : Z) (e : path * node) :=
  if path_eqb (fst e) p then [] else contrib i ts e.

(* moving the existing directory of a day aside removes exactly that directory from the views *)
Lemma path_eqb_refl : forall p, path_eqb p p = true.
Proof. intros. apply path_eqb_eq. auto. Qed.

Lemma S_long_c : forall i ts (k : path) n, (5 <= List.length k)%nat -> contrib i ts (k, n) = [].
Proof. intros. apply (proj1 (S_long i ts k n H)). Qed.
Lemma S_backup_c : forall i ts (k : path) n a y m dn, k = [a; y; m; dn] -> is_backup dn = true -> contrib i ts (k, n) = [].
Proof. intros. apply (proj1 (S_backup i ts k n a y m dn H H0)). Qed.

Lemma rout_contrib : forall i ts (p q : path) i0 y m dn0 dnb e, p = [i0; y; m; dn0] -> q = [i0; y; m; dnb] ->
  is_backup dnb = true ->
  contrib i ts (rename_entry p q e) = contrib_but p i ts e.
Proof.
  intros i ts p q i0 y m dn0 dnb [k n] EP EQ B. unfold rename_entry, contrib_but. cbn [fst snd].
  assert (LP : List.length p = 4%nat) by (subst p; reflexivity).
  assert (LQ : List.length q = 4%nat) by (subst q; reflexivity).
  destruct (strip p k) as [r|] eqn:S.
  - apply strip_spec in S. subst k. destruct r as [|x r].
    + rewrite !app_nil_r. rewrite path_eqb_refl. eapply S_backup_c; eauto.
    + assert (path_eqb (p ++ x :: r) p = false).
      { destruct (path_eqb _ _) eqn:E; auto. apply path_eqb_eq in E.
        apply (f_equal (@List.length string)) in E. rewrite app_length in E. simpl in E. lia. }
      rewrite H.
      transitivity (@nil (path * string * content)); [|symmetry]; apply S_long_c; rewrite app_length; simpl; lia.
  - assert (path_eqb k p = false).
    { destruct (path_eqb _ _) eqn:E; auto. apply path_eqb_eq in E. subst k. rewrite strip_self in S. discriminate. }
    rewrite H. reflexivity.
Qed.

Lemma contrib_nil_but : forall p i ts s, flat_map (contrib i ts) s = [] -> flat_map (contrib_but p i ts) s = [].
Proof.
  induction s; simpl; intros; auto. apply app_eq_nil in H. destruct H.
  rewrite IHs; auto. unfold contrib_but. destruct (path_eqb (fst a) p); auto. rewrite H. auto.
Qed.

Lemma single_removed : forall p i ts s d, flat_map (contrib i ts) s = [d] -> fst (fst d) = p ->
  flat_map (contrib_but p i ts) s = [].
Proof.
  induction s; simpl; intros d H P; [discriminate|].
  destruct (contrib i ts a) as [|d1 l1] eqn:C.
  - simpl in H. rewrite (IHs d H P). unfold contrib_but. rewrite C. destruct (path_eqb (fst a) p); auto.
  - simpl in H. inversion H; subst. apply app_eq_nil in H2. destruct H2 as [L1 RS]. subst l1.
    rewrite (contrib_nil_but (fst (fst d)) i ts s RS).
    assert (E : fst (fst d) = fst a). { eapply contrib_path. rewrite C. left. auto. }
    unfold contrib_but. rewrite <- E.
    rewrite path_eqb_refl. auto.
Qed.

Lemma flat_map_map : forall {A B C} (f : A -> B) (g : B -> list C) l, flat_map g (map f l) = flat_map (fun x => g (f x)) l.
Proof. induction l; simpl; auto. rewrite IHl. auto. Qed.

Lemma rout_V : forall s i ts (p q : path) i0 y m dn0 dnb d, p = [i0; y; m; dn0] -> q = [i0; y; m; dnb] ->
  is_backup dnb = true -> V s i ts = [d] -> fst (fst d) = p ->
  V (apply s (Rename p q)) i ts = [].
Proof.
  intros. unfold V in *. simpl. rewrite flat_map_map.
  erewrite flat_map_ext; [|intros; eapply rout_contrib; eauto].
  eapply single_removed; eauto.
Qed.

(* moving the staged directory in, when nothing else of that day is visible *)
Lemma rin_final : forall st sp c s i ts y m newn, Staged st sp (Data c) s -> under st sp = true -> (5 <= List.length sp)%nat ->
  String.eqb st i = false -> V s i ts = [] ->
  numeric y = true -> numeric m = true -> is_backup newn = false -> parse_day newn = Some ts ->
  V (apply s (Rename sp [i; y; m; newn])) i ts = [([i; y; m; newn], newn, Data c)]
  /\ shallow st (apply s (Rename sp [i; y; m; newn])).
Proof.
  intros st sp c s i ts y m newn SG US LN NE V0 NY NM NB PD.
  destruct (staged_rin st sp (Data c) s [i; y; m; newn] SG US LN) as [L [R [E [A SH]]]].
  rewrite A. subst s. rewrite V_mid in *.
  apply app_eq_nil in V0. destruct V0 as [VL V0]. apply app_eq_nil in V0. destruct V0 as [_ VR].
  rewrite VL, VR. split.
  - unfold contrib. simpl. rewrite String.eqb_refl, NY, NM, NB. simpl.
    unfold ts_of. simpl. rewrite PD, Z.eqb_refl. reflexivity.
  - apply shallow_mid; auto.
Qed.

(* ---- staging *)
Lemma stage_copy : forall st a b c0 d s c i ts, shallow st s -> String.eqb st i = false ->
  Staged st [st; a; b; c0; d] c
    (apply_all s (mkdirall s [st; a; b; c0; d] ++ [Fill [st; a; b; c0; d] Partial; Fill [st; a; b; c0; d] c]))
  /\ V (apply_all s (mkdirall s [st; a; b; c0; d] ++ [Fill [st; a; b; c0; d] Partial; Fill [st; a; b; c0; d] c])) i ts
     = V s i ts.
Proof.
  intros. split.
  - destruct (stage_fill st a b c0 d s c H) as [X [E SX]]. rewrite E. exists X, []. split; auto.
    rewrite app_nil_r. auto.
  - apply quiet_all. apply Forall_app. split.
    + apply quiet_mkdirall_stage. auto.
    + repeat (apply Forall_cons; [simpl; left; auto|]). apply Forall_nil.
Qed.

Lemma stage_rebuild : forall st a b c0 d0 d s c i ts, shallow st s -> String.eqb st i = false ->
  let sd0 := [st; a; b; c0; d0] in let sp := [st; a; b; c0; d] in
  Staged st sp c (apply_all s (mkdirall s sd0 ++ [Fill sd0 Partial; Fill sd0 c; Rename sd0 sp]))
  /\ V (apply_all s (mkdirall s sd0 ++ [Fill sd0 Partial; Fill sd0 c; Rename sd0 sp])) i ts = V s i ts.
Proof.
  intros st a b c0 d0 d s c i ts SH NE sd0 sp. split.
  - destruct (stage_fill st a b c0 d0 s c SH) as [X [E SX]].
    change (mkdirall s sd0 ++ [Fill sd0 Partial; Fill sd0 c; Rename sd0 sp])
      with (mkdirall s sd0 ++ [Fill sd0 Partial; Fill sd0 c] ++ [Rename sd0 sp]).
    rewrite app_assoc, apply_all_app. fold sd0 in E. rewrite E.
    unfold apply_all. cbn [fold_left apply]. rewrite map_app. cbn [map]. rewrite rename_self.
    rewrite rename_other.
    + exists X, []. split; auto. rewrite app_nil_r. auto.
    + intros. eapply shallow_strip; eauto; simpl; try lia. apply String.eqb_refl.
  - apply quiet_all. apply Forall_app. split.
    + apply quiet_mkdirall_stage. auto.
    + apply Forall_cons; [simpl; left; auto|]. apply Forall_cons; [simpl; left; auto|].
      apply Forall_cons; [|apply Forall_nil]. simpl. left. repeat split; auto; discriminate.
Qed.

(* ---- committing the staged day *)
Lemma commit_none : forall st sp c s1 s0 i ts y m newn,
  Staged st sp (Data c) s1 -> under st sp = true -> (5 <= List.length sp)%nat -> String.eqb st i = false ->
  V s1 i ts = [] -> numeric y = true -> numeric m = true -> is_backup newn = false -> parse_day newn = Some ts ->
  let s' := apply_all s1 (mkdirall s0 [i; y; m] ++ [Rename sp [i; y; m; newn]]) in
  V s' i ts = [([i; y; m; newn], newn, Data c)] /\ shallow st s'.
Proof.
  intros st sp c s1 s0 i ts y m newn SG US LN NE V0 NY NM NB PD. cbv zeta.
  rewrite apply_all_app.
  assert (SG2 : Staged st sp (Data c) (apply_all s1 (mkdirall s0 [i; y; m]))).
  { apply staged_mkmonth; auto. rewrite String.eqb_sym. auto. }
  assert (V2 : V (apply_all s1 (mkdirall s0 [i; y; m])) i ts = []).
  { rewrite <- V0. apply quiet_all. apply quiet_mkdirall_month; auto. }
  unfold apply_all at 1. cbn [fold_left]. apply rin_final; auto.
Qed.

Lemma commit_some : forall st sp c s1 s0 i ts y m newn (ep bk : path) y0 m0 dn0 dnb d,
  Staged st sp (Data c) s1 -> under st sp = true -> (5 <= List.length sp)%nat -> String.eqb st i = false ->
  ep = [i; y0; m0; dn0] -> bk = [i; y0; m0; dnb] -> is_backup dnb = true ->
  V s1 i ts = [d] -> fst (fst d) = ep ->
  numeric y = true -> numeric m = true -> is_backup newn = false -> parse_day newn = Some ts ->
  let s' := apply_all s1 (mkdirall s0 [i; y; m]
                          ++ [Rename ep bk; Rename sp [i; y; m; newn]; Fill bk Partial; Fill bk Empty; Rmdir bk]) in
  V s' i ts = [([i; y; m; newn], newn, Data c)] /\ shallow st s'.
Proof.
  intros st sp c s1 s0 i ts y m newn ep bk y0 m0 dn0 dnb d SG US LN NE EP BK B V1 PE NY NM NB PD. cbv zeta.
  assert (NE' : String.eqb i st = false) by (rewrite String.eqb_sym; auto).
  rewrite apply_all_app.
  set (s2 := apply_all s1 (mkdirall s0 [i; y; m])).
  assert (SG2 : Staged st sp (Data c) s2) by (apply staged_mkmonth; auto).
  assert (V2 : V s2 i ts = [d]).
  { rewrite <- V1. apply quiet_all. apply quiet_mkdirall_month; auto. }
  change [Rename ep bk; Rename sp [i; y; m; newn]; Fill bk Partial; Fill bk Empty; Rmdir bk]
    with ([Rename ep bk] ++ [Rename sp [i; y; m; newn]] ++ [Fill bk Partial; Fill bk Empty; Rmdir bk]).
  rewrite !apply_all_app.
  set (s3 := apply_all s2 [Rename ep bk]).
  assert (E3 : s3 = apply s2 (Rename ep bk)) by reflexivity.
  assert (SG3 : Staged st sp (Data c) s3).
  { rewrite E3. apply staged_rename_other; auto; subst ep bk; simpl; auto; discriminate. }
  assert (V3 : V s3 i ts = []).
  { rewrite E3. eapply rout_V; eauto. }
  set (s4 := apply_all s3 [Rename sp [i; y; m; newn]]).
  assert (E4 : s4 = apply s3 (Rename sp [i; y; m; newn])) by reflexivity.
  destruct (rin_final st sp c s3 i ts y m newn SG3 US LN NE V3 NY NM NB PD) as [V4 SH4].
  rewrite <- E4 in V4, SH4.
  split.
  - rewrite <- V4. apply quiet_all.
    repeat (apply Forall_cons; [simpl; right; exists i, y0, m0, dnb; split; auto|]). apply Forall_nil.
  - unfold apply_all. cbn [fold_left apply]. apply shallow_filter. apply shallow_fill. apply shallow_fill. auto.
Qed.

(* ---- one planned day *)
Definition exist_ok (s : fs) (pl : dplan) : Prop :=
  match p_exist pl with
  | Some (ep, dbl) => exists dn0, V s (p_iface pl) (p_ts pl) = [(ep, dn0, Data dbl)]
  | None => V s (p_iface pl) (p_ts pl) = []
  end.

Definition new_entry (nm : names) (ow : bool) (pl : dplan) : path * string * content :=
  ([p_iface pl; fst (n_ym nm (p_ts pl)); snd (n_ym nm (p_ts pl)); new_name nm ow pl],
   new_name nm ow pl, Data (new_blocks ow pl)).

Lemma day_final : forall nm ow s pl,
  names_ok nm -> is_stage (p_iface pl) = false -> p_act pl <> ASkip -> shallow (n_stage nm) s ->
  plan_ok pl -> is_backup (new_name nm ow pl) = false -> exist_ok s pl ->
  V (apply_all s (day_ops nm ow s pl)) (p_iface pl) (p_ts pl) = [new_entry nm ow pl]
  /\ shallow (n_stage nm) (apply_all s (day_ops nm ow s pl)).
Proof.
  intros nm ow s pl NO IS ACTN SH PO NB EO.
  pose proof (new_name_parse nm ow pl NO PO) as NP.
  destruct NO as [ST [YM RN]]. destruct PO as [PE PC].
  pose proof (stage_neq nm (p_iface pl) ST IS) as SN.
  unfold new_entry, exist_ok in *.
  destruct (YM (p_ts pl)) as [NY NM].
  set (i := p_iface pl) in *. set (ts := p_ts pl) in *. set (st := n_stage nm) in *.
  set (newn := new_name nm ow pl) in *. set (c := new_blocks ow pl) in *.
  destruct (n_ym nm ts) as [y m] eqn:YME. simpl fst in *. simpl snd in *.
  set (sp := [st; i; y; m; newn]).
  assert (US : under st sp = true) by (simpl; apply String.eqb_refl).
  assert (LN : (5 <= List.length sp)%nat) by (simpl; lia).
  destruct (p_exist pl) as [[ep dbl]|] eqn:EX.
  - destruct PE as [y0 [m0 [dn0 [EP PD]]]]. destruct EO as [dn0' V0].
    assert (DO : exists stg_ops, day_ops nm ow s pl = stg_ops ++ mkdirall s [i; y; m]
               ++ [Rename ep (backup_path nm ep); Rename sp [i; y; m; newn];
                   Fill (backup_path nm ep) Partial; Fill (backup_path nm ep) Empty; Rmdir (backup_path nm ep)]
               /\ Staged st sp (Data c) (apply_all s stg_ops) /\ V (apply_all s stg_ops) i ts = V s i ts).
    { unfold day_ops. fold i ts st. rewrite YME, EX. fold newn c.
      destruct (p_act pl) eqn:ACT; [contradiction| |].
      - exists (mkdirall s sp ++ [Fill sp Partial; Fill sp (Data c)]). split; [reflexivity|]. apply stage_copy; auto.
      - exists (mkdirall s [st; i; y; m; n_tsname nm ts]
                ++ [Fill [st; i; y; m; n_tsname nm ts] Partial; Fill [st; i; y; m; n_tsname nm ts] (Data c);
                    Rename [st; i; y; m; n_tsname nm ts] sp]).
        split; [reflexivity|]. apply stage_rebuild; auto. }
    destruct DO as [stg_ops [DE [SG VS]]]. rewrite DE, apply_all_app.
    eapply (commit_some st sp c (apply_all s stg_ops) s i ts y m newn ep (backup_path nm ep) y0 m0 dn0); eauto.
    + subst ep. reflexivity.
    + apply is_backup_backup_name.
    + rewrite VS. exact V0.
    + reflexivity.
  - assert (DO : exists stg_ops, day_ops nm ow s pl = stg_ops ++ mkdirall s [i; y; m] ++ [Rename sp [i; y; m; newn]]
               /\ Staged st sp (Data c) (apply_all s stg_ops) /\ V (apply_all s stg_ops) i ts = V s i ts).
    { unfold day_ops. fold i ts st. rewrite YME, EX. fold newn c.
      destruct (p_act pl) eqn:ACT; [contradiction| |].
      - exists (mkdirall s sp ++ [Fill sp Partial; Fill sp (Data c)]). split; [reflexivity|]. apply stage_copy; auto.
      - exists (mkdirall s [st; i; y; m; n_tsname nm ts]
                ++ [Fill [st; i; y; m; n_tsname nm ts] Partial; Fill [st; i; y; m; n_tsname nm ts] (Data c);
                    Rename [st; i; y; m; n_tsname nm ts] sp]).
        split; [reflexivity|]. apply stage_rebuild; auto. }
    destruct DO as [stg_ops [DE [SG VS]]]. rewrite DE, apply_all_app.
    apply commit_none; auto. rewrite VS. exact EO.
Qed.

(* ---- all planned days *)
Definition plan_good (nm : names) (ow : bool) (s : fs) (pl : dplan) : Prop :=
  plan_ok pl /\ is_stage (p_iface pl) = false /\ is_backup (new_name nm ow pl) = false /\ exist_ok s pl.

Lemma day_ops_skip : forall nm ow s pl, p_act pl = ASkip -> day_ops nm ow s pl = [].
Proof. intros. unfold day_ops. rewrite H. reflexivity. Qed.

Lemma day_ops_V_other : forall nm ow s pl i ts, names_ok nm -> plan_ok pl -> is_stage i = false ->
  key_is i ts pl = false -> V (apply_all s (day_ops nm ow s pl)) i ts = V s i ts.
Proof. intros. apply quiet_all. apply day_ops_quiet; auto. Qed.

Lemma key_neq : forall pl a, key pl <> key a -> key_is (p_iface pl) (p_ts pl) a = false.
Proof.
  intros. destruct (key_is (p_iface pl) (p_ts pl) a) eqn:K; auto. apply key_is_true in K.
  exfalso. apply H. unfold key in *. congruence.
Qed.

Lemma body_final : forall nm ow pls s, names_ok nm -> shallow (n_stage nm) s -> NoDup (map key pls) ->
  Forall (plan_good nm ow s) pls ->
  (forall pl, In pl pls -> p_act pl <> ASkip ->
     V (apply_all s (body_ops nm ow s pls)) (p_iface pl) (p_ts pl) = [new_entry nm ow pl])
  /\ shallow (n_stage nm) (apply_all s (body_ops nm ow s pls)).
Proof.
  induction pls as [|a r]; intros s NO SH ND GF; simpl.
  - split; [intros ? []|auto].
  - inversion ND; subst. inversion GF; subst. destruct H3 as [PO [IS [NB EO]]].
    rewrite apply_all_app. set (s' := apply_all s (day_ops nm ow s a)).
    assert (D : (p_act a <> ASkip -> V s' (p_iface a) (p_ts a) = [new_entry nm ow a]) /\ shallow (n_stage nm) s').
    { destruct (p_act a) eqn:ACT.
      - unfold s'. rewrite day_ops_skip by auto. split; [congruence|exact SH].
      - destruct (day_final nm ow s a NO IS) as [A B]; auto; try congruence.
      - destruct (day_final nm ow s a NO IS) as [A B]; auto; try congruence. }
    destruct D as [DV DS].
    assert (GF' : Forall (plan_good nm ow s') r).
    { apply Forall_forall. intros pl IN. rewrite Forall_forall in H4. destruct (H4 pl IN) as [P1 [P2 [P3 P4]]].
      split; auto. split; auto. split; auto.
      assert (KN : key pl <> key a). { intro E. apply H1. rewrite <- E. apply in_map. auto. }
      unfold exist_ok in *. unfold s'. rewrite day_ops_V_other; auto. apply key_neq. auto. }
    destruct (IHr s' NO DS H2 GF') as [IV IS'].
    split; auto. intros pl [E|IN] ACT.
    + subst pl. rewrite <- (DV ACT). apply quiet_all. apply body_quiet; auto.
      * rewrite Forall_forall in *. intros x INx. destruct (H4 x INx). auto.
      * intros x INx. apply key_neq. intro E. apply H1. rewrite E. apply in_map. auto.
    + apply IV; auto.
Qed.
