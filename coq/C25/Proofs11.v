(* C25 proofs, part 11: completeness of the literal prefix search (bisection + two scans) on a sorted listing. *)
From Coq Require Import List ZArith String Ascii Bool Lia Sorted.
From GoProbe.Base Require Import CorrLib.
From GoProbe.C25 Require Import Model Proofs10.
Import ListNotations.
Open Scope Z_scope.

(* ------------------------------------------------------------------ byte order vs. prefixes *)

Lemma ascii_compare_refl : forall a, Ascii.compare a a = Eq.
Proof. intros. unfold Ascii.compare. apply N.compare_refl. Qed.

(* anything strictly below the prefix is strictly below every string carrying the prefix *)
Lemma below_prefix : forall p e d, String.compare e p = Lt -> has_prefix p d = true -> String.compare e d = Lt.
Proof.
  induction p as [|a p IH]; intros e d C P.
  - destruct e; simpl in C; discriminate.
  - destruct d as [|b d]; simpl in P; [discriminate|].
    apply andb_true_iff in P. destruct P as [E P]. apply Ascii.eqb_eq in E. subst b.
    destruct e as [|c e]; simpl in *; [reflexivity|].
    destruct (Ascii.compare c a) eqn:CA; try discriminate; auto.
Qed.

(* anything not below the prefix and not carrying it is strictly above every string carrying it *)
Lemma above_prefix : forall p e d, String.compare e p <> Lt -> has_prefix p e = false -> has_prefix p d = true ->
  String.compare e d = Gt.
Proof.
  induction p as [|a p IH]; intros e d C N P.
  - simpl in N. discriminate.
  - destruct d as [|b d]; simpl in P; [discriminate|].
    apply andb_true_iff in P. destruct P as [E P]. apply Ascii.eqb_eq in E. subst b.
    destruct e as [|c e]; simpl in *; [congruence|].
    destruct (Ascii.compare c a) eqn:CA; try congruence.
    apply Ascii.compare_eq_iff in CA. subst c. rewrite Ascii.eqb_refl in N. simpl in N. auto.
Qed.

Lemma leb_not_gt : forall a b, String.leb a b = true -> String.compare a b <> Gt.
Proof. unfold String.leb. intros a b H. destruct (String.compare a b); congruence. Qed.

Lemma compare_lt_gt : forall a b, String.compare a b = Lt -> String.compare b a = Gt.
Proof. intros a b H. rewrite String.compare_antisym, H. reflexivity. Qed.

(* the strings carrying a prefix are an interval of the byte order *)
Lemma prefix_between : forall p e1 e2 e3, String.leb e1 e2 = true -> String.leb e2 e3 = true ->
  has_prefix p e1 = true -> has_prefix p e3 = true -> has_prefix p e2 = true.
Proof.
  intros p e1 e2 e3 L12 L23 P1 P3.
  destruct (has_prefix p e2) eqn:P2; [reflexivity|exfalso].
  destruct (String.compare e2 p) eqn:C.
  - apply (leb_not_gt _ _ L23). apply above_prefix with (p := p); auto. congruence.
  - apply (leb_not_gt _ _ L12). apply compare_lt_gt. apply below_prefix with (p := p); auto.
  - apply (leb_not_gt _ _ L23). apply above_prefix with (p := p); auto. congruence.
Qed.

(* ------------------------------------------------------------------ the sorted listing *)

Definition sorted_str (arr : list string) : Prop :=
  forall i j, 0 <= i -> i <= j -> j < Z.of_nat (List.length arr) -> String.leb (nthz arr i) (nthz arr j) = true.

Lemma In_nthz : forall arr d, In d arr -> exists k, 0 <= k < Z.of_nat (List.length arr) /\ nthz arr k = d.
Proof.
  intros arr d H. destruct (In_nth arr d EmptyString H) as [n [Hn E]].
  exists (Z.of_nat n). split; [lia|]. unfold nthz. rewrite Nat2Z.id. exact E.
Qed.

Lemma scan_left_complete : forall arr pfx n i low k,
  low <= k -> k <= i ->
  (forall j, k <= j -> j <= i -> has_prefix pfx (nthz arr j) = true) ->
  is_backup (nthz arr k) = false ->
  Z.of_nat n > i - k ->
  exists x, scan_left arr pfx n i low = Some x.
Proof.
  induction n as [|n IH]; intros i low k Hlk Hki HP HB Hn; [lia|].
  simpl. destruct (low <=? i) eqn:LI; [|apply Z.leb_gt in LI; lia].
  rewrite (HP i) by lia.
  destruct (is_backup (nthz arr i)) eqn:B; simpl; [|eauto].
  assert (k <> i) by (intro; subst; congruence).
  apply IH with (k := k); try lia; auto. intros j Hj1 Hj2. apply HP; lia.
Qed.

Lemma scan_right_complete : forall arr pfx n i high k,
  i <= k -> k <= high ->
  (forall j, i <= j -> j <= k -> has_prefix pfx (nthz arr j) = true) ->
  is_backup (nthz arr k) = false ->
  Z.of_nat n > k - i ->
  exists x, scan_right arr pfx n i high = Some x.
Proof.
  induction n as [|n IH]; intros i high k Hik Hkh HP HB Hn; [lia|].
  simpl. destruct (i <=? high) eqn:LI; [|apply Z.leb_gt in LI; lia].
  rewrite (HP i) by lia.
  destruct (is_backup (nthz arr i)) eqn:B; simpl; [|eauto].
  assert (k <> i) by (intro; subst; congruence).
  apply IH with (k := k); try lia; auto. intros j Hj1 Hj2. apply HP; lia.
Qed.

Lemma bsearch_complete_gen : forall arr pfx k, sorted_str arr ->
  has_prefix pfx (nthz arr k) = true -> is_backup (nthz arr k) = false ->
  forall fuel low high, 0 <= low -> high < Z.of_nat (List.length arr) -> low <= k -> k <= high ->
  Z.of_nat fuel > high - low ->
  exists x, bsearch fuel arr pfx low high = Some x.
Proof.
  intros arr pfx k S PK BK.
  induction fuel as [|f IH]; intros low high H0 Hlen Hlk Hkh Hf; [lia|].
  simpl. destruct (high <? low) eqn:HL; [apply Z.ltb_lt in HL; lia|].
  assert (M : low <= (low + high) / 2 /\ (low + high) / 2 <= high).
  { split; [apply Z.div_le_lower_bound; lia | apply Z.div_le_upper_bound; lia]. }
  set (mid := (low + high) / 2) in *. destruct M as [M1 M2].
  destruct (has_prefix pfx (nthz arr mid)) eqn:PM.
  - destruct (is_backup (nthz arr mid)) eqn:BM; simpl; [|eauto].
    assert (k <> mid) by (intro; subst k; congruence).
    destruct (Z_lt_le_dec k mid) as [Lt|Ge].
    + destruct (scan_left_complete arr pfx (List.length arr) (mid - 1) low k) as [x Hx]; try lia; auto.
      * intros j J1 J2. apply prefix_between with (e1 := nthz arr k) (e3 := nthz arr mid); auto; apply S; lia.
      * rewrite Hx. eauto.
    + destruct (scan_left arr pfx (List.length arr) (mid - 1) low) eqn:SL; [eauto|].
      apply scan_right_complete with (k := k); try lia; auto.
      intros j J1 J2. apply prefix_between with (e1 := nthz arr mid) (e3 := nthz arr k); auto; apply S; lia.
  - destruct (String.ltb (nthz arr mid) pfx) eqn:LT.
    + assert (C : String.compare (nthz arr mid) pfx = Lt).
      { unfold String.ltb in LT. destruct (String.compare (nthz arr mid) pfx); congruence. }
      assert (mid < k).
      { destruct (Z_lt_le_dec mid k) as [?|Le]; [assumption|exfalso].
        apply (leb_not_gt (nthz arr k) (nthz arr mid)); [apply S; lia|].
        apply compare_lt_gt. apply below_prefix with (p := pfx); auto. }
      apply IH; lia.
    + assert (C : String.compare (nthz arr mid) pfx <> Lt).
      { unfold String.ltb in LT. destruct (String.compare (nthz arr mid) pfx); congruence. }
      assert (k < mid).
      { destruct (Z_lt_le_dec k mid) as [?|Le]; [assumption|exfalso].
        apply (leb_not_gt (nthz arr mid) (nthz arr k)); [apply S; lia|].
        apply above_prefix with (p := pfx); auto. }
      apply IH; lia.
Qed.

Theorem bsearch_complete : forall arr pfx d,
  sorted_str arr ->
  In d arr -> has_prefix pfx d = true -> is_backup d = false ->
  exists x, bsearch (S (List.length arr)) arr pfx 0 (Z.of_nat (List.length arr) - 1) = Some x.
Proof.
  intros arr pfx d S I P B. destruct (In_nthz arr d I) as [k [Hk E]]. subst d.
  apply bsearch_complete_gen with (k := k); auto; lia.
Qed.

(* ------------------------------------------------------------------ sort_by String.leb sorts *)

Lemma ascii_lt_trans : forall a b c, Ascii.compare a b = Lt -> Ascii.compare b c = Lt -> Ascii.compare a c = Lt.
Proof.
  unfold Ascii.compare. intros a b c H1 H2. rewrite N.compare_lt_iff in *. eapply N.lt_trans; eauto.
Qed.

Lemma string_lt_trans : forall a b c, String.compare a b = Lt -> String.compare b c = Lt -> String.compare a c = Lt.
Proof.
  induction a as [|x a IH]; intros b c H1 H2.
  - destruct b as [|y b]; simpl in H1; [discriminate|]. destruct c as [|z c]; simpl in H2; [discriminate|]. reflexivity.
  - destruct b as [|y b]; simpl in H1; [discriminate|]. destruct c as [|z c]; simpl in H2; [discriminate|].
    simpl.
    destruct (Ascii.compare x y) eqn:XY; try discriminate;
    destruct (Ascii.compare y z) eqn:YZ; try discriminate.
    + apply Ascii.compare_eq_iff in XY. apply Ascii.compare_eq_iff in YZ. subst y z.
      rewrite ascii_compare_refl. eapply IH; eauto.
    + apply Ascii.compare_eq_iff in XY. subst y. rewrite YZ. reflexivity.
    + apply Ascii.compare_eq_iff in YZ. subst z. rewrite XY. reflexivity.
    + rewrite (ascii_lt_trans x y z XY YZ). reflexivity.
Qed.

Lemma string_leb_trans : forall a b c, String.leb a b = true -> String.leb b c = true -> String.leb a c = true.
Proof.
  unfold String.leb. intros a b c H1 H2.
  destruct (String.compare a b) eqn:AB; try discriminate.
  - apply String.compare_eq_iff in AB. subst b. exact H2.
  - destruct (String.compare b c) eqn:BC; try discriminate.
    + apply String.compare_eq_iff in BC. subst c. rewrite AB. reflexivity.
    + rewrite (string_lt_trans a b c AB BC). reflexivity.
Qed.

Lemma insert_by_In : forall (a x : string) l, In x (insert_by String.leb a l) -> x = a \/ In x l.
Proof.
  induction l as [|b t IH]; simpl; intros H.
  - destruct H as [H|[]]; auto.
  - destruct (String.leb a b); simpl in H.
    + destruct H as [H|H]; auto.
    + destruct H as [H|H]; auto. destruct (IH H); auto.
Qed.

Lemma insert_by_sorted : forall a l, StronglySorted (fun x y => String.leb x y = true) l ->
  StronglySorted (fun x y => String.leb x y = true) (insert_by String.leb a l).
Proof.
  induction l as [|b t IH]; intros SS; simpl.
  - constructor; constructor.
  - inversion SS as [|b' t' SSt Fb]; subst.
    destruct (String.leb a b) eqn:AB.
    + constructor; [exact SS|]. constructor; [exact AB|].
      rewrite Forall_forall in *. intros y Hy. eapply string_leb_trans; eauto.
    + constructor; [apply IH; exact SSt|].
      rewrite Forall_forall in *. intros y Hy. destruct (insert_by_In _ _ _ Hy) as [E|I].
      * subst y. destruct (String.leb_total a b) as [L|L]; congruence.
      * apply Fb; exact I.
Qed.

Lemma sort_by_strongly_sorted : forall l, StronglySorted (fun x y => String.leb x y = true) (sort_by String.leb l).
Proof.
  unfold sort_by. induction l as [|a l IH]; simpl; [constructor|]. apply insert_by_sorted. exact IH.
Qed.

Lemma string_leb_refl : forall a, String.leb a a = true.
Proof. intros a. destruct (String.leb_total a a); assumption. Qed.

Lemma strongly_sorted_nth : forall l, StronglySorted (fun x y => String.leb x y = true) l ->
  forall i j, (i <= j)%nat -> (j < List.length l)%nat ->
  String.leb (nth i l EmptyString) (nth j l EmptyString) = true.
Proof.
  induction 1 as [|a l SS IH Fa]; intros i j Hij Hj; simpl in Hj; [lia|].
  destruct j as [|j].
  - assert (i = 0)%nat by lia. subst i. apply string_leb_refl.
  - destruct i as [|i]; simpl.
    + rewrite Forall_forall in Fa. apply Fa. apply nth_In. lia.
    + apply IH; lia.
Qed.

Theorem sort_by_sorted : forall l, sorted_str (sort_by String.leb l).
Proof.
  intros l i j Hi Hij Hj. unfold nthz.
  apply strongly_sorted_nth; [apply sort_by_strongly_sorted|lia|lia].
Qed.

(* ------------------------------------------------------------------ the search on the month listing *)

Theorem prefix_search_complete : forall nm s i ts d,
  In d (month_names nm s i ts) -> has_prefix (n_tsname nm ts) d = true -> is_backup d = false ->
  exists x, prefix_search nm s i ts = Some x /\ is_backup x = false /\ has_prefix (n_tsname nm ts) x = true.
Proof.
  intros nm s i ts d I P B. unfold prefix_search.
  destruct (bsearch_complete (month_names nm s i ts) (n_tsname nm ts) d) as [x Hx]; auto.
  - unfold month_names. apply sort_by_sorted.
  - exists x. split; [exact Hx|]. eapply bsearch_sound; eauto.
Qed.

Print Assumptions bsearch_complete.
Print Assumptions sort_by_sorted.
Print Assumptions prefix_search_complete.
