(* C25 proofs, part 7: merging the same source into an already merged day changes nothing
   (mergeSnapshots absorbs, planDayMerge + isDayComplete reach a fixed point). *)
From Coq Require Import List ZArith String Ascii Bool Lia Permutation.
From GoProbe.Base Require Import CorrLib.
From GoProbe.C25 Require Import Model Proofs1 Proofs5.
Import ListNotations.
Open Scope Z_scope.

(* ---- insertion sort on Z *)
Fixpoint srt (l : list Z) : Prop :=
  match l with
  | [] => True
  | a :: t => match t with [] => True | b :: _ => a <= b end /\ srt t
  end.

Lemma insert_srt : forall a l, srt l -> srt (insert_by Z.leb a l).
Proof.
  induction l as [|b t]; simpl; intros; auto.
  destruct (a <=? b) eqn:E.
  - apply Z.leb_le in E. simpl. auto.
  - apply Z.leb_gt in E. destruct H as [H1 H2]. specialize (IHt H2).
    destruct t as [|c t']; simpl in *.
    + split; auto. lia.
    + destruct (a <=? c) eqn:E2; simpl; split; auto; try lia.
Qed.

Lemma sort_srt : forall l, srt (sort_by Z.leb l).
Proof. unfold sort_by. induction l; simpl; auto. apply insert_srt. auto. Qed.

Lemma sort_sorted_id : forall l, srt l -> sort_by Z.leb l = l.
Proof.
  unfold sort_by. induction l as [|a t]; simpl; intros; auto. destruct H as [H1 H2].
  rewrite IHt by auto. destruct t as [|b t']; simpl; auto.
  assert (a <=? b = true) by (apply Z.leb_le; auto). rewrite H. auto.
Qed.

(* ---- dedup *)
Lemma existsb_eqb_in : forall a l, existsb (Z.eqb a) l = true <-> In a l.
Proof.
  intros. rewrite existsb_exists. split.
  - intros [x [IN E]]. apply Z.eqb_eq in E. subst. auto.
  - intros. exists a. split; auto. apply Z.eqb_refl.
Qed.

Lemma dedup_z_in : forall l x, In x (dedup_z l) <-> In x l.
Proof.
  induction l; simpl; intros; [tauto|]. destruct (existsb (Z.eqb a) l) eqn:E.
  - rewrite IHl. split; auto. intros [H|H]; auto. subst. apply existsb_eqb_in. auto.
  - simpl. rewrite IHl. tauto.
Qed.
Lemma dedup_z_nodup : forall l, NoDup (dedup_z l).
Proof.
  induction l; simpl; [constructor|]. destruct (existsb (Z.eqb a) l) eqn:E; auto.
  constructor; auto. rewrite dedup_z_in. intro IN. apply existsb_eqb_in in IN. congruence.
Qed.
Lemma dedup_z_id : forall l, NoDup l -> dedup_z l = l.
Proof.
  induction l; simpl; intros; auto. inversion H; subst.
  destruct (existsb (Z.eqb a) l) eqn:E.
  - apply existsb_eqb_in in E. contradiction.
  - rewrite IHl; auto.
Qed.
Lemma dedup_z_absorb : forall A L, (forall a, In a A -> In a L) -> dedup_z (A ++ L) = dedup_z L.
Proof.
  induction A; simpl; intros; auto.
  assert (existsb (Z.eqb a) (A ++ L) = true).
  { apply existsb_eqb_in. apply in_or_app. right. apply H. auto. }
  rewrite H0. apply IHA. intros. apply H. auto.
Qed.

(* ---- lookup_last *)
Lemma lookup_last_in : forall t bl, In t (map fst bl) -> exists v, lookup_last t bl = Some v.
Proof.
  intros. unfold lookup_last. destruct (find (fun b => fst b =? t) (rev bl)) eqn:F; eauto.
  exfalso. apply in_map_iff in H. destruct H as [[t' v] [E IN]]. simpl in E. subst t'.
  assert (X : (fst (t, v) =? t) = false). { apply (find_none _ _ F (t, v)). apply in_rev. rewrite rev_involutive. auto. }
  simpl in X. rewrite Z.eqb_refl in X. discriminate.
Qed.
Lemma lookup_last_notin : forall t bl, ~ In t (map fst bl) -> lookup_last t bl = None.
Proof.
  intros. unfold lookup_last. destruct (find (fun b => fst b =? t) (rev bl)) eqn:F; auto.
  exfalso. apply find_some in F. destruct F as [IN E]. apply Z.eqb_eq in E. apply H.
  apply in_map_iff. exists p. split; auto. apply in_rev. auto.
Qed.
Lemma nodup_fst_unique : forall (M : blocks) t v w, NoDup (map fst M) -> In (t, v) M -> In (t, w) M -> v = w.
Proof.
  induction M as [|[a b] M]; simpl; intros; [contradiction|]. inversion H; subst.
  destruct H0 as [E1|I1], H1 as [E2|I2].
  - congruence.
  - inversion E1; subst. exfalso. apply H4. apply in_map_iff. exists (t, w). auto.
  - inversion E2; subst. exfalso. apply H4. apply in_map_iff. exists (t, v). auto.
  - eauto.
Qed.
Lemma lookup_last_unique : forall (M : blocks) t v, NoDup (map fst M) -> In (t, v) M -> lookup_last t M = Some v.
Proof.
  intros. destruct (lookup_last_in t M) as [w W]. { apply in_map_iff. exists (t, v). auto. }
  rewrite W. f_equal. unfold lookup_last in W.
  destruct (find (fun b => fst b =? t) (rev M)) as [[t' w']|] eqn:F; inversion W; subst.
  apply find_some in F. destruct F as [IN E]. simpl in E. apply Z.eqb_eq in E. subst t'.
  apply in_rev in IN. eapply nodup_fst_unique; eauto.
Qed.

(* ---- merge_blocks *)
Definition pick (ow : bool) (sb db : blocks) (t : Z) : option (Z * Z) :=
  match lookup_last t sb, lookup_last t db with
  | Some x, Some y => Some (t, if ow then x else y)
  | Some x, None => Some (t, x)
  | None, Some y => Some (t, y)
  | None, None => None
  end.
Definition keys_of (sb db : blocks) : list Z := sort_by Z.leb (dedup_z (map fst sb ++ map fst db)).

Lemma merge_blocks_pick : forall ow sb db, merge_blocks ow sb db = filter_map (pick ow sb db) (keys_of sb db).
Proof. reflexivity. Qed.

Lemma keys_of_in : forall sb db t, In t (keys_of sb db) <-> In t (map fst sb) \/ In t (map fst db).
Proof.
  intros. unfold keys_of. split; intros.
  - apply (Permutation_in _ (sort_by_perm Z.leb _)) in H. apply (proj1 (dedup_z_in _ _)) in H. apply in_app_or in H. auto.
  - apply (Permutation_in _ (Permutation_sym (sort_by_perm Z.leb _))). apply (proj2 (dedup_z_in _ _)). apply in_or_app. auto.
Qed.
Lemma keys_of_nodup : forall sb db, NoDup (keys_of sb db).
Proof.
  intros. unfold keys_of. eapply Permutation_NoDup; [apply Permutation_sym; apply sort_by_perm|]. apply dedup_z_nodup.
Qed.

Lemma pick_some : forall ow sb db t, In t (keys_of sb db) -> exists v, pick ow sb db t = Some (t, v).
Proof.
  intros. apply keys_of_in in H. unfold pick.
  destruct (lookup_last t sb) eqn:A, (lookup_last t db) eqn:B; eauto.
  exfalso. destruct H as [H|H]; apply lookup_last_in in H; destruct H; congruence.
Qed.

Lemma filter_map_keys : forall (f : Z -> option (Z * Z)) l,
  (forall t, In t l -> exists v, f t = Some (t, v)) -> map fst (filter_map f l) = l.
Proof.
  induction l; simpl; intros; auto. destruct (H a (or_introl eq_refl)) as [v E]. rewrite E. simpl.
  rewrite IHl; auto.
Qed.
Lemma filter_map_in : forall {A B} (f : A -> option B) l a b, In a l -> f a = Some b -> In b (filter_map f l).
Proof.
  induction l; simpl; intros; [contradiction|]. destruct H.
  - subst. rewrite H0. left. auto.
  - destruct (f a); [right|]; eauto.
Qed.
Lemma filter_map_ext_in : forall {A B} (f g : A -> option B) l, (forall a, In a l -> f a = g a) ->
  filter_map f l = filter_map g l.
Proof.
  induction l; simpl; intros; auto. rewrite (H a (or_introl eq_refl)). rewrite IHl; auto.
Qed.

Lemma merge_keys : forall ow sb db, map fst (merge_blocks ow sb db) = keys_of sb db.
Proof. intros. rewrite merge_blocks_pick. apply filter_map_keys. intros. apply pick_some. auto. Qed.

Lemma merge_lookup : forall ow sb db t v, pick ow sb db t = Some (t, v) -> In t (keys_of sb db) ->
  lookup_last t (merge_blocks ow sb db) = Some v.
Proof.
  intros. apply lookup_last_unique.
  - rewrite merge_keys. apply keys_of_nodup.
  - rewrite merge_blocks_pick. eapply filter_map_in; eauto.
Qed.

(* mergeSnapshots(src, mergeSnapshots(src, dst)) = mergeSnapshots(src, dst) *)
Theorem merge_blocks_absorb : forall ow sb db,
  merge_blocks ow sb (merge_blocks ow sb db) = merge_blocks ow sb db.
Proof.
  intros. set (M := merge_blocks ow sb db).
  assert (K : keys_of sb M = keys_of sb db).
  { unfold keys_of at 1. unfold M. rewrite merge_keys.
    rewrite dedup_z_absorb by (intros; apply keys_of_in; auto).
    rewrite dedup_z_id by apply keys_of_nodup.
    apply sort_sorted_id. unfold keys_of. apply sort_srt. }
  rewrite (merge_blocks_pick ow sb M), K. unfold M at 2. rewrite merge_blocks_pick.
  apply filter_map_ext_in. intros t IN.
  destruct (pick_some ow sb db t IN) as [v P].
  pose proof (merge_lookup ow sb db t v P IN) as L. fold M in L.
  unfold pick at 1. rewrite L. unfold pick in P |- *.
  destruct (lookup_last t sb) eqn:A, (lookup_last t db) eqn:B; inversion P; subst; auto.
  all: destruct ow; auto.
Qed.

(* ---- one day of the merge as a function of the destination day: name and blocks afterwards *)
Definition day_after (o : opts) (ts : Z) (sname : string) (sbl : blocks) (rn : blocks -> string)
           (d : option (string * blocks)) : option (string * blocks) :=
  let ow := o_overwrite o in
  let srcC := complete (tolerance o) ts sbl in
  match d with
  | None =>
    match plan_action ow srcC false false with
    | ASkip => None
    | ACopy => Some (sname, sbl)
    | ARebuild => Some (rn (merge_blocks ow sbl []), merge_blocks ow sbl [])
    end
  | Some (dn, dbl) =>
    match plan_action ow srcC true (complete (tolerance o) ts dbl) with
    | ASkip => d
    | ACopy => Some (sname, sbl)
    | ARebuild => Some (rn (merge_blocks ow sbl dbl), merge_blocks ow sbl dbl)
    end
  end.

(* planDayMerge + isDayComplete + mergeSnapshots: merging the same source day again changes nothing *)
Theorem day_after_fixed : forall o ts sname sbl rn d,
  day_after o ts sname sbl rn (day_after o ts sname sbl rn d) = day_after o ts sname sbl rn d.
Proof.
  intros. unfold day_after, plan_action.
  destruct (complete (tolerance o) ts sbl) eqn:SC, (o_overwrite o) eqn:OW, d as [[dn dbl]|]; cbn;
    rewrite ?SC; cbn; try reflexivity;
    try (destruct (complete (tolerance o) ts dbl) eqn:DC; cbn; rewrite ?SC, ?DC; cbn; try reflexivity);
    try (destruct (complete (tolerance o) ts (merge_blocks _ sbl _)); cbn; rewrite ?merge_blocks_absorb; reflexivity);
    rewrite ?merge_blocks_absorb; reflexivity.
Qed.
