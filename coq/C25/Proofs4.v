(* C25 proofs, part 4: leftovers are invisible to the readers; the rename window refutes the full statement. *)
From Coq Require Import List ZArith String Ascii Bool Lia.
From GoProbe.Base Require Import CorrLib.
From GoProbe.C25 Require Import Model Proofs1 Proofs2 Proofs3.
Import ListNotations.
Open Scope Z_scope.

Lemma interfaces_not_stage : forall s n, In n (interfaces s) -> is_stage n = false.
Proof.
  unfold interfaces. induction s as [|[k nd] s]; intros n H; [contradiction|].
  destruct k as [|a [|? ?]]; simpl in H; auto.
  destruct nd; auto.
  destruct (is_stage a) eqn:E; auto. destruct H; subst; auto.
Qed.

Lemma day_dirs_not_backup : forall s i d, In d (day_dirs s i) -> is_backup (snd (fst d)) = false.
Proof.
  unfold day_dirs. induction s as [|[k nd] s]; intros i d H; [contradiction|].
  destruct k as [|a [|y [|m [|dn [|? ?]]]]]; simpl in H; eauto.
  destruct nd; eauto.
  destruct (String.eqb a i && numeric y && numeric m && negb (is_backup dn)) eqn:E; eauto.
  destruct H; eauto. subst d. simpl.
  apply andb_true_iff in E. destruct E as [_ E]. apply negb_true_iff in E. auto.
Qed.

Lemma list_days_not_backup : forall s i ds d, list_days s i = Ok ds -> In d ds -> is_backup (snd (fst d)) = false.
Proof.
  unfold list_days. intros. destruct (existsb unparsable (day_dirs s i)); try discriminate.
  destruct (has_dup (map ts_of (day_dirs s i))); try discriminate. inversion H; subst.
  eapply day_dirs_not_backup; eauto.
Qed.

Lemma walk_not_backup : forall s i ds t n c, walk s i = Ok ds -> In (t, n, c) ds -> is_backup n = false.
Proof.
  unfold walk. intros. destruct (walk_err s i); try discriminate. inversion H; subst.
  apply in_map_iff in H0. destruct H0 as [d [E IN]]. inversion E; subst.
  eapply day_dirs_not_backup; eauto.
Qed.

Theorem leftovers_invisible : forall nm dst src o k, is_stage (n_stage nm) = true ->
  let s := crash_state nm dst src o k in
  ~ In (n_stage nm) (interfaces s)
  /\ (forall n, In n (interfaces s) -> is_stage n = false)
  /\ (forall i ds t n c, walk s i = Ok ds -> In (t, n, c) ds -> is_backup n = false)
  /\ (forall i ds d, list_days s i = Ok ds -> In d ds -> is_backup (snd (fst d)) = false)
  /\ (forall a y m dn, exists dnb, backup_path nm [a; y; m; dn] = [a; y; m; dnb] /\ is_backup dnb = true).
Proof.
  intros. split; [|split; [|split; [|split]]].
  - intro IN. apply interfaces_not_stage in IN. congruence.
  - apply interfaces_not_stage.
  - intros. eapply walk_not_backup; eauto.
  - intros. eapply list_days_not_backup; eauto.
  - intros. eexists. split; [reflexivity|]. apply is_backup_backup_name.
Qed.

(* ------------------------------------------------------------------ the window *)

Definition ex_names : names :=
  mkNames (fun _ => ("2024", "01")%string) (fun _ => "1704844800"%string)
          (fun _ _ _ => "1704844800_r"%string) ".gpdb-merge-stage-1" "7".
Definition ex_dst : fs :=
  [(["eth0"], NDir Empty); (["eth0"; "2024"], NDir Empty); (["eth0"; "2024"; "01"], NDir Empty);
   (["eth0"; "2024"; "01"; "1704844800_a"], NDir (Data [(1704845100, 1); (1704931200, 2)]))]%string.
Definition ex_src : fs :=
  [(["eth0"], NDir Empty); (["eth0"; "2024"], NDir Empty); (["eth0"; "2024"; "01"], NDir Empty);
   (["eth0"; "2024"; "01"; "1704844800_b"], NDir (Data [(1704845100, 3); (1704931200, 4)]))]%string.
Definition ex_opts : opts := mkOpts [] true false 0.

(* killed between the two renames, the day shows neither its old nor its merged data *)
Lemma window_refutes :
  let ops := merge_ops ex_names ex_dst ex_src ex_opts in
  is_stage (n_stage ex_names) = true /\ is_stage "eth0" = false /\ plans_wf ex_opts ex_dst ex_src
  /\ window_at ops "eth0" 1704844800 8 = true
  /\ day_view ex_dst "eth0" 1704844800 = Ok [("1704844800_a"%string, Data [(1704845100, 1); (1704931200, 2)])]
  /\ day_view (final_state ex_names ex_dst ex_src ex_opts) "eth0" 1704844800
     = Ok [("1704844800_b"%string, Data [(1704845100, 3); (1704931200, 4)])]
  /\ day_view (crash_state ex_names ex_dst ex_src ex_opts 8) "eth0" 1704844800 = Ok [].
Proof.
  cbv zeta. split; [vm_compute; reflexivity|]. split; [vm_compute; reflexivity|].
  split.
  - assert (E : select_ifaces (src_ifaces ex_src) (o_ifaces ex_opts) = Some ["eth0"%string]) by (vm_compute; reflexivity).
    assert (P : fst (plan_ifaces ex_opts ex_dst ex_src ["eth0"%string]) =
                [mkPlan "eth0" 1704844800 ACopy "1704844800_b" [(1704845100, 3); (1704931200, 4)]
                        (Some (["eth0"; "2024"; "01"; "1704844800_a"]%string, [(1704845100, 1); (1704931200, 2)]))])
      by (vm_compute; reflexivity).
    unfold plans_wf. rewrite E. cbv zeta. rewrite P. split.
    + constructor; [|constructor]. unfold plan_ok. cbn [p_exist p_iface p_ts p_act p_srcname]. split.
      * exists "2024"%string, "01"%string, "1704844800_a"%string. split; [reflexivity|vm_compute; reflexivity].
      * intros _. vm_compute. reflexivity.
    + cbn [map key p_iface p_ts]. constructor; [intros H; inversion H|constructor].
  - split; [vm_compute; reflexivity|]. split; [vm_compute; reflexivity|].
    split; vm_compute; reflexivity.
Qed.
