(* C25 correspondence: case type, corr (model = observed) and holds (observed meets the spec). Executable only. *)
From Coq Require Import List ZArith String Ascii Bool.
From GoProbe.Base Require Import CorrLib.
From GoProbe.C25 Require Import Model.
Import ListNotations.
Open Scope Z_scope.

(* ------------------------------------------------------------------ concrete names *)

Fixpoint digits_fuel (fuel : nat) (n : Z) (acc : string) : string :=
  match fuel with
  | O => acc
  | S f => let d := ascii_of_nat (Z.to_nat (48 + n mod 10)) in
           if n <? 10 then String d acc else digits_fuel f (n / 10) (String d acc)
  end.
Definition itoa (n : Z) : string :=
  if n <? 0 then String "-"%char (digits_fuel 25 (- n) EmptyString) else digits_fuel 25 n EmptyString.
Definition pad2 (n : Z) : string := if n <? 10 then String "0"%char (itoa n) else itoa n.

(* civil date of a day number (days since 1970-01-01), proleptic Gregorian *)
Definition civil (days : Z) : Z * Z :=
  let z := days + 719468 in
  let era := z / 146097 in
  let doe := z - era * 146097 in
  let yoe := (doe - doe / 1460 + doe / 36524 - doe / 146096) / 365 in
  let y := yoe + era * 400 in
  let doy := doe - (365 * yoe + yoe / 4 - yoe / 100) in
  let mp := (5 * doy + 2) / 153 in
  let m := if mp <? 10 then mp + 3 else mp - 9 in
  (if m <=? 2 then y + 1 else y, m).

(* the year / month directory the gpfile writer and reader and walkDB use for a day: year and month of the day's
   UTC midnight in the PROCESS time zone (off seconds east of UTC) *)
Definition ym_impl (off : Z) (ts : Z) : string * string :=
  let '(y, m) := civil ((dir_ts ts + off) / 86400) in (itoa y, pad2 m).

Definition blocks_eqb (a b : blocks) : bool :=
  (fix go (x y : blocks) := match x, y with
                            | [], [] => true
                            | (t1, i1) :: x', (t2, i2) :: y' => (t1 =? t2) && (i1 =? i2) && go x' y'
                            | _, _ => false end) a b.

Definition name_table := list (string * Z * blocks * string).
Definition rname_impl (tbl : name_table) (i : string) (ts : Z) (bl : blocks) : string :=
  match find (fun e => let '(i', t, b, _) := e in String.eqb i' i && (t =? ts) && blocks_eqb b bl) tbl with
  | Some (_, _, _, n) => n
  | None => (itoa (dir_ts ts) ++ "_?")%string
  end.

Definition mk_names (off : Z) (tbl : name_table) (stage ns : string) : names :=
  mkNames (ym_impl off) (fun ts => itoa (dir_ts ts)) (rname_impl tbl) stage ns.

(* ------------------------------------------------------------------ observed states *)

Definition oday := (Z * string * res blocks)%type.
Record ostate := mkOState {
  os_ifaces : res (list string);
  (* interface, query walk, merge listing, (day timestamp, directory a writer would open, directory a
     reader's recovery falls back to) *)
  os_per : list (string * res (list oday) * res (list (Z * string)) * list (Z * string * string))
}.

Record point := mkPoint {
  pt_d : nat;            (* directory-level calls completed before the kill *)
  pt_f : nat;            (* how many of the following collapsed file-level steps are (partly) done: 0, 1, 2 *)
  pt_state : nat;
  pt_later_ok : bool;
  pt_later : nat
}.

Record case := mkCase {
  c_dst : fs; c_src : fs; c_opts : opts; c_probe : list string; c_probe_ts : list Z; c_tz : Z; c_names : name_table;
  c_merge_ok : bool; c_ops : list fsop; c_before : nat; c_final : nat;
  c_points : list point; c_states : list ostate
}.

(* ---- equality tests *)
Fixpoint list_eqb {A} (eqb : A -> A -> bool) (a b : list A) : bool :=
  match a, b with [] , [] => true | x :: a', y :: b' => eqb x y && list_eqb eqb a' b' | _, _ => false end.
Definition content_res (c : content) : res blocks := match c with Data bl => Ok bl | _ => Err end.
Definition oday_eqb (a b : oday) : bool :=
  let '(t1, n1, c1) := a in let '(t2, n2, c2) := b in
  (t1 =? t2) && String.eqb n1 n2 && res_eqb blocks_eqb c1 c2.
Definition oday_le (a b : oday) : bool :=
  let '(t1, n1, _) := a in let '(t2, n2, _) := b in
  (t1 <? t2) || ((t1 =? t2) && String.leb n1 n2).
Definition lday_eqb (a b : Z * string) : bool := (fst a =? fst b) && String.eqb (snd a) (snd b).
Definition lday_le (a b : Z * string) : bool := (fst a <? fst b) || ((fst a =? fst b) && String.leb (snd a) (snd b)).

Definition per_eqb (a b : string * res (list oday) * res (list (Z * string)) * list (Z * string * string)) : bool :=
  let '(i1, w1, l1, _) := a in let '(i2, w2, l2, _) := b in
  String.eqb i1 i2
  && res_eqb (fun x y => list_eqb oday_eqb (sort_by oday_le x) (sort_by oday_le y)) w1 w2
  && res_eqb (fun x y => list_eqb lday_eqb (sort_by lday_le x) (sort_by lday_le y)) l1 l2.

Definition ostate_eqb (a b : ostate) : bool :=
  res_eqb (list_eqb String.eqb) (os_ifaces a) (os_ifaces b) && list_eqb per_eqb (os_per a) (os_per b).

(* what the reader child reports, computed by the model *)
Definition model_state (s : fs) (probe : list string) : ostate :=
  let ifs := sort_by String.leb (interfaces s) in
  let names := sort_by String.leb (dedup_str (ifs ++ probe)) in
  mkOState (Ok ifs)
    (map (fun i =>
       (i,
        match walk s i with
        | Ok ds => Ok (map (fun d => let '(t, n, c) := d in (t, n, content_res c)) ds)
        | _ => Err end,
        match list_days s i with
        | Ok ds => Ok (map (fun d => (ts_of d, snd (fst d))) ds)
        | _ => Err end, [])) names).

(* the prefix search of the writer / of the reader's recovery returns exactly what the literal model of the
   bisection returns (and that is one of the set-level candidates, or nothing when there is none) *)
Definition targets_match (nm : names) (s : fs) (st : ostate) : bool :=
  forallb (fun e =>
    let '(i, _, _, tg) := e in
    forallb (fun t =>
      let '(ts, w, r) := t in
      String.eqb w (write_target nm s i ts) && String.eqb r (recover_target nm s i ts)
      && match prefix_matches nm s i ts with
         | [] => String.eqb w (n_tsname nm ts) && String.eqb r ""
         | cs => existsb (String.eqb w) cs && existsb (String.eqb r) cs
         end) tg) (os_per st).

(* ---- directory-level projection of the op list *)
Definition op_eqb (a b : fsop) : bool :=
  match a, b with
  | Mkdir p, Mkdir q => path_eqb p q
  | Rmdir p, Rmdir q => path_eqb p q
  | Rename p1 q1, Rename p2 q2 => path_eqb p1 p2 && path_eqb q1 q2
  | _, _ => false
  end.
Definition dir_ops (ops : list fsop) : list fsop := filter (fun o => negb (is_fill o)) ops.
Definition path_key (p : path) : string := fold_right (fun a b => (a ++ "/" ++ b)%string) EmptyString p.
Definition op_key (o : fsop) : string :=
  match o with Mkdir p => path_key p | Rmdir p => path_key p | Rename p q => path_key p | Fill p _ => path_key p end.
Definition is_rmdir_stage (st : string) (o : fsop) : bool :=
  match o with Rmdir p => under st p | _ => false end.
(* the final RemoveAll(stage) visits directory entries in readdir order: compare that segment as a set *)
Definition ops_match (st : string) (m o : list fsop) : bool :=
  let mc := filter (is_rmdir_stage st) m in
  let oc := filter (is_rmdir_stage st) o in
  list_eqb op_eqb (filter (fun x => negb (is_rmdir_stage st x)) m) (filter (fun x => negb (is_rmdir_stage st x)) o)
  && list_eqb String.eqb (sort_by String.leb (map op_key mc)) (sort_by String.leb (map op_key oc)).

(* the model prefix that corresponds to "d directory-level calls done, f collapsed file steps done" *)
Fixpoint take_fills (f : nat) (ops : list fsop) : list fsop :=
  match f, ops with
  | S f', (Fill p c) :: r => Fill p c :: take_fills f' r
  | _, _ => []
  end.
Fixpoint prefix_df (d f : nat) (ops : list fsop) : list fsop :=
  match d with
  | O => take_fills f ops
  | S d' => match ops with
            | [] => []
            | o :: r => if is_fill o then o :: prefix_df d f r else o :: prefix_df d' f r
            end
  end.

(* executable form of Proofs3.plans_wf (hypothesis of c25_old_or_new_partial), checked on every case *)
Definition plan_ok_b (pl : dplan) : bool :=
  match p_exist pl with
  | Some ([i; _; _; dn0], _) => String.eqb i (p_iface pl) && match parse_day dn0 with Some t => t =? p_ts pl | None => false end
  | Some _ => false
  | None => true
  end
  && match p_act pl with
     | ARebuild => true
     | _ => match parse_day (p_srcname pl) with Some t => t =? p_ts pl | None => false end
     end.
Fixpoint keys_nodup (l : list (string * Z)) : bool :=
  match l with
  | [] => true
  | (i, t) :: r => negb (existsb (fun k => String.eqb (fst k) i && (snd k =? t)) r) && keys_nodup r
  end.
Definition plans_wf_b (o : opts) (dst src : fs) : bool :=
  match select_ifaces (src_ifaces src) (o_ifaces o) with
  | Some sel => let pls := fst (plan_ifaces o dst src sel) in
                forallb plan_ok_b pls && keys_nodup (map (fun pl => (p_iface pl, p_ts pl)) pls)
  | None => true
  end.

Definition stage1 : string := ".gpdb-merge-stage-X".
Definition stage2 : string := ".gpdb-merge-stage-Y".

Definition nth_state (c : case) (n : nat) : ostate := nth n (c_states c) (mkOState Err []).

(* does the model still describe the code? *)
Definition corr (c : case) : bool :=
  let nm := mk_names (c_tz c) (c_names c) stage1 "N" in
  let nm2 := mk_names (c_tz c) (c_names c) stage2 "M" in
  let ops := merge_ops nm (c_dst c) (c_src c) (c_opts c) in
  ops_match stage1 (dir_ops ops) (c_ops c)
  && plans_wf_b (c_opts c) (c_dst c) (c_src c)
  && Bool.eqb (negb (merge_fails (c_opts c) (c_dst c) (c_src c))) (c_merge_ok c)
  && ostate_eqb (model_state (c_dst c) (c_probe c)) (nth_state c (c_before c))
  && ostate_eqb (model_state (apply_all (c_dst c) ops) (c_probe c)) (nth_state c (c_final c))
  && forallb (fun p =>
       let s := apply_all (c_dst c) (prefix_df (pt_d p) (pt_f p) ops) in
       ostate_eqb (model_state s (c_probe c)) (nth_state c (pt_state p))
       && targets_match nm s (nth_state c (pt_state p))
       && plans_wf_b (c_opts c) s (c_src c)
       && Bool.eqb (negb (merge_fails (c_opts c) s (c_src c))) (pt_later_ok p)
       && ostate_eqb (model_state (apply_all s (merge_ops nm2 s (c_src c) (c_opts c))) (c_probe c))
                     (nth_state c (pt_later p)))
     (c_points c).

(* ------------------------------------------------------------------ the specification, on observed data only *)

Definition artifact (n : string) : bool := has_prefix ".gpdb-merge-" n || contains ".gpdb-merge-backup-" n.

Definition per_of (s : ostate) (i : string) : option (res (list oday) * res (list (Z * string))) :=
  match find (fun e => String.eqb (fst (fst (fst e))) i) (os_per s) with
  | Some (_, w, l, _) => Some (w, l)
  | None => None
  end.
Definition walk_of (s : ostate) (i : string) : res (list oday) :=
  match per_of s i with Some (w, _) => w | None => Ok [] end.
Definition list_of (s : ostate) (i : string) : res (list (Z * string)) :=
  match per_of s i with Some (_, l) => l | None => Ok [] end.
Definition days_of (r : res (list oday)) : list oday := match r with Ok l => l | _ => [] end.
Definition view_of (r : res (list oday)) (ts : Z) : list oday :=
  sort_by oday_le (filter (fun d => fst (fst d) =? ts) (days_of r)).
Definition is_err {A} (r : res A) : bool := negb (is_ok r).

(* every day of the crashed tree shows its old or its new data; nothing of the merge's scaffolding shows *)
Definition state_ok (before final s : ostate) : bool :=
  match os_ifaces s, os_ifaces before, os_ifaces final with
  | Ok ifs, Ok bi, Ok fi =>
    forallb (fun n => negb (artifact n) && (existsb (String.eqb n) bi || existsb (String.eqb n) fi)) ifs
    && forallb (fun e =>
         let '(i, w, l, tg) := e in
         let wb := walk_of before i in
         let wf := walk_of final i in
         (negb (is_err w) || is_err wb)
         && (negb (is_err l) || is_err (list_of before i))
         && forallb (fun d => negb (artifact (snd (fst d)))) (days_of w)
         && forallb (fun d => negb (artifact (snd d))) (match l with Ok x => x | _ => [] end)
         && forallb (fun t => negb (artifact (snd (fst t))) && negb (artifact (snd t))) tg
         (* the search finds the day's directory whenever the walk sees one *)
         && forallb (fun t =>
              let '(ts, wt, rt) := t in
              match map (fun d => snd (fst d)) (filter (fun d => fst (fst d) =? ts) (days_of w)) with
              | [] => true
              | ns => existsb (String.eqb wt) ns && existsb (String.eqb rt) ns
              end) tg
         && forallb (fun ts =>
              let v := view_of w ts in
              list_eqb oday_eqb v (view_of wb ts) || list_eqb oday_eqb v (view_of wf ts))
            (map (fun d => fst (fst d)) (days_of w ++ days_of wb ++ days_of wf)))
       (os_per s)
  | _, _, _ => false
  end.

(* a later merge yields the merged result *)
Definition same_result (final later : ostate) : bool :=
  res_eqb (list_eqb String.eqb) (os_ifaces final) (os_ifaces later)
  && forallb (fun e => let '(i, w, _, _) := e in
                       res_eqb (fun x y => list_eqb oday_eqb (sort_by oday_le x) (sort_by oday_le y)) w (walk_of final i))
             (os_per later).

(* does the observed behaviour satisfy the property? *)
Definition holds (c : case) : bool :=
  let before := nth_state c (c_before c) in
  let final := nth_state c (c_final c) in
  forallb (fun p =>
    state_ok before final (nth_state c (pt_state p))
    && (negb (c_merge_ok c) || (pt_later_ok p && same_result final (nth_state c (pt_later p)))))
    (c_points c).
