(* C05 property theorems.  Inv s a: the file-system state s represents the abstract database a (C04, Proofs2);
   every state reached by write-outs and crashes/faults from the empty DB satisfies it (C04).  reader is the model of the real reader (C04), including the read-back of every committed block.  classify o = FFatal: the writer aborts when operation o fails (every
   operation up to and including the metadata rename except the dropped ReadDir errors); the two other
   classes are FIgnored (error dropped by the code, the write-out commits and reports success) and
   FAfterCommit (the directory rename - refuted below, finding C05-dir-rename-fault). *)
From Coq Require Import List ZArith NArith Bool Arith Lia.
From GoProbe.Base Require Import CorrLib.
From GoProbe.C04 Require Import Model ProofsCols Proofs2 Proofs5.
From GoProbe.C05 Require Import Model Proofs Proofs2.
Import ListNotations.

(* every fatal fault at every operation index: the write-out reports an error and the reader's answer
   equals the answer before the write-out *)
Theorem c05_fault_safe_partial : forall s a w k o, Inv s a ->
  nth_error (writeout_ops s w) k = Some o -> classify o = FFatal ->
  snd (fault_run (writeout_ops s w) k) = false /\
  reader (apply_all s (fst (fault_run (writeout_ops s w) k))) = reader s.
Proof. exact fault_safe. Qed.
Print Assumptions c05_fault_safe_partial.

(* after ANY finite sequence of fatally faulted write-outs the reader still answers as before, and a
   fault-free write-out is accepted and read back *)
Theorem c05_heals_partial : forall s s' a w, Inv s a -> wf_w w -> faulted s s' ->
  reader s' = reader s /\
  reader (apply_all s' (writeout_ops s' w)) = Ok (spec_read_f (adb_put a w)).
Proof. exact heals. Qed.
Print Assumptions c05_heals_partial.

(* errors the code drops (Close of the month listing; the deferred Remove of the already renamed temp file =
   unlinkat + unlinkat(AT_REMOVEDIR) at the very end): Write returns nil and the reader sees the write-out
   completely.  Side condition: the failing operation is state-neutral itself or only state-neutral operations
   follow it - it holds for every dropped-error position of a write-out (c05_dropped_example; checked on every
   generated case by the correspondence run) *)
Theorem c05_dropped_error_commits : forall s a w k o, Inv s a -> wf_w w ->
  nth_error (writeout_ops s w) k = Some o -> classify o = FIgnored ->
  (noop o \/ Forall noop (skipn (S k) (writeout_ops s w))) ->
  snd (fault_run (writeout_ops s w) k) = true /\
  reader (apply_all s (fst (fault_run (writeout_ops s w) k))) = Ok (spec_read_f (adb_put a w)).
Proof. exact dropped_commits. Qed.
Print Assumptions c05_dropped_error_commits.

(* the side condition above holds for EVERY state and EVERY write-out (purely syntactic: a dropped-error operation
   other than the deferred unlink is state-neutral itself, and the unlink is followed by the rmdir only), so the
   dropped-error theorem is unconditional: *)
Theorem c05_dropped_error_commits_full : forall s a w k o, Inv s a -> wf_w w ->
  nth_error (writeout_ops s w) k = Some o -> classify o = FIgnored ->
  snd (fault_run (writeout_ops s w) k) = true /\
  reader (apply_all s (fst (fault_run (writeout_ops s w) k))) = Ok (spec_read_f (adb_put a w)).
Proof. exact Proofs2.c05_dropped_error_commits_full. Qed.
Print Assumptions c05_dropped_error_commits_full.

(* healing after ANY sequence of faulted write-outs that mixes fatal faults (nothing committed) and dropped-error
   faults (committed completely, success reported) - every fault class except the directory rename of the open
   finding: the state satisfies the invariant for exactly the write-outs cs that hit a dropped error, in order,
   the reader shows exactly those on top of the database before, and the next fault-free write-out is visible in
   full. faulted_mix is defined in Proofs2.v (fm_nil / fm_fatal / fm_dropped). *)
Theorem c05_heals_mixed : forall s s' a cs w, Inv s a -> wf_w w -> faulted_mix s cs s' ->
  Inv s' (fold_left adb_put cs a) /\
  reader s' = Ok (spec_read_f (fold_left adb_put cs a)) /\
  reader (apply_all s' (writeout_ops s' w)) = Ok (spec_read_f (adb_put (fold_left adb_put cs a) w)).
Proof. exact Proofs2.c05_heals_mixed. Qed.
Print Assumptions c05_heals_mixed.

(* non-vacuity: a dropped-error fault on the last operation of a write-out, then a fatal fault at operation 8 *)
Example c05_heals_mixed_example : exists s', faulted_mix fs_empty [ex_w 0 1700000100%Z] s'.
Proof. exact c05_mixed_example. Qed.

Example c05_dropped_example :
  let s := hist_state fs_empty [ex_w 0 1700000100%Z] in
  let ops := writeout_ops s (ex_w 1 1700000400%Z) in
  forallb (fun k => match nth_error ops k with
                    | Some o => match classify o with
                                | FIgnored => match o with OClose _ | ORmdir _ => true
                                              | _ => forallb (fun o' => match o' with OClose _ | ORmdir _ | OSeek _ _ | OChmod _ => true | _ => false end) (skipn (S k) ops) end
                                | _ => true end
                    | None => true end) (seq 0 (length ops)) = true.
Proof. vm_compute. reflexivity. Qed.

(* the failing directory rename: Write returns an error but the reader already sees the write-out *)
Theorem c05_dir_rename_refuted : exists s w k o,
  s = hist_state fs_empty [ex_w 0 1700000100%Z] /\
  nth_error (writeout_ops s w) k = Some o /\ classify o = FAfterCommit /\
  snd (fault_run (writeout_ops s w) k) = false /\
  reader (apply_all s (fst (fault_run (writeout_ops s w) k))) <> reader s.
Proof. exact rendir_refuted. Qed.
Print Assumptions c05_dir_rename_refuted.

(* non-vacuity: the empty DB satisfies Inv, operation 8 of a first write-out (a column write) is fatal *)
Example c05_example :
  Inv fs_empty [] /\
  exists o, nth_error (writeout_ops fs_empty (ex_w 0 1700000100%Z)) 8 = Some o /\ classify o = FFatal.
Proof. split; [exact inv_empty|]. eexists. split; [vm_compute; reflexivity|reflexivity]. Qed.
