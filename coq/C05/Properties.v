(* C05 property theorems.  Inv s a: the file-system state s represents the abstract database a (C04, Proofs2);
   every state reached by write-outs and crashes/faults from the empty DB satisfies it (C04).  reader_meta is
   the metadata-level reader of C04.  classify o = FFatal: the writer aborts when operation o fails (every
   operation up to and including the metadata rename except the dropped ReadDir errors); the two other
   classes are FIgnored (error dropped by the code, the write-out commits and reports success) and
   FAfterCommit (the directory rename - refuted below, finding C05-dir-rename-fault). *)
From Coq Require Import List ZArith NArith Bool Arith Lia.
From GoProbe.Base Require Import CorrLib.
From GoProbe.C04 Require Import Model Proofs2 Proofs5.
From GoProbe.C05 Require Import Model Proofs.
Import ListNotations.

(* every fatal fault at every operation index: the write-out reports an error and the reader's answer
   equals the answer before the write-out *)
Theorem c05_fault_safe_partial : forall s a w k o, Inv s a ->
  nth_error (writeout_ops s w) k = Some o -> classify o = FFatal ->
  snd (fault_run (writeout_ops s w) k) = false /\
  reader_meta (apply_all s (fst (fault_run (writeout_ops s w) k))) = reader_meta s.
Proof. exact fault_safe. Qed.
Print Assumptions c05_fault_safe_partial.

(* after ANY finite sequence of fatally faulted write-outs the reader still answers as before, and a
   fault-free write-out is accepted and read back *)
Theorem c05_heals_partial : forall s s' a w, Inv s a -> faulted s s' ->
  reader_meta s' = reader_meta s /\
  reader_meta (apply_all s' (writeout_ops s' w)) = Ok (spec_read_m (adb_put a w)).
Proof. exact heals. Qed.
Print Assumptions c05_heals_partial.

(* the failing directory rename: Write returns an error but the reader already sees the write-out *)
Theorem c05_dir_rename_refuted : exists s w k o,
  s = hist_state fs_empty [ex_w 0 1700000100%Z] /\
  nth_error (writeout_ops s w) k = Some o /\ classify o = FAfterCommit /\
  snd (fault_run (writeout_ops s w) k) = false /\
  reader_meta (apply_all s (fst (fault_run (writeout_ops s w) k))) <> reader_meta s.
Proof. exact rendir_refuted. Qed.
Print Assumptions c05_dir_rename_refuted.

(* non-vacuity: the empty DB satisfies Inv, operation 8 of a first write-out (a column write) is fatal *)
Example c05_example :
  Inv fs_empty [] /\
  exists o, nth_error (writeout_ops fs_empty (ex_w 0 1700000100%Z)) 8 = Some o /\ classify o = FFatal.
Proof. split; [exact inv_empty|]. eexists. split; [vm_compute; reflexivity|reflexivity]. Qed.
