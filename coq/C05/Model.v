(* C05 model: a write-out during which one file-system operation fails.  The operation lists, `apply`, the
   classification of what the writer does on an error (`fault_run`) and the reader are those of C04. *)
From Coq Require Import List ZArith NArith Bool Arith.
From GoProbe.Base Require Import CorrLib.
From GoProbe.C04 Require Import Model.
Import ListNotations.

(* one write-out in state s during which operation k fails: resulting state, and whether Write returned nil *)
Definition fault_step (s : fs) (w : writeout) (k : nat) : fs * bool :=
  let (ops, ok) := writeout_run s w in
  if ok then let (fops, okf) := fault_run ops k in (apply_all s fops, okf)
  else (apply_all s ops, false).

Fixpoint fault_steps (s : fs) (fl : list (writeout * nat)) : fs * list bool :=
  match fl with
  | [] => (s, [])
  | (w, k) :: r => let (s', ok) := fault_step s w k in
                   let (s'', oks) := fault_steps s' r in (s'', ok :: oks)
  end.

(* a fault-free write-out *)
Definition clean_step (s : fs) (w : writeout) : fs * bool :=
  let (ops, ok) := writeout_run s w in (apply_all s ops, ok).
