(* C05 correspondence *)
From Coq Require Import List ZArith NArith Bool Arith.
From GoProbe.Base Require Import CorrLib.
From GoProbe.C04 Require Import Model Corr.
From GoProbe.C05 Require Import Model.
Import ListNotations.

Inductive case :=
(* ws committed fault-free; then each (w, k, ok): write-out w with DB-related call k failing, ok = Write returned
   nil; tree digest and reader result after the faults; then a fault-free write-out and the reader again *)
| CFault (ws : list writeout) (fl : list (writeout * nat * bool)) (ups : list updir) (days : list daydigest)
         (rd : obs_read) (heal : writeout) (heal_ok : bool) (rd2 : obs_read).

Definition corr (c : case) : bool :=
  match c with
  | CFault ws fl ups days rd heal heal_ok rd2 =>
    let s := hist_state fs_empty ws in
    let (s', oks) := fault_steps s (map fst fl) in
    list_eqb Bool.eqb oks (map snd fl) && digest_eqb s' ups days && read_eqb (reader s') rd
    && (let (s2, ok2) := clean_step s' heal in Bool.eqb ok2 heal_ok && read_eqb (reader s2) rd2)
  end.

(* the specification: a write-out that reported an error left no trace in what the reader sees, one that
   reported success is there completely; the fault-free write-out afterwards is accepted and read back *)
Definition survivors (fl : list (writeout * nat * bool)) : list writeout :=
  map (fun e => fst (fst e)) (filter (fun e => snd e) fl).
Definition holds (c : case) : bool :=
  match c with
  | CFault ws fl ups days rd heal heal_ok rd2 =>
    meets rd (ws ++ survivors fl) && heal_ok && meets rd2 (ws ++ survivors fl ++ [heal])
  end.
