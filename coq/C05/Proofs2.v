(* C05: the side condition of c05_dropped_error_commits holds for every write-out of the model *)
From Coq Require Import List ZArith NArith Bool Arith Lia.
From GoProbe.Base Require Import CorrLib.
From GoProbe.C04 Require Import Model Proofs ProofsCols Proofs2 Proofs3 Proofs4 Proofs5.
From GoProbe.C05 Require Import Model Proofs.
Import ListNotations.

Definition nounl (o : fsop) : Prop := match o with OUnlink _ => False | _ => True end.
Definition good (l : list fsop) : Prop := forall k o, nth_error l k = Some o -> classify o = FIgnored ->
  noop o \/ Forall noop (skipn (S k) l).

Lemma ignored_nounl o : classify o = FIgnored -> nounl o -> noop o.
Proof. destruct o as [| | | | | |f|f| | |f|f]; cbn; try discriminate; auto; try contradiction. Qed.

Lemma good_nounl l : Forall nounl l -> good l.
Proof. intros F k o N C. left. apply ignored_nounl; auto. rewrite Forall_forall in F. apply F. eapply nth_error_In; eauto. Qed.

Lemma good_app P Q : Forall nounl P -> good Q -> good (P ++ Q).
Proof.
  intros F G k o N C. destruct (Nat.lt_ge_cases k (length P)) as [LT|GE].
  - rewrite nth_error_app1 in N by auto. left. apply ignored_nounl; auto.
    rewrite Forall_forall in F. apply F. eapply nth_error_In; eauto.
  - rewrite nth_error_app2 in N by auto. destruct (G _ _ N C) as [H|H]; [left; auto|right].
    rewrite skipn_app. rewrite skipn_all2 by lia. cbn [app].
    replace (S k - length P) with (S (k - length P)) by lia. exact H.
Qed.

Lemma good_commit p m w : good (commit_ops p m w).
Proof.
  unfold commit_ops. intros k o N C.
  destruct (otot_eqb (dp_suf p) (Some (m_tot (meta_add m w)))); cbn [app] in *;
    do 9 (try (destruct k as [|k]; [cbn in N; injection N as <-; try discriminate C;
                 first [left; exact I | right; cbn; repeat constructor]|])); cbn in N; try discriminate N;
    destruct k; discriminate N.
Qed.

Lemma nounl_month s w : Forall nounl (month_ops s w).
Proof. unfold month_ops. destruct (has_up _ _); repeat constructor. Qed.
Lemma nounl_mkdir s w : Forall nounl (mkdir_ops s w).
Proof. unfold mkdir_ops. repeat (apply Forall_app; split); try (destruct (has_up _ _)); repeat constructor. Qed.
Lemma nounl_colops p m w : Forall nounl (flat_map (col_ops p m w) cols).
Proof.
  apply Forall_forall. intros o H. apply in_flat_map in H. destruct H as (c & _ & H).
  unfold col_ops in H. destruct (Nat.eqb _ 0); [destruct H|]. destruct (nth c (w_renc w) false); cbn in H;
  repeat (destruct H as [<-|H]; [exact I|]); destruct H.
Qed.
Lemma nounl_closes p w : Forall nounl (col_closes p w).
Proof.
  apply Forall_forall. intros o H. apply in_flat_map in H. destruct H as (c & _ & H).
  destruct (Nat.eqb _ 0); [destruct H|]. destruct H as [<-|[]]. exact I.
Qed.

Lemma writeout_good s w : good (writeout_ops s w).
Proof.
  unfold writeout_ops, writeout_run.
  destruct (lookup (w_key w) (f_days s)) as [d|].
  - destruct (d_meta d) as [[m|]|].
    + destruct (meta_has_ts m (w_ts w)); cbn [fst].
      * apply good_nounl. apply Forall_app; split; [apply nounl_month|repeat constructor].
      * rewrite !app_assoc. apply good_app; [|apply good_commit]. rewrite <- !app_assoc.
        apply Forall_app; split; [apply nounl_month|]. apply Forall_app; split; [repeat constructor|].
        apply Forall_app; split; [apply nounl_colops|apply nounl_closes].
    + cbn [fst]. apply good_nounl. apply Forall_app; split; [apply nounl_month|repeat constructor].
    + cbn [fst]. rewrite !app_assoc. apply good_app; [|apply good_commit]. rewrite <- !app_assoc.
      apply Forall_app; split; [apply nounl_month|]. apply Forall_app; split; [repeat constructor|].
      apply Forall_app; split; [apply nounl_colops|apply nounl_closes].
  - cbn [fst]. rewrite !app_assoc. apply good_app; [|apply good_commit]. rewrite <- !app_assoc.
    apply Forall_app; split; [apply nounl_month|]. apply Forall_app; split; [apply nounl_mkdir|].
    apply Forall_app; split; [repeat constructor|].
    apply Forall_app; split; [apply nounl_colops|apply nounl_closes].
Qed.

(* the side condition, for EVERY state and write-out (no invariant needed: purely syntactic) *)
Theorem c05_dropped_side_condition : forall s w k o,
  nth_error (writeout_ops s w) k = Some o -> classify o = FIgnored ->
  noop o \/ Forall noop (skipn (S k) (writeout_ops s w)).
Proof. intros s w. exact (writeout_good s w). Qed.

(* unconditional form of c05_dropped_error_commits *)
Theorem c05_dropped_error_commits_full : forall s a w k o, Inv s a -> wf_w w ->
  nth_error (writeout_ops s w) k = Some o -> classify o = FIgnored ->
  snd (fault_run (writeout_ops s w) k) = true /\
  reader (apply_all s (fst (fault_run (writeout_ops s w) k))) = Ok (spec_read_f (adb_put a w)).
Proof. intros s a w k o I WF N C. eapply dropped_commits; eauto. eapply c05_dropped_side_condition; eauto. Qed.

(* ------------------------------------------------------------------ (b) healing after mixed fault sequences *)
Lemma upd_restore {A} (l : list (dkey * A)) k d f g : lookup k l = Some d -> g (f d) = d -> upd k g (upd k f l) = l.
Proof.
  induction l as [|[k2 v2] r IH]; cbn [lookup upd]; [discriminate|]. intros L E.
  destruct (keqb k k2) eqn:EK; cbn [upd]; rewrite EK.
  - injection L as ->. now rewrite E.
  - now rewrite IH.
Qed.

(* the invariant does not look at temp files: putting a removed temp file back keeps it *)
Lemma unlink_inv_rev st s a f : InvS st (fst (apply s (OUnlink f))) a -> InvS st s a.
Proof.
  destruct f as [| | |p n]; cbn [apply fst]; auto.
  destruct (day_at s p) as [d|] eqn:D; cbn [fst]; auto. destruct (tmp_get n (d_tmps d)); cbn [fst]; auto.
  intros H.
  assert (E : upd_day (upd_day s p (fun d => set_tmps d (tmp_del n (d_tmps d)))) p (fun d' => set_tmps d' (d_tmps d)) = s).
  { destruct s as [u l]; unfold upd_day; cbn [f_up f_days]. f_equal.
    apply upd_restore with (d := d). apply day_at_some in D as [L _]; exact L. destruct d; reflexivity. }
  rewrite <- E. eapply inv_upd; [exact H | apply day_at_upd; [exact D|reflexivity] | reflexivity | reflexivity |].
  intros bl _. apply cols_ok_ext. reflexivity.
Qed.

(* the state after a write-out with a dropped error represents the database with the write-out committed *)
Lemma dropped_inv s a w k o : Inv s a -> wf_w w ->
  nth_error (writeout_ops s w) k = Some o -> classify o = FIgnored ->
  Inv (apply_all s (fst (fault_run (writeout_ops s w) k))) (adb_put a w).
Proof.
  intros I WF N C. unfold fault_run. rewrite N, C. cbn [fst].
  destruct (wo_prefix s a w I WF) as [_ IF]. cbv zeta in IF.
  rewrite (split_nth _ _ _ N) in IF. rewrite !apply_all_app in *. rewrite apply_all_cons in IF.
  destruct (c05_dropped_side_condition s w k o N C) as [H|H].
  - rewrite noop_apply in IF by auto. exact IF.
  - rewrite (noop_all _ H) in *.
    destruct o as [dr|f|f|f|f ?|f ? ?|f|f|? ?|? ?|f|f]; try discriminate C.
    + destruct f; try discriminate C. rewrite noop_apply in IF by (exact Logic.I). exact IF.
    + eapply (unlink_inv_rev None); exact IF.
    + rewrite noop_apply in IF by (exact Logic.I). exact IF.
Qed.

(* any finite sequence of faulted write-outs, each fault either fatal or a dropped error (every class except
   the directory rename); cs = the write-outs that reported success (dropped errors), in order *)
Inductive faulted_mix : fs -> list writeout -> fs -> Prop :=
| fm_nil s : faulted_mix s [] s
| fm_fatal s w k o cs s' : nth_error (writeout_ops s w) k = Some o -> classify o = FFatal ->
    faulted_mix (apply_all s (fst (fault_run (writeout_ops s w) k))) cs s' -> faulted_mix s cs s'
| fm_dropped s w k o cs s' : wf_w w -> nth_error (writeout_ops s w) k = Some o -> classify o = FIgnored ->
    faulted_mix (apply_all s (fst (fault_run (writeout_ops s w) k))) cs s' -> faulted_mix s (w :: cs) s'.

Lemma mix_inv s cs s' : faulted_mix s cs s' -> forall a, Inv s a -> Inv s' (fold_left adb_put cs a).
Proof.
  intros F. induction F; intros a0 I0; cbn [fold_left]; auto.
  - apply IHF. eapply fault_keeps_inv; eauto.
  - apply IHF. eapply dropped_inv; eauto.
Qed.

Theorem c05_heals_mixed : forall s s' a cs w, Inv s a -> wf_w w -> faulted_mix s cs s' ->
  Inv s' (fold_left adb_put cs a) /\
  reader s' = Ok (spec_read_f (fold_left adb_put cs a)) /\
  reader (apply_all s' (writeout_ops s' w)) = Ok (spec_read_f (adb_put (fold_left adb_put cs a) w)).
Proof.
  intros s s' a cs w I WF F. pose proof (mix_inv _ _ _ F a I) as I'. split; [exact I'|]. split.
  - now apply reader_ok.
  - apply reader_ok. now apply wo_prefix.
Qed.

(* the fatal-only theorem is the instance cs = [] *)
Corollary c05_heals_mixed_fatal_only : forall s s' a w, Inv s a -> wf_w w -> faulted_mix s [] s' ->
  reader s' = reader s /\ reader (apply_all s' (writeout_ops s' w)) = Ok (spec_read_f (adb_put a w)).
Proof.
  intros s s' a w I WF F. destruct (c05_heals_mixed s s' a [] w I WF F) as (_ & R1 & R2). cbn [fold_left] in *.
  split; auto. now rewrite R1, (reader_ok _ _ I).
Qed.

(* non-vacuity: a dropped-error fault followed by a fatal fault from the empty DB *)
Example c05_mixed_example : exists s', faulted_mix fs_empty [ex_w 0 1700000100%Z] s'.
Proof.
  eexists. eapply fm_dropped with (k := 0 + (length (writeout_ops fs_empty (ex_w 0 1700000100%Z)) - 1)).
  - unfold wf_w. vm_compute. discriminate.
  - vm_compute. reflexivity.
  - reflexivity.
  - eapply fm_fatal with (w := ex_w 1 1700000400%Z) (k := 8); [vm_compute; reflexivity|reflexivity|apply fm_nil].
Qed.

Print Assumptions c05_dropped_side_condition.
Print Assumptions c05_dropped_error_commits_full.
Print Assumptions c05_heals_mixed.
Print Assumptions c05_heals_mixed_fatal_only.
