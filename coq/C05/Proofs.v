(* C05 proofs: a fatal fault can only hit an operation before the metadata rename; all operations executed
   up to there, and the writer's clean-up, leave the reader's answer unchanged. *)
From Coq Require Import List ZArith NArith Bool Arith Lia.
From GoProbe.Base Require Import CorrLib.
From GoProbe.C04 Require Import Model Proofs Proofs2 Proofs3 Proofs4 Proofs5.
From GoProbe.C05 Require Import Model.
Import ListNotations.

Lemma fatal_commit P p m w k o : Forall not_rename P ->
  nth_error (P ++ commit_ops p m w) k = Some o -> classify o = FFatal ->
  Forall not_rename (firstn k (P ++ commit_ops p m w)).
Proof.
  intros F N C. rewrite firstn_app. apply Forall_app; split; [now apply Forall_firstn|].
  destruct (Nat.le_gt_cases k (length P)) as [LE|GT].
  - replace (k - length P) with 0 by lia. constructor.
  - rewrite nth_error_app2 in N by lia. remember (k - length P) as i. clear Heqi.
    unfold commit_ops in *.
    destruct i as [|[|[|[|[|i]]]]]; [cbn [firstn app]; repeat constructor ..|].
    exfalso. cbn [app nth_error] in N.
    destruct (otot_eqb (dp_suf p) (Some (m_tot (meta_add m w)))); cbn [app nth_error] in N;
      destruct i as [|[|[|i]]]; cbn in N; try discriminate; try (destruct i; discriminate); injection N as <-; discriminate.
Qed.

Lemma fatal_before_commit s a w k o : Inv s a ->
  nth_error (writeout_ops s w) k = Some o -> classify o = FFatal ->
  Forall not_rename (firstn k (writeout_ops s w)).
Proof.
  intros I. unfold writeout_ops, writeout_run.
  destruct (lookup (w_key w) (f_days s)) as [d|].
  - destruct (d_meta d) as [[m|]|].
    + destruct (meta_has_ts m (w_ts w)); cbn [fst].
      * intros _ _. apply Forall_firstn. pre_tac.
      * rewrite !app_assoc. apply fatal_commit. pre_tac.
    + cbn [fst]. intros _ _. apply Forall_firstn. pre_tac.
    + cbn [fst]. rewrite !app_assoc. apply fatal_commit. pre_tac.
  - cbn [fst]. rewrite !app_assoc. apply fatal_commit. pre_tac.
Qed.

Lemma cleanup_pre l : Forall not_rename (match tmp_created l with Some t => [OUnlink t] | None => [] end).
Proof. destruct (tmp_created l); repeat constructor. Qed.

(* the state after a fatally faulted write-out still represents the same abstract database *)
Lemma fault_keeps_inv s a w k o : Inv s a ->
  nth_error (writeout_ops s w) k = Some o -> classify o = FFatal ->
  snd (fault_run (writeout_ops s w) k) = false /\ Inv (apply_all s (fst (fault_run (writeout_ops s w) k))) a.
Proof.
  intros I N C. unfold fault_run. rewrite N, C. cbn [fst snd]. split; auto.
  apply pre_run; auto. apply Forall_app; split; [eapply fatal_before_commit; eauto|apply cleanup_pre].
Qed.

Lemma fault_safe s a w k o : Inv s a ->
  nth_error (writeout_ops s w) k = Some o -> classify o = FFatal ->
  snd (fault_run (writeout_ops s w) k) = false /\
  reader_meta (apply_all s (fst (fault_run (writeout_ops s w) k))) = reader_meta s.
Proof.
  intros I N C. destruct (fault_keeps_inv s a w k o I N C) as [E I']. split; auto.
  now rewrite (reader_ok _ _ I'), (reader_ok _ _ I).
Qed.

(* any finite sequence of fatally faulted write-outs *)
Inductive faulted : fs -> fs -> Prop :=
| fl_nil s : faulted s s
| fl_cons s w k o s' : nth_error (writeout_ops s w) k = Some o -> classify o = FFatal ->
    faulted (apply_all s (fst (fault_run (writeout_ops s w) k))) s' -> faulted s s'.

Lemma faulted_inv s s' a : faulted s s' -> Inv s a -> Inv s' a.
Proof. induction 1; auto. intros I. apply IHfaulted. eapply fault_keeps_inv; eauto. Qed.

Lemma heals s s' a w : Inv s a -> faulted s s' ->
  reader_meta s' = reader_meta s /\
  reader_meta (apply_all s' (writeout_ops s' w)) = Ok (spec_read_m (adb_put a w)).
Proof.
  intros I F. pose proof (faulted_inv _ _ _ F I) as I'. split.
  - now rewrite (reader_ok _ _ I'), (reader_ok _ _ I).
  - apply reader_ok. now apply wo_prefix.
Qed.

(* the failing directory rename: the writer reports an error although the write-out is committed *)
Lemma rendir_refuted : exists s w k o,
  s = hist_state fs_empty [ex_w 0 1700000100%Z] /\
  nth_error (writeout_ops s w) k = Some o /\ classify o = FAfterCommit /\
  snd (fault_run (writeout_ops s w) k) = false /\
  reader_meta (apply_all s (fst (fault_run (writeout_ops s w) k))) <> reader_meta s.
Proof.
  exists (hist_state fs_empty [ex_w 0 1700000100%Z]), (ex_w 1 1700000400%Z), (ex_k - 46).
  eexists. split; [reflexivity|]. split; [vm_compute; reflexivity|]. split; [reflexivity|]. split; [vm_compute; reflexivity|].
  vm_compute. discriminate.
Qed.
