(* C05 proofs: a fatal fault can only hit an operation before the metadata rename; all operations executed
   up to there, and the writer's clean-up, are safe operations (C04) and leave the reader's answer unchanged. *)
From Coq Require Import List ZArith NArith Bool Arith Lia.
From GoProbe.Base Require Import CorrLib.
From GoProbe.C04 Require Import Model Proofs ProofsCols Proofs2 Proofs3 Proofs4 Proofs5.
From GoProbe.C05 Require Import Model.
Import ListNotations.

Lemma fatal_commit p0 m0 P p m w k o : Forall (op_safe p0 m0) P ->
  nth_error (P ++ commit_ops p m w) k = Some o -> classify o = FFatal ->
  Forall (op_safe p0 m0) (firstn k (P ++ commit_ops p m w)).
Proof.
  intros F N C. rewrite firstn_app. apply Forall_app; split; [now apply Forall_firstn|].
  destruct (Nat.le_gt_cases k (length P)) as [LE|GT].
  - replace (k - length P) with 0 by lia. constructor.
  - rewrite nth_error_app2 in N by lia. remember (k - length P) as i. clear Heqi.
    unfold commit_ops in *.
    destruct i as [|[|[|[|[|i]]]]]; [cbn [firstn app]; repeat constructor ..|].
    exfalso. cbn [app nth_error] in N.
    destruct (otot_eqb (dp_suf p) (Some (m_tot (meta_add m w)))); cbn [app nth_error] in N;
      destruct i as [|[|[|i]]]; cbn in N; try discriminate; try (destruct i; discriminate); injection N as <-; discriminate.
Qed.

(* the shape of a write-out's operation list in a state satisfying the invariant *)
Lemma fatal_safe s a w k o : Inv s a ->
  nth_error (writeout_ops s w) k = Some o -> classify o = FFatal ->
  exists p m, mstate s p m /\ Forall (op_safe p m) (firstn k (writeout_ops s w)).
Proof.
  intros I. pose proof (inv_lookup _ _ _ (w_key w) I) as IL.
  unfold writeout_ops, writeout_run.
  destruct (lookup (w_key w) (f_days s)) as [d|] eqn:L.
  - set (p := {| dp_key := w_key w; dp_suf := d_suf d |}).
    assert (DA : day_at s p = Some d) by (unfold day_at, p; cbn [dp_key dp_suf]; now rewrite L, otot_eqb_refl).
    destruct (d_meta d) as [[m|]|] eqn:M.
    + assert (MS : mstate s p m) by (eapply mstate_at; eauto). exists p, m. split; auto.
      destruct (meta_has_ts m (w_ts w)); cbn [fst] in *.
      * apply Forall_firstn. apply Forall_app; split; [apply safe_month|repeat constructor].
      * rewrite !app_assoc in *. eapply fatal_commit; eauto.
        rewrite <- !app_assoc. apply Forall_app; split; [apply safe_month|].
        apply Forall_app; split; [repeat constructor|]. apply Forall_app; split; [apply safe_colops|apply safe_closes].
    + exists p, new_meta. split; [intros d' D'; assert (d' = d) as -> by congruence; rewrite M; left|].
      * (* undecodable metadata: excluded by the invariant *)
        exfalso. destruct (lookup (w_key w) a).
        -- destruct IL as [_ (_ & HM & _)]. congruence.
        -- unfold visible in IL. rewrite M in IL. destruct (d_suf d); discriminate.
      * cbn [fst]. apply Forall_firstn. apply Forall_app; split; [apply safe_month|repeat constructor].
    + assert (MS : mstate s p new_meta) by (intros d' D'; assert (d' = d) as -> by congruence; right; auto).
      exists p, new_meta. split; auto. cbn [fst] in *.
      rewrite !app_assoc in *. eapply fatal_commit; eauto.
      rewrite <- !app_assoc. apply Forall_app; split; [apply safe_month|].
      apply Forall_app; split; [repeat constructor|]. apply Forall_app; split; [apply safe_colops|apply safe_closes].
  - set (p := {| dp_key := w_key w; dp_suf := None |}).
    assert (MS : mstate s p new_meta) by (intros d' D'; unfold day_at, p in D'; cbn [dp_key] in D'; rewrite L in D'; discriminate).
    exists p, new_meta. split; auto. cbn [fst] in *.
    rewrite !app_assoc in *. eapply fatal_commit; eauto.
    rewrite <- !app_assoc. apply Forall_app; split; [apply safe_month|].
    apply Forall_app; split; [apply safe_mkdir; auto|].
    apply Forall_app; split; [repeat constructor|]. apply Forall_app; split; [apply safe_colops|apply safe_closes].
Qed.

Lemma cleanup_safe p m l : Forall (op_safe p m) (match tmp_created l with Some t => [OUnlink t] | None => [] end).
Proof. destruct (tmp_created l); repeat constructor. Qed.

(* the state after a fatally faulted write-out still represents the same abstract database *)
Lemma fault_keeps_inv s a w k o : Inv s a ->
  nth_error (writeout_ops s w) k = Some o -> classify o = FFatal ->
  snd (fault_run (writeout_ops s w) k) = false /\ Inv (apply_all s (fst (fault_run (writeout_ops s w) k))) a.
Proof.
  intros I N C. destruct (fatal_safe s a w k o I N C) as (p & m & MS & F).
  unfold fault_run. rewrite N, C. cbn [fst snd]. split; auto.
  apply (run_inv None p m); auto. apply Forall_app; split; [exact F|apply cleanup_safe].
Qed.

Lemma fault_safe s a w k o : Inv s a ->
  nth_error (writeout_ops s w) k = Some o -> classify o = FFatal ->
  snd (fault_run (writeout_ops s w) k) = false /\
  reader (apply_all s (fst (fault_run (writeout_ops s w) k))) = reader s.
Proof.
  intros I N C. destruct (fault_keeps_inv s a w k o I N C) as [E I']. split; auto.
  now rewrite (reader_ok _ _ I'), (reader_ok _ _ I).
Qed.

(* any finite sequence of fatally faulted write-outs *)
Inductive faulted : fs -> fs -> Prop :=
| fl_nil s : faulted s s
| fl_cons s w k o s' : nth_error (writeout_ops s w) k = Some o -> classify o = FFatal ->
    faulted (apply_all s (fst (fault_run (writeout_ops s w) k))) s' -> faulted s s'.

Lemma faulted_inv s s' a : faulted s s' -> Inv s a -> Inv s' a.
Proof. induction 1; auto. intros I. apply IHfaulted. eapply fault_keeps_inv; eauto. Qed.

Lemma heals s s' a w : Inv s a -> wf_w w -> faulted s s' ->
  reader s' = reader s /\
  reader (apply_all s' (writeout_ops s' w)) = Ok (spec_read_f (adb_put a w)).
Proof.
  intros I WF F. pose proof (faulted_inv _ _ _ F I) as I'. split.
  - now rewrite (reader_ok _ _ I'), (reader_ok _ _ I).
  - apply reader_ok. now apply wo_prefix.
Qed.

(* ------------------------------------------------------------------ errors the code drops *)
(* operations that never change the state, whatever they return *)
Definition noop (o : fsop) : Prop := match o with OClose _ | ORmdir _ | OSeek _ _ | OChmod _ => True | _ => False end.
Lemma noop_apply s o : noop o -> fst (apply s o) = s.
Proof. destruct o as [| | | | | |f|f| | | |f]; try contradiction; intros _; cbn; auto; destruct f; reflexivity. Qed.
Lemma noop_all l : Forall noop l -> forall s, apply_all s l = s.
Proof. induction 1 as [|o l N F IH]; intros s; [reflexivity|]. unfold apply_all; cbn [fold_left]. rewrite noop_apply by auto. apply IH. Qed.
Lemma apply_all_cons s o l : apply_all s (o :: l) = apply_all (fst (apply s o)) l.
Proof. reflexivity. Qed.
Lemma split_nth {A} (l : list A) k o : nth_error l k = Some o -> l = firstn k l ++ o :: skipn (S k) l.
Proof. revert k. induction l as [|x l IH]; intros [|k]; cbn; try discriminate.
  - intros [= ->]; auto.
  - intros H. f_equal. now apply IH.
Qed.

(* removing a temp file never changes what the reader sees *)
Lemma day_blocks_cols d d' : d_cols d' = d_cols d -> forall bs prev, day_blocks d' prev bs = day_blocks d prev bs.
Proof. intros E. induction bs as [|b bs IH]; intros prev; cbn [day_blocks]; auto. unfold read_col. rewrite E, IH. reflexivity. Qed.
Lemma read_days_tmps k f l : (forall d, d_suf (f d) = d_suf d /\ d_meta (f d) = d_meta d /\ d_cols (f d) = d_cols d) ->
  read_days (filter vis (upd k f l)) = read_days (filter vis l).
Proof.
  intros Hf. induction l as [|[k2 v2] r IH]; cbn [upd filter]; auto.
  destruct (Hf v2) as (E1 & E2 & E3).
  assert (V : vis (k2, f v2) = vis (k2, v2)) by (unfold vis, visible; cbn; now rewrite E1, E2).
  assert (R : read_day (k2, f v2) = read_day (k2, v2)).
  { unfold read_day. rewrite E1, E2. destruct (d_meta v2) as [[m|]|]; auto. destruct (m_blocks m) eqn:MB; auto.
    now rewrite (day_blocks_cols v2 (f v2) E3). }
  destruct (keqb k k2); cbn [filter].
  - rewrite V. destruct (vis (k2, v2)); cbn [read_days]; auto. now rewrite R.
  - destruct (vis (k2, v2)); cbn [read_days]; auto. now rewrite IH.
Qed.
Lemma unlink_reader s f : reader (fst (apply s (OUnlink f))) = reader s.
Proof.
  destruct f as [| | |p n]; cbn [apply fst]; auto.
  destruct (day_at s p); cbn [fst]; auto. destruct (tmp_get n (d_tmps d)); cbn [fst]; auto.
  unfold reader, upd_day; cbn [f_days]. fold vis. rewrite read_days_tmps; auto.
Qed.

(* a fault on an operation whose error the code drops: Write returns nil and the reader sees the write-out
   completely - provided the operations after it are state-neutral (true for every write-out: the dropped
   errors are the Close of the month listing, and the deferred Remove = unlinkat + unlinkat(AT_REMOVEDIR) at
   the very end) *)
Lemma dropped_commits s a w k o : Inv s a -> wf_w w ->
  nth_error (writeout_ops s w) k = Some o -> classify o = FIgnored ->
  (noop o \/ Forall noop (skipn (S k) (writeout_ops s w))) ->
  snd (fault_run (writeout_ops s w) k) = true /\
  reader (apply_all s (fst (fault_run (writeout_ops s w) k))) = Ok (spec_read_f (adb_put a w)).
Proof.
  intros I WF N C H. unfold fault_run. rewrite N, C. cbn [fst snd]. split; auto.
  destruct (wo_prefix s a w I WF) as [_ IF]. rewrite <- (reader_ok _ _ IF).
  rewrite (split_nth _ _ _ N) at 3. rewrite !apply_all_app.
  destruct H as [H|H].
  - rewrite apply_all_cons. now rewrite noop_apply.
  - rewrite apply_all_cons. rewrite !(noop_all _ H).
    destruct o as [dr|f|f|f|f ?|f ? ?|f|f|? ?|? ?|f|f]; try discriminate; try (destruct f; try discriminate).
      all: first [now rewrite noop_apply | symmetry; apply unlink_reader].
Qed.

(* the failing directory rename: the writer reports an error although the write-out is committed *)
Lemma rendir_refuted : exists s w k o,
  s = hist_state fs_empty [ex_w 0 1700000100%Z] /\
  nth_error (writeout_ops s w) k = Some o /\ classify o = FAfterCommit /\
  snd (fault_run (writeout_ops s w) k) = false /\
  reader (apply_all s (fst (fault_run (writeout_ops s w) k))) <> reader s.
Proof.
  exists (hist_state fs_empty [ex_w 0 1700000100%Z]), (ex_w 1 1700000400%Z), (ex_k - 46).
  eexists. split; [reflexivity|]. split; [vm_compute; reflexivity|]. split; [reflexivity|]. split; [vm_compute; reflexivity|].
  vm_compute. discriminate.
Qed.
