(* C07 proofs: the wrappers emit exactly the library frame (whatever the scratch buffer), report its
   length, and Decompress restores the data from any of the modelled io.Reader kinds. *)
From Coq Require Import List ZArith Bool Arith Lia.
From GoProbe.Base Require Import CorrLib.
From GoProbe.C07 Require Import Model.
Import ListNotations.

(* ------------------------------------------------------------------ list helpers *)
Lemma firstn_add_skipn {A} : forall a b (l : list A),
  firstn a l ++ firstn b (skipn a l) = firstn (a + b) l.
Proof.
  induction a as [|a IH]; intros b l; [reflexivity|].
  destruct l as [|x l]; cbn [firstn skipn Nat.add app].
  - now rewrite firstn_nil.
  - now rewrite IH.
Qed.

Lemma skipn_add {A} : forall a b (l : list A), skipn b (skipn a l) = skipn (a + b) l.
Proof.
  induction a as [|a IH]; intros b l; [reflexivity|].
  destruct l as [|x l]; cbn [skipn Nat.add].
  - now rewrite skipn_nil.
  - apply IH.
Qed.

Lemma firstn_exact_app {A} : forall (f r : list A), firstn (length f) (f ++ r) = f.
Proof. intros. rewrite firstn_app, Nat.sub_diag, firstn_all. cbn. apply app_nil_r. Qed.

Lemma is_nil_false {A} : forall (l : list A), 0 < length l -> is_nil l = false.
Proof. destruct l; cbn; [lia|reflexivity]. Qed.

Lemma length_pos_of_nonnil {A} : forall (l : list A), l <> [] -> 1 <= length l.
Proof. destruct l; [congruence|cbn; lia]. Qed.

(* ------------------------------------------------------------------ readers *)
Lemma chunk_bounds : forall k w, 1 <= chunk k (S w) <= S w.
Proof.
  intros k w. destruct k; cbn [chunk]; try lia.
  - (* RHalf *) change (Nat.div2 (S (S w))) with (S (Nat.div2 w)).
    destruct w as [|w]; [cbn; lia|]. pose proof (Nat.lt_div2 (S w) ltac:(lia)). lia.
Qed.

Section WithLib.
  Context {B : Type}.
  Variable zero : B.
  Variable lib : enct -> impl -> codec B.

  Lemma read_full_ok : forall fuel k (rest : list B) want acc,
    want <= length rest -> want <= fuel ->
    read_full fuel (Build_reader k rest) want acc
    = Some (acc ++ firstn want rest, Build_reader k (skipn want rest)).
  Proof.
    induction fuel as [|fuel IH]; intros k rest want acc Hlen Hfuel.
    - assert (want = 0) by lia. subst. cbn. now rewrite app_nil_r.
    - destruct want as [|w].
      + cbn. now rewrite app_nil_r.
      + cbn [read_full]. unfold rd_read. cbn [r_kind r_rest].
        pose proof (chunk_bounds k w) as Hc.
        set (m := Nat.min (chunk k (S w)) (length rest)).
        assert (Hm : m = chunk k (S w)) by (subst m; lia).
        assert (Hbs : length (firstn m rest) = m) by (rewrite firstn_length; lia).
        rewrite Hbs.
        destruct (S w <=? m) eqn:Hle.
        * apply Nat.leb_le in Hle. assert (m = S w) by lia. now rewrite H.
        * apply Nat.leb_gt in Hle.
          assert (Heof : (match k with
                          | RFile => (0 <? S w) && is_nil rest
                          | REager => is_nil (skipn m rest)
                          | _ => is_nil rest
                          end) = false).
          { assert (Hr : is_nil rest = false) by (apply is_nil_false; lia).
            assert (Hs : is_nil (skipn m rest) = false)
              by (apply is_nil_false; rewrite skipn_length; lia).
            destruct k; auto. }
          rewrite Heof.
          rewrite IH by (rewrite ?skipn_length; lia).
          rewrite <- app_assoc, firstn_add_skipn, skipn_add.
          replace (m + (S w - m)) with (S w) by lia. reflexivity.
  Qed.

  Lemma read_in_ok : forall k (em rest : list B),
    read_in (Build_reader k (em ++ rest)) (length em) = Ok em.
  Proof.
    intros. unfold read_in.
    rewrite read_full_ok by (rewrite ?app_length; lia).
    cbn [app]. rewrite firstn_exact_app, Nat.eqb_refl. reflexivity.
  Qed.

  (* ---------------------------------------------------------------- Compress *)
  Lemma size_buf_ok : forall c data (buf : slice B),
    exists arr, size_buf zero c data buf
                = (c_bound c (length data), Ok (Build_slice arr (c_bound c (length data))))
                /\ c_bound c (length data) <= length arr.
  Proof.
    intros. unfold size_buf, reslice, sl_cap, make0.
    destruct (length (sl_arr buf) <? c_bound c (length data)) eqn:Hc; cbn [sl_arr sl_len].
    - exists (repeat zero (2 * c_bound c (length data))).
      rewrite repeat_length.
      destruct (_ <=? _) eqn:E; [split; [reflexivity|lia]|apply Nat.leb_gt in E; lia].
    - apply Nat.ltb_ge in Hc. exists (sl_arr buf).
      destruct (_ <=? _) eqn:E; [split; [reflexivity|lia]|apply Nat.leb_gt in E; lia].
  Qed.

  Lemma finish_frame : forall (f arr : list B) dcap,
    length f <= dcap -> dcap <= length arr ->
    finish (Build_slice (f ++ skipn (length f) arr) dcap) (Z.of_nat (length f)) true
    = Ok (f, Z.of_nat (length f)).
  Proof.
    intros f arr dcap Hf Hd. unfold finish, sl_vis. cbn [sl_len sl_arr].
    destruct (Z.of_nat dcap <? Z.of_nat (length f))%Z eqn:E; [apply Z.ltb_lt in E; lia|].
    rewrite Nat2Z.id, firstn_firstn, Nat.min_l by lia.
    now rewrite firstn_exact_app.
  Qed.

  Definition frame_of (i : impl) (t : enct) (lvl : Z) (data : list B) : list B :=
    match t with ENull => data | _ => c_enc (lib t i) lvl data end.

  (* the key fact: under the library hypotheses every wrapper emits exactly the frame and reports its
     length, for every scratch buffer *)
  Lemma compress_ok : forall i t lvl data buf,
    (forall t i, codec_ok (lib t i)) ->
    compress_w zero lib i t lvl data buf true
    = Ok (frame_of i t lvl data, Z.of_nat (length (frame_of i t lvl data))).
  Proof.
    intros i t lvl data buf Hok.
    destruct t; [reflexivity| |].
    - (* lz4 *)
      pose proof (Hok ELz4 i) as [_ Hb Hne].
      specialize (Hb lvl data). specialize (Hne lvl data). apply length_pos_of_nonnil in Hne.
      destruct i; cbn [compress_w frame_of].
      + unfold lz4_cgo_compress.
        destruct (size_buf_ok (lib ELz4 Cgo) data buf) as (arr & -> & Harr).
        cbn [res_bind sl_len].
        destruct (c_bound (lib ELz4 Cgo) (length data) =? 0) eqn:E; [apply Nat.eqb_eq in E; lia|].
        unfold c_call. cbn [sl_arr sl_len].
        destruct (_ <=? _) eqn:E2; [|apply Nat.leb_gt in E2; lia].
        destruct (Z.of_nat _ <=? 0)%Z eqn:E3; [apply Z.leb_le in E3; lia|].
        now apply finish_frame.
      + unfold lz4_native_compress.
        destruct (size_buf_ok (lib ELz4 Native) data buf) as (arr & -> & Harr).
        cbn [res_bind sl_len sl_arr].
        destruct (_ <=? _) eqn:E2; [|apply Nat.leb_gt in E2; lia].
        now apply finish_frame.
    - (* zstd *)
      pose proof (Hok EZstd i) as [_ Hb Hne].
      specialize (Hb lvl data). specialize (Hne lvl data). apply length_pos_of_nonnil in Hne.
      destruct i; cbn [compress_w frame_of].
      + unfold zstd_cgo_compress.
        destruct (size_buf_ok (lib EZstd Cgo) data buf) as (arr & -> & Harr).
        cbn [res_bind sl_len].
        destruct (c_bound (lib EZstd Cgo) (length data) =? 0) eqn:E; [apply Nat.eqb_eq in E; lia|].
        unfold c_call. cbn [sl_arr sl_len].
        destruct (_ <=? _) eqn:E2; [|apply Nat.leb_gt in E2; lia].
        destruct (Z.of_nat _ <? 0)%Z eqn:E3; [apply Z.ltb_lt in E3; lia|].
        now apply finish_frame.
      + unfold zstd_native_compress, reslice, sl_vis. cbn. reflexivity.
  Qed.

  (* ---------------------------------------------------------------- Decompress *)
  Lemma out_after_exact : forall (out : slice B) d, sl_len out = length d -> out_after out d = d.
  Proof. intros out d H. unfold out_after. rewrite H. apply firstn_exact_app. Qed.

  Lemma decompress_ok : forall i t lvl data k rest (out : slice B),
    (forall t i, codec_ok (lib t i)) ->
    sl_len out = length data -> length data <= sl_cap out ->
    decompress_w lib i t (length (frame_of i t lvl data)) out
                 (Build_reader k (frame_of i t lvl data ++ rest))
    = Ok (Z.of_nat (length data), data).
  Proof.
    intros i t lvl data k rest out Hok Hlen Hcap.
    destruct t.
    - (* null: reads len(out) = len(data) bytes *)
      cbn [decompress_w frame_of]. unfold null_decompress. rewrite Hlen, read_in_ok. reflexivity.
    - pose proof (Hok ELz4 i) as [Hde _ Hne].
      specialize (Hne lvl data). apply length_pos_of_nonnil in Hne.
      destruct i; cbn [decompress_w frame_of] in *.
      + unfold cgo_decompress. rewrite read_in_ok. cbn [res_bind].
        destruct (_ =? 0) eqn:E; [apply Nat.eqb_eq in E; lia|].
        rewrite Hde by (cbn; lia). now rewrite out_after_exact.
      + unfold lz4_native_decompress. rewrite read_in_ok. cbn [res_bind].
        rewrite Hde by (cbn; lia). now rewrite out_after_exact.
    - pose proof (Hok EZstd i) as [Hde _ Hne].
      specialize (Hne lvl data). apply length_pos_of_nonnil in Hne.
      destruct i; cbn [decompress_w frame_of] in *.
      + unfold cgo_decompress. rewrite read_in_ok. cbn [res_bind].
        destruct (_ =? 0) eqn:E; [apply Nat.eqb_eq in E; lia|].
        rewrite Hde by (cbn; lia). now rewrite out_after_exact.
      + unfold zstd_native_decompress. rewrite read_in_ok. cbn [res_bind].
        rewrite Hde by exact I.
        destruct (_ <=? _) eqn:E; [|apply Nat.leb_gt in E; lia].
        now rewrite out_after_exact.
  Qed.

  (* ---------------------------------------------------------------- the property *)
  Lemma roundtrip : forall i t lvl data scratch k rest (out : slice B),
    (forall t i, codec_ok (lib t i)) ->
    sl_len out = length data -> length data <= sl_cap out ->
    exists emitted n,
      compress_w zero lib i t lvl data scratch true = Ok (emitted, n)
      /\ n = Z.of_nat (length emitted)
      /\ decompress_w lib i t (length emitted) out (Build_reader k (emitted ++ rest))
         = Ok (Z.of_nat (length data), data).
  Proof.
    intros. exists (frame_of i t lvl data), (Z.of_nat (length (frame_of i t lvl data))).
    split; [now apply compress_ok|]. split; [reflexivity|]. now apply decompress_ok.
  Qed.

  Lemma scratch_irrelevant : forall i t lvl data s1 s2,
    (forall t i, codec_ok (lib t i)) ->
    compress_w zero lib i t lvl data s1 true = compress_w zero lib i t lvl data s2 true.
  Proof. intros. now rewrite !compress_ok. Qed.

  (* the reported count equals the number of emitted bytes - no hypothesis about the library at all *)
  Lemma finish_count : forall (buf : slice B) cl hd em n,
    finish buf cl hd = Ok (em, n) -> (0 <= cl)%Z -> sl_len buf <= length (sl_arr buf) ->
    n = Z.of_nat (length em).
  Proof.
    intros buf cl hd em n H Hcl Hwf. unfold finish in H.
    destruct (_ <? _)%Z eqn:E; [discriminate|]. apply Z.ltb_ge in E.
    destruct hd; inversion H; subst; [|reflexivity].
    unfold sl_vis. rewrite !firstn_length. lia.
  Qed.

  Lemma size_buf_wf : forall c data (buf buf2 : slice B) dcap,
    size_buf zero c data buf = (dcap, Ok buf2) -> sl_len buf2 = dcap /\ dcap <= length (sl_arr buf2).
  Proof.
    intros c data buf buf2 dcap H.
    destruct (size_buf_ok c data buf) as (arr & E & Harr). rewrite E in H.
    inversion H; subst. cbn. auto.
  Qed.

  Lemma count : forall i t lvl data buf hd em n,
    compress_w zero lib i t lvl data buf hd = Ok (em, n) -> n = Z.of_nat (length em).
  Proof.
    intros i t lvl data buf hd em n H.
    destruct t; cbn [compress_w] in H.
    - unfold null_compress in H. destruct hd; inversion H; subst; reflexivity.
    - destruct i.
      + unfold lz4_cgo_compress in H.
        destruct (size_buf zero (lib ELz4 Cgo) data buf) as [dcap [buf2| |]] eqn:Es; try discriminate.
        apply size_buf_wf in Es as [Hl Hc]. cbn [res_bind] in H.
        destruct (sl_len buf2 =? 0); [discriminate|].
        unfold c_call in H. destruct (_ <=? dcap) eqn:E.
        * apply Nat.leb_le in E. destruct (_ <=? 0)%Z; [discriminate|].
          eapply finish_count; [exact H|lia|]. cbn [sl_len sl_arr].
          rewrite app_length, skipn_length. lia.
        * cbn in H. discriminate.
      + unfold lz4_native_compress in H.
        destruct (size_buf zero (lib ELz4 Native) data buf) as [dcap [buf2| |]] eqn:Es; try discriminate.
        apply size_buf_wf in Es as [Hl Hc]. cbn [res_bind] in H.
        destruct (_ <=? sl_len buf2) eqn:E; [|discriminate]. apply Nat.leb_le in E.
        eapply finish_count; [exact H|lia|]. cbn [sl_len sl_arr].
        rewrite app_length, skipn_length. lia.
    - destruct i.
      + unfold zstd_cgo_compress in H.
        destruct (size_buf zero (lib EZstd Cgo) data buf) as [dcap [buf2| |]] eqn:Es; try discriminate.
        apply size_buf_wf in Es as [Hl Hc]. cbn [res_bind] in H.
        destruct (sl_len buf2 =? 0); [discriminate|].
        unfold c_call in H. destruct (_ <=? dcap) eqn:E.
        * apply Nat.leb_le in E. destruct (_ <? 0)%Z; [discriminate|].
          eapply finish_count; [exact H|lia|]. cbn [sl_len sl_arr].
          rewrite app_length, skipn_length. lia.
        * cbn in H. discriminate.
      + unfold zstd_native_compress, reslice in H. cbn in H.
        destruct hd; inversion H; subst; reflexivity.
  Qed.
End WithLib.
