(* C07 correspondence: the wrappers of Model.v are run on SYMBOLIC bytes.  Payloads never enter Coq: a byte
   is a token saying where it came from (data / scratch / library frame / old contents of out / bytes
   following the block in the reader / make()'s zero), the library codec of a case is the table
   "data tokens <-> frame tokens of the observed frame length".  Executable only. *)
From Coq Require Import List ZArith NArith Bool Arith Uint63.
From GoProbe.Base Require Import CorrLib.
From GoProbe.C07 Require Import Model.
Import ListNotations.

(* the index is a primitive 63-bit integer only to make vm_compute cheap (indices stay below 2^20) *)
Inductive tok := TD (i : int) | TS (i : int) | TF (i : int) | TO (i : int) | TR (i : int) | TZ.

Definition tok_eqb (a b : tok) : bool :=
  match a, b with
  | TD x, TD y | TS x, TS y | TF x, TF y | TO x, TO y | TR x, TR y => Uint63.eqb x y
  | TZ, TZ => true
  | _, _ => false
  end.

Fixpoint list_eqb {A} (e : A -> A -> bool) (a b : list A) : bool :=
  match a, b with
  | [], [] => true
  | x :: a', y :: b' => e x y && list_eqb e a' b'
  | _, _ => false
  end.

(* [f 0; f 1; ...; f (n-1)] *)
Definition nlist (f : int -> tok) (n : N) : list tok :=
  snd (N.iter n (fun st => let i := Uint63.sub (fst st) 1 in (i, f i :: snd st))
              (Uint63.of_Z (Z.of_N n), [])).

(* documented worst-case bounds: LZ4_compressBound = lz4.CompressBlockBound, ZSTD_compressBound *)
Definition bound_N (t : enct) (n : N) : N :=
  match t with
  | ELz4 => n + n / 255 + 16
  | EZstd => n + n / 256 + (if n <? 131072 then (131072 - n) / 2048 else 0)
  | ENull => n
  end%N.

Definition sym_codec (t : enct) (frame data : list tok) : codec tok :=
  {| c_enc := fun _ _ => frame;
     c_dec := fun x capacity =>
       if list_eqb tok_eqb x frame then
         match capacity with
         | Some c => if c <? length data then None else Some data
         | None => Some data
         end
       else None;
     c_bound := fun n => N.to_nat (bound_N t (N.of_nat n)) |}.

Definition impl_eqb (a b : impl) : bool :=
  match a, b with Cgo, Cgo | Native, Native => true | _, _ => false end.

(* result classes reported by the harness: 0 ok, 1 error, 2 panic, 3 not run *)
Inductive case :=
| Case (c : cfg) (t : enct) (oimpl : impl) (lvl : Z) (dlen slen scap : N) (hasdst : bool)
       (rk : rkind) (rest oextra : N)
       (cclass : N) (n : Z) (emitted : N) (prefix : bool)
       (dclass : N) (dn : Z) (deq : bool).

Definition min_prefix : N := 8.

Definition corr_model (k : case) : bool :=
  match k with
  | Case c t oimpl lvl dlen slen scap hasdst rk rest oextra cclass n emitted prefix dclass dn deq =>
    let i := impl_of c t in
    let L := if hasdst && (cclass =? 0)%N
             then (if prefix then emitted - slen else emitted)%N else 1%N in
    let data := nlist TD dlen in
    let frame := nlist TF L in
    let lib := fun t' (_ : impl) => sym_codec t' frame data in
    let scratch := Build_slice (nlist TS scap) (N.to_nat slen) in
    impl_eqb i oimpl &&
    match compress_w TZ lib i t lvl data scratch hasdst with
    | Err => (cclass =? 1)%N && (dclass =? 3)%N
    | Panic => (cclass =? 2)%N && (dclass =? 3)%N
    | Ok (em, n_m) =>
      (cclass =? 0)%N && (n_m =? n)%Z && (N.of_nat (length em) =? emitted)%N
      && Bool.eqb ((min_prefix <=? slen)%N
                   && list_eqb tok_eqb (firstn (N.to_nat slen) em) (nlist TS slen)) prefix
      && (if hasdst then
            let out := Build_slice (nlist TO (dlen + oextra)) (N.to_nat dlen) in
            let src := Build_reader rk (em ++ nlist TR rest) in
            match decompress_w lib i t (length em) out src with
            | Err => (dclass =? 1)%N
            | Panic => (dclass =? 2)%N
            | Ok (dn_m, out') =>
              (dclass =? 0)%N && (dn_m =? dn)%Z
              && Bool.eqb ((0 <=? dn_m)%Z && (Z.to_nat dn_m <=? length out')
                           && list_eqb tok_eqb (firstn (Z.to_nat dn_m) out') data) deq
            end
          else (dclass =? 3)%N)
    end
  end.

(* Running the list model costs time linear in the block (seconds per MiB of vm_compute).  For blocks above
   `big_threshold` the model's answer is taken from its PROVED closed form instead of being executed:
   GoProbe.C07.Proofs.compress_ok / decompress_ok show, for every size, that under `codec_ok` the model emits
   exactly the library frame, reports its length, never shows the scratch contents, and Decompress returns
   (len data, data) from every reader kind.  The symbolic codec of a case meets `codec_ok` iff the frame length L
   satisfies 1 <= L <= bound (the native zstd wrapper never consults the bound); for the null encoder the "frame"
   is the data itself.  Outside these conditions `corr_closed` answers false (a mismatch to be looked at). *)
Definition big_threshold : N := 400000.

Definition corr_closed (k : case) : bool :=
  match k with
  | Case c t oimpl lvl dlen slen scap hasdst rk rest oextra cclass n emitted prefix dclass dn deq =>
    let i := impl_of c t in
    impl_eqb i oimpl && (cclass =? 0)%N && negb prefix
    && (if hasdst then
          match t with
          | ENull => (emitted =? dlen)%N
          | _ => (1 <=? emitted)%N
                 && (match t, i with EZstd, Native => true | _, _ => (emitted <=? bound_N t dlen)%N end)
          end
          && (n =? Z.of_N emitted)%Z && (dclass =? 0)%N && (dn =? Z.of_N dlen)%Z && deq
        else
          match t with ENull => false | _ => true end
          && (n =? 0)%Z && (emitted =? 0)%N && (dclass =? 3)%N)
  end.

Definition corr (k : case) : bool :=
  match k with
  | Case _ _ _ _ dlen _ scap _ _ rest oextra _ _ _ _ _ _ _ =>
    if ((big_threshold <? dlen) || (big_threshold <? scap) || (big_threshold <? rest)
        || (big_threshold <? oextra))%N
    then corr_closed k else corr_model k
  end.

(* the specification, on the observed behaviour only: the compressor succeeds, reports what it emitted,
   and decompressing the emitted bytes gives back exactly the input *)
Definition holds (k : case) : bool :=
  match k with
  | Case _ _ _ _ dlen _ _ hasdst _ _ _ cclass n emitted _ dclass dn deq =>
    (cclass =? 0)%N && (n =? Z.of_N emitted)%Z
    && (if hasdst then (dclass =? 0)%N && (dn =? Z.of_N dlen)%Z && deq else true)
  end.
