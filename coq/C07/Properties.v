(* C07 property theorems. Nothing but statements closed by `exact`, Print Assumptions, non-vacuity examples. *)
From Coq Require Import List ZArith NArith Bool Arith.
From GoProbe.Base Require Import CorrLib.
From GoProbe.C07 Require Import Model Proofs.
Import ListNotations.

(* "For each supported compression method and level, decompressing what the compressor wrote restores the
   original bytes, and the byte count the compressor reports equals the number of bytes it actually emitted.
   This holds regardless of the contents and length of the input and of any scratch buffer the caller
   supplies."
   For every byte type, every library table satisfying the library hypotheses `codec_ok`, every build variant
   i, encoder t, level, data (any length, also empty), every scratch slice (any backing array, any length -
   not even required to be well formed), every modelled io.Reader kind k positioned at the emitted bytes
   (followed by arbitrary further bytes `rest`), and an output buffer sized by the caller to len(data):
   Compress succeeds, n is the number of emitted bytes, and Decompress returns len(data) and the data. *)
Theorem c07_roundtrip :
  forall (B : Type) (zero : B) (lib : enct -> impl -> codec B),
    (forall t i, codec_ok (lib t i)) ->
    forall (i : impl) (t : enct) (lvl : Z) (data : list B) (scratch : slice B)
           (k : rkind) (rest : list B) (out : slice B),
      sl_len out = length data -> length data <= sl_cap out ->
      exists emitted n,
        compress_w zero lib i t lvl data scratch true = Ok (emitted, n)
        /\ n = Z.of_nat (length emitted)
        /\ decompress_w lib i t (length emitted) out (Build_reader k (emitted ++ rest))
           = Ok (Z.of_nat (length data), data).
Proof. exact (fun B zero lib H i t lvl data scratch k rest out => roundtrip zero lib i t lvl data scratch k rest out H). Qed.
Print Assumptions c07_roundtrip.

(* the reported count is the number of emitted bytes whenever Compress returns without error - with NO
   hypothesis on the libraries, for dst == nil too *)
Theorem c07_count :
  forall (B : Type) (zero : B) (lib : enct -> impl -> codec B) i t lvl data buf has_dst emitted n,
    compress_w zero lib i t lvl data buf has_dst = Ok (emitted, n) -> n = Z.of_nat (length emitted).
Proof. exact (fun B zero lib => count zero lib). Qed.
Print Assumptions c07_count.

(* the emitted bytes do not depend on the scratch buffer *)
Theorem c07_scratch_irrelevant :
  forall (B : Type) (zero : B) (lib : enct -> impl -> codec B),
    (forall t i, codec_ok (lib t i)) ->
    forall i t lvl data s1 s2,
      compress_w zero lib i t lvl data s1 true = compress_w zero lib i t lvl data s2 true.
Proof. exact (fun B zero lib H i t lvl data s1 s2 => scratch_irrelevant zero lib i t lvl data s1 s2 H). Qed.
Print Assumptions c07_scratch_irrelevant.

(* ------------------------------------------------------------------ non-vacuity *)
(* a concrete codec meeting `codec_ok`: one header byte 255 followed by the data *)
Definition toy : codec N :=
  {| c_enc := fun _ d => 255%N :: d;
     c_dec := fun x capacity =>
       match x with
       | h :: d => if (h =? 255)%N
                   then match capacity with
                        | Some c => if length d <=? c then Some d else None
                        | None => Some d
                        end
                   else None
       | [] => None
       end;
     c_bound := fun n => S n |}.

Example c07_toy_ok : forall (t : enct) (i : impl), codec_ok ((fun (_ : enct) (_ : impl) => toy) t i).
Proof.
  intros t i. cbv beta. constructor.
  - intros lvl d capacity Hf. cbn. destruct capacity as [c|]; [|reflexivity].
    cbn in Hf. apply Nat.leb_le in Hf. now rewrite Hf.
  - intros. cbn. apply le_n.
  - intros. cbn. discriminate.
Qed.

(* the hypotheses of c07_roundtrip are met by a non-trivial instance, and the conclusion computes: native
   zstd, a NON-EMPTY scratch buffer of length 3 / capacity 5, an "eager" reader, trailing bytes *)
Example c07_roundtrip_example :
  let lib := fun (_ : enct) (_ : impl) => toy in
  let data := [1; 2; 3; 4]%N in
  let scratch := Build_slice [9; 9; 9; 9; 9]%N 3 in
  let out := Build_slice [0; 0; 0; 0; 0; 0]%N 4 in
  compress_w 0%N lib Native EZstd 6 data scratch true = Ok ([255; 1; 2; 3; 4]%N, 5%Z)
  /\ decompress_w lib Native EZstd 5 out (Build_reader REager ([255; 1; 2; 3; 4] ++ [7; 7])%N)
     = Ok (4%Z, data)
  /\ compress_w 0%N lib Cgo ELz4 6 [] scratch true = Ok ([255]%N, 1%Z)
  /\ decompress_w lib Native ENull 0 (Build_slice [] 0) (Build_reader RBytes []) = Ok (0%Z, []).
Proof. repeat split; reflexivity. Qed.
