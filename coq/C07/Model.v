(* C07 model: the Compress / Decompress wrappers of goDB's encoders (null, lz4, zstd, each in the cgo and
   the native build variant) over ABSTRACT library codecs.  Executable definitions only.

   Anchors (state after the two `fix:` commits of branch verif-C07):
     pkg/goDB/encoder/null/null.go
     pkg/goDB/encoder/lz4/lz4_cgo.go      //go:build cgo && !goprobe_noliblz4
     pkg/goDB/encoder/lz4/lz4_native.go   //go:build !cgo || goprobe_noliblz4
     pkg/goDB/encoder/zstd/zstd_cgo.go    //go:build cgo && !goprobe_nolibzstd
     pkg/goDB/encoder/zstd/zstd_native.go //go:build !cgo || goprobe_nolibzstd

   What is NOT goProbe's (liblz4, libzstd, pierrec/lz4, klauspost/compress) is a record `codec` of
   functions; everything the theorems need about them is an explicit hypothesis (`codec_ok`). *)
From Coq Require Import List ZArith Bool Arith.
From GoProbe.Base Require Import CorrLib.
Import ListNotations.

Inductive enct := ENull | ELz4 | EZstd.
Inductive impl := Cgo | Native.

(* the four build configurations and the variant each one selects (the //go:build lines above) *)
Inductive cfg := CfgCgo | CfgNoCgo | CfgNoLibLz4 | CfgNoLibZstd.
Definition cfg_cgo_enabled (c : cfg) : bool := match c with CfgNoCgo => false | _ => true end.
Definition impl_of (c : cfg) (t : enct) : impl :=
  match t with
  | ENull => Native                                    (* one implementation, pure Go *)
  | ELz4 => if cfg_cgo_enabled c && negb (match c with CfgNoLibLz4 => true | _ => false end)
            then Cgo else Native
  | EZstd => if cfg_cgo_enabled c && negb (match c with CfgNoLibZstd => true | _ => false end)
             then Cgo else Native
  end.

(* ------------------------------------------------------------------ Go slices *)
(* A slice is its backing array from the slice's first element on (cap = length of that list) and its
   length.  `nil` and `[]byte{}` are {| sl_arr := []; sl_len := 0 |}. *)
Record slice (B : Type) := { sl_arr : list B; sl_len : nat }.
Arguments sl_arr {B} _.
Arguments sl_len {B} _.
Arguments Build_slice {B} _ _.

(* a library codec *)
Record codec (B : Type) := {
  c_enc : Z -> list B -> list B;                     (* level -> data -> compressed frame *)
  c_dec : list B -> option nat -> option (list B);   (* frame -> capacity of the output buffer (None: the
                                                        library grows it itself) -> data, None = error *)
  c_bound : nat -> nat                               (* worst-case frame size for an input length *)
}.
Arguments c_enc {B} _ _ _.
Arguments c_dec {B} _ _ _.
Arguments c_bound {B} _ _.

(* ------------------------------------------------------------------ io.Reader sources *)
(* RBytes: bytes.Reader  (EOF whenever exhausted, also for a zero-length read)
   RFile : *os.File on a regular file (zero-length read: 0, nil; EOF only when asked for > 0 bytes)
   REager: delivers the final bytes together with io.EOF (allowed by io.Reader)
   RHalf : delivers at most ceil(len(p)/2) bytes per call (short reads, allowed by io.Reader)
   ROne  : delivers at most one byte per call *)
Inductive rkind := RBytes | RFile | REager | RHalf | ROne.
Record reader (B : Type) := { r_kind : rkind; r_rest : list B }.
Arguments r_kind {B} _.
Arguments r_rest {B} _.
Arguments Build_reader {B} _ _.

Definition chunk (k : rkind) (want : nat) : nat :=
  match k with
  | RHalf => Nat.div2 (S want)
  | ROne => Nat.min want 1
  | _ => want
  end.

Definition is_nil {A} (l : list A) : bool := match l with [] => true | _ => false end.

Section Wrappers.
  Context {B : Type}.
  Variable zero : B.                       (* the byte `make` fills new memory with *)
  Variable lib : enct -> impl -> codec B.

  Definition sl_cap (s : slice B) : nat := length (sl_arr s).
  Definition sl_vis (s : slice B) : list B := firstn (sl_len s) (sl_arr s).

  (* buf[:k] *)
  Definition reslice (s : slice B) (k : nat) : res (slice B) :=
    if k <=? sl_cap s then Ok (Build_slice (sl_arr s) k) else Panic.

  (* make([]byte, 0, c) *)
  Definition make0 (c : nat) : slice B := Build_slice (repeat zero c) 0.

  (* one call of src.Read(p) with len(p) = want: (bytes delivered, err == io.EOF, reader afterwards) *)
  Definition rd_read (r : reader B) (want : nat) : list B * bool * reader B :=
    let m := Nat.min (chunk (r_kind r) want) (length (r_rest r)) in
    let bs := firstn m (r_rest r) in
    let rest' := skipn m (r_rest r) in
    let eof := match r_kind r with
               | RFile => (0 <? want) && is_nil (r_rest r)
               | REager => is_nil rest'
               | _ => is_nil (r_rest r)
               end in
    (bs, eof, Build_reader (r_kind r) rest').

  (* io.ReadFull(src, p) = io.ReadAtLeast(src, p, len(p)):
       for n < min && err == nil { nn, err = r.Read(buf[n:]); n += nn }
       if n >= min { err = nil } ...
     None = an error is returned (io.EOF / io.ErrUnexpectedEOF).  `fuel` bounds the loop; a reader that
     keeps returning (0, nil) would spin forever in Go, none of the modelled kinds does. *)
  Fixpoint read_full (fuel : nat) (r : reader B) (want : nat) (acc : list B) : option (list B * reader B) :=
    match want with
    | 0 => Some (acc, r)
    | S _ =>
      match fuel with
      | 0 => None
      | S fuel' =>
        let '(bs, eof, r') := rd_read r want in
        if want <=? length bs then Some (acc ++ bs, r')
        else if eof then None
        else read_full fuel' r' (want - length bs) (acc ++ bs)
      end
    end.

  (* A C library call `f(src, dst, dstCapacity)` writing a frame into buf[0:]: returns the frame length and
     the buffer afterwards, or `fail` when the frame does not fit (LZ4_compress_HC: 0;
     ZSTD_compress2: a negative size_t error code). *)
  Definition c_call (frame : list B) (buf : slice B) (dcap : nat) (fail : Z) : Z * slice B :=
    if length frame <=? dcap
    then (Z.of_nat (length frame), Build_slice (frame ++ skipn (length frame) (sl_arr buf)) (sl_len buf))
    else (fail, buf).

  (* the common tail of the three bound-based Compress functions:
       if len(buf) < compLen { return n, ErrBufferSizeMismatch }
       if dst != nil { if n, err = dst.Write(buf[:compLen]); err != nil {...} }
       return n, nil
     dst is an ideal writer (accepts everything, returns len); has_dst = false models dst == nil. *)
  Definition finish (buf : slice B) (compLen : Z) (has_dst : bool) : res (list B * Z) :=
    if (Z.of_nat (sl_len buf) <? compLen)%Z then Err
    else if has_dst then Ok (firstn (Z.to_nat compLen) (sl_vis buf), compLen)
    else Ok ([], 0%Z).

  (* dstCapacity := bound(len(data)); if cap(buf) < dstCapacity { buf = make([]byte, 0, 2*dstCapacity) };
     buf = buf[:dstCapacity] *)
  Definition size_buf (c : codec B) (data : list B) (buf : slice B) : nat * res (slice B) :=
    let dcap := c_bound c (length data) in
    let buf1 := if sl_cap buf <? dcap then make0 (2 * dcap) else buf in
    (dcap, reslice buf1 dcap).

  (* lz4_cgo.go Compress *)
  Definition lz4_cgo_compress (lvl : Z) (data : list B) (buf : slice B) (has_dst : bool) : res (list B * Z) :=
    let c := lib ELz4 Cgo in
    let '(dcap, rb) := size_buf c data buf in
    res_bind rb (fun buf2 =>
      if sl_len buf2 =? 0 then Panic                                   (* &buf[0] *)
      else
        let '(compLen, buf3) := c_call (c_enc c lvl data) buf2 dcap 0%Z in
        if (compLen <=? 0)%Z then Err
        else finish buf3 compLen has_dst).

  (* zstd_cgo.go Compress (context creation is library state, not modelled) *)
  Definition zstd_cgo_compress (lvl : Z) (data : list B) (buf : slice B) (has_dst : bool) : res (list B * Z) :=
    let c := lib EZstd Cgo in
    let '(dcap, rb) := size_buf c data buf in
    res_bind rb (fun buf2 =>
      if sl_len buf2 =? 0 then Panic                                   (* &buf[0] *)
      else
        let '(compLen, buf3) := c_call (c_enc c lvl data) buf2 dcap (-70)%Z in
        if (compLen <? 0)%Z then Err
        else finish buf3 compLen has_dst).

  (* lz4_native.go Compress: lz4.CompressBlockHC(data, buf, ...) writes into buf[0:len(buf)]; when the frame
     does not fit it reports an error (or 0, nil) - unreachable here because len(buf) = CompressBlockBound *)
  Definition lz4_native_compress (lvl : Z) (data : list B) (buf : slice B) (has_dst : bool) : res (list B * Z) :=
    let c := lib ELz4 Native in
    let '(dcap, rb) := size_buf c data buf in
    res_bind rb (fun buf2 =>
      let frame := c_enc c lvl data in
      if length frame <=? sl_len buf2 then
        finish (Build_slice (frame ++ skipn (length frame) (sl_arr buf2)) (sl_len buf2))
               (Z.of_nat (length frame)) has_dst
      else Err).

  (* zstd_native.go Compress:  encData := e.encoder.EncodeAll(data, buf[:0]);  EncodeAll APPENDS to its
     second argument *)
  Definition zstd_native_compress (lvl : Z) (data : list B) (buf : slice B) (has_dst : bool) : res (list B * Z) :=
    let c := lib EZstd Native in
    res_bind (reslice buf 0) (fun buf0 =>
      let encData := sl_vis buf0 ++ c_enc c lvl data in
      if has_dst then Ok (encData, Z.of_nat (length encData)) else Ok ([], 0%Z)).

  (* null.go Compress:  return dst.Write(data)   (dst == nil: nil interface call) *)
  Definition null_compress (data : list B) (has_dst : bool) : res (list B * Z) :=
    if has_dst then Ok (data, Z.of_nat (length data)) else Panic.

  (* Compress(data, buf, dst): (bytes written to dst, n) *)
  Definition compress_w (i : impl) (t : enct) (lvl : Z) (data : list B) (buf : slice B) (has_dst : bool)
    : res (list B * Z) :=
    match t, i with
    | ENull, _ => null_compress data has_dst
    | ELz4, Cgo => lz4_cgo_compress lvl data buf has_dst
    | ELz4, Native => lz4_native_compress lvl data buf has_dst
    | EZstd, Cgo => zstd_cgo_compress lvl data buf has_dst
    | EZstd, Native => zstd_native_compress lvl data buf has_dst
    end.

  (* ---------------------------------------------------------------- Decompress *)
  (* result: (n, visible contents of `out` afterwards) *)

  (* the library wrote d to out[0:] *)
  Definition out_after (out : slice B) (d : list B) : list B :=
    firstn (sl_len out) (d ++ skipn (length d) (sl_arr out)).

  (* nBytesConsumed, err := io.ReadFull(src, in); if err != nil {return 0, err};
     if nBytesConsumed != len(in) { return 0, ErrIncorrectNumBytesRead } *)
  Definition read_in (src : reader B) (li : nat) : res (list B) :=
    match read_full (S li) src li [] with
    | None => Err
    | Some (bs, _) => if length bs =? li then Ok bs else Err
    end.

  (* lz4_cgo.go / zstd_cgo.go Decompress: &in[0] panics on an empty `in`; the C function gets len(out) as
     the capacity of the output *)
  Definition cgo_decompress (c : codec B) (li : nat) (out : slice B) (src : reader B) : res (Z * list B) :=
    res_bind (read_in src li) (fun inb =>
      if li =? 0 then Panic
      else match c_dec c inb (Some (sl_len out)) with
           | None => Err
           | Some d => Ok (Z.of_nat (length d), out_after out d)
           end).

  (* lz4_native.go Decompress: lz4.UncompressBlock(in, out) *)
  Definition lz4_native_decompress (li : nat) (out : slice B) (src : reader B) : res (Z * list B) :=
    res_bind (read_in src li) (fun inb =>
      match c_dec (lib ELz4 Native) inb (Some (sl_len out)) with
      | None => Err
      | Some d => Ok (Z.of_nat (length d), out_after out d)
      end).

  (* zstd_native.go Decompress: out = out[:0]; decData, err := DecodeAll(in, out): appends, reallocating when
     cap(out) is exceeded (then the caller's array is not written) *)
  Definition zstd_native_decompress (li : nat) (out : slice B) (src : reader B) : res (Z * list B) :=
    res_bind (read_in src li) (fun inb =>
      match c_dec (lib EZstd Native) inb None with
      | None => Err
      | Some d => Ok (Z.of_nat (length d),
                      if length d <=? sl_cap out then out_after out d else sl_vis out)
      end).

  (* null.go Decompress: n, err = io.ReadFull(src, out); n != len(out) -> error *)
  Definition null_decompress (out : slice B) (src : reader B) : res (Z * list B) :=
    res_bind (read_in src (sl_len out)) (fun bs => Ok (Z.of_nat (length bs), bs)).

  (* Decompress(in, out, src) with len(in) = li *)
  Definition decompress_w (i : impl) (t : enct) (li : nat) (out : slice B) (src : reader B)
    : res (Z * list B) :=
    match t, i with
    | ENull, _ => null_decompress out src
    | ELz4, Cgo => cgo_decompress (lib ELz4 Cgo) li out src
    | ELz4, Native => lz4_native_decompress li out src
    | EZstd, Cgo => cgo_decompress (lib EZstd Cgo) li out src
    | EZstd, Native => zstd_native_decompress li out src
    end.
End Wrappers.

(* ------------------------------------------------------------------ the library hypotheses *)
Definition fits (capacity : option nat) (n : nat) : Prop :=
  match capacity with Some c => n <= c | None => True end.

Record codec_ok {B : Type} (c : codec B) : Prop := {
  ok_dec_enc : forall lvl d capacity, fits capacity (length d) -> c_dec c (c_enc c lvl d) capacity = Some d;
  ok_bound : forall lvl d, length (c_enc c lvl d) <= c_bound c (length d);
  ok_nonempty : forall lvl d, c_enc c lvl d <> []      (* every frame has a header / token byte *)
}.
