(* C04 proofs, part 4: runs of safe operations, the column phase, the commit tail of one write-out. *)
From Coq Require Import List ZArith NArith Bool Arith Lia.
From GoProbe.Base Require Import CorrLib.
From GoProbe.C04 Require Import Model Proofs ProofsCols Proofs2 Proofs3.
Import ListNotations.

Lemma apply_all_app s l1 l2 : apply_all s (l1 ++ l2) = apply_all (apply_all s l1) l2.
Proof. unfold apply_all. now rewrite fold_left_app. Qed.

Lemma run_safe st p0 m l : Forall (op_safe p0 m) l -> forall s a, InvS st s a -> mstate s p0 m ->
  InvS st (apply_all s l) a /\ mstate (apply_all s l) p0 m /\
  (forall q d, day_at s q = Some d -> exists d', day_at (apply_all s l) q = Some d' /\
     d_meta d' = d_meta d /\ d_suf d' = d_suf d /\
     forall c, Forall (fun o => ~ writes_col o c) l -> d_cols d c <> None -> d_cols d' c = d_cols d c).
Proof.
  induction 1 as [|o l SF F IH]; intros s a I MS; cbn.
  - split; [|split]; auto. intros q d Hq. exists d. split; [|split; [|split]]; auto.
  - destruct (step_safe st s a p0 m o SF I MS) as (I1 & D1 & M1).
    destruct (IH _ _ I1 M1) as (I2 & M2 & D2). split; [|split]; auto.
    intros q d Hq. destruct (D1 _ _ Hq) as (d1 & H1 & K1 & K2 & K3). destruct (D2 _ _ H1) as (d2 & H2 & E1 & E2 & E3).
    exists d2. split; [exact H2|]. split; [congruence|]. split; [congruence|].
    intros c FW NN. inversion FW; subst. rewrite E3; auto. rewrite K3; auto.
Qed.
Lemma Forall_flat_map_in {A B} (P : B -> Prop) (f : A -> list B) l :
  (forall x, In x l -> Forall P (f x)) -> Forall P (flat_map f l).
Proof. induction l; cbn; intros H; auto. apply Forall_app; split; [apply H; now left|apply IHl; intros; apply H; now right]. Qed.
Lemma Forall_firstn {A} (P : A -> Prop) k l : Forall P l -> Forall P (firstn k l).
Proof. intros F. revert k. induction F; intros [|k]; cbn; auto. Qed.
Lemma safe_prefix st p0 m l k s a : Forall (op_safe p0 m) l -> InvS st s a -> mstate s p0 m ->
  InvS st (apply_all s (firstn k l)) a.
Proof. intros F I MS. apply (run_safe st p0 m); auto. now apply Forall_firstn. Qed.

Lemma mstate_upd s p d m f : day_at s p = Some d -> d_meta d = Some (Some m) -> d_meta (f d) = d_meta d ->
  mstate (upd_day s p f) p m.
Proof.
  intros D M E d' D'. apply day_at_some in D as [L _]. unfold day_at in D'; cbn [f_days upd_day] in D'.
  rewrite lookup_upd_same, L in D'. cbn in D'. destruct (otot_eqb _ _); [|discriminate]. injection D' as <-. left. congruence.
Qed.
Lemma mstate_at s p d m : day_at s p = Some d -> d_meta d = Some (Some m) -> mstate s p m.
Proof. intros D M d' D'. left. congruence. Qed.

Lemma tot_eqb_eq x y : tot_eqb x y = true -> x = y.
Proof.
  destruct x, y; unfold tot_eqb; cbn. rewrite !andb_true_iff, !N.eqb_eq. intuition congruence.
Qed.
Lemma otot_eqb_eq x y : otot_eqb x y = true -> x = y.
Proof. destruct x, y; cbn; intros H; try discriminate; auto. f_equal. now apply tot_eqb_eq. Qed.

(* ------------------------------------------------------------------ the column phase *)
(* the new block of write-out w is in place in column c of directory p0 *)
Definition nb (s : fs) (p0 : dpath) (m : meta) (w : writeout) (c : nat) : Prop :=
  exists d, day_at s p0 = Some d /\ read_col d c (nth c (m_cur m) 0) (w_len w c) = Some (blk w c).

Lemma read_col_kept d d' c o l x : (d_cols d c <> None -> d_cols d' c = d_cols d c) ->
  read_col d c o l = Some x -> read_col d' c o l = Some x.
Proof.
  unfold read_col. intros K. destruct (Nat.eqb l 0); auto.
  destruct (d_cols d c) eqn:E; [|discriminate]. rewrite K by congruence. auto.
Qed.

Lemma nb_kept st p0 m w c l s a : Forall (op_safe p0 m) l -> Forall (fun o => ~ writes_col o c) l ->
  InvS st s a -> mstate s p0 m -> nb s p0 m w c -> nb (apply_all s l) p0 m w c.
Proof.
  intros F NW I MS (d & D & R). destruct (run_safe st p0 m l F s a I MS) as (_ & _ & K).
  destruct (K _ _ D) as (d' & D' & _ & _ & KC). exists d'. split; auto.
  apply (read_col_kept d d'); auto.
Qed.

Lemma col_ops_safe p0 m w c : c < ncols -> Forall (op_safe p0 m) (col_ops p0 m w c).
Proof.
  intros Hc. unfold col_ops. destruct (Nat.eqb _ _); [constructor|].
  destruct (nth c (w_renc w) false); cbn [app]; repeat (apply Forall_cons; [cbn; auto|]); apply Forall_nil.
Qed.
Lemma col_ops_other p0 m w c c' : c' <> c -> Forall (fun o => ~ writes_col o c) (col_ops p0 m w c').
Proof.
  intros NE. unfold col_ops. destruct (Nat.eqb _ _); [constructor|].
  destruct (nth c' (w_renc w) false); cbn [app]; repeat (apply Forall_cons; [cbn; auto|]); apply Forall_nil.
Qed.

Lemma col_ops_nb s p0 m w c d : day_at s p0 = Some d -> nb (apply_all s (col_ops p0 m w c)) p0 m w c.
Proof.
  intros D. unfold col_ops. destruct (Nat.eqb (w_len w c) 0) eqn:Z.
  - apply Nat.eqb_eq in Z. exists d. split; auto. unfold blk. rewrite Z. reflexivity.
  - set (off := nth c (m_cur m) 0).
    (* after OpenFile the column file exists *)
    assert (O : exists s1 d1 old, fst (apply s (OOpenW (RCol p0 c))) = s1 /\ day_at s1 p0 = Some d1 /\ d_cols d1 c = Some old).
    { cbn [apply]. rewrite D. destruct (d_cols d c) as [old|] eqn:DC; cbn [fst].
      - exists s, d, old. auto.
      - eexists _, _, _. split; [reflexivity|]. split; [apply day_at_upd; eauto|]. cbn. now rewrite Nat.eqb_refl. }
    destruct O as (s1 & d1 & old & E1 & D1 & C1).
    assert (W : nb (fst (apply s1 (OWrite (RCol p0 c) off (WBytes (blk w c))))) p0 m w c).
    { cbn [apply]. rewrite D1, C1. cbn [fst]. eexists. split; [apply day_at_upd; eauto|].
      unfold read_col. rewrite Z. cbn [set_col d_cols]. rewrite Nat.eqb_refl.
      assert (RW : firstn (w_len w c) (skipn off (write_at old off (blk w c))) = blk w c)
        by (rewrite <- (blk_len w c) at 1; apply read_at_written).
      fold off. rewrite RW, blk_len, Nat.eqb_refl. reflexivity. }
    destruct (nth c (w_renc w) false); unfold apply_all; cbn [app fold_left]; rewrite E1; exact W.
Qed.

Lemma cols_phase st p0 m w cs : NoDup cs -> (forall c, In c cs -> c < ncols) ->
  forall s a, InvS st s a -> mstate s p0 m -> (exists d, day_at s p0 = Some d) ->
  forall c, In c cs -> nb (apply_all s (flat_map (col_ops p0 m w) cs)) p0 m w c.
Proof.
  induction 1 as [|c0 cs NI ND IH]; intros LT s a I MS [d D] c Hc; [contradiction|].
  cbn [flat_map]. rewrite apply_all_app.
  assert (SF0 : Forall (op_safe p0 m) (col_ops p0 m w c0)) by (apply col_ops_safe, LT; now left).
  destruct (run_safe st p0 m _ SF0 s a I MS) as (I1 & M1 & K1).
  destruct (K1 _ _ D) as (d1 & D1 & _).
  destruct Hc as [->|Hc].
  - apply (nb_kept st p0 m w c _ _ a); auto.
    + apply Forall_flat_map_in. intros c' Hc'. apply col_ops_safe, LT. now right.
    + apply Forall_flat_map_in. intros c' Hc'. apply col_ops_other. intros ->. contradiction.
    + eapply col_ops_nb; eauto.
  - apply (IH (fun c H => LT c (or_intror H)) _ a); eauto.
Qed.

Lemma run_inv st p0 m l s a : Forall (op_safe p0 m) l -> InvS st s a -> mstate s p0 m -> InvS st (apply_all s l) a.
Proof. intros F I MS. now apply (run_safe st p0 m). Qed.

(* ------------------------------------------------------------------ the commit tail *)
(* the outcome for a prefix state: nothing of w visible yet / w completely visible / the stale-listing point *)
Definition outcome (ops : list fsop) (k : nat) (sk : fs) (a : adb) (w : writeout) : Prop :=
  Inv sk a \/ Inv sk (adb_put a w) \/ (stale_point ops k = true /\ InvS (Some (w_key w)) sk (adb_put a w)).

Lemma nth_error_app_r {A} (l1 l2 : list A) k : nth_error (l1 ++ l2) (length l1 + k) = nth_error l2 k.
Proof. rewrite nth_error_app2 by lia. f_equal. lia. Qed.

(* the operations from CreateTemp on, started in a state where the day directory p exists and holds the new
   block of every column at the committed end *)
Lemma commit_tail P s1 a p d1 w :
  Inv s1 a -> day_at s1 p = Some d1 -> dp_key p = w_key w -> put_ok a w = true ->
  mstate s1 p (cur_meta a (w_key w)) -> wf_w w ->
  (forall c, c < ncols -> read_col d1 c (nth c (m_cur (cur_meta a (w_key w))) 0) (w_len w c) = Some (blk w c)) ->
  let C := commit_ops p (cur_meta a (w_key w)) w in
  (forall k, outcome (P ++ C) (length P + k) (apply_all s1 (firstn k C)) a w) /\
  Inv (apply_all s1 C) (adb_put a w).
Proof.
  intros I D K PO MS WFw NB C.
  set (m0 := cur_meta a (w_key w)) in *.
  set (m' := meta_add m0 w) in *.
  set (t := RTmp p (w_id w)) in *.
  assert (SAFE : forall m l, Forall (fun o => match o with OOpenX _ | OWrite (RTmp _ _) _ _ | OClose _ | OChmod _ | OUnlink _ | ORmdir _ => True | _ => False end) l ->
                 Forall (op_safe p m) l).
  { intros m l F. eapply Forall_impl; [|exact F]. intros o. destruct o as [| | |f|f ? ?|f ? ?|f|f|? ?|? ?|f|f]; try contradiction; cbn; auto.
    destruct f; try contradiction; cbn; auto. }
  (* the state after CreateTemp and Write *)
  set (s2 := apply_all s1 [OOpenX t; OWrite t 0 (WMeta m')]).
  assert (I2 : Inv s2 a) by (apply (run_inv None p m0); auto; apply SAFE; repeat constructor).
  assert (D2 : exists d2, day_at s2 p = Some d2 /\ tmp_get (w_id w) (d_tmps d2) = Some (Some m') /\ d_suf d2 = d_suf d1
                          /\ forall c, d_cols d2 c = d_cols d1 c).
  { unfold s2, apply_all; cbn [fold_left apply t]. rewrite D. cbn [fst].
    erewrite day_at_upd by (eauto). cbn [fst].
    eexists. split; [apply day_at_upd; [apply day_at_upd; eauto|reflexivity]|].
    split; [cbn; now rewrite Nat.eqb_refl|split; reflexivity]. }
  destruct D2 as (d2 & D2 & T2 & S2 & C2).
  destruct (day_at_some _ _ _ D) as [_ O1].
  assert (NB2 : forall c, c < ncols -> read_col d2 c (nth c (m_cur m0) 0) (w_len w c) = Some (blk w c)).
  { intros c Hc. rewrite (read_col_ext d1 d2) by auto. now apply NB. }
  pose proof (step_commit s2 a p (w_id w) d2 w I2 D2 K PO T2 WFw NB2) as (IS & IC & (d3 & D3 & M3)).
  fold t in IS, IC, D3. set (s3 := fst (apply s2 (ORename t (RMeta p)))) in *.
  assert (MS3 : mstate s3 p m') by (eapply mstate_at; eauto).
  assert (E5 : forall l, apply_all s1 ([OOpenX t; OWrite t 0 (WMeta m'); OClose t; OChmod t; ORename t (RMeta p)] ++ l) = apply_all s3 l).
  { intros l. reflexivity. }
  set (rd := ORenameDir p {| dp_key := dp_key p; dp_suf := Some (m_tot m') |}).
  set (RD := if otot_eqb (dp_suf p) (Some (m_tot m')) then [] else [rd]).
  assert (EC : C = [OOpenX t; OWrite t 0 (WMeta m'); OClose t; OChmod t; ORename t (RMeta p)] ++ RD ++ [OUnlink t; ORmdir t]) by reflexivity.
  assert (TL : Forall (op_safe p m') [OUnlink t; ORmdir t]) by (apply SAFE; repeat constructor).
  (* the state after the directory rename *)
  assert (I4 : Inv (fst (apply s3 rd)) (adb_put a w) /\ mstate (fst (apply s3 rd)) p m').
  { split.
    - apply (step_rendir (Some (w_key w)) s3 _ p d3 m'); [exact IS | right; now rewrite K | exact D3 | exact M3].
    - unfold rd. cbn [apply]. rewrite D3. cbn [fst]. eapply mstate_upd; eauto. }
  destruct I4 as [I4 MS4].
  split.
  - intros k. rewrite EC.
    destruct k as [|[|[|[|[|k]]]]].
    1-5: left; cbn [firstn app]; apply (run_inv None p m0); auto; apply SAFE; repeat constructor.
    change (firstn (S (S (S (S (S k))))) ([OOpenX t; OWrite t 0 (WMeta m'); OClose t; OChmod t; ORename t (RMeta p)] ++ RD ++ [OUnlink t; ORmdir t]))
      with ([OOpenX t; OWrite t 0 (WMeta m'); OClose t; OChmod t; ORename t (RMeta p)] ++ firstn k (RD ++ [OUnlink t; ORmdir t])).
    rewrite E5.
    unfold RD in *. destruct (otot_eqb (dp_suf p) (Some (m_tot m'))) eqn:EQ.
    + right. left. cbn [app]. apply (safe_prefix None p m'); auto.
      apply IC. right. apply otot_eqb_eq in EQ. apply otot_eqb_eq in O1. rewrite S2, O1, EQ. reflexivity.
    + destruct k as [|k]; cbn [app firstn].
      * (* killed between the two renames *)
        destruct (dp_suf p) as [ts|] eqn:SP.
        -- right. right. split; [|exact IS].
           unfold stale_point. rewrite nth_error_app_r. cbn. now rewrite SP.
        -- right. left. apply IC. left. apply otot_eqb_eq in O1. rewrite S2. exact O1.
      * right. left. unfold apply_all; cbn [fold_left]. fold (apply_all (fst (apply s3 rd)) (firstn k [OUnlink t; ORmdir t])).
        apply (safe_prefix None p m'); auto.
  - rewrite EC, E5, apply_all_app. unfold RD. destruct (otot_eqb (dp_suf p) (Some (m_tot m'))) eqn:EQ.
    + unfold apply_all at 2; cbn [fold_left]. apply (run_inv None p m'); auto.
      apply IC. right. apply otot_eqb_eq in EQ. apply otot_eqb_eq in O1. rewrite S2, O1, EQ. reflexivity.
    + unfold apply_all at 2; cbn [fold_left]. apply (run_inv None p m'); auto.
Qed.
